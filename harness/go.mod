module github.com/jdillenkofer/pithos/verifharness

go 1.27.0

require (
	github.com/anishathalye/porcupine v1.3.0
	github.com/jdillenkofer/pithos v0.0.0
	pgregory.net/rapid v1.3.0
)

require (
	github.com/cespare/xxhash/v2 v2.3.0 // indirect
	github.com/go-logr/logr v1.4.4 // indirect
	github.com/go-logr/stdr v1.2.2 // indirect
	go.opentelemetry.io/auto/sdk v1.2.1 // indirect
	go.opentelemetry.io/otel v1.45.0 // indirect
	go.opentelemetry.io/otel/metric v1.45.0 // indirect
	go.opentelemetry.io/otel/trace v1.45.0 // indirect
)

replace github.com/jdillenkofer/pithos => /repo
