// Package httpside executes prog.Concrete operations through pithos' HTTP
// layer (server.SetupServer, in-process via httptest) with raw requests, so that
// header parsing, XML bodies and response headers are part of what a
// model-based check observes. It implements prog.Side.
package httpside

import (
	"bytes"
	"crypto/sha256"
	"encoding/hex"
	"encoding/xml"
	"fmt"
	"net/http"
	"net/http/httptest"
	"net/url"
	"sort"
	"strconv"
	"strings"

	"github.com/jdillenkofer/pithos/internal/storage"
	"github.com/jdillenkofer/pithos/verifharness/prog"
	"github.com/jdillenkofer/pithos/verifharness/s3http"
)

// Side drives a storage through the HTTP API.
type Side struct {
	H http.Handler
	// MixCase: send user-metadata header names in mixed case and system headers in odd case
	MixCase bool
	// Requests counts requests sent.
	Requests int
}

func New(st storage.Storage) *Side { return &Side{H: s3http.NewHandler(st)} }

type errorResponse struct {
	Code    string `xml:"Code"`
	Message string `xml:"Message"`
}

func kindOfCode(status int, code string, hdr http.Header) string {
	switch code {
	case "NoSuchKey":
		return prog.ENoSuchKey
	case "NoSuchBucket":
		return prog.ENoSuchBucket
	case "PreconditionFailed":
		return prog.EPrecondition
	case "BadDigest":
		return prog.EBadDigest
	case "InvalidPart":
		return prog.EInvalidPart
	case "InvalidPartOrder":
		return prog.EInvalidPartOrder
	case "InvalidRange":
		return prog.EInvalidRange
	case "InvalidWriteOffset":
		return prog.EInvalidWriteOffset
	case "BucketNotEmpty":
		return prog.EBucketNotEmpty
	case "BucketAlreadyExists", "BucketAlreadyOwnedByYou":
		return prog.EBucketExists
	case "TooManyParts":
		return prog.ETooManyParts
	case "InvalidStorageClass":
		return prog.EInvalidClass
	}
	if hdr.Get("x-amz-delete-marker") == "true" {
		if status == http.StatusMethodNotAllowed {
			return prog.EVersionDM
		}
		if status == http.StatusNotFound {
			return prog.ECurrentDM
		}
	}
	switch status {
	case 412:
		return prog.EPrecondition
	case 416:
		return prog.EInvalidRange
	case 304:
		return prog.ENotModified
	}
	return prog.EOther
}

func failOf(rec *httptest.ResponseRecorder) prog.Result {
	var er errorResponse
	_ = xml.Unmarshal(rec.Body.Bytes(), &er)
	return prog.Result{Err: kindOfCode(rec.Code, er.Code, rec.Header()), ErrText: fmt.Sprintf("HTTP %d %s %s", rec.Code, er.Code, er.Message), Size: -1}
}

func (s *Side) do(method, bucket, key string, q url.Values, hdr http.Header, body []byte) *httptest.ResponseRecorder {
	s.Requests++
	p := "/" + bucket
	if key != "" {
		p += "/" + s3http.EscapeKey(key)
	}
	return s3http.Do(s.H, method, p, q, hdr, body)
}

func mix(name string, on bool) string {
	if !on {
		return name
	}
	b := []byte(name)
	for i := range b {
		if i%2 == 0 && b[i] >= 'a' && b[i] <= 'z' {
			b[i] -= 32
		}
	}
	return string(b)
}

// metaHeaders renders object metadata as request headers.
func (s *Side) metaHeaders(h http.Header, m *prog.Meta) {
	if m == nil {
		return
	}
	set := func(name string, v *string) {
		if v != nil {
			h[http.CanonicalHeaderKey(name)] = []string{*v}
		}
	}
	set("Cache-Control", m.CacheControl)
	set("Content-Disposition", m.ContentDisposition)
	set("Content-Encoding", m.ContentEncoding)
	set("Content-Language", m.ContentLanguage)
	set("Expires", m.Expires)
	set("x-amz-website-redirect-location", m.Redirect)
	var keys []string
	for k := range m.User {
		keys = append(keys, k)
	}
	sort.Strings(keys)
	for _, k := range keys {
		// net/http canonicalises header names on the wire; send a non-canonical spelling directly in the map
		name := "x-amz-meta-" + mix(k, s.MixCase)
		h[http.CanonicalHeaderKey(name)] = []string{m.User[k]}
	}
}

func taggingHeader(tags map[string]string) string {
	v := url.Values{}
	for k, val := range tags {
		v.Set(k, val)
	}
	return v.Encode()
}

func checksumsOf(h http.Header) map[string]string {
	m := map[string]string{}
	for _, a := range []string{"crc32", "crc32c", "crc64nvme", "sha1", "sha256"} {
		if v := h.Get("x-amz-checksum-" + a); v != "" {
			m[a] = v
		}
	}
	return m
}

func suppliedHeaders(h http.Header, mode string, body []byte) {
	in := prog.SuppliedChecksums(mode, body)
	if in == nil {
		return
	}
	if in.ETag != nil {
		// Content-MD5 is the base64 of the raw digest; the ETag form is quoted hex
		raw, err := hex.DecodeString(strings.Trim(*in.ETag, "\""))
		if err == nil {
			h.Set("Content-MD5", b64(raw))
		}
	}
	if in.ChecksumCRC32 != nil {
		h.Set("x-amz-checksum-crc32", *in.ChecksumCRC32)
	}
	if in.ChecksumCRC32C != nil {
		h.Set("x-amz-checksum-crc32c", *in.ChecksumCRC32C)
	}
	if in.ChecksumCRC64NVME != nil {
		h.Set("x-amz-checksum-crc64nvme", *in.ChecksumCRC64NVME)
	}
	if in.ChecksumSHA1 != nil {
		h.Set("x-amz-checksum-sha1", *in.ChecksumSHA1)
	}
	if in.ChecksumSHA256 != nil {
		h.Set("x-amz-checksum-sha256", *in.ChecksumSHA256)
	}
}

func copySource(c prog.Concrete) string {
	v := "/" + c.SrcBucket + "/" + s3http.EscapeKey(c.SrcKey)
	if c.SrcVersionID != nil {
		v += "?versionId=" + url.QueryEscape(*c.SrcVersionID)
	}
	return v
}

func srcCondHeaders(h http.Header, c prog.Concrete) {
	switch c.SrcCond {
	case "im-cur", "im-stale":
		if c.SrcCondETag != nil {
			h.Set("x-amz-copy-source-if-match", *c.SrcCondETag)
		}
	case "inm-cur", "inm-stale":
		if c.SrcCondETag != nil {
			h.Set("x-amz-copy-source-if-none-match", *c.SrcCondETag)
		}
	case "mod-past":
		h.Set("x-amz-copy-source-if-modified-since", "Mon, 01 Jan 2001 00:00:00 GMT")
	case "mod-future":
		h.Set("x-amz-copy-source-if-modified-since", "Thu, 01 Jan 2099 00:00:00 GMT")
	case "unmod-past":
		h.Set("x-amz-copy-source-if-unmodified-since", "Mon, 01 Jan 2001 00:00:00 GMT")
	case "unmod-future":
		h.Set("x-amz-copy-source-if-unmodified-since", "Thu, 01 Jan 2099 00:00:00 GMT")
	}
}

func rangeValue(r [2]int64) string {
	if r[0] < 0 {
		return fmt.Sprintf("bytes=-%d", r[1])
	}
	return fmt.Sprintf("bytes=%d-%d", r[0], r[1]-1)
}

func condHeaders(h http.Header, c prog.Concrete) {
	if c.IfNoneMatchStar {
		h.Set("If-None-Match", "*")
	}
	if c.IfMatchETag != nil {
		h.Set("If-Match", *c.IfMatchETag)
	}
}

func versionQuery(q url.Values, v *string) {
	if v != nil {
		q.Set("versionId", *v)
	}
}

// Do executes one operation over HTTP.
func (s *Side) Do(c prog.Concrete) prog.Result {
	h := http.Header{}
	q := url.Values{}
	switch c.Kind {
	case prog.OpCreateBucket:
		rec := s.do("PUT", c.Bucket, "", q, h, nil)
		if rec.Code/100 != 2 {
			return failOf(rec)
		}
		return prog.Result{Size: -1}
	case prog.OpDeleteBucket:
		rec := s.do("DELETE", c.Bucket, "", q, h, nil)
		if rec.Code/100 != 2 {
			return failOf(rec)
		}
		return prog.Result{Size: -1}
	case prog.OpSetVersioning:
		q.Set("versioning", "")
		body := []byte(`<VersioningConfiguration xmlns="http://s3.amazonaws.com/doc/2006-03-01/"><Status>` + c.Status + `</Status></VersioningConfiguration>`)
		rec := s.do("PUT", c.Bucket, "", q, h, body)
		if rec.Code/100 != 2 {
			return failOf(rec)
		}
		return prog.Result{Size: -1}
	case prog.OpPut:
		body := c.Body.Bytes()
		if c.ContentType != nil {
			h.Set("Content-Type", *c.ContentType)
		}
		s.metaHeaders(h, c.Meta)
		if c.Tags != nil {
			h.Set("x-amz-tagging", taggingHeader(c.Tags))
		}
		if c.Class != nil {
			h.Set("x-amz-storage-class", *c.Class)
		}
		condHeaders(h, c)
		suppliedHeaders(h, c.Supplied, body)
		rec := s.do("PUT", c.Bucket, c.Key, q, h, body)
		if rec.Code/100 != 2 {
			return failOf(rec)
		}
		return prog.Result{ETag: rec.Header().Get("ETag"), Size: int64(len(body)), Version: rec.Header().Get("x-amz-version-id"), Checksums: checksumsOf(rec.Header())}
	case prog.OpCopy:
		h.Set("x-amz-copy-source", copySource(c))
		if c.ReplaceMeta {
			h.Set("x-amz-metadata-directive", "REPLACE")
			if c.ContentType != nil {
				h.Set("Content-Type", *c.ContentType)
			}
		}
		s.metaHeaders(h, c.Meta)
		if !c.ReplaceMeta && c.Meta != nil {
			// with the COPY directive only the redirect location of the request applies; the
			// other headers are sent as well (clients do) and must be ignored by the server
		}
		if c.ReplaceTags {
			h.Set("x-amz-tagging-directive", "REPLACE")
			h.Set("x-amz-tagging", taggingHeader(c.Tags))
		}
		if c.Class != nil {
			h.Set("x-amz-storage-class", *c.Class)
		}
		if c.Range != nil {
			h.Set("x-amz-copy-source-range", rangeValue(*c.Range))
		}
		srcCondHeaders(h, c)
		rec := s.do("PUT", c.Bucket, c.Key, q, h, nil)
		if rec.Code/100 != 2 {
			return failOf(rec)
		}
		var out struct {
			ETag string `xml:"ETag"`
		}
		_ = xml.Unmarshal(rec.Body.Bytes(), &out)
		return prog.Result{ETag: out.ETag, Size: -1, Version: rec.Header().Get("x-amz-version-id")}
	case prog.OpAppend:
		body := c.Body.Bytes()
		q.Set("append", "")
		if c.WriteOffset != nil {
			h.Set("x-amz-write-offset-bytes", strconv.FormatInt(*c.WriteOffset, 10))
		}
		suppliedHeaders(h, c.Supplied, body)
		rec := s.do("PUT", c.Bucket, c.Key, q, h, body)
		if rec.Code/100 != 2 {
			return failOf(rec)
		}
		size := int64(-1)
		if v := rec.Header().Get("x-amz-object-size"); v != "" {
			size, _ = strconv.ParseInt(v, 10, 64)
		}
		return prog.Result{ETag: rec.Header().Get("ETag"), Size: size}
	case prog.OpMpuCreate:
		q.Set("uploads", "")
		if c.ContentType != nil {
			h.Set("Content-Type", *c.ContentType)
		}
		s.metaHeaders(h, c.Meta)
		if c.Tags != nil {
			h.Set("x-amz-tagging", taggingHeader(c.Tags))
		}
		if c.Class != nil {
			h.Set("x-amz-storage-class", *c.Class)
		}
		if c.ChecksumType != "" {
			h.Set("x-amz-checksum-type", c.ChecksumType)
		}
		rec := s.do("POST", c.Bucket, c.Key, q, h, nil)
		if rec.Code/100 != 2 {
			return failOf(rec)
		}
		var out struct {
			UploadId string `xml:"UploadId"`
		}
		_ = xml.Unmarshal(rec.Body.Bytes(), &out)
		return prog.Result{UploadID: out.UploadId, Size: -1}
	case prog.OpMpuPart:
		body := c.Body.Bytes()
		q.Set("partNumber", strconv.Itoa(c.PartNo))
		q.Set("uploadId", c.UploadID)
		suppliedHeaders(h, c.Supplied, body)
		rec := s.do("PUT", c.Bucket, c.Key, q, h, body)
		if rec.Code/100 != 2 {
			return failOf(rec)
		}
		return prog.Result{ETag: rec.Header().Get("ETag"), Size: int64(len(body)), Checksums: checksumsOf(rec.Header())}
	case prog.OpMpuPartCopy:
		q.Set("partNumber", strconv.Itoa(c.PartNo))
		q.Set("uploadId", c.UploadID)
		h.Set("x-amz-copy-source", copySource(c))
		if c.Range != nil {
			h.Set("x-amz-copy-source-range", rangeValue(*c.Range))
		}
		srcCondHeaders(h, c)
		rec := s.do("PUT", c.Bucket, c.Key, q, h, nil)
		if rec.Code/100 != 2 {
			return failOf(rec)
		}
		var out struct {
			ETag string `xml:"ETag"`
		}
		_ = xml.Unmarshal(rec.Body.Bytes(), &out)
		return prog.Result{ETag: out.ETag, Size: -1}
	case prog.OpMpuComplete:
		q.Set("uploadId", c.UploadID)
		condHeaders(h, c)
		var sb strings.Builder
		sb.WriteString(`<CompleteMultipartUpload xmlns="http://s3.amazonaws.com/doc/2006-03-01/">`)
		if c.Manifest != "" {
			for _, p := range s.manifest(c) {
				fmt.Fprintf(&sb, "<Part><PartNumber>%d</PartNumber><ETag>%s</ETag></Part>", p.PartNumber, xmlEscape(p.ETag))
			}
		}
		sb.WriteString(`</CompleteMultipartUpload>`)
		if in := prog.CompleteChecksumInput(c); in != nil {
			if in.ChecksumCRC32 != nil {
				h.Set("x-amz-checksum-crc32", *in.ChecksumCRC32)
			}
			if in.ChecksumCRC32C != nil {
				h.Set("x-amz-checksum-crc32c", *in.ChecksumCRC32C)
			}
			if in.ChecksumCRC64NVME != nil {
				h.Set("x-amz-checksum-crc64nvme", *in.ChecksumCRC64NVME)
			}
			if in.ChecksumSHA1 != nil {
				h.Set("x-amz-checksum-sha1", *in.ChecksumSHA1)
			}
			if in.ChecksumSHA256 != nil {
				h.Set("x-amz-checksum-sha256", *in.ChecksumSHA256)
			}
		}
		rec := s.do("POST", c.Bucket, c.Key, q, h, []byte(sb.String()))
		if rec.Code/100 != 2 {
			return failOf(rec)
		}
		var out struct {
			ETag string `xml:"ETag"`
		}
		_ = xml.Unmarshal(rec.Body.Bytes(), &out)
		return prog.Result{ETag: out.ETag, Size: -1, Version: rec.Header().Get("x-amz-version-id"), Checksums: map[string]string{}}
	case prog.OpMpuAbort:
		q.Set("uploadId", c.UploadID)
		rec := s.do("DELETE", c.Bucket, c.Key, q, h, nil)
		if rec.Code/100 != 2 {
			return failOf(rec)
		}
		return prog.Result{Size: -1}
	case prog.OpDelete:
		versionQuery(q, c.VersionID)
		if c.IfMatchETag != nil {
			h.Set("If-Match", *c.IfMatchETag)
		}
		rec := s.do("DELETE", c.Bucket, c.Key, q, h, nil)
		if rec.Code/100 != 2 {
			return failOf(rec)
		}
		return prog.Result{Size: -1, Version: rec.Header().Get("x-amz-version-id"), DeleteMarker: rec.Header().Get("x-amz-delete-marker") == "true"}
	case prog.OpDeleteObjects:
		q.Set("delete", "")
		var sb strings.Builder
		sb.WriteString(`<Delete xmlns="http://s3.amazonaws.com/doc/2006-03-01/">`)
		for _, e := range c.Entries {
			sb.WriteString("<Object><Key>" + xmlEscape(e.Key) + "</Key>")
			if e.VersionID != nil {
				sb.WriteString("<VersionId>" + xmlEscape(*e.VersionID) + "</VersionId>")
			}
			if e.IfMatchETag != nil {
				sb.WriteString("<ETag>" + xmlEscape(*e.IfMatchETag) + "</ETag>")
			}
			sb.WriteString("</Object>")
		}
		sb.WriteString(`</Delete>`)
		body := []byte(sb.String())
		rec := s.do("POST", c.Bucket, "", q, h, body)
		if rec.Code/100 != 2 {
			return failOf(rec)
		}
		var out struct {
			Deleted []struct {
				Key                   string  `xml:"Key"`
				VersionId             *string `xml:"VersionId"`
				DeleteMarker          *bool   `xml:"DeleteMarker"`
				DeleteMarkerVersionId *string `xml:"DeleteMarkerVersionId"`
			} `xml:"Deleted"`
			Errors []struct {
				Key  string `xml:"Key"`
				Code string `xml:"Code"`
			} `xml:"Error"`
		}
		_ = xml.Unmarshal(rec.Body.Bytes(), &out)
		// the response groups successes and errors; restore request order per key occurrence
		r := prog.Result{Size: -1}
		di, ei := 0, 0
		for _, e := range c.Entries {
			if di < len(out.Deleted) && out.Deleted[di].Key == e.Key {
				d := out.Deleted[di]
				di++
				dr := prog.DelResult{Key: e.Key, Deleted: true}
				if d.DeleteMarker != nil {
					dr.DeleteMarker = *d.DeleteMarker
				}
				if d.DeleteMarkerVersionId != nil {
					dr.Version = *d.DeleteMarkerVersionId
				} else if d.VersionId != nil {
					dr.Version = *d.VersionId
				}
				r.Entries = append(r.Entries, dr)
			} else if ei < len(out.Errors) && out.Errors[ei].Key == e.Key {
				r.Entries = append(r.Entries, prog.DelResult{Key: e.Key, ErrCode: out.Errors[ei].Code})
				ei++
			} else {
				r.Entries = append(r.Entries, prog.DelResult{Key: e.Key, ErrCode: "missing-from-response"})
			}
		}
		return r
	case prog.OpPutTags:
		q.Set("tagging", "")
		versionQuery(q, c.VersionID)
		var sb strings.Builder
		sb.WriteString(`<Tagging xmlns="http://s3.amazonaws.com/doc/2006-03-01/"><TagSet>`)
		var keys []string
		for k := range c.Tags {
			keys = append(keys, k)
		}
		sort.Strings(keys)
		for _, k := range keys {
			sb.WriteString("<Tag><Key>" + xmlEscape(k) + "</Key><Value>" + xmlEscape(c.Tags[k]) + "</Value></Tag>")
		}
		sb.WriteString(`</TagSet></Tagging>`)
		rec := s.do("PUT", c.Bucket, c.Key, q, h, []byte(sb.String()))
		if rec.Code/100 != 2 {
			return failOf(rec)
		}
		return prog.Result{Size: -1}
	case prog.OpDeleteTags:
		q.Set("tagging", "")
		versionQuery(q, c.VersionID)
		rec := s.do("DELETE", c.Bucket, c.Key, q, h, nil)
		if rec.Code/100 != 2 {
			return failOf(rec)
		}
		return prog.Result{Size: -1}
	case prog.OpHead, prog.OpGet:
		versionQuery(q, c.VersionID)
		method := "GET"
		if c.Kind == prog.OpHead {
			method = "HEAD"
		}
		rec := s.do(method, c.Bucket, c.Key, q, h, nil)
		if rec.Code/100 != 2 {
			return failOf(rec)
		}
		return prog.Result{Obj: s.viewOf(c, rec, c.Kind == prog.OpGet), Size: -1}
	case prog.OpList:
		var keys []string
		marker := ""
		for page := 0; page < 1000; page++ {
			q := url.Values{}
			q.Set("list-type", "2")
			if marker != "" {
				q.Set("continuation-token", marker)
			}
			rec := s.do("GET", c.Bucket, "", q, http.Header{}, nil)
			if rec.Code/100 != 2 {
				return failOf(rec)
			}
			var out struct {
				Contents []struct {
					Key string `xml:"Key"`
				} `xml:"Contents"`
				IsTruncated           bool   `xml:"IsTruncated"`
				NextContinuationToken string `xml:"NextContinuationToken"`
			}
			_ = xml.Unmarshal(rec.Body.Bytes(), &out)
			for _, o := range out.Contents {
				keys = append(keys, o.Key)
			}
			if !out.IsTruncated {
				break
			}
			marker = out.NextContinuationToken
		}
		if keys == nil {
			keys = []string{}
		}
		return prog.Result{Keys: keys, Size: -1}
	}
	return prog.Result{Err: prog.EOther, ErrText: "httpside: unsupported op " + c.Kind, Size: -1}
}

type manifestPart struct {
	PartNumber int32
	ETag       string
}

func (s *Side) manifest(c prog.Concrete) []manifestPart {
	q := url.Values{}
	q.Set("uploadId", c.UploadID)
	q.Set("max-parts", "1000")
	rec := s.do("GET", c.Bucket, c.Key, q, http.Header{}, nil)
	var out struct {
		Parts []struct {
			PartNumber int32  `xml:"PartNumber"`
			ETag       string `xml:"ETag"`
		} `xml:"Part"`
	}
	if rec.Code/100 == 2 {
		_ = xml.Unmarshal(rec.Body.Bytes(), &out)
	}
	var parts []storage.CompleteMultipartUploadPart
	for _, p := range out.Parts {
		parts = append(parts, storage.CompleteMultipartUploadPart{PartNumber: p.PartNumber, ETag: p.ETag})
	}
	sort.Slice(parts, func(i, j int) bool { return parts[i].PartNumber < parts[j].PartNumber })
	parts = prog.DistortManifest(c.Manifest, parts)
	var res []manifestPart
	for _, p := range parts {
		res = append(res, manifestPart{p.PartNumber, p.ETag})
	}
	return res
}

// viewOf builds the object view from response headers (+ body) and a tagging request.
func (s *Side) viewOf(c prog.Concrete, rec *httptest.ResponseRecorder, withBody bool) *prog.ObjView {
	h := rec.Header()
	v := &prog.ObjView{ETag: h.Get("ETag"), Version: h.Get("x-amz-version-id"), Checksums: checksumsOf(h), CkType: h.Get("x-amz-checksum-type")}
	v.Size, _ = strconv.ParseInt(h.Get("Content-Length"), 10, 64)
	if ct := h.Get("Content-Type"); ct != "" {
		v.ContentType = &ct
	}
	opt := func(name string) *string {
		if vals, ok := h[http.CanonicalHeaderKey(name)]; ok && len(vals) > 0 {
			x := vals[0]
			return &x
		}
		return nil
	}
	v.Meta = prog.Meta{CacheControl: opt("Cache-Control"), ContentDisposition: opt("Content-Disposition"), ContentEncoding: opt("Content-Encoding"),
		ContentLanguage: opt("Content-Language"), Expires: opt("Expires"), Redirect: opt("x-amz-website-redirect-location")}
	for name, vals := range h {
		ln := strings.ToLower(name)
		if strings.HasPrefix(ln, "x-amz-meta-") && len(vals) > 0 {
			if v.Meta.User == nil {
				v.Meta.User = map[string]string{}
			}
			v.Meta.User[strings.TrimPrefix(ln, "x-amz-meta-")] = vals[0]
		}
	}
	v.Class = h.Get("x-amz-storage-class")
	if v.Class == "" {
		v.Class = "STANDARD"
	}
	if withBody {
		b := rec.Body.Bytes()
		sum := sha256.Sum256(b)
		v.BodySHA = hex.EncodeToString(sum[:])
		v.BodyLen = int64(len(b))
		v.Size = int64(len(b))
	}
	// tags through GetObjectTagging
	q := url.Values{}
	q.Set("tagging", "")
	versionQuery(q, c.VersionID)
	trec := s.do("GET", c.Bucket, c.Key, q, http.Header{}, nil)
	if trec.Code/100 == 2 {
		var out struct {
			Tags []struct {
				Key   string `xml:"Key"`
				Value string `xml:"Value"`
			} `xml:"TagSet>Tag"`
		}
		_ = xml.Unmarshal(trec.Body.Bytes(), &out)
		for _, t := range out.Tags {
			if v.Tags == nil {
				v.Tags = map[string]string{}
			}
			v.Tags[t.Key] = t.Value
		}
	}
	return v
}

func xmlEscape(s string) string {
	var b bytes.Buffer
	_ = xml.EscapeText(&b, []byte(s))
	return b.String()
}

func b64(b []byte) string {
	const tbl = "ABCDEFGHIJKLMNOPQRSTUVWXYZabcdefghijklmnopqrstuvwxyz0123456789+/"
	var out []byte
	for i := 0; i < len(b); i += 3 {
		var n uint32
		rem := len(b) - i
		switch {
		case rem >= 3:
			n = uint32(b[i])<<16 | uint32(b[i+1])<<8 | uint32(b[i+2])
			out = append(out, tbl[n>>18&63], tbl[n>>12&63], tbl[n>>6&63], tbl[n&63])
		case rem == 2:
			n = uint32(b[i])<<16 | uint32(b[i+1])<<8
			out = append(out, tbl[n>>18&63], tbl[n>>12&63], tbl[n>>6&63], '=')
		default:
			n = uint32(b[i]) << 16
			out = append(out, tbl[n>>18&63], tbl[n>>12&63], '=', '=')
		}
	}
	return string(out)
}
