// Package gen holds generators shared by the property checks. All random
// choices are rapid draws; expansion of a drawn spec into bytes is a pure
// function of the spec.
package gen

import (
	"encoding/binary"
	"encoding/hex"
	"fmt"

	"pgregory.net/rapid"
)

// BodySpec describes a byte string compactly; Bytes() expands it deterministically.
type BodySpec struct {
	Kind string `json:"kind"` // rand | zero | text | lit | pfx:<hex>
	Len  int    `json:"len"`
	Seed uint64 `json:"seed,omitempty"`
	Hex  string `json:"hex,omitempty"` // for lit
}

func (b BodySpec) String() string { return fmt.Sprintf("%s/%d/%d", b.Kind, b.Len, b.Seed) }

func splitmix(x *uint64) uint64 {
	*x += 0x9e3779b97f4a7c15
	z := *x
	z = (z ^ (z >> 30)) * 0xbf58476d1ce4e5b9
	z = (z ^ (z >> 27)) * 0x94d049bb133111eb
	return z ^ (z >> 31)
}

// Bytes expands the spec.
func (b BodySpec) Bytes() []byte {
	switch {
	case b.Kind == "lit":
		out, err := hex.DecodeString(b.Hex)
		if err != nil {
			panic(err)
		}
		return out
	case b.Kind == "zero":
		out := make([]byte, b.Len)
		// make distinct seeds distinct contents while staying highly compressible
		if b.Len > 0 {
			out[0] = byte(b.Seed)
		}
		if b.Len > 1 {
			out[b.Len-1] = byte(b.Seed >> 8)
		}
		return out
	case b.Kind == "text":
		out := make([]byte, b.Len)
		line := []byte(fmt.Sprintf("line %d of the quick brown fox jumps over the lazy dog\n", b.Seed))
		for i := range out {
			out[i] = line[i%len(line)]
		}
		return out
	case len(b.Kind) > 4 && b.Kind[:4] == "pfx:":
		pfx, err := hex.DecodeString(b.Kind[4:])
		if err != nil {
			panic(err)
		}
		out := randBytes(b.Len, b.Seed)
		copy(out, pfx)
		return out
	default: // rand
		return randBytes(b.Len, b.Seed)
	}
}

func randBytes(n int, seed uint64) []byte {
	out := make([]byte, n+8)
	s := seed*0x9e3779b97f4a7c15 + 1
	for i := 0; i < n; i += 8 {
		binary.LittleEndian.PutUint64(out[i:], splitmix(&s))
	}
	return out[:n]
}

// Hostile prefixes: magic numbers of the part-store layers.
var HostilePrefixes = []string{
	"1f8b08",       // gzip
	"28b52ffd",     // zstd
	"50454331",     // "PEC1" erasure coding shard header
	"0000012c7b22", // looks like a tink length prefix + JSON
	"5049544853",   // "PITHS"
}

// BodyKind draws a body kind.
func BodyKind() *rapid.Generator[string] {
	return rapid.Custom(func(t *rapid.T) string {
		switch rapid.IntRange(0, 9).Draw(t, "bodyKind") {
		case 0, 1, 2, 3:
			return "rand"
		case 4, 5:
			return "zero"
		case 6, 7:
			return "text"
		default:
			return "pfx:" + rapid.SampledFrom(HostilePrefixes).Draw(t, "pfx")
		}
	})
}

// SizeAround draws a size from the given boundaries ±1, or small sizes.
func SizeAround(boundaries []int, max int) *rapid.Generator[int] {
	return rapid.Custom(func(t *rapid.T) int {
		switch rapid.IntRange(0, 9).Draw(t, "sizeClass") {
		case 0:
			return 0
		case 1:
			return 1
		case 2, 3:
			return rapid.IntRange(2, 64).Draw(t, "small")
		case 4:
			return rapid.IntRange(65, min(4096, max)).Draw(t, "medium")
		case 5:
			return rapid.IntRange(0, max).Draw(t, "any")
		default:
			if len(boundaries) == 0 {
				return rapid.IntRange(0, min(4096, max)).Draw(t, "nb")
			}
			b := rapid.SampledFrom(boundaries).Draw(t, "boundary")
			k := rapid.IntRange(1, 3).Draw(t, "mult")
			if b*k > max {
				k = 1
			}
			v := b*k + rapid.IntRange(-1, 1).Draw(t, "delta")
			if v < 0 {
				v = 0
			}
			if v > max {
				v = max
			}
			return v
		}
	})
}

// Body draws a body spec with a size from SizeAround.
func Body(boundaries []int, max int) *rapid.Generator[BodySpec] {
	return rapid.Custom(func(t *rapid.T) BodySpec {
		return BodySpec{
			Kind: BodyKind().Draw(t, "kind"),
			Len:  SizeAround(boundaries, max).Draw(t, "len"),
			Seed: uint64(rapid.IntRange(0, 5).Draw(t, "seed")),
		}
	})
}
