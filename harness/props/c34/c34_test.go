// Package c34 checks property C34: a response carries Access-Control-Allow-Origin
// (and a preflight succeeds) only if the bucket's CORS configuration has a rule
// matching the request's origin, method and requested headers, with wildcard
// patterns matched as documented; preflights without a matching rule are
// rejected and non-CORS requests are unaffected.
//
// Two modes. "server": the full server (SetupServer over a real storage): CORS
// configurations are installed / replaced / deleted with PUT/DELETE ?cors on two
// buckets and requests are sent path-style and virtual-hosted. "mw": the CORS
// middleware alone over NormalizeAndValidateCORSRules + a recording next
// handler (cheap; most of the volume).
//
// The oracle is one-directional and uses an independent, deliberately
// permissive matcher (general glob, case-insensitive under three foldings,
// trimmed and untrimmed patterns): a grant that even the permissive matcher
// cannot justify is a violation.
package c34

import (
	"bytes"
	"context"
	"encoding/xml"
	"fmt"
	"io"
	"net/http"
	"net/http/httptest"
	"os"
	"regexp"
	"strings"
	"testing"
	"time"
	"unicode"

	httpmiddleware "github.com/jdillenkofer/pithos/internal/http/middleware"
	"github.com/jdillenkofer/pithos/internal/http/server"
	"github.com/jdillenkofer/pithos/internal/http/server/authorization"
	"github.com/jdillenkofer/pithos/internal/storage"
	"github.com/jdillenkofer/pithos/verifharness/ev"
	"github.com/jdillenkofer/pithos/verifharness/stacks"
	"pgregory.net/rapid"
)

// Rule is one CORS rule as submitted.
type Rule struct {
	ID      string   `json:"id,omitempty"`
	Origins []string `json:"origins"`
	Methods []string `json:"methods"`
	Headers []string `json:"headers,omitempty"`
	Expose  []string `json:"expose,omitempty"`
	MaxAge  int      `json:"max_age,omitempty"`
}

// Req is one HTTP request.
type Req struct {
	Method string `json:"method"`
	// Bucket: -1 = service level ("/"), 0/1 = the two buckets, 2 = a bucket that does not exist.
	Bucket int    `json:"bucket"`
	Key    string `json:"key,omitempty"`
	VHost  bool   `json:"vhost,omitempty"`
	// header field lines (nil = header absent)
	Origin []string `json:"origin,omitempty"`
	ACRM   []string `json:"acrm,omitempty"`
	ACRH   []string `json:"acrh,omitempty"`
}

// Step: "put" installs Rules on Bucket, "del" deletes the configuration, "req" sends Req,
// "recreate" (server mode) deletes bucket 1 and creates it again.
type Step struct {
	Kind   string `json:"kind"`
	Bucket int    `json:"bucket,omitempty"`
	Rules  []Rule `json:"rules,omitempty"`
	Req    *Req   `json:"req,omitempty"`
	// During (server mode, put / del / recreate): this request is served while the storage write of the step
	// is in flight (the harness runs it when the write reaches the storage below the server's CORS cache);
	// the same request is sent again right after the step and judged against the new configuration.
	During *Req `json:"during,omitempty"`
}

// inflight wraps the storage below the server: a hook runs when a CORS-relevant write arrives, before it is applied.
type inflight struct {
	storage.Storage
	hook func()
}

func (s *inflight) fire() {
	if h := s.hook; h != nil {
		s.hook = nil
		h()
	}
}

func (s *inflight) PutBucketCORSConfiguration(ctx context.Context, b storage.BucketName, c *storage.BucketCORSConfiguration) error {
	s.fire()
	return s.Storage.PutBucketCORSConfiguration(ctx, b, c)
}

func (s *inflight) DeleteBucketCORSConfiguration(ctx context.Context, b storage.BucketName) error {
	s.fire()
	return s.Storage.DeleteBucketCORSConfiguration(ctx, b)
}

func (s *inflight) DeleteBucket(ctx context.Context, b storage.BucketName) error {
	s.fire()
	return s.Storage.DeleteBucket(ctx, b)
}

type Case struct {
	Mode  string `json:"mode"` // server | mw
	Steps []Step `json:"steps"`
}

// ---- independent permissive matcher ----------------------------------------------------

// glob: '*' in the pattern matches any (possibly empty) sequence; every other
// byte is literal. Any number of '*' is supported (more permissive than "first
// star only").
func glob(p, v string) bool {
	// iterative matcher with backtracking to the last star
	pi, vi := 0, 0
	star, mark := -1, 0
	for vi < len(v) {
		switch {
		case pi < len(p) && p[pi] == '*':
			star, mark = pi, vi
			pi++
		case pi < len(p) && p[pi] == v[vi]:
			pi++
			vi++
		case star >= 0:
			pi = star + 1
			mark++
			vi = mark
		default:
			return false
		}
	}
	for pi < len(p) && p[pi] == '*' {
		pi++
	}
	return pi == len(p)
}

func foldCanon(s string) string {
	var b strings.Builder
	for _, r := range s {
		m := r
		for x := unicode.SimpleFold(r); x != r; x = unicode.SimpleFold(x) {
			if x < m {
				m = x
			}
		}
		b.WriteRune(m)
	}
	return b.String()
}

// globCI: case-insensitive glob under any of three case foldings, on trimmed and untrimmed operands.
func globCI(p, v string) bool {
	ps := []string{p, strings.TrimSpace(p)}
	vs := []string{v, strings.TrimSpace(v)}
	for _, pp := range ps {
		for _, vv := range vs {
			if glob(strings.ToLower(pp), strings.ToLower(vv)) || glob(strings.ToUpper(pp), strings.ToUpper(vv)) || glob(foldCanon(pp), foldCanon(vv)) {
				return true
			}
		}
	}
	return false
}

// splitList: all field lines of a list header combined (RFC 9110 5.3), items trimmed, empty items dropped.
func splitList(lines []string) []string {
	var out []string
	for _, l := range lines {
		for _, it := range strings.Split(l, ",") {
			it = strings.TrimSpace(it)
			if it != "" {
				out = append(out, it)
			}
		}
	}
	return out
}

// ruleMatches: permissive. origins/methods: any supplied field line may match.
func ruleMatches(r Rule, origins []string, methods []string, preflight bool, reqHeaders []string) bool {
	ok := false
	for _, o := range origins {
		for _, p := range r.Origins {
			if strings.TrimSpace(p) != "" && globCI(p, o) {
				ok = true
			}
		}
	}
	if !ok {
		return false
	}
	ok = false
	for _, m := range methods {
		for _, am := range r.Methods {
			if strings.EqualFold(strings.TrimSpace(am), strings.TrimSpace(m)) && strings.TrimSpace(m) != "" {
				ok = true
			}
		}
	}
	if !ok {
		return false
	}
	if preflight {
		for _, h := range reqHeaders {
			hit := false
			for _, p := range r.Headers {
				if strings.TrimSpace(p) != "" && globCI(p, h) {
					hit = true
				}
			}
			if !hit {
				return false
			}
		}
	}
	return true
}

func anyRule(rules []Rule, origins, methods []string, preflight bool, reqHeaders []string) (matched bool, starOrigin bool) {
	for _, r := range rules {
		if ruleMatches(r, origins, methods, preflight, reqHeaders) {
			matched = true
			for _, p := range r.Origins {
				if strings.TrimSpace(p) == "*" {
					starOrigin = true
				}
			}
		}
	}
	return
}

// ---- XML ---------------------------------------------------------------------------------

type xmlRule struct {
	ID      *string  `xml:"ID,omitempty"`
	Origins []string `xml:"AllowedOrigin"`
	Methods []string `xml:"AllowedMethod"`
	Headers []string `xml:"AllowedHeader,omitempty"`
	Expose  []string `xml:"ExposeHeader,omitempty"`
	MaxAge  *int     `xml:"MaxAgeSeconds,omitempty"`
}
type xmlCfg struct {
	XMLName xml.Name  `xml:"CORSConfiguration"`
	Rules   []xmlRule `xml:"CORSRule"`
}

func rulesXML(rules []Rule) []byte {
	c := xmlCfg{}
	for _, r := range rules {
		x := xmlRule{Origins: r.Origins, Methods: r.Methods, Headers: r.Headers, Expose: r.Expose}
		if r.ID != "" {
			id := r.ID
			x.ID = &id
		}
		if r.MaxAge > 0 {
			m := r.MaxAge
			x.MaxAge = &m
		}
		c.Rules = append(c.Rules, x)
	}
	b, err := xml.Marshal(c)
	if err != nil {
		panic(err)
	}
	return b
}

// ---- execution -----------------------------------------------------------------------------

type allowAll struct{}

func (allowAll) AuthorizeRequest(ctx context.Context, r *authorization.Request) (bool, error) {
	return true, nil
}

var bucketNames = []string{"bkt0", "bkt1", "nobkt"}

const objBody = "hello-cors"

type world struct {
	h       http.Handler
	cfg     [3][]Rule // model: current configuration per bucket (nil = none)
	close   func()
	mwRules []httpmiddleware.CORSRule
	nextLog *nextRecord
	base    map[string]string // baseline fingerprints of read-only non-CORS requests (server mode)
	// stale[b]: the configuration bucket b had when the bucket itself was deleted,
	// until the next PUT/DELETE ?cors on it (mechanism of KF-C34-2).
	stale [3][]Rule
	inflight *inflight
}

type nextRecord struct {
	calls  int
	method string
	url    string
	header http.Header
}

func openWorld(env *ev.Env, mode string) (*world, error) {
	w := &world{}
	if mode == "mw" {
		w.nextLog = &nextRecord{}
		next := http.HandlerFunc(func(rw http.ResponseWriter, r *http.Request) {
			w.nextLog.calls++
			w.nextLog.method = r.Method
			w.nextLog.url = r.URL.String()
			w.nextLog.header = r.Header.Clone()
			rw.Header().Set("X-Next", "1")
			rw.WriteHeader(200)
			io.WriteString(rw, "next")
		})
		w.h = httpmiddleware.MakeCORSMiddlewareWithResolver(func(r *http.Request) []httpmiddleware.CORSRule {
			// the middleware alone has one configuration; bucket 0 stands for it
			if strings.HasPrefix(r.URL.Path, "/bkt0") {
				return w.mwRules
			}
			return nil
		}, next)
		w.close = func() {}
		return w, nil
	}
	dir := env.TempDir()
	inst, err := stacks.Open(dir, stacks.LayoutFor("P2"), stacks.Options{})
	if err != nil {
		os.RemoveAll(dir)
		return nil, err
	}
	w.close = func() { inst.Close(); os.RemoveAll(dir) }
	ctx := context.Background()
	for _, b := range bucketNames[:2] {
		bn, err := storage.NewBucketName(b)
		if err != nil {
			w.close()
			return nil, err
		}
		if err := inst.Storage.CreateBucket(ctx, bn); err != nil {
			w.close()
			return nil, err
		}
		if b != bucketNames[0] {
			continue // bkt1 stays empty so that it can be deleted and re-created
		}
		k, _ := storage.NewObjectKey("key")
		if _, err := inst.Storage.PutObject(ctx, bn, k, nil, strings.NewReader(objBody), nil, nil); err != nil {
			w.close()
			return nil, err
		}
	}
	w.inflight = &inflight{Storage: inst.Storage}
	w.h = server.SetupServer(nil, "eu-central-1", "localhost", "s3-website.localhost", allowAll{}, w.inflight)
	return w, nil
}

func (w *world) do(method, host, target string, hdr http.Header, body []byte) *httptest.ResponseRecorder {
	var rd io.Reader
	if body != nil {
		rd = bytes.NewReader(body)
	}
	req := httptest.NewRequest(method, "http://"+host+target, rd)
	req.Host = host
	for k, v := range hdr {
		req.Header[k] = append([]string(nil), v...)
	}
	rec := httptest.NewRecorder()
	w.h.ServeHTTP(rec, req)
	return rec
}

func target(r *Req) (host, path string) {
	host = "localhost"
	switch {
	case r.Bucket < 0:
		return host, "/"
	case r.VHost:
		host = bucketNames[r.Bucket] + ".localhost"
		if r.Key == "" {
			return host, "/"
		}
		return host, "/" + r.Key
	default:
		if r.Key == "" {
			return host, "/" + bucketNames[r.Bucket]
		}
		return host, "/" + bucketNames[r.Bucket] + "/" + r.Key
	}
}

func nonBlank(lines []string) []string {
	var out []string
	for _, l := range lines {
		if strings.TrimSpace(l) != "" {
			out = append(out, l)
		}
	}
	return out
}

func starClass(p string) string {
	p = strings.TrimSpace(p)
	i := strings.IndexByte(p, '*')
	switch {
	case i < 0:
		return "none"
	case p == "*":
		return "only"
	case strings.Count(p, "*") > 1:
		return "multi"
	case i == 0:
		return "leading"
	case i == len(p)-1:
		return "trailing"
	default:
		return "middle"
	}
}

var requestIDRe = regexp.MustCompile(`<RequestId>[^<]*</RequestId>`)

func fingerprint(rec *httptest.ResponseRecorder) string {
	body := requestIDRe.ReplaceAllString(rec.Body.String(), "<RequestId/>")
	return fmt.Sprintf("%d|%s|%s|%s", rec.Code, rec.Header().Get("ETag"), rec.Header().Get("Content-Length"), body)
}

func run(env *ev.Env, c Case) (o ev.Outcome) {
	t0 := time.Now()
	defer func() { o.Count("wall_ms:"+c.Mode, int(time.Since(t0).Milliseconds())) }()
	w, err := openWorld(env, c.Mode)
	if err != nil {
		o.Failf("harness: open: %v", err)
		return
	}
	defer w.close()
	o.Class("mode:" + c.Mode)
	midStarUsed, multiHdr := false, false

	if c.Mode == "server" {
		// baseline of read-only non-CORS requests before any configuration exists
		w.base = map[string]string{}
		for _, m := range []string{"GET", "HEAD"} {
			for b := 0; b < 3; b++ {
				for _, vh := range []bool{false, true} {
					r := &Req{Method: m, Bucket: b, Key: "key", VHost: vh}
					host, path := target(r)
					w.base[m+" "+host+path] = fingerprint(w.do(m, host, path, nil, nil))
				}
			}
		}
	}

	steps := append([]Step(nil), c.Steps...)
	for si := 0; si < len(steps); si++ {
		st := steps[si]
		if w.inflight != nil {
			w.inflight.hook = nil // a write that never reached the storage (rejected configuration) leaves nothing armed
		}
		if st.During != nil && c.Mode == "server" && (st.Kind == "put" || st.Kind == "del" || st.Kind == "recreate") {
			dr := *st.During
			w.inflight.hook = func() {
				host, path := target(&dr)
				hdr := http.Header{}
				if dr.Origin != nil {
					hdr["Origin"] = dr.Origin
				}
				if dr.ACRM != nil {
					hdr["Access-Control-Request-Method"] = dr.ACRM
				}
				if dr.ACRH != nil {
					hdr["Access-Control-Request-Headers"] = dr.ACRH
				}
				w.do(dr.Method, host, path, hdr, nil)
				o.Class("request-served-while-a-cors-write-was-in-flight")
			}
			// the same request again, right after the write, judged against the new configuration
			rest := append([]Step{{Kind: "req", Req: &dr}}, steps[si+1:]...)
			steps = append(steps[:si+1:si+1], rest...)
		}
		switch st.Kind {
		case "put":
			b := st.Bucket
			if c.Mode == "mw" {
				b = 0
				var in []httpmiddleware.CORSRule
				for _, r := range st.Rules {
					cr := httpmiddleware.CORSRule{AllowedOrigins: r.Origins, AllowedMethods: r.Methods, AllowedHeaders: r.Headers, ExposeHeaders: r.Expose}
					if r.ID != "" {
						id := r.ID
						cr.ID = &id
					}
					if r.MaxAge > 0 {
						m := r.MaxAge
						cr.MaxAgeSeconds = &m
					}
					in = append(in, cr)
				}
				norm, err := httpmiddleware.NormalizeAndValidateCORSRules(in)
				if err != nil {
					o.Class("put:rejected")
					continue
				}
				w.mwRules = norm
				w.cfg[0] = st.Rules
				o.Class("put:accepted")
				continue
			}
			rec := w.do("PUT", "localhost", "/"+bucketNames[b]+"?cors", nil, rulesXML(st.Rules))
			switch {
			case rec.Code == 200:
				w.cfg[b] = st.Rules
				w.stale[b] = nil
				o.Class("put:accepted")
			case rec.Code == 400:
				o.Class("put:rejected")
			default:
				o.Failf("step %d: harness: PUT ?cors on %s answered %d %s", si, bucketNames[b], rec.Code, rec.Body.String())
				return
			}
		case "del":
			b := st.Bucket
			if c.Mode == "mw" {
				w.mwRules, w.cfg[0] = nil, nil
				continue
			}
			rec := w.do("DELETE", "localhost", "/"+bucketNames[b]+"?cors", nil, nil)
			if rec.Code != 204 {
				o.Failf("step %d: harness: DELETE ?cors answered %d", si, rec.Code)
				return
			}
			w.cfg[b] = nil
			w.stale[b] = nil
			o.Class("del")
		case "recreate":
			// delete the (empty) bucket and create it again: its CORS configuration is gone
			if c.Mode == "mw" {
				continue
			}
			b := st.Bucket
			rec := w.do("DELETE", "localhost", "/"+bucketNames[b], nil, nil)
			if rec.Code != 204 {
				o.Class("recreate:delete-refused") // not empty
				continue
			}
			if w.cfg[b] != nil {
				w.stale[b] = w.cfg[b]
			}
			w.cfg[b] = nil
			if st.Rules == nil { // Rules==nil: re-create; otherwise leave the bucket deleted
				if rec := w.do("PUT", "localhost", "/"+bucketNames[b], nil, nil); rec.Code != 200 {
					o.Failf("step %d: harness: re-creating %s answered %d", si, bucketNames[b], rec.Code)
					return
				}
				o.Class("recreate:done")
			} else {
				o.Class("recreate:deleted-only")
			}
		case "req":
			rr := *st.Req // never mutate the case
			r := &rr
			if c.Mode == "mw" {
				if r.Bucket != 0 && r.Bucket != -1 {
					r.Bucket = 0
				}
				r.VHost = false
			}
			host, path := target(r)
			hdr := http.Header{}
			if r.Origin != nil {
				hdr["Origin"] = r.Origin
			}
			if r.ACRM != nil {
				hdr["Access-Control-Request-Method"] = r.ACRM
			}
			if r.ACRH != nil {
				hdr["Access-Control-Request-Headers"] = r.ACRH
			}
			if w.nextLog != nil {
				*w.nextLog = nextRecord{}
			}
			rec := w.do(r.Method, host, path, hdr, nil)
			o.Sub++

			var rules []Rule
			if r.Bucket >= 0 && r.Bucket < 3 {
				rules = w.cfg[r.Bucket]
			}
			origins := nonBlank(r.Origin)
			hasOriginHeader := r.Origin != nil
			isCORS := len(origins) > 0
			acrm := nonBlank(r.ACRM)
			preflight := r.Method == "OPTIONS" && isCORS && len(acrm) > 0
			methods := []string{r.Method}
			if preflight {
				methods = acrm
			}
			reqHeaders := splitList(r.ACRH)
			matched, _ := anyRule(rules, origins, methods, preflight, reqHeaders)

			acao := rec.Header().Values("Access-Control-Allow-Origin")
			granted := len(acao) > 0
			kind := "noncors"
			if preflight {
				kind = "preflight"
			} else if isCORS {
				kind = "cors-actual"
			} else if hasOriginHeader {
				kind = "blank-origin"
			}
			o.Class("req:" + kind)
			o.Class(fmt.Sprintf("req:%s:oracle-match=%v:granted=%v", kind, matched, granted))
			if preflight {
				o.Class(fmt.Sprintf("preflight:status=%d", rec.Code))
				if len(reqHeaders) >= 2 {
					multiHdr = true
					o.Class("preflight:>=2-requested-headers")
				}
				if len(r.ACRH) >= 2 {
					o.Class("preflight:multi-line-acrh")
				}
			}
			if isCORS {
				for _, ru := range rules {
					for _, p := range ru.Origins {
						sc := starClass(p)
						o.Class("consulted-origin-pattern:star-" + sc)
						if sc == "middle" {
							midStarUsed = true
						}
					}
					for _, p := range ru.Headers {
						if preflight {
							sc := starClass(p)
							o.Class("consulted-header-pattern:star-" + sc)
							if sc == "middle" {
								midStarUsed = true
							}
						}
					}
				}
			}
			desc := func() string {
				return fmt.Sprintf("step %d: %s %s%s Origin=%q ACRM=%q ACRH=%q rules(bucket %d)=%+v -> status %d, ACAO=%q, ACAM=%q, ACAH=%q",
					si, r.Method, host, path, r.Origin, r.ACRM, r.ACRH, r.Bucket, rules, rec.Code, acao, rec.Header().Values("Access-Control-Allow-Methods"), rec.Header().Values("Access-Control-Allow-Headers"))
			}

			// (A) grant => some rule matches; (B) preflight without a match is rejected;
			// (D) the granted value names the requesting origin, or "*" by a "*" rule.
			okStatus := rec.Code >= 200 && rec.Code < 300
			judge := func(rules []Rule, reqHeaders []string) string {
				matched, starOrigin := anyRule(rules, origins, methods, preflight, reqHeaders)
				if granted && !matched || preflight && okStatus && !matched {
					return "CORS granted without a matching rule"
				}
				if granted {
					for _, v := range acao {
						okv := v == "*" && starOrigin
						for _, og := range origins {
							if v == og || v == strings.TrimSpace(og) {
								okv = true
							}
						}
						if !okv {
							return "Access-Control-Allow-Origin names an origin no matching rule grants"
						}
					}
				}
				return ""
			}
			if v := judge(rules, reqHeaders); v != "" {
				// KF-C34-1: only the first Access-Control-Request-Headers field line is read;
				// headers requested in further lines are not checked against the rule. The
				// response is exactly what the oracle accepts for the first line alone.
				if preflight && len(r.ACRH) >= 2 && env.Known("c34.onlyFirstRequestHeadersLine") && judge(rules, splitList(r.ACRH[:1])) == "" {
					o.KnownHits = append(o.KnownHits, "KF-C34-1")
					continue
				}
				// KF-C34-2: the CORS cache is not invalidated when the bucket is deleted; the
				// configuration of the deleted bucket keeps granting (up to the 60 s TTL).
				if c.Mode == "server" && r.Bucket >= 0 && r.Bucket < 3 && w.stale[r.Bucket] != nil && env.Known("c34.staleCacheAfterBucketDelete") && judge(w.stale[r.Bucket], reqHeaders) == "" {
					o.KnownHits = append(o.KnownHits, "KF-C34-2")
					continue
				}
				o.Failf("%s: %s", v, desc())
				return
			}
			// (C) non-CORS requests are unaffected
			if !hasOriginHeader {
				for k := range rec.Header() {
					if strings.HasPrefix(strings.ToLower(k), "access-control-") {
						o.Failf("non-CORS request received %s: %s", k, desc())
						return
					}
				}
				if c.Mode == "mw" {
					n := w.nextLog
					if n.calls != 1 || n.method != r.Method || rec.Code != 200 || rec.Body.String() != "next" {
						o.Failf("non-CORS request did not pass through unchanged (next calls %d, status %d): %s", n.calls, rec.Code, desc())
						return
					}
					for k := range hdr {
						if strings.Join(n.header[k], "\x00") != strings.Join(hdr[k], "\x00") {
							o.Failf("non-CORS request header %s changed on the way to the handler: %s", k, desc())
							return
						}
					}
					for k := range rec.Header() {
						if k != "X-Next" && k != "Content-Type" {
							o.Failf("non-CORS response gained header %s: %s", k, desc())
							return
						}
					}
				} else if b, ok := w.base[r.Method+" "+host+path]; ok && r.ACRM == nil && r.ACRH == nil {
					if got := fingerprint(rec); got != b {
						o.Failf("non-CORS %s %s%s answered differently once CORS rules exist: before %q, now %q", r.Method, host, path, b, got)
						return
					}
					o.Class("noncors:baseline-compared")
				}
			}
		}
	}
	o.NonTrivial = midStarUsed || multiHdr
	return
}

// ---- generator -----------------------------------------------------------------------------------

var originPatterns = []string{"*", "http://example.com", "https://*.example.com", "http://*", "*.example.com", "http://app.*.example.com",
	"http://exa*ple.com", "https://example.com:8443", "http://localhost:*", "null", "HTTP://Example.COM", "http://a?c.com", "http://[a-z].com",
	"  http://padded.com  ", "https://*", "http://ab*ba", "http://xn--caf-dma.example", "http://é*.example", "*a", "a*"}

var headerPatterns = []string{"*", "content-type", "x-amz-*", "x-*-id", "Authorization", "X-Custom-Header", "x-amz-meta-*", "*-token", "x-a*a", " x-pad "}

var fillers = []string{"", "x", "sub", "a.b", "evil.com/", "EXAMPLE", "*", "a", "ba", "é", " "}

var plainOrigins = []string{"http://example.com", "https://example.com", "http://evil.com", "https://app.example.com", "http://example.com.evil.com", "null", "http://localhost:3000", "HTTP://EXAMPLE.COM", "http://aba", "http://abba", "x"}

var methodsPool = []string{"GET", "PUT", "POST", "DELETE", "HEAD"}

func genRule(t *rapid.T) Rule {
	r := Rule{}
	r.Origins = rapid.SliceOfN(rapid.SampledFrom(originPatterns), 1, 3).Draw(t, "origins")
	r.Methods = rapid.SliceOfNDistinct(rapid.SampledFrom(methodsPool), 1, 3, func(s string) string { return s }).Draw(t, "methods")
	// note: rapid favours small values, so rare events sit on mid-range values
	switch rapid.IntRange(0, 29).Draw(t, "mq") {
	case 13:
		r.Methods = append(r.Methods, "FOO") // invalid -> rejected
	case 1:
		r.Methods[0] = strings.ToLower(r.Methods[0])
	case 2:
		r.Methods = append(r.Methods, rapid.SampledFrom([]string{"OPTIONS", "PATCH"}).Draw(t, "extraM"))
	case 17:
		r.Methods = nil // rejected
	case 21:
		r.Origins = append(r.Origins, rapid.SampledFrom([]string{"http://a*b*c.com", "**"}).Draw(t, "multiStar")) // rejected
	case 23:
		r.Headers = append(r.Headers, "x-**") // rejected
	}
	if rapid.IntRange(0, 9).Draw(t, "hq") < 7 {
		r.Headers = append(rapid.SliceOfN(rapid.SampledFrom(headerPatterns), 1, 3).Draw(t, "headers"), r.Headers...)
	}
	if rapid.IntRange(0, 9).Draw(t, "eq") < 3 {
		r.Expose = []string{"ETag", "x-amz-request-id"}
	}
	if rapid.IntRange(0, 9).Draw(t, "aq") < 3 {
		r.MaxAge = rapid.SampledFrom([]int{1, 600, 86400}).Draw(t, "age")
	}
	if rapid.IntRange(0, 9).Draw(t, "iq") == 6 {
		r.ID = rapid.SampledFrom([]string{"r1", "r2", "r3", "r4", "r5"}).Draw(t, "id")
	}
	return r
}

func instantiate(t *rapid.T, p string, label string) string {
	s := strings.TrimSpace(p)
	for strings.Contains(s, "*") {
		s = strings.Replace(s, "*", rapid.SampledFrom(fillers).Draw(t, label+"fill"), 1)
	}
	switch rapid.IntRange(0, 15).Draw(t, label+"mut") {
	case 5:
		s = strings.ToUpper(s)
	case 1:
		s = strings.ToLower(s)
	case 2:
		s += rapid.SampledFrom([]string{"x", "/", ".evil.com", " "}).Draw(t, label+"app")
	case 3:
		if len(s) > 1 {
			i := rapid.IntRange(0, len(s)-1).Draw(t, label+"drop")
			s = s[:i] + s[i+1:]
		}
	case 4:
		s = rapid.SampledFrom([]string{"x", " ", "http://"}).Draw(t, label+"pre") + s
	}
	return s
}

func genReq(t *rapid.T, cur *[3][]Rule, mode string) *Req {
	r := &Req{}
	r.Bucket = rapid.SampledFrom([]int{0, 0, 0, 0, 1, 1, 2, -1}).Draw(t, "bucket")
	if mode == "mw" && r.Bucket > 0 {
		r.Bucket = 0
	}
	if r.Bucket >= 0 {
		r.Key = rapid.SampledFrom([]string{"key", "key", "", "tmp"}).Draw(t, "key")
		r.VHost = mode == "server" && rapid.IntRange(0, 3).Draw(t, "vh") == 0
	}
	kind := rapid.SampledFrom([]string{"preflight", "preflight", "preflight", "actual", "actual", "noncors"}).Draw(t, "kind")
	switch kind {
	case "preflight":
		r.Method = "OPTIONS"
	default:
		r.Method = rapid.SampledFrom([]string{"GET", "GET", "HEAD", "PUT", "POST", "DELETE", "OPTIONS", "PATCH"}).Draw(t, "method")
		if r.Method != "GET" && r.Method != "HEAD" && r.Method != "OPTIONS" && r.Key == "key" {
			r.Key = "tmp" // keep the fixture object intact
		}
		if (r.Method == "DELETE" || r.Method == "PUT" || r.Method == "POST" || r.Method == "PATCH") && r.Key == "" {
			r.Key = "tmp" // no bucket-level mutations through request steps
		}
	}
	if kind == "noncors" {
		if mode == "server" && r.Bucket >= 0 && rapid.IntRange(0, 9).Draw(t, "readFixture") < 7 {
			r.Key = "key"
			if r.Method != "HEAD" {
				r.Method = "GET"
			}
			return r
		}
		if rapid.IntRange(0, 3).Draw(t, "strayAC") == 2 {
			r.ACRM = []string{"PUT"}
			r.ACRH = []string{"content-type"}
		}
		return r
	}
	// origin: derived from a pattern of the addressed bucket when it has rules
	var rules []Rule
	if r.Bucket >= 0 && r.Bucket < 3 {
		rules = cur[r.Bucket]
	}
	var rule *Rule
	if len(rules) > 0 && rapid.IntRange(0, 9).Draw(t, "useRule") < 8 {
		rule = &rules[rapid.IntRange(0, len(rules)-1).Draw(t, "ri")]
	}
	origin := rapid.SampledFrom(plainOrigins).Draw(t, "plainOrigin")
	if rule != nil && len(rule.Origins) > 0 {
		origin = instantiate(t, rapid.SampledFrom(rule.Origins).Draw(t, "op"), "o")
	}
	r.Origin = []string{origin}
	if kind == "actual" && rule != nil && len(rule.Methods) > 0 && rapid.IntRange(0, 9).Draw(t, "ruleMethod") < 6 {
		r.Method = strings.ToUpper(rapid.SampledFrom(rule.Methods).Draw(t, "am"))
		if r.Method != "GET" && r.Method != "HEAD" && r.Method != "OPTIONS" && (r.Key == "key" || r.Key == "") {
			r.Key = "tmp"
		}
	}
	switch rapid.IntRange(0, 29).Draw(t, "oq") {
	case 1:
		r.Origin = []string{" " + origin + " "}
	case 2:
		r.Origin = []string{rapid.SampledFrom(plainOrigins).Draw(t, "o2"), origin}
	case 19:
		r.Origin = []string{""}
	case 23:
		r.Origin = []string{"  "}
	}
	if kind == "preflight" {
		m := rapid.SampledFrom(append([]string{"PATCH", "OPTIONS"}, methodsPool...)).Draw(t, "acrm")
		if rule != nil && len(rule.Methods) > 0 && rapid.IntRange(0, 9).Draw(t, "useM") < 7 {
			m = rapid.SampledFrom(rule.Methods).Draw(t, "rm")
		}
		switch rapid.IntRange(0, 19).Draw(t, "mq") {
		case 1:
			m = strings.ToLower(m)
		case 2:
			m = " " + m + " "
		case 11:
			m = "BREW"
		}
		r.ACRM = []string{m}
		n := rapid.SampledFrom([]int{0, 1, 1, 2, 2, 3}).Draw(t, "nh")
		var items []string
		for i := 0; i < n; i++ {
			h := rapid.SampledFrom([]string{"content-type", "x-amz-date", "authorization", "x-evil", "x-amz-meta-a", "x-req-id", "range"}).Draw(t, "h")
			if rule != nil && len(rule.Headers) > 0 && rapid.IntRange(0, 9).Draw(t, "useH") < 7 {
				h = instantiate(t, rapid.SampledFrom(rule.Headers).Draw(t, "hp"), "h")
			}
			if strings.ContainsAny(h, ",") {
				h = "x-comma"
			}
			items = append(items, h)
		}
		if n > 0 {
			sep := rapid.SampledFrom([]string{", ", ",", " , ", ",,"}).Draw(t, "sep")
			if n >= 2 && rapid.IntRange(0, 7).Draw(t, "multiline") == 0 {
				r.ACRH = []string{strings.Join(items[:1], sep), strings.Join(items[1:], sep)}
			} else {
				r.ACRH = []string{strings.Join(items, sep)}
			}
			if rapid.IntRange(0, 9).Draw(t, "dupH") == 0 {
				r.ACRH[0] += sep + items[0]
			}
		}
	}
	return r
}

func genCase(t *rapid.T, env *ev.Env) Case {
	c := Case{}
	// server cases open a real storage (tens of ms, far more on a loaded machine):
	// 1 in 10, but longer, so the volume of server-mode requests stays useful.
	lo, hi := 3, 14
	if rapid.IntRange(0, 11).Draw(t, "mode") == 7 {
		c.Mode = "server"
		lo, hi = 8, 24
	} else {
		c.Mode = "mw"
	}
	var cur [3][]Rule // generator's view of the configurations (optimistic: assumes PUT accepted)
	n := rapid.IntRange(lo, hi).Draw(t, "steps")
	for i := 0; i < n; i++ {
		k := rapid.IntRange(0, 19).Draw(t, "stepKind")
		switch {
		case i == 0 || k == 7 || k == 13:
			b := 0
			if c.Mode == "server" {
				b = rapid.SampledFrom([]int{0, 1}).Draw(t, "pb")
			}
			rules := rapid.SliceOfN(rapid.Custom(genRule), 1, 3).Draw(t, "rules")
			during := genDuring(t, &cur, c.Mode, b, i)
			cur[b] = rules
			c.Steps = append(c.Steps, Step{Kind: "put", Bucket: b, Rules: rules, During: during})
		case k == 17 && i > 1 && c.Mode == "server":
			during := genDuring(t, &cur, c.Mode, 1, i)
			cur[1] = nil
			c.Steps = append(c.Steps, Step{Kind: "recreate", Bucket: 1, During: during})
		case k == 11 && i > 1:
			b := 0
			if c.Mode == "server" {
				b = rapid.SampledFrom([]int{0, 1}).Draw(t, "db")
			}
			during := genDuring(t, &cur, c.Mode, b, i)
			cur[b] = nil
			c.Steps = append(c.Steps, Step{Kind: "del", Bucket: b, During: during})
		default:
			c.Steps = append(c.Steps, Step{Kind: "req", Req: genReq(t, &cur, c.Mode)})
		}
	}
	return c
}

// genDuring: for half of the configuration writes that replace an existing configuration (server mode), a
// CORS request on that bucket drawn against the configuration that is about to be replaced.
func genDuring(t *rapid.T, cur *[3][]Rule, mode string, b, i int) *Req {
	if mode != "server" || i == 0 || cur[b] == nil || !rapid.Bool().Draw(t, "during") {
		return nil
	}
	var r *Req
	for try := 0; try < 4; try++ {
		r = genReq(t, cur, mode)
		if r.Bucket == b && r.Origin != nil {
			break
		}
	}
	r.Bucket = b
	if r.Origin == nil {
		r.Origin = []string{"http://example.com"}
	}
	if r.Method != "OPTIONS" && r.Method != "GET" && r.Method != "HEAD" {
		r.Method = "GET" // the in-flight request itself must not change state
		r.Key = "key"
	}
	return r
}

func directed(env *ev.Env) []Case {
	rule := Rule{Origins: []string{"https://*.example.com"}, Methods: []string{"GET", "PUT"}, Headers: []string{"x-amz-*", "content-type"}}
	star := Rule{Origins: []string{"*"}, Methods: []string{"GET"}}
	pre := func(origin, m string, h ...string) Step {
		r := &Req{Method: "OPTIONS", Bucket: 0, Key: "key", Origin: []string{origin}, ACRM: []string{m}}
		if len(h) > 0 {
			r.ACRH = []string{strings.Join(h, ", ")}
		}
		return Step{Kind: "req", Req: r}
	}
	act := func(b int, origin, m string, vh bool) Step {
		key := "key"
		if m != "GET" && m != "HEAD" {
			key = "tmp" // keep the fixture object intact
		}
		return Step{Kind: "req", Req: &Req{Method: m, Bucket: b, Key: key, VHost: vh, Origin: []string{origin}}}
	}
	non := func(b int, m string) Step { return Step{Kind: "req", Req: &Req{Method: m, Bucket: b, Key: "key"}} }
	var cs []Case
	for _, mode := range []string{"server", "mw"} {
		cs = append(cs, Case{Mode: mode, Steps: []Step{
			non(0, "GET"),
			{Kind: "put", Bucket: 0, Rules: []Rule{rule}},
			pre("https://app.example.com", "PUT", "x-amz-date", "content-type"),
			pre("https://app.example.com", "PUT", "x-amz-date", "x-evil"),
			pre("https://example.com", "PUT"),
			pre("https://app.example.com", "DELETE"),
			pre("https://app.example.com.evil.org", "GET"),
			act(0, "https://app.example.com", "GET", false),
			act(0, "https://app.example.com", "GET", true),
			act(1, "https://app.example.com", "GET", false),
			act(0, "http://app.example.com", "GET", false),
			non(0, "GET"), non(0, "HEAD"), non(1, "GET"),
			{Kind: "put", Bucket: 0, Rules: []Rule{star}},
			act(0, "https://app.example.com", "GET", false),
			act(0, "https://app.example.com", "PUT", false),
			pre("https://app.example.com", "PUT"),
			{Kind: "del", Bucket: 0},
			act(0, "https://app.example.com", "GET", false),
			pre("https://app.example.com", "GET"),
			non(0, "GET"),
		}})
	}
	// bucket deleted and re-created: its configuration is gone
	cs = append(cs, Case{Mode: "server", Steps: []Step{
		{Kind: "put", Bucket: 1, Rules: []Rule{star}},
		act(1, "https://app.example.com", "GET", false),
		{Kind: "recreate", Bucket: 1},
		act(1, "https://app.example.com", "GET", false),
		{Kind: "req", Req: &Req{Method: "OPTIONS", Bucket: 1, Key: "key", Origin: []string{"https://app.example.com"}, ACRM: []string{"GET"}}},
	}})
	return cs
}

func TestC34(t *testing.T) {
	// self-check of the glob matcher
	for _, tc := range []struct {
		p, v string
		want bool
	}{{"*", "", true}, {"a*", "a", true}, {"*a", "ba", true}, {"ab*ba", "aba", false}, {"ab*ba", "abba", true}, {"a?c", "abc", false}, {"a?c", "a?c", true},
		{"a*b*c", "aXbYc", true}, {"a*b*c", "ac", false}, {"http://*.example.com", "http://x.example.com", true}, {"http://*.example.com", "http://example.com", false}} {
		if glob(tc.p, tc.v) != tc.want {
			t.Fatalf("glob(%q,%q) != %v", tc.p, tc.v, tc.want)
		}
	}
	ev.Main(t, ev.Spec[Case]{
		ID:    "C34",
		Level: "exploration",
		Rule: "a case is a sequence of steps (install rule set / delete configuration / send request) in mode server (full SetupServer, two buckets, path-style and virtual-hosted) or mw (CORS middleware alone); " +
			"non-trivial when a CORS request consulted a rule whose origin or header pattern has a '*' that is not at an end, or a preflight listed >=2 requested headers; distinct = distinct case JSON",
		Assumptions: []string{
			"the independent matcher is a general glob, case-insensitive under ToLower/ToUpper/simple folding, on trimmed and untrimmed operands: the most permissive reading; only grants it cannot justify are violations",
			"multiple field lines of Origin / Access-Control-Request-Method may each justify a grant; multiple Access-Control-Request-Headers lines are read as one combined list (RFC 9110 5.3)",
			"the model takes a configuration as installed iff PUT ?cors answered 200 (server) / NormalizeAndValidateCORSRules returned no error (mw)",
		},
		Gen:      genCase,
		Run:      run,
		Directed: directed,
	})
}
