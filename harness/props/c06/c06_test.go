// Package c06 checks property C06: following the continuation markers of
// ListObjects (v1, v2), ListObjectVersions, ListMultipartUploads and ListParts
// until IsTruncated=false yields every matching entry exactly once, in S3
// order, and nothing else (byte-exact prefix, CommonPrefixes by the first
// delimiter occurrence after the prefix).
package c06

import (
	"bytes"
	"context"
	"encoding/xml"
	"fmt"
	"net/http"
	"net/url"
	"os"
	"sort"
	"strconv"
	"strings"
	"testing"
	"unicode/utf8"

	"github.com/jdillenkofer/pithos/internal/storage"
	"github.com/jdillenkofer/pithos/verifharness/ev"
	"github.com/jdillenkofer/pithos/verifharness/s3http"
	"github.com/jdillenkofer/pithos/verifharness/stacks"
	"pgregory.net/rapid"
)

// ---- case ---------------------------------------------------------------------------

// Step builds state. Op: put | del | enable | suspend | mpu.
type Step struct {
	Op    string `json:"op"`
	Key   int    `json:"key,omitempty"`
	Parts []int  `json:"parts,omitempty"` // mpu: part numbers uploaded, in this order (a repeat replaces)
}

// Query is one listing walk.
type Query struct {
	API    string  `json:"api"`              // objects | versions | uploads | parts
	Via    string  `json:"via"`              // storage | v1 | v2 | http
	Prefix *string `json:"prefix,omitempty"` // nil = parameter absent
	Delim  string  `json:"delim,omitempty"`
	Page   int     `json:"page"`            // page size (max-keys / max-uploads / max-parts)
	Start  *string `json:"start,omitempty"` // marker / start-after / key-marker / part-number-marker of the first request
	Upload int     `json:"upload,omitempty"`
	// RepeatStart (via v2): follow-up requests carry start-after next to the continuation token, as the AWS SDK
	// paginators do (all original parameters are repeated); the token takes precedence.
	RepeatStart bool `json:"repeatStart,omitempty"`
}

type Case struct {
	Keys    []string `json:"keys"`
	Steps   []Step   `json:"steps"`
	Queries []Query  `json:"queries"`
}

// ---- oracle (pure functions) ------------------------------------------------------------

// item is one listed entry: an object (Sub=""), a version (Sub=version id), an
// upload (Sub=upload id) or a part (Key=decimal part number).
type item struct {
	Key string
	Sub string
	DM  bool
}

func (i item) String() string {
	s := strconv.Quote(i.Key)
	if i.Sub != "" {
		s += "@" + i.Sub
	}
	if i.DM {
		s += "(dm)"
	}
	return s
}

type listing struct {
	Items []item
	CPs   []string
}

// expectList is the C06 oracle: entries (already in S3 order) that come after
// the start marker and whose key starts byte-for-byte with prefix; with a
// delimiter, entries whose key contains it after the prefix are rolled up into
// the common prefix ending at its first occurrence. match decides prefix
// membership (byte-exact for the oracle, LIKE for the known-finding model).
func expectList(entries []item, prefix, delim string, start *string, match func(key string) bool) listing {
	var out listing
	seen := map[string]bool{}
	for _, e := range entries {
		if start != nil && !(e.Key > *start) {
			continue
		}
		if !match(e.Key) {
			continue
		}
		if delim != "" && strings.HasPrefix(e.Key, prefix) {
			rest := e.Key[len(prefix):]
			if i := strings.Index(rest, delim); i >= 0 {
				cp := prefix + rest[:i+len(delim)]
				if !seen[cp] {
					seen[cp] = true
					out.CPs = append(out.CPs, cp)
				}
				continue
			}
		}
		out.Items = append(out.Items, e)
	}
	return out
}

// likeMatch implements SQLite's default LIKE: '%' any sequence, '_' exactly one
// character, ASCII letters compared case-insensitively, no escape character.
func likeMatch(pat, s []rune) bool {
	for len(pat) > 0 {
		switch pat[0] {
		case '%':
			for len(pat) > 0 && pat[0] == '%' {
				pat = pat[1:]
			}
			if len(pat) == 0 {
				return true
			}
			for i := 0; i <= len(s); i++ {
				if likeMatch(pat, s[i:]) {
					return true
				}
			}
			return false
		case '_':
			if len(s) == 0 {
				return false
			}
		default:
			if len(s) == 0 || foldASCII(pat[0]) != foldASCII(s[0]) {
				return false
			}
		}
		pat, s = pat[1:], s[1:]
	}
	return len(s) == 0
}

func foldASCII(r rune) rune {
	if r >= 'A' && r <= 'Z' {
		return r + 32
	}
	return r
}

func likePrefix(prefix, key string) bool {
	return likeMatch([]rune(prefix+"%"), []rune(key))
}

// likeActive: the prefix contains a character on which LIKE and byte-exact
// comparison can disagree.
func likeActive(prefix string) bool {
	for _, r := range prefix {
		if r == '%' || r == '_' || r >= 'a' && r <= 'z' || r >= 'A' && r <= 'Z' {
			return true
		}
	}
	return false
}

func hostile(s string) bool {
	for _, r := range s {
		if r == '%' || r == '_' || r >= 'A' && r <= 'Z' || r >= utf8.RuneSelf {
			return true
		}
	}
	return false
}

// ---- mini model of what exists -----------------------------------------------------------

type ver struct {
	ID string
	DM bool
}

type upload struct {
	Key   string
	ID    string
	Parts map[int]bool
}

type state struct {
	versioning string // "" | Enabled | Suspended
	keys       map[string][]ver
	uploads    []*upload // creation order
}

func (s *state) sortedKeys() []string {
	ks := make([]string, 0, len(s.keys))
	for k, vs := range s.keys {
		if len(vs) > 0 {
			ks = append(ks, k)
		}
	}
	sort.Strings(ks) // Go string comparison = UTF-8 byte order
	return ks
}

func (s *state) objectEntries() []item {
	var out []item
	for _, k := range s.sortedKeys() {
		vs := s.keys[k]
		if !vs[len(vs)-1].DM {
			out = append(out, item{Key: k})
		}
	}
	return out
}

// versionEntries: key ascending, per key newest first (reverse write order).
func (s *state) versionEntries() []item {
	var out []item
	for _, k := range s.sortedKeys() {
		vs := s.keys[k]
		for i := len(vs) - 1; i >= 0; i-- {
			out = append(out, item{Key: k, Sub: vs[i].ID, DM: vs[i].DM})
		}
	}
	return out
}

// uploadEntries: key ascending, per key in initiation order.
func (s *state) uploadEntries() []item {
	ups := append([]*upload{}, s.uploads...)
	sort.SliceStable(ups, func(i, j int) bool { return ups[i].Key < ups[j].Key })
	var out []item
	for _, u := range ups {
		out = append(out, item{Key: u.Key, Sub: u.ID})
	}
	return out
}

func removeNull(vs []ver) []ver {
	out := vs[:0:0]
	for _, v := range vs {
		if v.ID != "null" {
			out = append(out, v)
		}
	}
	return out
}

const bucket = "bkt"

func buildState(st storage.Storage, c Case) (*state, error) {
	ctx := context.Background()
	bn := storage.MustNewBucketName(bucket)
	if err := st.CreateBucket(ctx, bn); err != nil {
		return nil, err
	}
	s := &state{keys: map[string][]ver{}}
	for i, step := range c.Steps {
		switch step.Op {
		case "enable", "suspend":
			status := storage.BucketVersioningStatusEnabled
			if step.Op == "suspend" {
				status = storage.BucketVersioningStatusSuspended
			}
			if err := st.PutBucketVersioningConfiguration(ctx, bn, &storage.BucketVersioningConfiguration{Status: &status}); err != nil {
				return nil, fmt.Errorf("step %d %s: %w", i, step.Op, err)
			}
			s.versioning = string(status)
			continue
		}
		if len(c.Keys) == 0 {
			continue
		}
		k := c.Keys[step.Key%len(c.Keys)]
		key, err := storage.NewObjectKey(k)
		if err != nil {
			return nil, fmt.Errorf("step %d: key %q: %w", i, k, err)
		}
		switch step.Op {
		case "put":
			res, err := st.PutObject(ctx, bn, key, nil, bytes.NewReader([]byte{byte(i)}), nil, nil)
			if err != nil {
				return nil, fmt.Errorf("step %d put %q: %w", i, k, err)
			}
			if s.versioning == "Enabled" {
				if res.VersionID == nil || *res.VersionID == "" || *res.VersionID == "null" {
					return nil, fmt.Errorf("step %d put %q in an Enabled bucket returned no version id", i, k)
				}
				s.keys[k] = append(s.keys[k], ver{ID: *res.VersionID})
			} else {
				s.keys[k] = append(removeNull(s.keys[k]), ver{ID: "null"})
			}
		case "del":
			res, err := st.DeleteObject(ctx, bn, key, nil)
			if err != nil {
				return nil, fmt.Errorf("step %d del %q: %w", i, k, err)
			}
			switch s.versioning {
			case "":
				s.keys[k] = removeNull(s.keys[k])
			case "Enabled":
				if res == nil || res.VersionID == nil || *res.VersionID == "" {
					return nil, fmt.Errorf("step %d del %q in an Enabled bucket returned no delete-marker id", i, k)
				}
				s.keys[k] = append(s.keys[k], ver{ID: *res.VersionID, DM: true})
			default:
				// Suspended deletes are not generated (marker id is a don't-care, DESIGN 2.3.1).
				return nil, fmt.Errorf("step %d: delete in a Suspended bucket is outside the generated domain", i)
			}
		case "mpu":
			res, err := st.CreateMultipartUpload(ctx, bn, key, nil, nil, nil)
			if err != nil {
				return nil, fmt.Errorf("step %d mpu %q: %w", i, k, err)
			}
			u := &upload{Key: k, ID: res.UploadId.String(), Parts: map[int]bool{}}
			for _, pn := range step.Parts {
				if _, err := st.UploadPart(ctx, bn, key, res.UploadId, int32(pn), bytes.NewReader([]byte{byte(pn)}), nil); err != nil {
					return nil, fmt.Errorf("step %d mpu %q part %d: %w", i, k, pn, err)
				}
				u.Parts[pn] = true
			}
			s.uploads = append(s.uploads, u)
		default:
			return nil, fmt.Errorf("step %d: unknown op %q", i, step.Op)
		}
	}
	return s, nil
}

// ---- walkers ---------------------------------------------------------------------------------

type walk struct {
	got   listing
	dms   []item // HTTP versions listing: delete markers are a separate element list
	split bool   // dms hold the delete markers (HTTP); otherwise they are inline in got.Items
	pages int
	err   string // protocol-level failure (non-200, no way to continue, page cap exceeded)
	stuck bool   // err is "cannot continue" / "page cap exceeded" (as opposed to an error response)
}

func sp(s string) *string { return &s }

func normVid(v string) string {
	if v == "" {
		return "null"
	}
	return v
}

// XML response shapes (own structs, decoded with encoding/xml).
type xmlCP struct {
	Prefix string `xml:"Prefix"`
}
type xmlListBucket struct {
	IsTruncated bool `xml:"IsTruncated"`
	Contents    []struct {
		Key string `xml:"Key"`
	} `xml:"Contents"`
	CommonPrefixes        []xmlCP `xml:"CommonPrefixes"`
	NextMarker            *string `xml:"NextMarker"`
	NextContinuationToken *string `xml:"NextContinuationToken"`
}
type xmlVer struct {
	Key       string `xml:"Key"`
	VersionID string `xml:"VersionId"`
}
type xmlListVersions struct {
	IsTruncated         bool     `xml:"IsTruncated"`
	Versions            []xmlVer `xml:"Version"`
	DeleteMarkers       []xmlVer `xml:"DeleteMarker"`
	CommonPrefixes      []xmlCP  `xml:"CommonPrefixes"`
	NextKeyMarker       *string  `xml:"NextKeyMarker"`
	NextVersionIDMarker *string  `xml:"NextVersionIdMarker"`
}
type xmlListUploads struct {
	IsTruncated bool `xml:"IsTruncated"`
	Uploads     []struct {
		Key      string `xml:"Key"`
		UploadID string `xml:"UploadId"`
	} `xml:"Upload"`
	CommonPrefixes     []xmlCP `xml:"CommonPrefixes"`
	NextKeyMarker      *string `xml:"NextKeyMarker"`
	NextUploadIDMarker *string `xml:"NextUploadIdMarker"`
}
type xmlListParts struct {
	IsTruncated bool `xml:"IsTruncated"`
	Parts       []struct {
		PartNumber int `xml:"PartNumber"`
	} `xml:"Part"`
	NextPartNumberMarker *string `xml:"NextPartNumberMarker"`
}

func httpGet(h http.Handler, path string, q url.Values, into any) string {
	rec := s3http.Do(h, "GET", path, q, nil, nil)
	if rec.Code != 200 {
		return fmt.Sprintf("HTTP %d: %s", rec.Code, strings.TrimSpace(rec.Body.String()))
	}
	if err := xml.Unmarshal(rec.Body.Bytes(), into); err != nil {
		return "response is not well-formed XML: " + err.Error()
	}
	return ""
}

func baseQuery(q Query, sizeParam string) url.Values {
	v := url.Values{}
	if q.Prefix != nil {
		v.Set("prefix", *q.Prefix)
	}
	if q.Delim != "" {
		v.Set("delimiter", q.Delim)
	}
	v.Set(sizeParam, strconv.Itoa(q.Page))
	return v
}

func addCPs(l *listing, cps []string) { l.CPs = append(l.CPs, cps...) }

func cpStrings(x []xmlCP) []string {
	out := make([]string, len(x))
	for i, c := range x {
		out[i] = c.Prefix
	}
	return out
}

// walkObjects follows one ListObjects walk to the end (or to the page bound).
func walkObjects(st storage.Storage, h http.Handler, q Query, maxPages int) (w walk) {
	ctx := context.Background()
	bn := storage.MustNewBucketName(bucket)
	marker := q.Start
	var delim *string
	if q.Delim != "" {
		delim = sp(q.Delim)
	}
	for {
		if w.pages >= maxPages {
			w.err = fmt.Sprintf("walk did not terminate within %d pages", maxPages)
			w.stuck = true
			return
		}
		w.pages++
		switch q.Via {
		case "storage":
			// storage.ListObjects defines no continuation marker of its own: without a
			// delimiter pages are chained by StartAfter = last key (the convention of
			// storage.ListAllObjectsOfBucket); with a delimiter only a single page that
			// fits everything is checked (DESIGN.md C06).
			page := int32(q.Page)
			if delim != nil {
				page = 1000
			}
			res, err := st.ListObjects(ctx, bn, storage.ListObjectsOptions{Prefix: q.Prefix, Delimiter: delim, StartAfter: marker, MaxKeys: page})
			if err != nil {
				w.err = "ListObjects: " + err.Error()
				return
			}
			for _, o := range res.Objects {
				w.got.Items = append(w.got.Items, item{Key: o.Key.String()})
			}
			addCPs(&w.got, res.CommonPrefixes)
			if !res.IsTruncated {
				return
			}
			if delim != nil {
				w.err = "storage page with MaxKeys=1000 over fewer than 1000 entries reports IsTruncated"
				w.stuck = true
				return
			}
			if len(res.Objects) == 0 {
				w.err = "truncated storage page without objects: no key to continue from"
				w.stuck = true
				return
			}
			// the convention storage.ListAllObjectsOfBucket itself uses
			marker = sp(res.Objects[len(res.Objects)-1].Key.String())
		case "v1":
			v := baseQuery(q, "max-keys")
			if marker != nil {
				v.Set("marker", *marker)
			}
			var x xmlListBucket
			if e := httpGet(h, "/"+bucket, v, &x); e != "" {
				w.err = e
				return
			}
			for _, o := range x.Contents {
				w.got.Items = append(w.got.Items, item{Key: o.Key})
			}
			addCPs(&w.got, cpStrings(x.CommonPrefixes))
			if !x.IsTruncated {
				return
			}
			switch {
			case x.NextMarker != nil:
				marker = x.NextMarker
			case len(x.Contents) > 0:
				marker = sp(x.Contents[len(x.Contents)-1].Key) // S3 client convention
			default:
				w.err = "truncated v1 page without NextMarker and without Contents: client cannot continue"
				w.stuck = true
				return
			}
		case "v2":
			v := baseQuery(q, "max-keys")
			v.Set("list-type", "2")
			if w.pages == 1 {
				if q.Start != nil {
					v.Set("start-after", *q.Start)
				}
			} else {
				v.Set("continuation-token", *marker)
				if q.RepeatStart && q.Start != nil {
					v.Set("start-after", *q.Start)
				}
			}
			var x xmlListBucket
			if e := httpGet(h, "/"+bucket, v, &x); e != "" {
				w.err = e
				return
			}
			for _, o := range x.Contents {
				w.got.Items = append(w.got.Items, item{Key: o.Key})
			}
			addCPs(&w.got, cpStrings(x.CommonPrefixes))
			if !x.IsTruncated {
				return
			}
			if x.NextContinuationToken == nil {
				w.err = "truncated v2 page without NextContinuationToken"
				w.stuck = true
				return
			}
			marker = x.NextContinuationToken
		default:
			w.err = "harness: bad via " + q.Via
			return
		}
	}
}

func walkVersions(st storage.Storage, h http.Handler, q Query, maxPages int) (w walk) {
	ctx := context.Background()
	bn := storage.MustNewBucketName(bucket)
	keyMarker := q.Start
	var vidMarker *string
	var delim *string
	if q.Delim != "" {
		delim = sp(q.Delim)
	}
	w.split = q.Via == "http"
	for {
		if w.pages >= maxPages {
			w.err = fmt.Sprintf("walk did not terminate within %d pages", maxPages)
			w.stuck = true
			return
		}
		w.pages++
		if q.Via == "storage" {
			res, err := st.ListObjectVersions(ctx, bn, storage.ListObjectVersionsOptions{Prefix: q.Prefix, Delimiter: delim, KeyMarker: keyMarker, VersionIDMarker: vidMarker, MaxKeys: int32(q.Page)})
			if err != nil {
				w.err = "ListObjectVersions: " + err.Error()
				return
			}
			for _, v := range res.Versions {
				w.got.Items = append(w.got.Items, item{Key: v.Key.String(), Sub: normVid(v.VersionID), DM: v.IsDeleteMarker})
			}
			addCPs(&w.got, res.CommonPrefixes)
			if !res.IsTruncated {
				return
			}
			if res.NextKeyMarker == nil {
				w.err = "truncated versions page without NextKeyMarker"
				w.stuck = true
				return
			}
			keyMarker, vidMarker = res.NextKeyMarker, res.NextVersionIDMarker
			continue
		}
		v := baseQuery(q, "max-keys")
		v.Set("versions", "")
		if keyMarker != nil {
			v.Set("key-marker", *keyMarker)
		}
		if vidMarker != nil {
			v.Set("version-id-marker", *vidMarker)
		}
		var x xmlListVersions
		if e := httpGet(h, "/"+bucket, v, &x); e != "" {
			w.err = e
			return
		}
		for _, e := range x.Versions {
			w.got.Items = append(w.got.Items, item{Key: e.Key, Sub: normVid(e.VersionID)})
		}
		for _, e := range x.DeleteMarkers {
			w.dms = append(w.dms, item{Key: e.Key, Sub: normVid(e.VersionID), DM: true})
		}
		addCPs(&w.got, cpStrings(x.CommonPrefixes))
		if !x.IsTruncated {
			return
		}
		if x.NextKeyMarker == nil {
			w.err = "truncated versions page without NextKeyMarker"
			w.stuck = true
			return
		}
		keyMarker, vidMarker = x.NextKeyMarker, x.NextVersionIDMarker
	}
}

func walkUploads(st storage.Storage, h http.Handler, q Query, maxPages int) (w walk) {
	ctx := context.Background()
	bn := storage.MustNewBucketName(bucket)
	keyMarker := q.Start
	var idMarker *string
	var delim *string
	if q.Delim != "" {
		delim = sp(q.Delim)
	}
	for {
		if w.pages >= maxPages {
			w.err = fmt.Sprintf("walk did not terminate within %d pages", maxPages)
			w.stuck = true
			return
		}
		w.pages++
		if q.Via == "storage" {
			res, err := st.ListMultipartUploads(ctx, bn, storage.ListMultipartUploadsOptions{Prefix: q.Prefix, Delimiter: delim, KeyMarker: keyMarker, UploadIdMarker: idMarker, MaxUploads: int32(q.Page)})
			if err != nil {
				w.err = "ListMultipartUploads: " + err.Error()
				return
			}
			for _, u := range res.Uploads {
				w.got.Items = append(w.got.Items, item{Key: u.Key.String(), Sub: u.UploadId.String()})
			}
			addCPs(&w.got, res.CommonPrefixes)
			if !res.IsTruncated {
				return
			}
			if res.NextKeyMarker == "" {
				w.err = "truncated uploads page without NextKeyMarker"
				w.stuck = true
				return
			}
			keyMarker, idMarker = sp(res.NextKeyMarker), sp(res.NextUploadIdMarker)
			continue
		}
		v := baseQuery(q, "max-uploads")
		v.Set("uploads", "")
		if keyMarker != nil {
			v.Set("key-marker", *keyMarker)
		}
		if idMarker != nil {
			v.Set("upload-id-marker", *idMarker)
		}
		var x xmlListUploads
		if e := httpGet(h, "/"+bucket, v, &x); e != "" {
			w.err = e
			return
		}
		for _, u := range x.Uploads {
			w.got.Items = append(w.got.Items, item{Key: u.Key, Sub: u.UploadID})
		}
		addCPs(&w.got, cpStrings(x.CommonPrefixes))
		if !x.IsTruncated {
			return
		}
		if x.NextKeyMarker == nil {
			w.err = "truncated uploads page without NextKeyMarker"
			w.stuck = true
			return
		}
		keyMarker, idMarker = x.NextKeyMarker, x.NextUploadIDMarker
	}
}

func walkParts(st storage.Storage, h http.Handler, q Query, u *upload, maxPages int) (w walk) {
	ctx := context.Background()
	bn := storage.MustNewBucketName(bucket)
	key := storage.MustNewObjectKey(u.Key)
	uid := storage.MustNewUploadId(u.ID)
	marker := q.Start
	for {
		if w.pages >= maxPages {
			w.err = fmt.Sprintf("walk did not terminate within %d pages", maxPages)
			w.stuck = true
			return
		}
		w.pages++
		if q.Via == "storage" {
			res, err := st.ListParts(ctx, bn, key, uid, storage.ListPartsOptions{PartNumberMarker: marker, MaxParts: int32(q.Page)})
			if err != nil {
				w.err = "ListParts: " + err.Error()
				return
			}
			for _, p := range res.Parts {
				w.got.Items = append(w.got.Items, item{Key: strconv.Itoa(int(p.PartNumber))})
			}
			if !res.IsTruncated {
				return
			}
			if res.NextPartNumberMarker == nil {
				w.err = "truncated parts page without NextPartNumberMarker"
				w.stuck = true
				return
			}
			marker = res.NextPartNumberMarker
			continue
		}
		v := url.Values{}
		v.Set("uploadId", u.ID)
		v.Set("max-parts", strconv.Itoa(q.Page))
		if marker != nil {
			v.Set("part-number-marker", *marker)
		}
		var x xmlListParts
		if e := httpGet(h, "/"+bucket+"/"+s3http.EscapeKey(u.Key), v, &x); e != "" {
			w.err = e
			return
		}
		for _, p := range x.Parts {
			w.got.Items = append(w.got.Items, item{Key: strconv.Itoa(p.PartNumber)})
		}
		if !x.IsTruncated {
			return
		}
		if x.NextPartNumberMarker == nil {
			w.err = "truncated parts page without NextPartNumberMarker"
			w.stuck = true
			return
		}
		marker = x.NextPartNumberMarker
	}
}

// ---- comparison ------------------------------------------------------------------------------

func itemsEqual(a, b []item) bool {
	if len(a) != len(b) {
		return false
	}
	for i := range a {
		if a[i] != b[i] {
			return false
		}
	}
	return true
}

func stringsEqual(a, b []string) bool {
	if len(a) != len(b) {
		return false
	}
	for i := range a {
		if a[i] != b[i] {
			return false
		}
	}
	return true
}

func splitDM(items []item) (objs, dms []item) {
	for _, i := range items {
		if i.DM {
			dms = append(dms, i)
		} else {
			objs = append(objs, i)
		}
	}
	return
}

// sameListing compares an observed walk with an expected listing. The HTTP
// versions response carries versions and delete markers in two element lists,
// so there the two sub-sequences are compared separately.
func sameListing(w walk, exp listing) bool {
	if !stringsEqual(w.got.CPs, exp.CPs) {
		return false
	}
	if w.split {
		eo, ed := splitDM(exp.Items)
		return itemsEqual(w.got.Items, eo) && itemsEqual(w.dms, ed)
	}
	return itemsEqual(w.got.Items, exp.Items)
}

func fmtItems(items []item) string {
	ss := make([]string, len(items))
	for i, it := range items {
		ss[i] = it.String()
	}
	return "[" + strings.Join(ss, " ") + "]"
}

func fmtWalk(w walk) string {
	s := fmtItems(w.got.Items)
	if w.split {
		s += " dms=" + fmtItems(w.dms)
	}
	return s + fmt.Sprintf(" cps=%q pages=%d", w.got.CPs, w.pages)
}

func fmtQuery(q Query) string {
	p := "<nil>"
	if q.Prefix != nil {
		p = strconv.Quote(*q.Prefix)
	}
	s := "<nil>"
	if q.Start != nil {
		s = strconv.Quote(*q.Start)
	}
	return fmt.Sprintf("%s via %s prefix=%s delim=%q page=%d start=%s", q.API, q.Via, p, q.Delim, q.Page, s)
}

// ---- run -------------------------------------------------------------------------------------------

func runCase(env *ev.Env, c Case) (o ev.Outcome) {
	dir := env.TempDir()
	defer os.RemoveAll(dir)
	inst, err := stacks.Open(dir, stacks.Layout{Default: "mem"}, stacks.Options{})
	if err != nil {
		o.Failf("harness: open: %v", err)
		return
	}
	defer inst.Close()
	st := inst.Storage
	s, err := buildState(st, c)
	if err != nil {
		o.Failf("harness: building the state failed: %v", err)
		return
	}
	h := s3http.NewHandler(st)

	hostileKeys := false
	for _, k := range c.Keys {
		if hostile(k) {
			hostileKeys = true
		}
	}
	multiPageDelim := false
	hostileQuery := false

	for qi, q := range c.Queries {
		prefix := ""
		if q.Prefix != nil {
			prefix = *q.Prefix
		}
		var entries []item
		var u *upload
		switch q.API {
		case "objects":
			entries = s.objectEntries()
		case "versions":
			entries = s.versionEntries()
		case "uploads":
			entries = s.uploadEntries()
		case "parts":
			if len(s.uploads) == 0 {
				o.Class("skip:parts-without-upload")
				continue
			}
			u = s.uploads[q.Upload%len(s.uploads)]
		}
		// --- oracle -----------------------------------------------------------------
		var exp listing
		if q.API == "parts" {
			var nums []int
			for pn := range u.Parts {
				nums = append(nums, pn)
			}
			sort.Ints(nums)
			after := 0
			if q.Start != nil {
				after, _ = strconv.Atoi(*q.Start)
			}
			for _, pn := range nums {
				if pn > after {
					exp.Items = append(exp.Items, item{Key: strconv.Itoa(pn)})
				}
			}
		} else {
			exp = expectList(entries, prefix, q.Delim, q.Start, func(k string) bool { return strings.HasPrefix(k, prefix) })
		}
		bound := len(exp.Items) + len(exp.CPs) + 2
		// The walk itself is allowed more pages than the bound so that a reading of a
		// known finding (which may list more entries) can still be recognised; the
		// oracle comparison below enforces the bound.
		pageCap := 3*(len(entries)+len(exp.Items)) + 8

		var w walk
		switch q.API {
		case "objects":
			w = walkObjects(st, h, q, pageCap)
		case "versions":
			w = walkVersions(st, h, q, pageCap)
		case "uploads":
			w = walkUploads(st, h, q, pageCap)
		case "parts":
			w = walkParts(st, h, q, u, pageCap)
		}
		o.Sub++
		o.Class("api:" + q.API + "/" + q.Via)
		if q.Delim != "" {
			o.Class("delim:yes")
		} else {
			o.Class("delim:no")
		}
		if w.pages >= 2 {
			o.Class("pages:>=2")
			if q.Delim != "" {
				o.Class("pages:>=2+delim")
				multiPageDelim = true
			}
		} else {
			o.Class("pages:1")
		}
		if len(exp.CPs) > 0 {
			o.Class("expected:has-common-prefixes")
		}
		switch n := len(exp.Items) + len(exp.CPs); {
		case n == 0:
			o.Class("expected:empty")
		case n >= 4:
			o.Class("expected:>=4-entries")
		}
		if q.Prefix != nil && hostile(prefix) {
			hostileQuery = true
			o.Class("prefix:hostile")
		}
		if q.Start != nil {
			o.Class("start-marker:yes")
		}

		if w.err == "" && sameListing(w, exp) && w.pages <= bound {
			continue
		}
		detail := w.err
		if detail == "" {
			detail = "listing differs"
			if sameListing(w, exp) {
				detail = fmt.Sprintf("walk needed %d pages, bound is len(expected)+2 = %d", w.pages, bound)
			}
		}

		// --- known findings: does a reading of an enabled finding predict exactly this? --
		if q.API != "parts" && (w.err == "" || w.stuck) {
			var cands []deviation
			for _, d := range []deviation{
				{like: true}, {delimPaging: true}, {nullLast: true},
				{like: true, delimPaging: true}, {like: true, nullLast: true},
				{segCP: true}, {segCP: true, delimPaging: true}, {segCP: true, like: true},
				{like: true, likePlain: true}, {like: true, likePlain: true, delimPaging: true}, {like: true, likePlain: true, nullLast: true},
			} {
				if d.like && !(env.Known("c06.likePrefix") && likeActive(prefix)) {
					continue
				}
				if d.likePlain && q.Delim == "" {
					continue
				}
				if d.delimPaging && !(env.Known("c06.delimiterPaging") && q.Delim != "" &&
					((q.API == "objects" && q.Via != "storage") || q.API == "uploads")) {
					continue
				}
				if d.nullLast && !(env.Known("c06.nullVersionLast") && q.API == "versions") {
					continue
				}
				if d.segCP && !(env.Known("c06.segmentCommonPrefix") && len(q.Delim) > 1) {
					continue
				}
				cands = append(cands, d)
			}
			explained := false
			for _, d := range cands {
				p := predict(q, prefix, entries, d, pageCap)
				if p.capped != w.stuck || !sameListing(w, p.lst) {
					continue
				}
				if !p.sim && w.pages > len(p.lst.Items)+len(p.lst.CPs)+2 {
					continue
				}
				for _, id := range d.ids() {
					o.KnownHits = append(o.KnownHits, id)
					o.Class("known:" + id)
				}
				explained = true
				break
			}
			if explained {
				continue
			}
		}
		o.Failf("query %d (%s): %s\n  expected: %s cps=%q\n  observed: %s", qi, fmtQuery(q), detail, fmtItems(exp.Items), exp.CPs, fmtWalk(w))
		return
	}
	o.NonTrivial = (hostileKeys || hostileQuery) && multiPageDelim
	return
}

// ---- generator ---------------------------------------------------------------------------------------

var alphabet = []string{"a", "A", "b", "%", "_", "/", "é", "中", " "}
var delims = []string{"/", "/", "%", "a", "//", "_", "b"}

func genSyms(t *rapid.T, min, max int, label string) string {
	n := rapid.IntRange(min, max).Draw(t, label+"_len")
	var sb strings.Builder
	for i := 0; i < n; i++ {
		sb.WriteString(rapid.SampledFrom(alphabet).Draw(t, label))
	}
	return sb.String()
}

func runePrefix(s string, n int) string {
	r := []rune(s)
	if n > len(r) {
		n = len(r)
	}
	return string(r[:n])
}

func gen(t *rapid.T, env *ev.Env) Case {
	var c Case
	nKeys := rapid.IntRange(1, 14).Draw(t, "nkeys")
	seen := map[string]bool{}
	for i := 0; i < nKeys; i++ {
		var k string
		if len(c.Keys) > 0 && rapid.IntRange(0, 9).Draw(t, "derive") < 5 {
			base := rapid.SampledFrom(c.Keys).Draw(t, "base")
			k = runePrefix(base, rapid.IntRange(1, 3).Draw(t, "keep")) + genSyms(t, 1, 2, "ext")
		} else {
			k = genSyms(t, 1, 4, "key")
		}
		if !seen[k] {
			seen[k] = true
			c.Keys = append(c.Keys, k)
		}
	}

	regime := rapid.SampledFrom([]string{"unversioned", "unversioned", "enabled", "enabled", "nullfirst", "suspended"}).Draw(t, "regime")
	nSteps := rapid.IntRange(len(c.Keys), len(c.Keys)+16).Draw(t, "nsteps")
	enableAt, suspendAt := -1, -1
	switch regime {
	case "enabled":
		enableAt = 0
	case "nullfirst":
		enableAt = rapid.IntRange(1, nSteps).Draw(t, "enableAt")
	case "suspended":
		enableAt = 0
		suspendAt = rapid.IntRange(1, nSteps).Draw(t, "suspendAt")
	}
	suspended := false
	for i := 0; i < nSteps; i++ {
		if i == enableAt {
			c.Steps = append(c.Steps, Step{Op: "enable"})
		}
		if i == suspendAt {
			c.Steps = append(c.Steps, Step{Op: "suspend"})
			suspended = true
		}
		ops := []string{"put", "put", "put", "put", "put", "put", "del", "del", "mpu", "mpu", "mpu"}
		if suspended {
			ops = []string{"put", "put", "mpu"}
		}
		st := Step{Op: rapid.SampledFrom(ops).Draw(t, "op"), Key: rapid.IntRange(0, len(c.Keys)-1).Draw(t, "k")}
		if i < len(c.Keys) {
			// first pass: most keys get an object or an upload
			st.Key = i
			if st.Op == "del" {
				st.Op = "put"
			}
		}
		if st.Op == "mpu" {
			st.Parts = rapid.SliceOfN(rapid.IntRange(1, 10), 0, 5).Draw(t, "parts")
		}
		c.Steps = append(c.Steps, st)
	}

	total := 0
	for _, s := range c.Steps {
		if s.Op == "put" || s.Op == "del" || s.Op == "mpu" {
			total++
		}
	}
	nQ := rapid.IntRange(3, 10).Draw(t, "nqueries")
	for i := 0; i < nQ; i++ {
		var q Query
		q.API = rapid.SampledFrom([]string{"objects", "objects", "objects", "objects", "objects", "versions", "versions", "versions", "uploads", "uploads", "uploads", "parts"}).Draw(t, "api")
		if q.API == "objects" {
			q.Via = rapid.SampledFrom([]string{"storage", "v1", "v1", "v2", "v2"}).Draw(t, "via")
		} else {
			q.Via = rapid.SampledFrom([]string{"storage", "http", "http"}).Draw(t, "via")
		}
		if q.API == "parts" {
			q.Upload = rapid.IntRange(0, 5).Draw(t, "upload")
			q.Page = rapid.IntRange(1, 9).Draw(t, "page")
			if rapid.IntRange(0, 3).Draw(t, "hasStart") == 0 {
				q.Start = sp(strconv.Itoa(rapid.IntRange(0, 10).Draw(t, "partMarker")))
			}
			c.Queries = append(c.Queries, q)
			continue
		}
		switch rapid.IntRange(0, 9).Draw(t, "prefixKind") {
		case 0, 1: // absent
		case 2:
			q.Prefix = sp("")
		case 3, 4, 5, 6, 7: // derived from a key, possibly disturbed so that LIKE and byte comparison disagree
			base := rapid.SampledFrom(c.Keys).Draw(t, "pbase")
			r := []rune(runePrefix(base, rapid.IntRange(1, 3).Draw(t, "plen")))
			switch rapid.IntRange(0, 8).Draw(t, "disturb") {
			case 0:
				j := rapid.IntRange(0, len(r)-1).Draw(t, "dj")
				if r[j] >= 'a' && r[j] <= 'z' {
					r[j] -= 32
				} else if r[j] >= 'A' && r[j] <= 'Z' {
					r[j] += 32
				}
			case 1:
				r[rapid.IntRange(0, len(r)-1).Draw(t, "dj")] = '_'
			case 2:
				r[rapid.IntRange(0, len(r)-1).Draw(t, "dj")] = '%'
			}
			q.Prefix = sp(string(r))
		default:
			q.Prefix = sp(genSyms(t, 1, 3, "prefix"))
		}
		if rapid.IntRange(0, 9).Draw(t, "hasDelim") < 6 {
			q.Delim = rapid.SampledFrom(delims).Draw(t, "delim")
		}
		maxPage := total + 1
		if maxPage > 12 {
			maxPage = 12
		}
		switch rapid.IntRange(0, 3).Draw(t, "pageKind") {
		case 0:
			q.Page = 1
		case 1:
			q.Page = 2
		default:
			q.Page = rapid.IntRange(1, maxPage).Draw(t, "page")
		}
		if rapid.IntRange(0, 4).Draw(t, "hasStart") == 0 {
			var m string
			if rapid.Bool().Draw(t, "startIsKey") {
				m = rapid.SampledFrom(c.Keys).Draw(t, "startKey")
			} else {
				m = genSyms(t, 1, 3, "start")
			}
			// With a delimiter a start marker that itself contains the delimiter falls
			// inside a rolled-up group; what S3 answers then is not fixed by the
			// property, so such markers are not generated.
			if q.Delim == "" || !strings.Contains(m, q.Delim) {
				q.Start = sp(m)
				q.RepeatStart = rapid.Bool().Draw(t, "repeatStart")
			}
		}
		c.Queries = append(c.Queries, q)
	}
	return c
}

// directed are fixed boundary cases the generator reaches rarely.
func directed(env *ev.Env) []Case {
	puts := func(n int) []Step {
		var st []Step
		for i := 0; i < n; i++ {
			st = append(st, Step{Op: "put", Key: i}, Step{Op: "mpu", Key: i, Parts: []int{3, 1, 2}})
		}
		return st
	}
	var all []Query
	q := func(api, via string, prefix *string, delim string, page int) {
		all = append(all, Query{API: api, Via: via, Prefix: prefix, Delim: delim, Page: page})
	}
	for _, via := range []string{"storage", "v1", "v2"} {
		q("objects", via, sp("/"), "//", 10)
		q("objects", via, sp("a/"), "//", 10)
		q("objects", via, nil, "//", 10)
	}
	for _, via := range []string{"storage", "http"} {
		q("versions", via, sp("/"), "//", 10)
		q("uploads", via, sp("/"), "//", 10)
		q("versions", via, sp("/"), "//", 1)
		q("parts", via, nil, "", 1)
		q("parts", via, nil, "", 2)
		q("parts", via, nil, "", 3)
	}
	return []Case{
		{Keys: []string{"///", "/a", "//b", "a///b", "a//b", "/"}, Steps: puts(6), Queries: all},
	}
}

func TestC06(t *testing.T) {
	ev.Main(t, ev.Spec[Case]{
		ID:    "C06",
		Level: "exploration",
		Rule: "a case = a generated key set (<=14 keys of 1-4 symbols over {a A b % _ / é 中 space}), a history of puts/deletes/versioning changes/multipart uploads with parts, and 3-10 listing walks " +
			"(ListObjects storage/v1/v2, ListObjectVersions, ListMultipartUploads, ListParts; storage and HTTP); non-trivial = a key or a query prefix contains one of % _ A-Z or a multi-byte rune " +
			"AND at least one walk with a delimiter needed >= 2 pages; distinct = distinct case JSON",
		Assumptions: []string{
			"oracle = pure function of the written key/version/upload/part set (byte-exact prefix, UTF-8 byte order, first delimiter occurrence after the prefix)",
			"version, delete-marker and upload ids are taken from the write responses and used as opaque labels",
			"SQLite metadata store only; in-memory part store (listing does not touch part data)",
			"HTTP versions listing: versions and delete markers are two element lists, compared as two ordered sub-sequences",
		},
		Gen:      gen,
		Run:      runCase,
		Directed: directed,
	})
}
