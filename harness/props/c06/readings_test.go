package c06

// Known-finding "readings": models of the specific ways pithos is known to
// deviate from the C06 oracle. A discrepancy is tolerated only when the
// observation equals, exactly, what one of these readings predicts, and only
// when the corresponding known finding is enabled (ev.Env.Known). With no
// deviation switched on, predict() is the oracle itself.
//
//   like        KF-C06-1  prefix filter is SQL `key LIKE prefix||'%'`
//   delimPaging KF-C06-2  ListObjects (HTTP v1/v2) and ListMultipartUploads with a
//                         delimiter: a truncated page carries *all* common prefixes of
//                         the remaining rows, truncation is computed from the raw row
//                         count, and the continuation marker is the last listed key
//   nullLast    KF-C06-3  ListObjectVersions orders a key's versions by version id
//                         descending with the null version last, even when the null
//                         version is the newest one
//   segCP       KF-C06-4  the common prefix is built from delimiter-separated segments
//                         of the whole key (strings.Split) instead of from the first
//                         delimiter occurrence after the prefix; differs when a
//                         multi-byte delimiter straddles the end of the prefix

import (
	"sort"
	"strings"
)

type deviation struct {
	like, delimPaging, nullLast, segCP bool
	// likePlain: variant of the LIKE reading in which a key that only LIKE-matches
	// is never rolled up (what pithos does once determineCommonPrefix requires a
	// byte-exact prefix, i.e. with the proposed fix of KF-C06-4 but not of KF-C06-1)
	likePlain bool
}

func (d deviation) ids() []string {
	var out []string
	if d.like {
		out = append(out, "KF-C06-1")
	}
	if d.delimPaging {
		out = append(out, "KF-C06-2")
	}
	if d.nullLast {
		out = append(out, "KF-C06-3")
	}
	if d.segCP {
		out = append(out, "KF-C06-4")
	}
	return out
}

// row is one entry as a reading sees it: listed itself (obj), rolled up into a
// common prefix (hasCP), both (pithos' segment reading can do that for plain
// keys and uploads), or neither.
type row struct {
	it    item
	obj   bool
	hasCP bool
	cp    string
}

// segmentCP is pithos' determineCommonPrefix: the first len(split(prefix))
// delimiter-separated segments of the key.
func segmentCP(prefix, key, delim string) (string, bool) {
	ps := strings.Split(prefix, delim)
	ks := strings.Split(key, delim)
	if len(ps) >= len(ks) {
		return "", false
	}
	cp := ""
	for i := range ps {
		cp += ks[i] + delim
	}
	return cp, true
}

// pithosRow is how pithos reads a row the SQL filter let through: common prefix
// by segments; listed itself when the key minus a (byte-)leading prefix does not
// contain the delimiter. ListObjectVersions skips rolled-up rows, the other two
// listings decide the two questions independently.
func pithosRow(api, prefix, delim string, it item) row {
	r := row{it: it}
	if delim == "" {
		r.obj = true
		return r
	}
	r.cp, r.hasCP = segmentCP(prefix, it.Key, delim)
	r.obj = !strings.Contains(strings.TrimPrefix(it.Key, prefix), delim)
	if api == "versions" && r.hasCP {
		r.obj = false
	}
	return r
}

// classify decides how one entry is read: by the oracle rule when the key
// byte-starts with the prefix (unless the segment reading is switched on), by
// the LIKE reading otherwise (if enabled).
func classify(api string, like, likePlain, segCP bool, prefix, delim string, it item) (row, bool) {
	if strings.HasPrefix(it.Key, prefix) {
		if segCP {
			return pithosRow(api, prefix, delim, it), true
		}
		if delim != "" {
			rest := it.Key[len(prefix):]
			if i := strings.Index(rest, delim); i >= 0 {
				return row{it: it, hasCP: true, cp: prefix + rest[:i+len(delim)]}, true
			}
		}
		return row{it: it, obj: true}, true
	}
	if !like || !likePrefix(prefix, it.Key) {
		return row{}, false
	}
	if likePlain {
		return row{it: it, obj: delim == "" || !strings.Contains(it.Key, delim)}, true
	}
	return pithosRow(api, prefix, delim, it), true
}

func rowsOf(api string, like, likePlain, segCP bool, prefix, delim string, entries []item) []row {
	var out []row
	for _, e := range entries {
		if r, ok := classify(api, like, likePlain, segCP, prefix, delim, e); ok {
			out = append(out, r)
		}
	}
	return out
}

// nullLastOrder reorders each key's versions: non-null ids descending, null last.
func nullLastOrder(entries []item) []item {
	out := append([]item{}, entries...)
	sort.SliceStable(out, func(i, j int) bool {
		if out[i].Key != out[j].Key {
			return out[i].Key < out[j].Key
		}
		a, b := out[i].Sub, out[j].Sub
		if a == "null" {
			a = ""
		}
		if b == "null" {
			b = ""
		}
		return a > b
	})
	return out
}

// prediction is what a reading expects a walk to observe.
type prediction struct {
	lst    listing
	capped bool // the simulated walk hit the page cap
	sim    bool // produced by the paging simulation (page-count rule does not apply)
}

func flatten(rows []row, start *string) listing {
	var out listing
	seen := map[string]bool{}
	for _, r := range rows {
		if start != nil && !(r.it.Key > *start) {
			continue
		}
		if r.hasCP && !seen[r.cp] {
			seen[r.cp] = true
			out.CPs = append(out.CPs, r.cp)
		}
		if r.obj {
			out.Items = append(out.Items, r.it)
		}
	}
	return out
}

func predict(q Query, prefix string, entries []item, d deviation, pageCap int) prediction {
	if d.nullLast {
		entries = nullLastOrder(entries)
	}
	rows := rowsOf(q.API, d.like, d.likePlain, d.segCP, prefix, q.Delim, entries)
	if !d.delimPaging {
		return prediction{lst: flatten(rows, q.Start)}
	}
	var p prediction
	p.sim = true
	switch q.API {
	case "objects":
		marker := q.Start
		for pages := 0; ; pages++ {
			if pages >= pageCap {
				p.capped = true
				return p
			}
			objs, cps, trunc, next := simHTTPObjects(rows, marker, q.Page)
			p.lst.Items = append(p.lst.Items, objs...)
			p.lst.CPs = append(p.lst.CPs, cps...)
			if !trunc {
				return p
			}
			switch {
			case next != nil:
				marker = next
			case len(objs) > 0:
				marker = sp(objs[len(objs)-1].Key)
			default:
				p.capped = true
				return p
			}
		}
	case "uploads":
		km := q.Start
		var um *string
		for pages := 0; ; pages++ {
			if pages >= pageCap {
				p.capped = true
				return p
			}
			var ups []item
			var cps []string
			var trunc bool
			var nk, nu *string
			if q.Via == "storage" {
				var k, u string
				ups, cps, trunc, k, u = simUploadsPage(rows, q.Delim, km, um, q.Page)
				nk, nu = sp(k), sp(u)
			} else {
				ups, cps, trunc, nk, nu = simHTTPUploads(rows, q.Delim, km, um, q.Page)
			}
			p.lst.Items = append(p.lst.Items, ups...)
			p.lst.CPs = append(p.lst.CPs, cps...)
			if !trunc {
				return p
			}
			if nk == nil || (q.Via == "storage" && *nk == "") {
				p.capped = true
				return p
			}
			km, um = nk, nu
		}
	}
	return p
}

// simObjectsPage mirrors sqlMetadataStore.listObjects for one call.
func simObjectsPage(rows []row, startAfter *string, max int) (objs []item, cps []string, trunc bool) {
	var rs []row
	for _, r := range rows {
		if startAfter == nil || r.it.Key > *startAfter {
			rs = append(rs, r)
		}
	}
	trunc = len(rs) > max
	seen := map[string]bool{}
	for _, r := range rs {
		if r.hasCP && !seen[r.cp] {
			seen[r.cp] = true
			cps = append(cps, r.cp)
		}
		if len(objs) < max && r.obj {
			objs = append(objs, r.it)
		}
	}
	return
}

// simHTTPObjects mirrors Server.listAndFilterObjects for one request.
func simHTTPObjects(rows []row, startAfter *string, max int) (collected []item, prefixes []string, trunc bool, next *string) {
	seen := map[string]bool{}
	sa := startAfter
	for iter := 0; iter < 10000; iter++ {
		objs, cps, t := simObjectsPage(rows, sa, max)
		last := sa
		for i, it := range objs {
			last = sp(it.Key)
			collected = append(collected, it)
			if len(collected) >= max {
				if i < len(objs)-1 || len(cps) > 0 || t {
					return collected, prefixes, true, last
				}
				return collected, prefixes, false, nil
			}
		}
		for _, cp := range cps {
			last = sp(cp)
			if !seen[cp] {
				seen[cp] = true
				prefixes = append(prefixes, cp)
			}
		}
		if !t || last == nil || (sa != nil && *sa == *last) {
			return collected, prefixes, false, nil
		}
		sa = sp(*last)
	}
	return collected, prefixes, false, nil
}

// simUploadsPage mirrors sqlMetadataStore.ListMultipartUploads for one call.
func simUploadsPage(rows []row, delim string, km, um *string, max int) (ups []item, cps []string, trunc bool, nextK, nextU string) {
	k, u := "", ""
	if km != nil {
		k = *km
	}
	if um != nil {
		u = *um
	}
	var rs []row
	for _, r := range rows {
		if r.it.Key > k || (u != "" && r.it.Key == k && r.it.Sub > u) {
			rs = append(rs, r)
		}
	}
	trunc = len(rs) > max
	if delim == "" && trunc {
		rs = rs[:max]
	}
	seen := map[string]bool{}
	for _, r := range rs {
		if r.hasCP && !seen[r.cp] {
			seen[r.cp] = true
			cps = append(cps, r.cp)
		}
		if len(ups) < max {
			if r.obj {
				ups = append(ups, r.it)
			}
			nextK, nextU = r.it.Key, r.it.Sub
		}
	}
	return
}

// simHTTPUploads mirrors Server.listAndFilterMultipartUploads for one request.
func simHTTPUploads(rows []row, delim string, km, um *string, max int) (collected []item, prefixes []string, trunc bool, nextK, nextU *string) {
	seen := map[string]bool{}
	for iter := 0; iter < 10000; iter++ {
		ups, cps, t, _, _ := simUploadsPage(rows, delim, km, um, max)
		lastK, lastU := km, um
		for i, it := range ups {
			lastK, lastU = sp(it.Key), sp(it.Sub)
			collected = append(collected, it)
			if len(collected) >= max {
				if i < len(ups)-1 || len(cps) > 0 || t {
					return collected, prefixes, true, lastK, lastU
				}
				return collected, prefixes, false, nil, nil
			}
		}
		for _, cp := range cps {
			lastK, lastU = sp(cp), sp("")
			if !seen[cp] {
				seen[cp] = true
				prefixes = append(prefixes, cp)
			}
		}
		if !t || lastK == nil || lastU == nil {
			return collected, prefixes, false, nil, nil
		}
		if km != nil && um != nil && *km == *lastK && *um == *lastU {
			return collected, prefixes, false, nil, nil
		}
		km, um = sp(*lastK), sp(*lastU)
	}
	return collected, prefixes, false, nil, nil
}
