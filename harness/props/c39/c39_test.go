// Package c39 checks C39: the integrity validator flags exactly the corrupted
// objects.
//
// A case populates a metadatapart storage (stack P2 = one filesystem store,
// N1 = default filesystem store + "cold" SQL store for GLACIER/DEEP_ARCHIVE)
// with generated objects (single part, multipart, appended, copied / deduped
// with shared parts), then damages chosen part files of the filesystem store
// (byte flip, truncation, extension, deletion, swap of two files) and runs
// integrity.Validator.ValidateAll. The oracle is computed from the bytes: an
// object must be reported as failed iff at least one of the part rows it
// references points at a file whose content no longer equals what was stored.
package c39

import (
	"bytes"
	"context"
	"crypto/sha256"
	"database/sql"
	"encoding/hex"
	"fmt"
	"os"
	"path/filepath"
	"sort"
	"strings"
	"testing"
	"time"

	"github.com/jdillenkofer/pithos/internal/config"
	"github.com/jdillenkofer/pithos/internal/storage"
	"github.com/jdillenkofer/pithos/internal/storage/database"
	repositoryFactory "github.com/jdillenkofer/pithos/internal/storage/database/repository"
	"github.com/jdillenkofer/pithos/internal/storage/integrity"
	"github.com/jdillenkofer/pithos/verifharness/ev"
	"github.com/jdillenkofer/pithos/verifharness/prog"
	"github.com/jdillenkofer/pithos/verifharness/run"
	"github.com/jdillenkofer/pithos/verifharness/stacks"
	"pgregory.net/rapid"
)

// Corruption damages one part file of the default (filesystem) store.
type Corruption struct {
	Kind  string `json:"kind"`  // flip | truncate | extend | delete | swap
	Pick  string `json:"pick"`  // which file: shared | nonfirst | first | single | unreferenced | any
	Index int    `json:"index"` // index into the candidate list (mod its length)
	Pos   int    `json:"pos"`   // byte position / new length (mod file length)
	Other int    `json:"other"` // swap partner (index into all files)
}

// Case is one validator scenario.
type Case struct {
	Stack       string       `json:"stack"`
	Ops         []prog.Op    `json:"ops"`
	Corruptions []Corruption `json:"corruptions"`
	Delete      bool         `json:"delete"` // run with deleteCorrupted + force
}

var names = run.Names{
	Buckets: []string{"bucket-a", "bucket.b"},
	Keys:    []string{"a", "a/b", "A", "é %_", "k5", "k6"},
}

func cfg(stack string) prog.GenConfig {
	c := prog.GenConfig{
		Buckets: 2, Keys: 6, MinOps: 5, MaxOps: 22,
		Weights: map[string]int{
			prog.OpPut: 8, prog.OpMpuSeq: 6, prog.OpAppend: 4, prog.OpCopy: 5, prog.OpDelete: 1,
			prog.OpMpuCreate: 1, prog.OpMpuPart: 1, prog.OpMpuPartCopy: 1, prog.OpCreateBucket: 1,
		},
		Boundaries: []int{1024}, MaxBody: 70000, CkTypes: true, Supplied: false,
		Prelude: []prog.Op{{Kind: prog.OpCreateBucket, B: 0}, {Kind: prog.OpCreateBucket, B: 1}},
	}
	if stack == "N1" {
		c.Classes = []string{"STANDARD", "GLACIER", "STANDARD_IA", "DEEP_ARCHIVE"}
		c.Weights[prog.OpTransition] = 2
	}
	return c
}

var kinds = []string{"flip", "truncate", "extend", "delete", "swap"}
var picks = []string{"shared", "nonfirst", "first", "single", "unreferenced", "any"}

func gen39(t *rapid.T, env *ev.Env) Case {
	c := Case{Stack: rapid.SampledFrom([]string{"P2", "N1", "P2"}).Draw(t, "stack")}
	c.Ops = cfg(c.Stack).Gen(t)
	// full copies of objects written earlier: the copy shares the source's parts
	// (random copy sources mostly miss), optionally followed by an overwrite of
	// the source so that the copy is the only user left
	var written []prog.Op
	for _, op := range c.Ops {
		if op.Kind == prog.OpPut || op.Kind == prog.OpMpuComplete || op.Kind == prog.OpAppend {
			written = append(written, op)
		}
	}
	if len(written) > 0 {
		nc := rapid.IntRange(0, 3).Draw(t, "nSharingCopies")
		for i := 0; i < nc; i++ {
			src := written[rapid.IntRange(0, len(written)-1).Draw(t, "copySrc")]
			cp := prog.Op{Kind: prog.OpCopy, SB: src.B, SK: src.K, B: rapid.IntRange(0, 1).Draw(t, "copyB"), K: rapid.IntRange(0, 5).Draw(t, "copyK")}
			if src.Kind == prog.OpMpuComplete {
				// complete ops address their key through the upload; copy from every key instead
				cp.SK = rapid.IntRange(0, 5).Draw(t, "copySK")
			}
			c.Ops = append(c.Ops, cp)
		}
	}
	n := rapid.SampledFrom([]int{0, 1, 1, 1, 2, 2, 3}).Draw(t, "nCorruptions")
	for i := 0; i < n; i++ {
		k := rapid.IntRange(0, 63).Draw(t, "kindHi")*64 + rapid.IntRange(0, 63).Draw(t, "kindLo")*37
		p := rapid.IntRange(0, 63).Draw(t, "pickHi")*64 + rapid.IntRange(0, 63).Draw(t, "pickLo")*37
		c.Corruptions = append(c.Corruptions, Corruption{
			Kind: kinds[k%len(kinds)], Pick: picks[p%len(picks)],
			Index: rapid.IntRange(0, 15).Draw(t, "index"), Pos: rapid.IntRange(0, 70000).Draw(t, "pos"), Other: rapid.IntRange(0, 15).Draw(t, "other"),
		})
	}
	c.Delete = rapid.Bool().Draw(t, "delete")
	return c
}

type partRef struct {
	File  string // hex file name in the default store ("" if the part lives in another store)
	Store string // "" = default
	Seq   int
}

type objInfo struct {
	Bucket, Key string
	SHA         string
	ETag        string
	Parts       []partRef
}

func (o objInfo) id() string { return o.Bucket + "/" + o.Key }

func sha(b []byte) string { h := sha256.Sum256(b); return hex.EncodeToString(h[:]) }

// readObject returns the body hash of an object through the public API ("" + error text on failure).
func readObject(st storage.Storage, bucket, key string) (string, string) {
	r := prog.NewStorageSide(st).Do(prog.Concrete{Op: prog.Op{Kind: prog.OpGet}, Bucket: bucket, Key: key})
	if r.Err != "" {
		return "", r.Err + ": " + r.ErrText
	}
	return r.Obj.BodySHA, ""
}

// inventory lists every current object with the part rows it references.
func inventory(ctx context.Context, inst *stacks.Instance) ([]objInfo, error) {
	objRepo, err := repositoryFactory.NewObjectRepository(inst.DB)
	if err != nil {
		return nil, err
	}
	partRepo, err := repositoryFactory.NewPartRepository(inst.DB)
	if err != nil {
		return nil, err
	}
	buckets, err := inst.Storage.ListBuckets(ctx)
	if err != nil {
		return nil, err
	}
	var out []objInfo
	for _, b := range buckets {
		objs, err := storage.ListAllObjectsOfBucket(ctx, inst.Storage, b.Name)
		if err != nil {
			return nil, err
		}
		for _, o := range objs {
			info := objInfo{Bucket: b.Name.String(), Key: o.Key.String(), ETag: o.ETag}
			err := database.WithTx(ctx, inst.DB, &sql.TxOptions{ReadOnly: true}, func(ctx context.Context, tx database.Tx) error {
				ent, err := objRepo.FindObjectByBucketNameAndKey(ctx, tx.SqlTx(), b.Name, o.Key)
				if err != nil {
					return err
				}
				if ent == nil {
					return fmt.Errorf("listed object %s/%s has no row", b.Name, o.Key)
				}
				parts, err := partRepo.FindPartsByObjectIdOrderBySequenceNumberAsc(ctx, tx.SqlTx(), *ent.Id)
				if err != nil {
					return err
				}
				for _, p := range parts {
					ref := partRef{Seq: p.SequenceNumber}
					if p.PartStoreName != nil && *p.PartStoreName != "default" {
						ref.Store = *p.PartStoreName
					} else {
						ref.File = hex.EncodeToString(p.PartId.Bytes())
					}
					info.Parts = append(info.Parts, ref)
				}
				return nil
			})
			if err != nil {
				return nil, err
			}
			sh, rerr := readObject(inst.Storage, info.Bucket, info.Key)
			if rerr != "" {
				return nil, fmt.Errorf("object %s unreadable before any corruption: %s", info.id(), rerr)
			}
			info.SHA = sh
			out = append(out, info)
		}
	}
	return out, nil
}

func readFiles(dir string) (map[string][]byte, error) {
	ents, err := os.ReadDir(dir)
	if err != nil {
		return nil, err
	}
	out := map[string][]byte{}
	for _, e := range ents {
		if e.IsDir() || len(e.Name()) != 32 {
			continue
		}
		b, err := os.ReadFile(filepath.Join(dir, e.Name()))
		if err != nil {
			return nil, err
		}
		out[e.Name()] = b
	}
	return out, nil
}

func sortedKeys[V any](m map[string]V) []string {
	var ks []string
	for k := range m {
		ks = append(ks, k)
	}
	sort.Strings(ks)
	return ks
}

const noPartStoreMsg = "could not find PartStore in storage hierarchy"

func runCase(env *ev.Env, c Case) (o ev.Outcome) {
	ctx := context.Background()
	dir := env.TempDir()
	defer os.RemoveAll(dir)
	inst, err := stacks.Open(dir, stacks.LayoutFor(c.Stack), stacks.Options{GCGrace: time.Hour})
	if err != nil {
		o.Failf("harness: open %s: %v", c.Stack, err)
		return
	}
	defer inst.Close()
	o.Class("stack:" + c.Stack)

	// ---- populate -----------------------------------------------------------------
	s := run.NewSession(names, prog.NewStorageSide(inst.Storage))
	for _, op := range c.Ops {
		s.Step(op)
	}
	objs, err := inventory(ctx, inst)
	if err != nil {
		// the storage is inconsistent before anything was damaged: not this property's subject
		o.Discard = true
		return
	}
	fsDir := inst.Builder.BaseDirs["default"]
	orig, err := readFiles(fsDir)
	if err != nil {
		o.Failf("harness: reading part directory: %v", err)
		return
	}

	// which objects reference which file
	users := map[string][]int{} // file -> object indices
	firstOf, nonFirstOf, singleOf := map[string]bool{}, map[string]bool{}, map[string]bool{}
	for i, ob := range objs {
		seen := map[string]bool{}
		for j, p := range ob.Parts {
			if p.File == "" {
				continue
			}
			if _, ok := orig[p.File]; !ok {
				o.Failf("harness: object %s references part file %s which does not exist before any corruption", ob.id(), p.File)
				return
			}
			if !seen[p.File] {
				seen[p.File] = true
				users[p.File] = append(users[p.File], i)
			}
			switch {
			case len(ob.Parts) == 1:
				singleOf[p.File] = true
			case j == 0:
				firstOf[p.File] = true
			default:
				nonFirstOf[p.File] = true
			}
		}
	}
	all := sortedKeys(orig)
	cand := map[string][]string{}
	for _, f := range all {
		cand["any"] = append(cand["any"], f)
		switch {
		case len(users[f]) == 0:
			cand["unreferenced"] = append(cand["unreferenced"], f)
		case len(users[f]) >= 2:
			cand["shared"] = append(cand["shared"], f)
		}
		if nonFirstOf[f] {
			cand["nonfirst"] = append(cand["nonfirst"], f)
		}
		if firstOf[f] {
			cand["first"] = append(cand["first"], f)
		}
		if singleOf[f] {
			cand["single"] = append(cand["single"], f)
		}
	}

	// ---- corrupt ------------------------------------------------------------------
	cur := map[string][]byte{}
	for f, b := range orig {
		cur[f] = b
	}
	write := func(f string, b []byte) error {
		cur[f] = b
		return os.WriteFile(filepath.Join(fsDir, f), b, 0o600)
	}
	for _, cr := range c.Corruptions {
		list := cand[cr.Pick]
		if len(list) == 0 {
			list = cand["any"]
		}
		if len(list) == 0 {
			break
		}
		f := list[cr.Index%len(list)]
		b, present := cur[f]
		if !present {
			continue // already deleted by an earlier corruption
		}
		kind := cr.Kind
		if (kind == "flip" || kind == "truncate") && len(b) == 0 {
			kind = "extend"
		}
		var werr error
		switch kind {
		case "flip":
			nb := append([]byte(nil), b...)
			nb[cr.Pos%len(nb)] ^= 1 << uint(cr.Other%8)
			werr = write(f, nb)
		case "truncate":
			werr = write(f, append([]byte(nil), b[:cr.Pos%len(b)]...))
		case "extend":
			werr = write(f, append(append([]byte(nil), b...), byte(cr.Pos), 0x00, byte(cr.Other))[:len(b)+1+cr.Other%3])
		case "delete":
			delete(cur, f)
			werr = os.Remove(filepath.Join(fsDir, f))
		case "swap":
			g := all[cr.Other%len(all)]
			gb, ok := cur[g]
			if !ok || g == f {
				kind = "swap-noop"
				break
			}
			if werr = write(f, gb); werr == nil {
				werr = write(g, b)
			}
			if bytes.Equal(gb, b) {
				kind = "swap-identical"
			}
		}
		if werr != nil {
			o.Failf("harness: corrupting %s: %v", f, werr)
			return
		}
		o.Class("corruption:" + kind)
		o.Class("pick:" + cr.Pick)
	}
	if len(c.Corruptions) == 0 {
		o.Class("corruption:none")
	}
	damaged := map[string]bool{}
	for f, b := range orig {
		nb, ok := cur[f]
		if !ok || !bytes.Equal(nb, b) {
			damaged[f] = true
		}
	}
	expected := map[string]bool{} // object id -> must be reported as failed
	sharedHit, nonFirstHit := false, false
	for _, ob := range objs {
		for j, p := range ob.Parts {
			if p.File != "" && damaged[p.File] {
				expected[ob.id()] = true
				if len(users[p.File]) >= 2 {
					sharedHit = true
				}
				if len(ob.Parts) > 1 && j > 0 {
					nonFirstHit = true
				}
			}
		}
	}
	o.NonTrivial = sharedHit || nonFirstHit
	if sharedHit {
		o.Class("hit:shared-part")
	}
	if nonFirstHit {
		o.Class("hit:non-first-part-of-multipart")
	}
	multi, cold := 0, 0
	for _, ob := range objs {
		if len(ob.Parts) > 1 {
			multi++
		}
		for _, p := range ob.Parts {
			if p.Store != "" {
				cold++
				break
			}
		}
	}
	o.Count("objects", len(objs))
	o.Count("objects:multi-part", multi)
	o.Count("objects:in-cold-store", cold)
	o.Count("objects:expected-corrupted", len(expected))
	o.Count("files:damaged", len(damaged))
	switch {
	case len(expected) == 0:
		o.Class("expected:none-corrupted")
	case len(expected) == len(objs):
		o.Class("expected:all-corrupted")
	default:
		o.Class("expected:some-corrupted")
	}

	// harness self-check through the public API: an object whose bytes changed
	// (or that became unreadable) must be in the expected set; the converse need
	// not hold (bytes appended behind the recorded size are invisible to reads)
	for _, ob := range objs {
		sh, rerr := readObject(inst.Storage, ob.Bucket, ob.Key)
		changed := rerr != "" || sh != ob.SHA
		if changed && !expected[ob.id()] {
			o.Failf("harness: object %s reads differently after the corruption (%s) although none of its part files was damaged", ob.id(), rerr)
			return
		}
		if !changed && expected[ob.id()] {
			o.Count("expected-but-reads-unchanged", 1)
		}
	}

	// ---- validate -----------------------------------------------------------------
	dbc := config.NewDbContainer()
	dbc.AddDb(inst.DB)
	v := integrity.NewValidator(inst.Storage, dbc, c.Delete, true)
	report, verr := v.ValidateAll(ctx)
	if verr != nil {
		if strings.Contains(verr.Error(), noPartStoreMsg) && env.Known("c39.noPartStoreFound") {
			// KF-C39-1: the validator cannot locate the part store of a metadatapart
			// storage; nothing was validated, the case ends here.
			o.KnownHits = append(o.KnownHits, "KF-C39-1")
			o.Excluded = true
			o.NonTrivial = false // nothing was validated: the case decided nothing
			return
		}
		o.Failf("ValidateAll failed: %v", verr)
		return
	}
	o.Sub++
	got := map[string]integrity.ValidationResult{}
	flagged := map[string]bool{} // objects the validator will treat as corrupted: expected + tolerated known false positives
	for id := range expected {
		flagged[id] = true
	}
	for _, r := range report.Results {
		id := r.BucketName + "/" + r.ObjectKey
		if _, dup := got[id]; dup {
			o.Failf("report lists object %s twice", id)
			return
		}
		got[id] = r
	}
	for _, ob := range objs {
		r, ok := got[ob.id()]
		if !ok {
			o.Failf("report has no result for object %s", ob.id())
			return
		}
		o.Sub++
		if expected[ob.id()] && r.Success {
			o.Failf("object %s references a damaged part file but is reported intact (parts %+v, damaged %v)", ob.id(), ob.Parts, sortedKeys(damaged))
			return
		}
		if !expected[ob.id()] && !r.Success && env.Known("c39.singlePartMultipartETag") &&
			len(ob.Parts) == 1 && strings.Contains(ob.ETag, "-") && r.ErrorType == "Object checksum mismatch" &&
			len(r.PartFailures) == 0 && len(r.ObjectFailures) == 1 && r.ObjectFailures[0] == "object ETag mismatch" {
			// KF-C39-2: an object with exactly one part row whose ETag has the multipart
			// form ("<md5>-1": single-part multipart upload, first append, copies of
			// those) is compared against the plain MD5 of its part. Exactly this
			// mechanism; the object is then treated as "flagged" for the counters and
			// for the delete mode (the validator deletes it, the state has diverged).
			o.KnownHits = append(o.KnownHits, "KF-C39-2")
			flagged[ob.id()] = true
			continue
		}
		if !expected[ob.id()] && !r.Success {
			o.Failf("intact object %s is reported as corrupted: %s %+v %v (etag %s, parts %+v)", ob.id(), r.ErrorType, r.PartFailures, r.ObjectFailures, ob.ETag, ob.Parts)
			return
		}
	}
	if len(got) != len(objs) {
		o.Failf("report has %d results for %d objects", len(got), len(objs))
		return
	}
	if report.TotalObjects != len(objs) || report.FailedObjects != len(flagged) || report.SuccessfulObjects != len(objs)-len(flagged) {
		o.Failf("report counters total=%d failed=%d ok=%d, expected total=%d failed=%d ok=%d", report.TotalObjects, report.FailedObjects, report.SuccessfulObjects, len(objs), len(flagged), len(objs)-len(flagged))
		return
	}

	// ---- state afterwards -----------------------------------------------------------
	if c.Delete {
		o.Class("mode:delete")
	} else {
		o.Class("mode:report-only")
	}
	for _, ob := range objs {
		_, herr := inst.Storage.HeadObject(ctx, storage.MustNewBucketName(ob.Bucket), storage.MustNewObjectKey(ob.Key), nil)
		exists := herr == nil
		o.Sub++
		switch {
		case c.Delete && flagged[ob.id()]:
			if exists {
				r := got[ob.id()]
				o.Failf("corrupted object %s still exists after ValidateAll(deleteCorrupted, force) (action %q)", ob.id(), r.ActionTaken)
				return
			}
		default:
			if !exists {
				o.Failf("object %s was removed by the validator (delete=%v, expected corrupted=%v): %v", ob.id(), c.Delete, flagged[ob.id()], herr)
				return
			}
			if !flagged[ob.id()] {
				sh, rerr := readObject(inst.Storage, ob.Bucket, ob.Key)
				if rerr != "" || sh != ob.SHA {
					o.Failf("intact object %s is no longer readable with its content after the validator ran: %s", ob.id(), rerr)
					return
				}
			}
		}
	}
	if c.Delete && report.DeletedObjects != len(flagged) {
		o.Failf("report says %d objects deleted, expected %d", report.DeletedObjects, len(flagged))
	}
	if len(flagged) > len(expected) && c.Delete {
		o.Excluded = true // an intact object was deleted through a known finding
	}
	if !c.Delete && report.DeletedObjects != 0 {
		o.Failf("report says %d objects deleted in report-only mode", report.DeletedObjects)
	}
	return
}


func TestC39(t *testing.T) {
	ev.Main(t, ev.Spec[Case]{
		ID:    "C39",
		Level: "exploration",
		Rule: "a metadatapart storage (P2 filesystem store, or N1 = filesystem default + SQL cold store) populated by a generated program (puts, multipart uploads incl. UploadPartCopy, appends, copies and dedup producing shared parts, pending uploads), then 0-3 generated corruptions " +
			"(byte flip, truncation, extension, deletion, swap of two files) of part files picked by role (shared / non-first / first / single / unreferenced / any), then ValidateAll in report-only or delete+force mode; " +
			"non-trivial = ValidateAll produced a report and at least one damaged part file is shared by >=2 objects or is a non-first part of a multi-part object (a case cut off by KF-C39-1 is never non-trivial); distinct = distinct case JSON",
		Assumptions: []string{
			"the object -> part-row mapping is read from the metadata tables (object and part repositories); part files are the files of the filesystem part store directory",
			"oracle is byte based: a part is corrupted iff its file content differs from what the store wrote (a swap of two identical files corrupts nothing)",
		},
		Gen: gen39,
		Run: runCase,
	})
}
