package c40

import (
	"bytes"
	"context"
	"fmt"
	"io"
	"os"
	"testing"
	"time"

	"github.com/jdillenkofer/pithos/internal/storage"
	"github.com/jdillenkofer/pithos/internal/storage/metadatapart"
	"github.com/jdillenkofer/pithos/verifharness/ev"
	"github.com/jdillenkofer/pithos/verifharness/gen"
	"github.com/jdillenkofer/pithos/verifharness/stacks"
	"pgregory.net/rapid"
)

// Interfere is one interfering operation performed after the download has delivered at least After bytes.
type Interfere struct {
	After int    `json:"after"`
	Kind  string `json:"kind"` // overwrite | delete | deleteVersion | gc | transition | putOther | append
}

type Case struct {
	Stack     string         `json:"stack"`
	Versioned bool           `json:"versioned"`
	Parts     []gen.BodySpec `json:"parts"`
	Build     string         `json:"build"`   // multipart | append
	ReadSize  []int          `json:"read"`    // cyclic read sizes
	Range     *[2]int64      `json:"range"`   // optional byte range [start,end)
	Inter     []Interfere    `json:"inter"`
}

func genCase(t *rapid.T, env *ev.Env) Case {
	c := Case{Stack: rapid.SampledFrom([]string{"P2", "P1", "P4", "P8", "P12", "P3", "N1", "P14"}).Draw(t, "stack")}
	c.Versioned = rapid.Bool().Draw(t, "versioned")
	c.Build = rapid.SampledFrom([]string{"multipart", "multipart", "append"}).Draw(t, "build")
	np := rapid.IntRange(2, 4).Draw(t, "nparts")
	total := 0
	for i := 0; i < np; i++ {
		l := rapid.SampledFrom([]int{1, 700, 5000, 70000, 140000}).Draw(t, "plen")
		c.Parts = append(c.Parts, gen.BodySpec{Kind: rapid.SampledFrom([]string{"rand", "text"}).Draw(t, "pkind"), Len: l, Seed: uint64(i + 1)})
		total += l
	}
	c.ReadSize = rapid.SliceOfN(rapid.SampledFrom([]int{1, 100, 4096, 32768, 100000}), 1, 3).Draw(t, "reads")
	if rapid.IntRange(0, 3).Draw(t, "ranged") == 0 && total > 2 {
		s := int64(rapid.IntRange(0, total-2).Draw(t, "rs"))
		e := int64(rapid.IntRange(int(s)+1, total).Draw(t, "re"))
		c.Range = &[2]int64{s, e}
	}
	ni := rapid.IntRange(1, 4).Draw(t, "ninter")
	for i := 0; i < ni; i++ {
		c.Inter = append(c.Inter, Interfere{
			After: rapid.IntRange(0, total).Draw(t, "after"),
			Kind:  rapid.SampledFrom([]string{"overwrite", "overwrite", "delete", "deleteVersion", "gc", "gc", "transition", "putOther", "append", "cancel"}).Draw(t, "ikind"),
		})
	}
	return c
}

func runCase(env *ev.Env, c Case) (o ev.Outcome) {
	o.Class("stack:" + c.Stack)
	dir := env.TempDir()
	defer os.RemoveAll(dir)
	inst, err := stacks.Open(dir, stacks.LayoutFor(c.Stack), stacks.Options{GCGrace: time.Nanosecond})
	if err != nil {
		o.Failf("harness: open: %v", err)
		return
	}
	defer inst.Close()
	ctx := context.Background()
	st := inst.Storage
	bn, key := storage.MustNewBucketName("dl-bucket"), storage.MustNewObjectKey("obj")
	if err := st.CreateBucket(ctx, bn); err != nil {
		o.Failf("harness: %v", err)
		return
	}
	if c.Versioned {
		en := storage.BucketVersioningStatusEnabled
		if err := st.PutBucketVersioningConfiguration(ctx, bn, &storage.BucketVersioningConfiguration{Status: &en}); err != nil {
			o.Failf("harness: %v", err)
			return
		}
	}
	var content []byte
	if c.Build == "append" {
		for _, p := range c.Parts {
			b := p.Bytes()
			if _, err := st.AppendObject(ctx, bn, key, bytes.NewReader(b), nil, nil); err != nil {
				o.Failf("harness: append: %v", err)
				return
			}
			content = append(content, b...)
		}
	} else {
		up, err := st.CreateMultipartUpload(ctx, bn, key, nil, nil, nil)
		if err != nil {
			o.Failf("harness: %v", err)
			return
		}
		for i, p := range c.Parts {
			b := p.Bytes()
			if _, err := st.UploadPart(ctx, bn, key, up.UploadId, int32(i+1), bytes.NewReader(b), nil); err != nil {
				o.Failf("harness: upload part: %v", err)
				return
			}
			content = append(content, b...)
		}
		if _, err := st.CompleteMultipartUpload(ctx, bn, key, up.UploadId, nil, nil); err != nil {
			o.Failf("harness: complete: %v", err)
			return
		}
	}
	want := content
	var ranges []storage.ByteRange
	if c.Range != nil {
		s, e := c.Range[0], c.Range[1]
		if e > int64(len(content)) {
			e = int64(len(content))
		}
		if s >= e {
			s = 0
		}
		ranges = []storage.ByteRange{{Start: &s, End: &e}}
		want = content[s:e]
	}
	// the download runs under its own context: the interferer "cancel" cancels it in mid-stream (a client that
	// goes away, a deadline). A cancelled download may fail; it must not end short with a clean EOF.
	getCtx, cancelGet := context.WithCancel(ctx)
	defer cancelGet()
	cancelled := false
	obj, readers, err := st.GetObject(getCtx, bn, key, ranges, nil)
	if err != nil {
		o.Failf("GetObject before any interference failed: %v", err)
		return
	}
	if len(readers) != 1 {
		o.Failf("GetObject returned %d readers", len(readers))
		return
	}
	rd := readers[0]
	openVersion := obj.VersionID
	var got []byte
	var readErr error
	done := map[int]bool{}
	interferedMidway := false
	var pending []chan struct{}
	defer func() {
		rd.Close()
		for _, f := range pending {
			select {
			case <-f:
			case <-time.After(20 * time.Second):
				o.Failf("an interfering operation did not finish within 20 s after the download was closed")
			}
		}
	}()
	other := gen.BodySpec{Kind: "rand", Len: 90000, Seed: 99}.Bytes()
	time.Sleep(2 * time.Millisecond) // parts become older than the 1 ns grace window (ULID ms resolution)
	for i := 0; ; i++ {
		for j, in := range c.Inter {
			if done[j] || len(got) < in.After {
				continue
			}
			done[j] = true
			if len(got) > 0 && len(got) < len(want) {
				interferedMidway = true
			}
			o.Count("interfere:"+in.Kind, 1)
			if in.Kind == "cancel" {
				cancelGet()
				cancelled = true
				if len(got) > 0 && len(got) < len(want) {
					o.Class("download-context-cancelled-mid-stream")
				}
				continue
			}
			// an interfering operation may legitimately wait for the open download (part locks of the
			// erasure-coding store): run it beside the reader and go on reading if it has not finished in time
			in := in
			fin := make(chan struct{})
			pending = append(pending, fin)
			go func() {
				defer close(fin)
				interfere(ctx, st, bn, key, openVersion, other, in.Kind)
			}()
			select {
			case <-fin:
			case <-time.After(300 * time.Millisecond):
				o.Count("interferer_blocked_until_later", 1)
			}
			continue
		}
		n := c.ReadSize[i%len(c.ReadSize)]
		if n < 1 {
			n = 1
		}
		buf := make([]byte, n)
		k, err := rd.Read(buf)
		got = append(got, buf[:k]...)
		if err != nil {
			readErr = err
			break
		}
		if len(got) > len(want)+1024 {
			break
		}
	}
	o.Sub++
	// oracle: delivered bytes are a prefix of the content resolved at open time ...
	if len(got) > len(want) || !bytes.Equal(got, want[:len(got)]) {
		n := 0
		for n < len(got) && n < len(want) && got[n] == want[n] {
			n++
		}
		o.Failf("download delivered bytes that are not a prefix of the version resolved at open time (first difference at offset %d, delivered %d, expected length %d, final error %v)", n, len(got), len(want), readErr)
		return
	}
	// ... and the stream ends at its full length or with an error, never short with a clean EOF
	if readErr == io.EOF && len(got) != len(want) {
		o.Failf("download ended with a clean EOF after %d of %d bytes", len(got), len(want))
		return
	}
	if readErr != io.EOF {
		o.Class("ended-with-error")
		if c.Stack == "P1" && !cancelled {
			// SQL-backed part store: the read transaction pins the snapshot, the full old content must arrive
			o.Failf("SQL-backed download failed after %d of %d bytes: %v", len(got), len(want), readErr)
			return
		}
	} else {
		o.Class("completed")
	}
	o.NonTrivial = interferedMidway
	if interferedMidway {
		o.Class("interfered-mid-stream")
	}
	_ = fmt.Sprint
	return
}

func interfere(ctx context.Context, st storage.Storage, bn storage.BucketName, key storage.ObjectKey, openVersion *string, other []byte, kind string) {
	switch kind {
	case "overwrite":
		_, _ = st.PutObject(ctx, bn, key, nil, bytes.NewReader(other), nil, nil)
	case "delete":
		_, _ = st.DeleteObject(ctx, bn, key, nil)
	case "deleteVersion":
		if openVersion != nil {
			_, _ = st.DeleteObject(ctx, bn, key, &storage.DeleteObjectOptions{VersionID: openVersion})
		} else {
			_, _ = st.DeleteObject(ctx, bn, key, nil)
		}
	case "gc":
		time.Sleep(2 * time.Millisecond)
		_ = metadatapart.VerifRunGCOnce(st)
	case "transition":
		_ = st.TransitionObjectStorageClass(ctx, bn, key, "GLACIER", nil)
	case "putOther":
		_, _ = st.PutObject(ctx, bn, storage.MustNewObjectKey("other"), nil, bytes.NewReader(other), nil, nil)
	case "append":
		_, _ = st.AppendObject(ctx, bn, key, bytes.NewReader(other[:1000]), nil, nil)
	}
}

func TestC40(t *testing.T) {
	ev.Main(t, ev.Spec[Case]{
		ID:    "C40",
		Level: "exploration",
		Rule: "harness-owned schedules: a 2-4 part object (multipart or append-built, parts of 1 B..140 KB, versioned or not) on stacks P1,P2,P3,P4,P8,P12,P14,N1 is opened with GetObject (optionally ranged) and read with a drawn cyclic read-size schedule; between reads, once the download has delivered a drawn number of bytes, interfering operations run (overwrite, delete, delete of the opened version, GC with 1 ns grace, transition, append, unrelated put); " +
			"oracle: delivered bytes are a prefix of the content resolved at open time and the stream ends at full length or with an error (for the SQL-backed stack the full old content must arrive); non-trivial = an interfering op ran after >=1 byte and before the last byte; distinct = distinct case JSON",
		Assumptions: []string{"the interleaving is part of the case (single goroutine steps reader and interferers), so failures replay exactly"},
		Gen:         genCase,
		Run:         runCase,
	})
}
