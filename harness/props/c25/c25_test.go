// Package c25 checks property C25: the lifecycle reconciler deletes or transitions
// an object, version, delete marker or upload only if an enabled rule matching
// its prefix, tags and size makes it due at that moment under S3 semantics, never
// acts on an object that was replaced after it was listed, keeps the
// NewerNoncurrentVersions most recent noncurrent versions, and prefers
// expiration over transition.
//
// The reconciler runs over a harness-side fake storage holding a generated
// version history; every Delete/Transition/Abort call is judged at the moment it
// arrives against the fake's true state by an independent S3 due-time oracle
// (safety only: nothing is required to happen).
package c25

import (
	"context"
	"fmt"
	"os"
	"sort"
	"strings"
	"sync/atomic"
	"testing"
	"time"

	"github.com/jdillenkofer/pithos/internal/storage"
	"github.com/jdillenkofer/pithos/internal/storage/metadatapart/metadatastore"
	"github.com/jdillenkofer/pithos/internal/storage/middlewares/lifecyclereconciler"
	"github.com/jdillenkofer/pithos/verifharness/ev"
	"github.com/jdillenkofer/pithos/verifharness/stacks"
	"pgregory.net/rapid"
)

// ---- case ------------------------------------------------------------------------------

const day = int64(24 * time.Hour)

type Ver struct {
	ID      string            `json:"id"`
	Marker  bool              `json:"marker"`
	Created int64             `json:"created"` // unix ns: the true creation time
	Bump    int64             `json:"bump"`    // reported LastModified = Created + Bump (>= 0; a storage may touch the row later)
	Size    int64             `json:"size"`
	Tags    map[string]string `json:"tags"`
	Class   string            `json:"class"` // "" = STANDARD
	ETag    string            `json:"etag"`
}

type Key struct {
	Key      string `json:"key"`
	Versions []Ver  `json:"versions"` // newest first; [0] is the current version
}

type Upload struct {
	Key       string `json:"key"`
	ID        string `json:"id"`
	Initiated int64  `json:"initiated"`
}

// Adv: after the AfterList-th list call returned, and before the next other call
// is served, key KeyIdx is overwritten by a client (new content, new ETag,
// created "now"). Kind put = ordinary PutObject (versioned bucket: new version on
// top; otherwise the null version is replaced); null = the null version is
// replaced wherever it is and becomes current (suspended bucket).
type Adv struct {
	KeyIdx    int    `json:"key_idx"`
	AfterList int    `json:"after_list"`
	Kind      string `json:"kind"`
}

type Case struct {
	Versioning string                  `json:"versioning"` // unversioned | enabled | suspended
	Keys       []Key                   `json:"keys"`
	Uploads    []Upload                `json:"uploads"`
	Rules      []storage.LifecycleRule `json:"rules"`
	Now        int64                   `json:"now"`
	NowZone    int                     `json:"now_zone"` // offset seconds of the location the clock reports in
	PageSize   int                     `json:"page_size"`
	ListTags   bool                    `json:"list_tags"` // ListObjects carries the tag set
	Adv        []Adv                   `json:"adv"`
	LMModel    string                  `json:"lm_model"` // plain: LastModified = creation time; pithos: see applyPithosLM
	Real       *RealCase               `json:"real,omitempty"`
}

// RealCase (part b): a script on one key of a versioning-enabled bucket in a real
// metadatapart storage, then one sweep with the clock far ahead under a single
// NoncurrentVersionExpiration rule (NoncurrentDays=1, NewerNoncurrentVersions=N).
type RealCase struct {
	N   int32 `json:"n"`
	Ops []ROp `json:"ops"`
}

type ROp struct {
	Kind string `json:"kind"` // put | transition | delete
	Idx  int    `json:"idx"`  // transition: which earlier version (mod count)
}

// ---- independent S3 due-time semantics -----------------------------------------------------

// ceilMidnight: earliest midnight UTC that is >= t (an exact midnight is itself:
// the permissive reading of "rounds up to the next midnight UTC"; pithos uses the
// strictly-later one, which is never earlier).
func ceilMidnight(t int64) int64 {
	f := t - mod(t, day)
	if f == t {
		return t
	}
	return f + day
}

func mod(a, b int64) int64 {
	m := a % b
	if m < 0 {
		m += b
	}
	return m
}

func dueDays(base int64, days int32) int64 { return ceilMidnight(base + int64(days)*day) }

func rulePrefix(r *storage.LifecycleRule) string {
	if r.Prefix != nil {
		return *r.Prefix
	}
	if r.Filter != nil {
		if r.Filter.Prefix != nil {
			return *r.Filter.Prefix
		}
		if r.Filter.And != nil && r.Filter.And.Prefix != nil {
			return *r.Filter.And.Prefix
		}
	}
	return ""
}

// matches: prefix, size and tag predicates of the rule's filter (S3: every tag of
// the filter must be present with that value; size strictly between the bounds).
func matches(r *storage.LifecycleRule, key string, size int64, tags map[string]string) bool {
	if !strings.HasPrefix(key, rulePrefix(r)) {
		return false
	}
	f := r.Filter
	if f == nil {
		return true
	}
	var gt, lt *int64
	var want []storage.LifecycleTag
	gt, lt = f.ObjectSizeGreaterThan, f.ObjectSizeLessThan
	if f.Tag != nil {
		want = append(want, *f.Tag)
	}
	if f.And != nil {
		if f.And.ObjectSizeGreaterThan != nil {
			gt = f.And.ObjectSizeGreaterThan
		}
		if f.And.ObjectSizeLessThan != nil {
			lt = f.And.ObjectSizeLessThan
		}
		want = append(want, f.And.Tags...)
	}
	if gt != nil && !(size > *gt) {
		return false
	}
	if lt != nil && !(size < *lt) {
		return false
	}
	for _, w := range want {
		if v, ok := tags[w.Key]; !ok || v != w.Value {
			return false
		}
	}
	return true
}

func enabled(r *storage.LifecycleRule) bool { return r.Status == storage.LifecycleRuleStatusEnabled }

// ---- fake storage ------------------------------------------------------------------------

type fver struct {
	Ver
	lm int64
	// since: when the version stopped being the current one (creation of the version
	// that superseded it); fixed at that moment - later deletions or replacements of
	// the superseding version do not change it. 0 while current.
	since int64
	// newer0: how many noncurrent versions were newer than this one when the sweep
	// started (-1: did not exist or was current then). Versions that other rules
	// remove during the same sweep still count: the retention clause is judged on
	// the history the sweep started from.
	newer0 int
}

type fkey struct {
	name string
	vs   []*fver // newest first
}

type action struct {
	what string
	ok   bool // justified
	why  string
}

type fake struct {
	storage.Storage
	c         *Case
	bucket    storage.BucketName
	keys      []*fkey
	uploads   []Upload
	now       int64
	listCalls int
	pending   []Adv
	advDone   map[int]bool
	seq       int
	actions   []action
	violation string
	boundary  bool
	// versions the reconciler was shown by some listing, by key -> "id/etag"
	stats map[string]int
}

func newFake(c *Case) *fake {
	f := &fake{c: c, bucket: metadatastore.MustNewBucketName("bkt"), now: c.Now, advDone: map[int]bool{}, stats: map[string]int{}}
	for _, k := range c.Keys {
		fk := &fkey{name: k.Key}
		for _, v := range k.Versions {
			fk.vs = append(fk.vs, &fver{Ver: v, lm: v.Created + v.Bump, newer0: -1})
		}
		for i := 1; i < len(fk.vs); i++ {
			fk.vs[i].since = fk.vs[i-1].Created
			fk.vs[i].newer0 = i - 1
		}
		f.keys = append(f.keys, fk)
	}
	sort.SliceStable(f.keys, func(i, j int) bool { return f.keys[i].name < f.keys[j].name })
	f.uploads = append(f.uploads, c.Uploads...)
	sort.SliceStable(f.uploads, func(i, j int) bool {
		if f.uploads[i].Key != f.uploads[j].Key {
			return f.uploads[i].Key < f.uploads[j].Key
		}
		return f.uploads[i].ID < f.uploads[j].ID
	})
	return f
}

func (f *fake) failf(format string, a ...any) {
	if f.violation == "" {
		f.violation = fmt.Sprintf(format, a...)
	}
}

func (f *fake) find(name string) *fkey {
	for _, k := range f.keys {
		if k.name == name {
			return k
		}
	}
	return nil
}

func classOf(v *fver) string {
	if v.Class == "" {
		return storage.StorageClassStandard
	}
	return v.Class
}

// pushTop makes nv the key's current version. In the pithos LastModified model
// the version that stops being the latest one gets its LastModified rewritten to
// that moment (measured on the real metadata store).
func (f *fake) pushTop(k *fkey, nv *fver) {
	if f.c.LMModel == "pithos" && len(k.vs) > 0 {
		k.vs[0].lm = nv.Created
	}
	if len(k.vs) > 0 && k.vs[0].since == 0 {
		k.vs[0].since = nv.Created
	}
	nv.newer0 = -1
	k.vs = append([]*fver{nv}, k.vs...)
}

// runAdversary performs the client writes that are due before a non-list call.
func (f *fake) runAdversary() {
	for _, a := range f.pending {
		if f.advDone[a.KeyIdx*1000+a.AfterList] || a.KeyIdx >= len(f.c.Keys) {
			continue
		}
		f.advDone[a.KeyIdx*1000+a.AfterList] = true
		k := f.find(f.c.Keys[a.KeyIdx].Key)
		if k == nil {
			continue
		}
		f.seq++
		nv := &fver{Ver: Ver{ID: fmt.Sprintf("adv-%d", f.seq), Created: f.now - 1, Size: 7, ETag: fmt.Sprintf("\"adv-etag-%d\"", f.seq), Tags: map[string]string{}}, lm: f.now - 1}
		versioned := f.c.Versioning == "enabled" && a.Kind != "null"
		if versioned {
			f.pushTop(k, nv)
		} else {
			nv.ID = "null"
			var rest []*fver
			for _, v := range k.vs {
				if v.ID != "null" {
					rest = append(rest, v)
				}
			}
			k.vs = rest
			f.pushTop(k, nv)
		}
		f.stats["adversary_writes"]++
	}
	f.pending = nil
}

// afterList counts completed listings (the last page of a paginated walk): client
// writes are injected between a complete listing and the calls that follow it,
// never between two pages of one walk (what a torn walk re-delivers depends on
// the storage's marker semantics, which this fake does not claim to model).
func (f *fake) afterList(truncated bool) {
	if truncated {
		return
	}
	f.listCalls++
	for _, a := range f.c.Adv {
		if a.AfterList == f.listCalls {
			f.pending = append(f.pending, a)
		}
	}
}

func (f *fake) ListBuckets(ctx context.Context) ([]storage.Bucket, error) {
	return []storage.Bucket{{Name: f.bucket}}, nil
}

func (f *fake) GetBucketLifecycleConfiguration(ctx context.Context, b storage.BucketName) (*storage.BucketLifecycleConfiguration, error) {
	return &storage.BucketLifecycleConfiguration{Rules: f.c.Rules}, nil
}

func (f *fake) page() int {
	if f.c.PageSize > 0 {
		return f.c.PageSize
	}
	return 1000
}

func tm(ns int64) time.Time { return time.Unix(0, ns).UTC() }

func (f *fake) ListObjects(ctx context.Context, b storage.BucketName, o storage.ListObjectsOptions) (*storage.ListBucketResult, error) {
	f.runAdversary()
	res := &storage.ListBucketResult{}
	max := f.page()
	if o.MaxKeys > 0 && int(o.MaxKeys) < max {
		max = int(o.MaxKeys)
	}
	for _, k := range f.keys {
		if o.StartAfter != nil && k.name <= *o.StartAfter {
			continue
		}
		if len(k.vs) == 0 || k.vs[0].Marker {
			continue
		}
		if len(res.Objects) == max {
			res.IsTruncated = true
			break
		}
		v := k.vs[0]
		obj := storage.Object{Key: metadatastore.MustNewObjectKey(k.name), LastModified: tm(v.lm), ETag: v.ETag, Size: v.Size}
		if v.Class != "" {
			c := v.Class
			obj.StorageClass = &c
		}
		if v.ID != "" {
			id := v.ID
			obj.VersionID = &id
		}
		if f.c.ListTags {
			obj.Tags = v.Tags
		}
		res.Objects = append(res.Objects, obj)
	}
	f.afterList(res.IsTruncated)
	return res, nil
}

func (f *fake) ListObjectVersions(ctx context.Context, b storage.BucketName, o storage.ListObjectVersionsOptions) (*storage.ListObjectVersionsResult, error) {
	f.runAdversary()
	res := &storage.ListObjectVersionsResult{}
	max := f.page()
	if o.MaxKeys > 0 && int(o.MaxKeys) < max {
		max = int(o.MaxKeys)
	}
	type pair struct {
		k *fkey
		i int
	}
	var all []pair
	for _, k := range f.keys {
		for i := range k.vs {
			all = append(all, pair{k, i})
		}
	}
	start := 0
	if o.KeyMarker != nil {
		for start < len(all) {
			p := all[start]
			if p.k.name > *o.KeyMarker {
				break
			}
			start++
			if p.k.name == *o.KeyMarker && o.VersionIDMarker != nil && p.k.vs[p.i].ID == *o.VersionIDMarker {
				break
			}
		}
	}
	for _, p := range all[start:] {
		if len(res.Versions) == max {
			res.IsTruncated = true
			last := res.Versions[len(res.Versions)-1]
			lk, lv := last.Key.String(), last.VersionID
			res.NextKeyMarker, res.NextVersionIDMarker = &lk, &lv
			break
		}
		v := p.k.vs[p.i]
		ov := storage.ObjectVersion{Key: metadatastore.MustNewObjectKey(p.k.name), VersionID: v.ID, IsDeleteMarker: v.Marker, IsLatest: p.i == 0, LastModified: tm(v.lm), Size: v.Size}
		if !v.Marker {
			e := v.ETag
			ov.ETag = &e
			if v.Class != "" {
				c := v.Class
				ov.StorageClass = &c
			}
		}
		res.Versions = append(res.Versions, ov)
	}
	f.afterList(res.IsTruncated)
	return res, nil
}

func (f *fake) ListMultipartUploads(ctx context.Context, b storage.BucketName, o storage.ListMultipartUploadsOptions) (*storage.ListMultipartUploadsResult, error) {
	f.runAdversary()
	res := &storage.ListMultipartUploadsResult{BucketName: b}
	max := f.page()
	for _, u := range f.uploads {
		if o.KeyMarker != nil && *o.KeyMarker != "" {
			if u.Key < *o.KeyMarker {
				continue
			}
			if u.Key == *o.KeyMarker && (o.UploadIdMarker == nil || *o.UploadIdMarker == "" || u.ID <= *o.UploadIdMarker) {
				continue
			}
		}
		if len(res.Uploads) == max {
			res.IsTruncated = true
			last := res.Uploads[len(res.Uploads)-1]
			res.NextKeyMarker, res.NextUploadIdMarker = last.Key.String(), last.UploadId.String()
			break
		}
		res.Uploads = append(res.Uploads, storage.Upload{Key: metadatastore.MustNewObjectKey(u.Key), UploadId: metadatastore.MustNewUploadId(u.ID), Initiated: tm(u.Initiated)})
	}
	f.afterList(res.IsTruncated)
	return res, nil
}

func (f *fake) GetObjectTagging(ctx context.Context, b storage.BucketName, key storage.ObjectKey, o *storage.ObjectTaggingOptions) (map[string]string, error) {
	f.runAdversary()
	k := f.find(key.String())
	if k == nil || len(k.vs) == 0 {
		return nil, storage.ErrNoSuchKey
	}
	v := k.vs[0]
	if o != nil && o.VersionID != nil {
		v = nil
		for _, x := range k.vs {
			if x.ID == *o.VersionID {
				v = x
			}
		}
	}
	if v == nil || v.Marker {
		return nil, storage.ErrNoSuchKey
	}
	out := map[string]string{}
	for a, b := range v.Tags {
		out[a] = b
	}
	return out, nil
}

// noncurrentInfo: for version index i (> 0) of key k: the time it became
// noncurrent (creation of its successor) and how many noncurrent versions
// (objects and delete markers alike - the reading that protects least) are newer.
func noncurrentInfo(k *fkey, i int) (since int64, newer int) {
	v := k.vs[i]
	since, newer = v.since, i-1
	if since == 0 {
		since = k.vs[i-1].Created
	}
	if v.newer0 > newer {
		newer = v.newer0
	}
	return
}

func (f *fake) nearBoundary(due int64) {
	if d := f.now - due; d >= -1 && d <= 1 {
		f.boundary = true
	}
}

func (f *fake) DeleteObject(ctx context.Context, b storage.BucketName, key storage.ObjectKey, o *storage.DeleteObjectOptions) (*storage.DeleteObjectResult, error) {
	f.runAdversary()
	k := f.find(key.String())
	if k == nil || len(k.vs) == 0 {
		return nil, storage.ErrNoSuchKey
	}
	if o != nil && o.VersionID != nil {
		idx := -1
		for i, v := range k.vs {
			if v.ID == *o.VersionID {
				idx = i
			}
		}
		if idx < 0 {
			return &storage.DeleteObjectResult{}, nil
		}
		v := k.vs[idx]
		if o.IfMatchETag != nil && (v.Marker || v.ETag != *o.IfMatchETag) {
			return nil, storage.ErrPreconditionFailed
		}
		f.judgeVersionDelete(k, idx)
		k.vs = append(k.vs[:idx:idx], k.vs[idx+1:]...)
		return &storage.DeleteObjectResult{}, nil
	}
	cur := k.vs[0]
	if o != nil && o.IfMatchETag != nil && (cur.Marker || cur.ETag != *o.IfMatchETag) {
		return nil, storage.ErrPreconditionFailed
	}
	what := fmt.Sprintf("DeleteObject(%q) hits current version %s (created %s, size %d, tags %v)", k.name, cur.ID, tm(cur.Created).Format(time.RFC3339Nano), cur.Size, cur.Tags)
	if cur.Marker {
		f.record(what, false, "the current version is a delete marker")
	} else {
		ok, why := false, "no enabled Expiration rule (Days/Date) matches it and is due"
		for i := range f.c.Rules {
			r := &f.c.Rules[i]
			if !enabled(r) || r.Expiration == nil || !matches(r, k.name, cur.Size, cur.Tags) {
				continue
			}
			if r.Expiration.Date != nil && f.now >= r.Expiration.Date.UnixNano() {
				ok = true
			}
			if r.Expiration.Days != nil {
				due := dueDays(cur.Created, *r.Expiration.Days)
				f.nearBoundary(due)
				if f.now >= due {
					ok = true
				} else {
					why = fmt.Sprintf("rule %d would be due at %s, now is %s", i, tm(due).Format(time.RFC3339Nano), tm(f.now).Format(time.RFC3339Nano))
				}
			}
		}
		f.record(what, ok, why)
	}
	if f.c.Versioning == "unversioned" {
		k.vs = nil
	} else {
		f.seq++
		f.pushTop(k, &fver{Ver: Ver{ID: fmt.Sprintf("dm-%d", f.seq), Marker: true, Created: f.now}, lm: f.now})
	}
	return &storage.DeleteObjectResult{}, nil
}

func (f *fake) judgeVersionDelete(k *fkey, idx int) {
	v := k.vs[idx]
	what := fmt.Sprintf("DeleteObject(%q, versionId=%s) hits version #%d of %d (marker=%v, created %s)", k.name, v.ID, idx, len(k.vs), v.Marker, tm(v.Created).Format(time.RFC3339Nano))
	if v.Marker {
		// expired = no object version below it. (A marker that was current and sole
		// when listed and has been superseded by a client write since then is
		// tolerated: removing it touches no data.)
		for _, x := range k.vs[idx+1:] {
			if !x.Marker {
				f.record(what, false, "the delete marker is not expired: the key still has older object versions")
				return
			}
		}
		if idx != 0 && f.stats["adversary_writes"] == 0 {
			f.record(what, false, "a noncurrent delete marker is not covered by any rule the reconciler implements")
			return
		}
		for i := range f.c.Rules {
			r := &f.c.Rules[i]
			if enabled(r) && r.Expiration != nil && r.Expiration.ExpiredObjectDeleteMarker != nil && *r.Expiration.ExpiredObjectDeleteMarker && matches(r, k.name, 0, nil) {
				f.record(what, true, "")
				return
			}
		}
		f.record(what, false, "no enabled ExpiredObjectDeleteMarker rule matches the key")
		return
	}
	if idx == 0 {
		f.record(what, false, "the version is the key's CURRENT version (a by-version delete is only justified for noncurrent versions)")
		return
	}
	since, newer := noncurrentInfo(k, idx)
	ok, why := false, "no enabled NoncurrentVersionExpiration rule matches it and is due"
	for i := range f.c.Rules {
		r := &f.c.Rules[i]
		e := r.NoncurrentVersionExpiration
		if !enabled(r) || e == nil || e.NoncurrentDays == nil || !matches(r, k.name, v.Size, v.Tags) {
			continue
		}
		due := dueDays(since, *e.NoncurrentDays)
		f.nearBoundary(due)
		if f.now < due {
			why = fmt.Sprintf("rule %d: noncurrent since %s, due at %s, now is %s", i, tm(since).Format(time.RFC3339Nano), tm(due).Format(time.RFC3339Nano), tm(f.now).Format(time.RFC3339Nano))
			continue
		}
		if e.NewerNoncurrentVersions != nil && newer < int(*e.NewerNoncurrentVersions) {
			why = fmt.Sprintf("rule %d keeps the %d most recent noncurrent versions, only %d are newer than this one", i, *e.NewerNoncurrentVersions, newer)
			continue
		}
		ok = true
	}
	f.record(what, ok, why)
}

func (f *fake) TransitionObjectStorageClass(ctx context.Context, b storage.BucketName, key storage.ObjectKey, target string, o *storage.TransitionObjectStorageClassOptions) error {
	f.runAdversary()
	k := f.find(key.String())
	if k == nil || len(k.vs) == 0 {
		return storage.ErrNoSuchKey
	}
	idx := 0
	if o != nil && o.VersionID != nil {
		idx = -1
		for i, v := range k.vs {
			if v.ID == *o.VersionID {
				idx = i
			}
		}
		if idx < 0 {
			return storage.ErrNoSuchKey
		}
	}
	v := k.vs[idx]
	if v.Marker {
		return storage.ErrNoSuchKey
	}
	if o != nil && o.IfMatchETag != nil && v.ETag != *o.IfMatchETag {
		return storage.ErrPreconditionFailed
	}
	byVersion := o != nil && o.VersionID != nil
	what := fmt.Sprintf("TransitionObjectStorageClass(%q, versionId=%v, %s) hits version #%d (id %s, class %s, created %s)", k.name, byVersion, target, idx, v.ID, classOf(v), tm(v.Created).Format(time.RFC3339Nano))
	ok, why := false, "no enabled rule with a due transition to that class matches it"
	if !byVersion || idx == 0 {
		expDue := false
		for i := range f.c.Rules {
			r := &f.c.Rules[i]
			if !enabled(r) || !matches(r, k.name, v.Size, v.Tags) {
				continue
			}
			// preference: judged on the reported LastModified (all the reconciler can know)
			if r.Expiration != nil {
				if r.Expiration.Date != nil && f.now >= r.Expiration.Date.UnixNano() {
					expDue = true
				}
				if r.Expiration.Days != nil && f.now >= dueDays(v.lm, *r.Expiration.Days)+day*boolInt(mod(v.lm, day) == 0) {
					expDue = true
				}
			}
			if byVersion {
				continue // a by-version transition of the current version is never justified
			}
			for _, t := range r.Transitions {
				if t.StorageClass != target {
					continue
				}
				if t.Date != nil && f.now >= t.Date.UnixNano() {
					ok = true
				}
				if t.Days != nil {
					due := dueDays(v.Created, *t.Days)
					f.nearBoundary(due)
					if f.now >= due {
						ok = true
					} else {
						why = fmt.Sprintf("rule %d: transition due at %s, now is %s", i, tm(due).Format(time.RFC3339Nano), tm(f.now).Format(time.RFC3339Nano))
					}
				}
			}
		}
		if byVersion {
			ok, why = false, "the version is the key's CURRENT version (NoncurrentVersionTransition applies to noncurrent versions only)"
		} else if ok && expDue && !strings.HasPrefix(v.ETag, "\"adv-etag") {
			ok, why = false, "the object is also due for expiration: expiration must win over transition"
		}
	} else {
		since, newer := noncurrentInfo(k, idx)
		for i := range f.c.Rules {
			r := &f.c.Rules[i]
			if !enabled(r) || !matches(r, k.name, v.Size, v.Tags) {
				continue
			}
			for _, t := range r.NoncurrentVersionTransitions {
				if t.StorageClass != target || t.NoncurrentDays == nil {
					continue
				}
				due := dueDays(since, *t.NoncurrentDays)
				f.nearBoundary(due)
				if f.now < due {
					why = fmt.Sprintf("rule %d: noncurrent since %s, transition due at %s, now is %s", i, tm(since).Format(time.RFC3339Nano), tm(due).Format(time.RFC3339Nano), tm(f.now).Format(time.RFC3339Nano))
					continue
				}
				if t.NewerNoncurrentVersions != nil && newer < int(*t.NewerNoncurrentVersions) {
					why = fmt.Sprintf("rule %d keeps the %d most recent noncurrent versions, only %d are newer than this one", i, *t.NewerNoncurrentVersions, newer)
					continue
				}
				ok = true
			}
		}
	}
	f.record(what, ok, why)
	v.Class = target
	if f.c.LMModel == "pithos" {
		v.lm = f.now // pithos rewrites LastModified on a transition
	}
	return nil
}

func boolInt(b bool) int64 {
	if b {
		return 1
	}
	return 0
}

func (f *fake) AbortMultipartUpload(ctx context.Context, b storage.BucketName, key storage.ObjectKey, id storage.UploadId) error {
	f.runAdversary()
	for i, u := range f.uploads {
		if u.Key == key.String() && u.ID == id.String() {
			what := fmt.Sprintf("AbortMultipartUpload(%q, %s) initiated %s", u.Key, u.ID, tm(u.Initiated).Format(time.RFC3339Nano))
			ok, why := false, "no enabled AbortIncompleteMultipartUpload rule matches the key and is due"
			for ri := range f.c.Rules {
				r := &f.c.Rules[ri]
				a := r.AbortIncompleteMultipartUpload
				if !enabled(r) || a == nil || a.DaysAfterInitiation == nil || !strings.HasPrefix(u.Key, rulePrefix(r)) {
					continue
				}
				due := dueDays(u.Initiated, *a.DaysAfterInitiation)
				f.nearBoundary(due)
				if f.now >= due {
					ok = true
				} else {
					why = fmt.Sprintf("rule %d: due at %s, now is %s", ri, tm(due).Format(time.RFC3339Nano), tm(f.now).Format(time.RFC3339Nano))
				}
			}
			f.record(what, ok, why)
			f.uploads = append(f.uploads[:i:i], f.uploads[i+1:]...)
			return nil
		}
	}
	return storage.ErrNoSuchKey
}

func (f *fake) record(what string, ok bool, why string) {
	f.actions = append(f.actions, action{what, ok, why})
	if !ok {
		f.failf("unjustified lifecycle action: %s: %s", what, why)
	}
}

// ---- run -------------------------------------------------------------------------------

type reconciler interface {
	ReconcileOnce(ctx context.Context, cancelTask *atomic.Bool)
}

const (
	matcherNullRace  = "c25.noncurrentDeleteUnguarded"     // KF-C25-1
	matcherRetention = "c25.retentionSortedByLastModified" // KF-C25-2
	matcherMarkerRace = "c25.expiredDeleteMarkerNullRace"  // KF-C25-3
)

func run(env *ev.Env, c Case) (o ev.Outcome) {
	if c.Real != nil {
		return runReal(env, c)
	}
	if verr := storage.ValidateBucketLifecycleConfiguration(&storage.BucketLifecycleConfiguration{Rules: c.Rules}); verr != nil {
		o.Discard = true
		return
	}
	f := newFake(&c)
	loc := time.UTC
	if c.NowZone != 0 {
		loc = time.FixedZone("z", c.NowZone)
	}
	mw := lifecyclereconciler.NewStorageMiddleware(f, lifecyclereconciler.WithNow(func() time.Time { return time.Unix(0, c.Now).In(loc) }), lifecyclereconciler.WithReconcileInterval(0))
	r, isR := mw.(reconciler)
	if !isR {
		o.Failf("harness: middleware has no ReconcileOnce")
		return
	}
	r.ReconcileOnce(context.Background(), nil)

	if os.Getenv("C25_TRACE") != "" {
		for _, a := range f.actions {
			fmt.Printf("TRACE %v %s | %s\n", a.ok, a.what, a.why)
		}
	}
	o.Class("versioning:" + c.Versioning)
	o.Sub = len(f.actions)
	o.Count("actions", len(f.actions))
	for _, a := range f.actions {
		cl := "action:" + strings.SplitN(a.what, "(", 2)[0]
		if strings.Contains(a.what, "versionId=") && !strings.Contains(a.what, "versionId=false") {
			cl += ":by-version"
		}
		o.Class(cl)
	}
	if len(f.actions) == 0 {
		o.Class("action:none")
	}
	if f.stats["adversary_writes"] > 0 {
		o.Class("adversary:wrote")
	}
	if f.boundary {
		o.Class("boundary:+-1ns")
	}
	protected := retentionProtected(&c)
	if protected {
		o.Class("retention:protected-candidate")
	}
	bumped := false
	for _, k := range c.Keys {
		for _, v := range k.Versions {
			if v.Bump != 0 {
				bumped = true
			}
		}
	}
	_ = bumped
	o.Class("timestamps:" + c.LMModel)
	if f.violation != "" {
		if env.Known(matcherNullRace) && f.stats["adversary_writes"] > 0 && strings.Contains(f.violation, "versionId=null") && strings.Contains(f.violation, "CURRENT version") && strings.HasPrefix(f.violation, "unjustified lifecycle action: DeleteObject") {
			o.KnownHits = append(o.KnownHits, "KF-C25-1")
			o.Excluded = true
		} else if env.Known(matcherMarkerRace) && f.stats["adversary_writes"] > 0 && strings.Contains(f.violation, "versionId=null") && strings.Contains(f.violation, "CURRENT version") &&
			strings.HasPrefix(f.violation, "unjustified lifecycle action: DeleteObject") && nullMarkerOverwritten(&c, f.violation) {
			// ExpiredObjectDeleteMarker: the listed "null" delete marker of a versioning-suspended bucket was
			// replaced by a client's put before the reconciler deleted it by version id (a delete marker has no
			// ETag, so the guard of KF-C25-1's fix does not apply)
			o.KnownHits = append(o.KnownHits, "KF-C25-3")
			o.Excluded = true
		} else if env.Known(matcherRetention) && c.LMModel == "pithos" && strings.Contains(f.violation, "most recent noncurrent versions") && lmReordered(&c, f.violation) {
			// the retention count was taken over a history re-sorted by LastModified values
			// that pithos' store rewrites on transitions
			o.KnownHits = append(o.KnownHits, "KF-C25-2")
			o.Excluded = true
		} else {
			o.Failf("%s [now=%s, %d actions]", f.violation, tm(c.Now).Format(time.RFC3339Nano), len(f.actions))
			return
		}
	}
	o.NonTrivial = f.boundary || protected || boundaryCandidate(&c)
	return
}

// nullMarkerOverwritten: the bucket is versioning-suspended, an enabled rule has ExpiredObjectDeleteMarker, and
// the key named in the violation was listed with a "null" delete marker as its only version.
func nullMarkerOverwritten(c *Case, violation string) bool {
	if c.Versioning != "suspended" {
		return false
	}
	rule := false
	for _, r := range c.Rules {
		if r.Status == "Enabled" && r.Expiration != nil && r.Expiration.ExpiredObjectDeleteMarker != nil && *r.Expiration.ExpiredObjectDeleteMarker {
			rule = true
		}
	}
	if !rule {
		return false
	}
	for _, k := range c.Keys {
		if !strings.Contains(violation, fmt.Sprintf("DeleteObject(%q, versionId=null)", k.Key)) {
			continue
		}
		return len(k.Versions) == 1 && k.Versions[0].ID == "null" && k.Versions[0].Marker
	}
	return false
}

// lmReordered: the key named in the violation has reported LastModified values
// that are not non-increasing along its version history (so sorting by
// LastModified changes the order).
func lmReordered(c *Case, violation string) bool {
	for _, k := range c.Keys {
		if !strings.Contains(violation, fmt.Sprintf("(%q, ", k.Key)) {
			continue
		}
		for i := 1; i < len(k.Versions); i++ {
			if k.Versions[i].Created+k.Versions[i].Bump > k.Versions[i-1].Created+k.Versions[i-1].Bump {
				return true
			}
		}
	}
	return false
}

type realVer struct {
	id     string
	marker bool
}

func runReal(env *ev.Env, c Case) (o ev.Outcome) {
	o.Class("part:real-storage")
	dir := env.TempDir()
	defer os.RemoveAll(dir)
	in, err := stacks.Open(dir, stacks.LayoutFor("P1"), stacks.Options{})
	if err != nil {
		o.Failf("harness: open storage: %v", err)
		return
	}
	defer in.Close()
	ctx := context.Background()
	st := in.Storage
	b := metadatastore.MustNewBucketName("bkt")
	key := metadatastore.MustNewObjectKey("k")
	en := storage.BucketVersioningStatusEnabled
	if err := st.CreateBucket(ctx, b); err != nil {
		o.Failf("harness: %v", err)
		return
	}
	if err := st.PutBucketVersioningConfiguration(ctx, b, &storage.BucketVersioningConfiguration{Status: &en}); err != nil {
		o.Failf("harness: %v", err)
		return
	}
	var hist []realVer // write order, newest last
	transitions := 0
	for i, op := range c.Real.Ops {
		switch op.Kind {
		case "put":
			r, err := st.PutObject(ctx, b, key, nil, strings.NewReader(fmt.Sprintf("body-%d", i)), nil, nil)
			if err != nil || r.VersionID == nil {
				o.Failf("harness: put: %v", err)
				return
			}
			hist = append(hist, realVer{id: *r.VersionID})
		case "delete":
			r, err := st.DeleteObject(ctx, b, key, nil)
			if err != nil {
				o.Failf("harness: delete: %v", err)
				return
			}
			if r != nil && r.VersionID != nil {
				hist = append(hist, realVer{id: *r.VersionID, marker: true})
			} else {
				o.Discard = true
				return
			}
		case "transition":
			if len(hist) == 0 {
				continue
			}
			v := hist[op.Idx%len(hist)]
			if v.marker {
				continue
			}
			if err := st.TransitionObjectStorageClass(ctx, b, key, "GLACIER", &storage.TransitionObjectStorageClassOptions{VersionID: &v.id}); err == nil {
				transitions++
			}
		}
		time.Sleep(time.Millisecond) // distinct timestamps ("sleep at least")
	}
	rule := storage.LifecycleRule{ID: pS("keep"), Status: storage.LifecycleRuleStatusEnabled, Filter: &storage.LifecycleFilter{},
		NoncurrentVersionExpiration: &storage.LifecycleNoncurrentVersionExpiration{NoncurrentDays: p32(1), NewerNoncurrentVersions: p32(c.Real.N)}}
	if err := st.PutBucketLifecycleConfiguration(ctx, b, &storage.BucketLifecycleConfiguration{Rules: []storage.LifecycleRule{rule}}); err != nil {
		o.Failf("harness: put lifecycle: %v", err)
		return
	}
	far := time.Now().Add(400 * 24 * time.Hour)
	mw := lifecyclereconciler.NewStorageMiddleware(st, lifecyclereconciler.WithNow(func() time.Time { return far }), lifecyclereconciler.WithReconcileInterval(0))
	mw.(reconciler).ReconcileOnce(ctx, nil)
	res, err := st.ListObjectVersions(ctx, b, storage.ListObjectVersionsOptions{MaxKeys: 1000})
	if err != nil {
		o.Failf("harness: list: %v", err)
		return
	}
	alive := map[string]bool{}
	for _, v := range res.Versions {
		alive[v.VersionID] = true
	}
	// noncurrent versions, most recent first = hist without its last element, reversed
	o.Sub++
	deleted := 0
	for _, v := range hist {
		if !alive[v.id] {
			deleted++
		}
	}
	o.Count("real_deleted_versions", deleted)
	o.Count("real_transitions", transitions)
	for rank, i := 0, len(hist)-2; i >= 0 && rank < int(c.Real.N); rank, i = rank+1, i-1 {
		v := hist[i]
		if !v.marker && !alive[v.id] {
			if transitions > 0 && env.Known(matcherRetention) {
				o.KnownHits = append(o.KnownHits, "KF-C25-2")
				o.Excluded = true
				o.NonTrivial = true
				return
			}
			o.Failf("real storage: NoncurrentVersionExpiration with NewerNoncurrentVersions=%d deleted version #%d (in write order), which is the %d. most recent noncurrent version of the key (%d versions written, %d transitions)",
				c.Real.N, i+1, rank+1, len(hist), transitions)
			return
		}
	}
	if transitions > 0 {
		o.Class("real:with-transition")
	}
	o.NonTrivial = deleted > 0 || transitions > 0
	return
}

// retentionProtected: some noncurrent version is old enough for a rule with
// NewerNoncurrentVersions but has fewer newer noncurrent versions than that.
func retentionProtected(c *Case) bool {
	for _, k := range c.Keys {
		for i := 1; i < len(k.Versions); i++ {
			v := k.Versions[i]
			if v.Marker {
				continue
			}
			since := k.Versions[i-1].Created
			for ri := range c.Rules {
				r := &c.Rules[ri]
				if !enabled(r) || !matches(r, k.Key, v.Size, v.Tags) {
					continue
				}
				if e := r.NoncurrentVersionExpiration; e != nil && e.NewerNoncurrentVersions != nil && e.NoncurrentDays != nil && c.Now >= dueDays(since, *e.NoncurrentDays) && i-1 <= int(*e.NewerNoncurrentVersions) {
					return true
				}
				for _, t := range r.NoncurrentVersionTransitions {
					if t.NewerNoncurrentVersions != nil && t.NoncurrentDays != nil && c.Now >= dueDays(since, *t.NoncurrentDays) && i-1 <= int(*t.NewerNoncurrentVersions) {
						return true
					}
				}
			}
		}
	}
	return false
}

// allDues lists the due times of every (entity, enabled matching rule action) pair.
func allDues(c *Case) []int64 {
	var out []int64
	for _, k := range c.Keys {
		for i, v := range k.Versions {
			if v.Marker {
				continue
			}
			for ri := range c.Rules {
				r := &c.Rules[ri]
				if !matches(r, k.Key, v.Size, v.Tags) {
					continue
				}
				if i == 0 {
					if r.Expiration != nil && r.Expiration.Days != nil {
						out = append(out, dueDays(v.Created, *r.Expiration.Days), dueDays(v.Created+v.Bump, *r.Expiration.Days)+day*boolInt(mod(v.Created+v.Bump, day) == 0))
					}
					if r.Expiration != nil && r.Expiration.Date != nil {
						out = append(out, r.Expiration.Date.UnixNano())
					}
					for _, t := range r.Transitions {
						if t.Days != nil {
							out = append(out, dueDays(v.Created, *t.Days), dueDays(v.Created+v.Bump, *t.Days)+day*boolInt(mod(v.Created+v.Bump, day) == 0))
						}
						if t.Date != nil {
							out = append(out, t.Date.UnixNano())
						}
					}
				} else {
					since := k.Versions[i-1].Created
					sinceLM := since + k.Versions[i-1].Bump
					if e := r.NoncurrentVersionExpiration; e != nil && e.NoncurrentDays != nil {
						out = append(out, dueDays(since, *e.NoncurrentDays), dueDays(sinceLM, *e.NoncurrentDays)+day*boolInt(mod(sinceLM, day) == 0))
					}
					for _, t := range r.NoncurrentVersionTransitions {
						if t.NoncurrentDays != nil {
							out = append(out, dueDays(since, *t.NoncurrentDays), dueDays(sinceLM, *t.NoncurrentDays)+day*boolInt(mod(sinceLM, day) == 0))
						}
					}
				}
			}
		}
	}
	for _, u := range c.Uploads {
		for ri := range c.Rules {
			r := &c.Rules[ri]
			if a := r.AbortIncompleteMultipartUpload; a != nil && a.DaysAfterInitiation != nil && strings.HasPrefix(u.Key, rulePrefix(r)) {
				out = append(out, dueDays(u.Initiated, *a.DaysAfterInitiation)+day*boolInt(mod(u.Initiated, day) == 0))
			}
		}
	}
	return out
}

func boundaryCandidate(c *Case) bool {
	for _, d := range allDues(c) {
		if x := c.Now - d; x >= -1 && x <= 1 {
			return true
		}
	}
	return false
}

// ---- generator -------------------------------------------------------------------------

var (
	classes  = []string{"STANDARD_IA", "GLACIER", "DEEP_ARCHIVE"}
	prefixes = []string{"", "a", "a/", "a/b", "logs/", "z"}
	keyNames = []string{"a", "a/", "a/b", "a/b/c", "ab", "logs/1", "logs/2", "b", "z", "A"}
	tagKVs   = [][2]string{{"env", "prod"}, {"env", "dev"}, {"team", "x"}, {"k", ""}}
	epoch    = int64(1_700_006_400_000_000_000) // 2023-11-15 00:00:00 UTC, a midnight
)

func p32(v int32) *int32  { return &v }
func p64(v int64) *int64  { return &v }
func pS(s string) *string { return &s }

func genTime(t *rapid.T, label string) int64 {
	d := rapid.Int64Range(-400, 30).Draw(t, label+"D")
	base := epoch + d*day
	switch rapid.IntRange(0, 6).Draw(t, label+"K") {
	case 0:
		return base // exactly midnight
	case 1:
		return base - 1
	case 2:
		return base + 1
	case 3:
		return base + day/2
	default:
		return base + rapid.Int64Range(0, day-1).Draw(t, label+"O")
	}
}

func genTags(t *rapid.T, label string) map[string]string {
	m := map[string]string{}
	for _, i := range rapid.SliceOfNDistinct(rapid.IntRange(0, len(tagKVs)-1), 0, 2, func(i int) string { return tagKVs[i][0] }).Draw(t, label) {
		m[tagKVs[i][0]] = tagKVs[i][1]
	}
	return m
}

func genFilter(t *rapid.T, allowTags, allowSize bool) (prefix *string, filter *storage.LifecycleFilter) {
	pf := rapid.SampledFrom(prefixes).Draw(t, "prefix")
	switch rapid.IntRange(0, 6).Draw(t, "filterK") {
	case 0:
		return &pf, nil // legacy top-level prefix
	case 1:
		return nil, &storage.LifecycleFilter{Prefix: &pf}
	case 2:
		if allowTags {
			kv := rapid.SampledFrom(tagKVs).Draw(t, "ftag")
			return nil, &storage.LifecycleFilter{Tag: &storage.LifecycleTag{Key: kv[0], Value: kv[1]}}
		}
		return nil, &storage.LifecycleFilter{}
	case 3:
		if allowSize {
			if rapid.Bool().Draw(t, "gt") {
				return nil, &storage.LifecycleFilter{ObjectSizeGreaterThan: p64(rapid.SampledFrom([]int64{0, 9, 10, 100}).Draw(t, "sz"))}
			}
			return nil, &storage.LifecycleFilter{ObjectSizeLessThan: p64(rapid.SampledFrom([]int64{1, 10, 11, 100}).Draw(t, "sz"))}
		}
		return nil, &storage.LifecycleFilter{Prefix: &pf}
	case 4, 5:
		and := &storage.LifecycleFilterAnd{}
		if rapid.Bool().Draw(t, "andP") {
			and.Prefix = &pf
		}
		if allowTags {
			for _, i := range rapid.SliceOfNDistinct(rapid.IntRange(0, len(tagKVs)-1), 0, 2, func(i int) string { return tagKVs[i][0] }).Draw(t, "andTags") {
				and.Tags = append(and.Tags, storage.LifecycleTag{Key: tagKVs[i][0], Value: tagKVs[i][1]})
			}
		}
		if allowSize && rapid.Bool().Draw(t, "andS") {
			lo := rapid.SampledFrom([]int64{0, 5, 10}).Draw(t, "lo")
			and.ObjectSizeGreaterThan = p64(lo)
			if rapid.Bool().Draw(t, "andHi") {
				and.ObjectSizeLessThan = p64(lo + rapid.SampledFrom([]int64{1, 2, 6, 100}).Draw(t, "span"))
			}
		}
		return nil, &storage.LifecycleFilter{And: and}
	default:
		return nil, &storage.LifecycleFilter{}
	}
}

func genDays(t *rapid.T, label string, min int32) int32 {
	return rapid.SampledFrom([]int32{min, 1, 2, 7, 30, 365}).Draw(t, label)
}

func genDate(t *rapid.T, label string) *time.Time {
	d := time.Unix(0, epoch+rapid.Int64Range(-30, 30).Draw(t, label)*day).UTC()
	return &d
}

func genRule(t *rapid.T, idx int) storage.LifecycleRule {
	r := storage.LifecycleRule{ID: pS(fmt.Sprintf("r%d", idx)), Status: storage.LifecycleRuleStatusEnabled}
	if rapid.IntRange(0, 5).Draw(t, "disabled") == 0 {
		r.Status = storage.LifecycleRuleStatusDisabled
	}
	kind := rapid.IntRange(0, 7).Draw(t, "ruleKind")
	abort := kind == 5 || (kind == 7 && rapid.Bool().Draw(t, "withAbort"))
	eodm := kind == 6
	r.Prefix, r.Filter = genFilter(t, !abort && !eodm, !abort)
	switch kind {
	case 0: // expiration
		if rapid.IntRange(0, 3).Draw(t, "expDate") == 0 {
			r.Expiration = &storage.LifecycleExpiration{Date: genDate(t, "expD")}
		} else {
			r.Expiration = &storage.LifecycleExpiration{Days: p32(genDays(t, "expDays", 1))}
		}
	case 1, 7: // transitions (+ maybe expiration)
		n := rapid.IntRange(1, 3).Draw(t, "nTrans")
		perm := rapid.Permutation(classes).Draw(t, "tclasses")
		for i := 0; i < n; i++ {
			tr := storage.LifecycleTransition{StorageClass: perm[i]}
			if rapid.IntRange(0, 4).Draw(t, "tDate") == 0 {
				tr.Date = genDate(t, "tD")
			} else {
				tr.Days = p32(genDays(t, "tDays", 0))
			}
			r.Transitions = append(r.Transitions, tr)
		}
		if rapid.Bool().Draw(t, "withExp") {
			maxT := int32(0)
			for _, tr := range r.Transitions {
				if tr.Days != nil && *tr.Days > maxT {
					maxT = *tr.Days
				}
			}
			if rapid.IntRange(0, 3).Draw(t, "expDate2") == 0 {
				r.Expiration = &storage.LifecycleExpiration{Date: genDate(t, "expD2")}
			} else {
				r.Expiration = &storage.LifecycleExpiration{Days: p32(maxT + rapid.SampledFrom([]int32{1, 2, 30}).Draw(t, "expGap"))}
			}
		}
	case 2: // noncurrent expiration
		e := &storage.LifecycleNoncurrentVersionExpiration{NoncurrentDays: p32(genDays(t, "ncDays", 1))}
		if r.Filter != nil && rapid.Bool().Draw(t, "keepN") {
			e.NewerNoncurrentVersions = p32(rapid.SampledFrom([]int32{1, 2, 3}).Draw(t, "N"))
		}
		r.NoncurrentVersionExpiration = e
	case 3, 4: // noncurrent transitions (+ maybe noncurrent expiration)
		n := rapid.IntRange(1, 2).Draw(t, "nNcTrans")
		perm := rapid.Permutation(classes).Draw(t, "ncclasses")
		maxT := int32(0)
		for i := 0; i < n; i++ {
			tr := storage.LifecycleNoncurrentVersionTransition{StorageClass: perm[i], NoncurrentDays: p32(genDays(t, "nctDays", 1))}
			if *tr.NoncurrentDays > maxT {
				maxT = *tr.NoncurrentDays
			}
			if r.Filter != nil && rapid.Bool().Draw(t, "ncKeepN") {
				tr.NewerNoncurrentVersions = p32(rapid.SampledFrom([]int32{1, 2}).Draw(t, "ncN"))
			}
			r.NoncurrentVersionTransitions = append(r.NoncurrentVersionTransitions, tr)
		}
		if kind == 4 {
			e := &storage.LifecycleNoncurrentVersionExpiration{NoncurrentDays: p32(maxT + rapid.SampledFrom([]int32{1, 5}).Draw(t, "ncGap"))}
			if r.Filter != nil && rapid.Bool().Draw(t, "keepN2") {
				e.NewerNoncurrentVersions = p32(rapid.SampledFrom([]int32{1, 2}).Draw(t, "N2"))
			}
			r.NoncurrentVersionExpiration = e
		}
	case 6:
		tr := true
		r.Expiration = &storage.LifecycleExpiration{ExpiredObjectDeleteMarker: &tr}
	}
	if abort {
		r.AbortIncompleteMultipartUpload = &storage.LifecycleAbortIncompleteMultipartUpload{DaysAfterInitiation: p32(genDays(t, "abortDays", 1))}
	}
	return r
}

func genCase(t *rapid.T, env *ev.Env) Case {
	var c Case
	if rapid.IntRange(0, 9999).Draw(t, "real")%40 == 3 {
		rc := &RealCase{N: rapid.SampledFrom([]int32{1, 2, 3}).Draw(t, "realN")}
		if rapid.Bool().Draw(t, "realShaped") {
			// puts, then transitions of old versions, then more writes: the shape in which
			// pithos' LastModified rewriting reorders the history
			np := rapid.IntRange(2, 6).Draw(t, "puts1")
			for i := 0; i < np; i++ {
				rc.Ops = append(rc.Ops, ROp{Kind: "put"})
			}
			for _, idx := range rapid.SliceOfNDistinct(rapid.IntRange(0, np-1), 1, np, rapid.ID[int]).Draw(t, "transIdx") {
				rc.Ops = append(rc.Ops, ROp{Kind: "transition", Idx: idx})
			}
			for i, n := 0, rapid.IntRange(0, 3).Draw(t, "tail"); i < n; i++ {
				rc.Ops = append(rc.Ops, ROp{Kind: rapid.SampledFrom([]string{"put", "put", "delete"}).Draw(t, "tailK")})
			}
			return Case{Versioning: "enabled", Real: rc}
		}
		for i, n := 0, rapid.IntRange(3, 12).Draw(t, "realOps"); i < n; i++ {
			kind := rapid.SampledFrom([]string{"put", "put", "put", "transition", "transition", "delete"}).Draw(t, "ropK")
			if i < 2 {
				kind = "put"
			}
			rc.Ops = append(rc.Ops, ROp{Kind: kind, Idx: rapid.IntRange(0, 11).Draw(t, "ropI")})
		}
		return Case{Versioning: "enabled", Real: rc}
	}
	c.Versioning = rapid.SampledFrom([]string{"unversioned", "enabled", "enabled", "suspended"}).Draw(t, "versioning")
	nk := rapid.IntRange(1, 6).Draw(t, "nKeys")
	names := rapid.SliceOfNDistinct(rapid.SampledFrom(keyNames), nk, nk, rapid.ID[string]).Draw(t, "keys")
	c.LMModel = rapid.SampledFrom([]string{"plain", "plain", "pithos"}).Draw(t, "lmModel")
	seq := 0
	for _, name := range names {
		k := Key{Key: name}
		nv := 1
		if c.Versioning != "unversioned" {
			nv = rapid.IntRange(1, 6).Draw(t, "nVers")
		}
		// creation times, oldest first, non-decreasing (ties allowed)
		times := make([]int64, nv)
		cur := genTime(t, "t0")
		for i := 0; i < nv; i++ {
			times[i] = cur
			switch rapid.IntRange(0, 5).Draw(t, "dtK") {
			case 0: // tie
			case 1:
				cur++
			case 2:
				cur = cur - mod(cur, day) + day // next midnight
			default:
				cur += rapid.Int64Range(1, 40*day).Draw(t, "dt")
			}
		}
		nullAt := -1
		if c.Versioning == "unversioned" {
			nullAt = 0
		} else if rapid.IntRange(0, 2).Draw(t, "hasNull") == 0 {
			nullAt = rapid.IntRange(0, nv-1).Draw(t, "nullAt")
		}
		for i := nv - 1; i >= 0; i-- { // newest first
			seq++
			v := Ver{ID: fmt.Sprintf("v%03d", seq), Created: times[i], ETag: fmt.Sprintf("\"etag-%d\"", seq)}
			if i == nullAt {
				v.ID = "null"
			}
			if c.Versioning != "unversioned" && rapid.IntRange(0, 4).Draw(t, "marker") == 0 {
				v.Marker = true
				v.ETag = ""
			} else {
				v.Size = rapid.SampledFrom([]int64{0, 1, 9, 10, 11, 100, 5000}).Draw(t, "size")
				v.Tags = genTags(t, "tags")
				v.Class = rapid.SampledFrom([]string{"", "", "", "STANDARD_IA", "GLACIER"}).Draw(t, "class")
			}
			k.Versions = append(k.Versions, v)
		}
		if c.LMModel == "pithos" {
			// What pithos' own metadata store reports (measured on the real storage):
			// a version's LastModified is rewritten to the moment it stops being the
			// latest one (= its successor's creation) and again whenever its storage
			// class is transitioned.
			for i := range k.Versions {
				v := &k.Versions[i]
				since := v.Created
				if i > 0 {
					since = k.Versions[i-1].Created
				}
				lm := since
				if !v.Marker && v.Class != "" && rapid.Bool().Draw(t, "transitionedLater") {
					lm = since + rapid.Int64Range(0, 90*day).Draw(t, "transAfter")
				}
				v.Bump = lm - v.Created
			}
		}
		c.Keys = append(c.Keys, k)
	}
	for i, n := 0, rapid.IntRange(0, 3).Draw(t, "nUploads"); i < n; i++ {
		c.Uploads = append(c.Uploads, Upload{Key: rapid.SampledFrom(keyNames).Draw(t, "uKey"), ID: fmt.Sprintf("up%02d", i), Initiated: genTime(t, "uT")})
	}
	for i, n := 0, rapid.IntRange(1, 4).Draw(t, "nRules"); i < n; i++ {
		c.Rules = append(c.Rules, genRule(t, i))
	}
	c.PageSize = rapid.SampledFrom([]int{0, 0, 1, 2, 3}).Draw(t, "page")
	c.ListTags = rapid.Bool().Draw(t, "listTags")
	c.NowZone = rapid.SampledFrom([]int{0, 0, 3600, -5 * 3600, 14 * 3600}).Draw(t, "zone")
	// clock: around a due boundary of some candidate, or anywhere
	dues := allDues(&c)
	if nk := rapid.IntRange(0, 9).Draw(t, "nowK"); nk == 9 {
		c.Now = epoch + 600*day + rapid.Int64Range(0, day).Draw(t, "farOff") // everything day-based is due
	} else if len(dues) > 0 && nk < 7 {
		c.Now = rapid.SampledFrom(dues).Draw(t, "due") + rapid.SampledFrom([]int64{-1, -1, 0, 1, -day, day, -day - 1}).Draw(t, "off")
	} else {
		c.Now = genTime(t, "now") + rapid.Int64Range(0, 400).Draw(t, "nowShift")*day
	}
	// adversary
	if rapid.IntRange(0, 2).Draw(t, "adv") == 0 {
		for i, n := 0, rapid.IntRange(1, 3).Draw(t, "nAdv"); i < n; i++ {
			kind := "put"
			if c.Versioning == "suspended" && rapid.Bool().Draw(t, "advNull") {
				kind = "null"
			}
			c.Adv = append(c.Adv, Adv{KeyIdx: rapid.IntRange(0, nk-1).Draw(t, "advKey"), AfterList: rapid.IntRange(1, 6).Draw(t, "advAfter"), Kind: kind})
		}
	}
	return c
}

func TestC25(t *testing.T) {
	ev.Main(t, ev.Spec[Case]{
		ID:    "C25",
		Level: "exploration",
		Rule: "a case is a generated bucket (1-6 keys x 1-6 versions incl. delete markers and null versions, creation times clustered at midnight UTC +-1 ns, sizes/tags/classes, 0-3 uploads), 1-4 valid lifecycle rules (all filter and action kinds, enabled/disabled), a clock value and optional client writes between listing and action; " +
			"non-trivial when some candidate is within +-1 ns of its due boundary or protected by NewerNoncurrentVersions; distinct = distinct case JSON",
		Assumptions: []string{
			"safety only: the oracle judges every Delete/Transition/Abort call the reconciler makes, nothing is required to happen",
			"the fake storage implements the listing/paging/conditional semantics the reconciler relies on; S3 due times are computed independently (an exact-midnight timestamp may round to itself or to the next day: the earlier one is taken)",
			"ExpiredObjectDeleteMarker is accepted when the key has no object version left (pithos' reading; further delete markers below the current one are tolerated)",
		},
		Gen: genCase,
		Run: run,
	})
}
