// Package c21 checks C21: through the outbox storage a read of a key or a
// bucket listing reflects every write accepted before the read started, and
// once the outbox is drained the inner storage is in exactly the state
// obtained by applying the accepted writes in acceptance order.
//
// Oracle: a twin plain storage receives every accepted write synchronously, in
// acceptance order. Every read through the outbox must equal the twin's answer
// at that moment; after a final drain dump(inner) == dump(twin). The worker is
// either harness-owned (hook VerifProcessOnce at generated flush points and
// whenever an operation blocks on queued entries) or the real worker goroutine.
package c21

import (
	"context"
	"fmt"
	"os"
	"path/filepath"
	"strings"
	"testing"
	"time"

	"github.com/prometheus/client_golang/prometheus"

	"github.com/jdillenkofer/pithos/internal/storage"
	repositoryFactory "github.com/jdillenkofer/pithos/internal/storage/database/repository"
	"github.com/jdillenkofer/pithos/internal/storage/middlewares/delegator"
	"github.com/jdillenkofer/pithos/internal/storage/outbox"
	"github.com/jdillenkofer/pithos/verifharness/dump"
	"github.com/jdillenkofer/pithos/verifharness/ev"
	"github.com/jdillenkofer/pithos/verifharness/gen"
	"github.com/jdillenkofer/pithos/verifharness/prog"
	"github.com/jdillenkofer/pithos/verifharness/run"
	"github.com/jdillenkofer/pithos/verifharness/stacks"
	"pgregory.net/rapid"
)

type Case struct {
	Stack  string    `json:"stack"`
	Worker bool      `json:"worker,omitempty"` // true: the real worker goroutine runs; false: harness-owned flushes (hook)
	Ops    []prog.Op `json:"ops"`              // kind "flush" = one worker pass at this point (harness-owned mode)
}

var names = run.Names{Buckets: []string{"bucket-a", "bucket.b"}, Keys: []string{"a", "a/b", "é %_"}}

const (
	errSkipped = "SkippedByPrecondition"
	errTimeout = "HarnessBoundHit"
	waitBound  = 30 * time.Second
	blockProbe = 40 * time.Millisecond
)

func sp(s string) *string { return &s }

func genCase(t *rapid.T, env *ev.Env) Case {
	var c Case
	c.Stack = rapid.SampledFrom([]string{"P1", "P2"}).Draw(t, "stack")
	c.Worker = rapid.IntRange(0, 3).Draw(t, "worker") == 0
	cfg := prog.GenConfig{
		Buckets: 2, Keys: 3, MinOps: 4, MaxOps: 18,
		Weights: map[string]int{
			prog.OpCreateBucket: 3, prog.OpDeleteBucket: 2, prog.OpSetVersioning: 2,
			prog.OpPut: 14, prog.OpDelete: 5, prog.OpDeleteObjects: 2,
			prog.OpCopy: 2, prog.OpAppend: 6, prog.OpPutTags: 2, prog.OpMpuSeq: 1, prog.OpTransition: 1,
			prog.OpHead: 5, prog.OpGet: 8, prog.OpList: 5, prog.OpFlush: 3, prog.OpReopen: 3,
		},
		Classes:    []string{"STANDARD", "GLACIER"},
		Conditions: true, Meta: true, Tags: true, Supplied: true, Versions: false, HotKey: true,
		MaxBody: 3000,
		Prelude: []prog.Op{{Kind: prog.OpCreateBucket, B: 0}, {Kind: prog.OpCreateBucket, B: 1}},
	}
	c.Ops = cfg.Gen(t)
	return c
}

// ---- sides ------------------------------------------------------------------------------------

// noLifecycle hides Start/Stop of the (already started) inner storage from the outbox storage.
type noLifecycle struct{ delegator.DelegatingStorage }

func (n *noLifecycle) Start(ctx context.Context) error { return nil }
func (n *noLifecycle) Stop(ctx context.Context) error  { return nil }

type twinSide struct {
	inner *prog.StorageSide
	last  prog.Result
}

func (s *twinSide) Do(c prog.Concrete) prog.Result {
	s.last = s.inner.Do(c)
	return s.last
}

type outboxSide struct {
	ob      storage.Storage
	side    *prog.StorageSide
	twin    *twinSide
	twinSt  storage.Storage
	worker  bool
	o       *ev.Outcome
	bound   bool // a harness wait bound was hit: the case is inconclusive
	blocked bool // the last op needed a flush to return
	pending int  // queued entries right before the last op
	queued  bool // the last op was predicted to be queued
}

func (s *outboxSide) versioning(bucket string) string {
	vc, err := s.twinSt.GetBucketVersioningConfiguration(context.Background(), storage.MustNewBucketName(bucket))
	if err != nil || vc == nil || vc.Status == nil {
		return ""
	}
	return string(*vc.Status)
}

// predictQueued mirrors the outbox's documented rule for which operations are queued.
func (s *outboxSide) predictQueued(c prog.Concrete) bool {
	switch c.Kind {
	case prog.OpCreateBucket, prog.OpDeleteBucket:
		return true
	case prog.OpPut:
		return !c.IfNoneMatchStar && c.IfMatchETag == nil && s.versioning(c.Bucket) != "Enabled"
	case prog.OpDelete:
		return c.IfMatchETag == nil && s.versioning(c.Bucket) == ""
	case prog.OpDeleteObjects:
		for _, e := range c.Entries {
			if e.IfMatchETag != nil {
				return false
			}
		}
		return s.versioning(c.Bucket) == ""
	}
	return false
}

func (s *outboxSide) flush() {
	ctx, cancel := context.WithTimeout(context.Background(), waitBound)
	defer cancel()
	_ = outbox.VerifProcessOnce(ctx, s.ob)
}

func (s *outboxSide) pendingCount() int {
	n, err := outbox.VerifPendingCount(context.Background(), s.ob)
	if err != nil {
		return -1
	}
	return n
}

func (s *outboxSide) Do(c prog.Concrete) prog.Result {
	s.blocked, s.queued = false, false
	if s.bound {
		return prog.Result{Err: errTimeout, Size: -1}
	}
	tw := s.twin.last
	s.queued = s.predictQueued(c)
	// Domain precondition: an operation that the outbox queues is accepted before it is validated; one
	// that the inner storage would reject is retried forever. Issue it only if the twin accepted it
	// (a checksum mismatch is validated by the outbox itself at acceptance).
	if s.queued && tw.Err != "" && tw.Err != prog.EBadDigest {
		s.o.Count("excluded_draws:"+c.Kind+":"+tw.Err, 1)
		return prog.Result{Err: errSkipped, Size: -1}
	}
	s.pending = s.pendingCount()
	done := make(chan prog.Result, 1)
	go func() { done <- s.side.Do(c) }()
	select {
	case r := <-done:
		return r
	case <-time.After(blockProbe):
	}
	deadline := time.Now().Add(waitBound)
	for time.Now().Before(deadline) {
		if !s.worker {
			s.blocked = true
			s.flush()
		}
		select {
		case r := <-done:
			return r
		case <-time.After(500 * time.Millisecond):
		}
	}
	s.bound = true
	return prog.Result{Err: errTimeout, Size: -1}
}

// ---- comparison ------------------------------------------------------------------------------------

func blank(v *prog.ObjView) prog.ObjView {
	o := *v
	o.Version, o.LastMod = "", 0
	return o
}

func cmpResults(kind string, ob, tw prog.Result, queued bool) []string {
	var d []string
	if ob.Err != tw.Err {
		return []string{fmt.Sprintf("error kind %q (%s), twin %q (%s)", ob.Err, ob.ErrText, tw.Err, tw.ErrText)}
	}
	if ob.Err != "" {
		return nil
	}
	if (kind == prog.OpPut || !queued) && ob.ETag != tw.ETag {
		d = append(d, fmt.Sprintf("returned ETag %s, twin %s", ob.ETag, tw.ETag))
	}
	if kind == prog.OpPut {
		d = append(d, prog.CompareChecksums(kind, tw.Checksums, ob.Checksums)...)
	}
	if (ob.Obj == nil) != (tw.Obj == nil) {
		d = append(d, "object returned by one side only")
	} else if ob.Obj != nil {
		x, y := blank(ob.Obj), blank(tw.Obj)
		d = append(d, prog.CompareObj(kind, y, x)...)
		for _, m := range prog.CompareObj(kind, x, y) {
			if strings.Contains(m, "checksum") {
				d = append(d, m+" [expected = outbox side]")
			}
		}
	}
	if strings.Join(ob.Keys, "\x00") != strings.Join(tw.Keys, "\x00") {
		d = append(d, fmt.Sprintf("listing %q, twin %q", ob.Keys, tw.Keys))
	}
	if !queued {
		if len(ob.Entries) != len(tw.Entries) {
			d = append(d, fmt.Sprintf("%d delete entries, twin %d", len(ob.Entries), len(tw.Entries)))
		} else {
			for i := range ob.Entries {
				x, y := ob.Entries[i], tw.Entries[i]
				if x.Key != y.Key || x.Deleted != y.Deleted || x.ErrCode != y.ErrCode {
					d = append(d, fmt.Sprintf("delete entry %d = %+v, twin %+v", i, x, y))
				}
			}
		}
	}
	return d
}

// ---- run -------------------------------------------------------------------------------------------

func runCase(env *ev.Env, c Case) (o ev.Outcome) {
	dir := env.TempDir()
	defer os.RemoveAll(dir)
	ctx := context.Background()
	inner, err := stacks.Open(filepath.Join(dir, "inner"), stacks.LayoutFor(c.Stack), stacks.Options{})
	if err != nil {
		o.Failf("harness: open inner: %v", err)
		return
	}
	defer inner.Close()
	twin, err := stacks.Open(filepath.Join(dir, "twin"), stacks.LayoutFor("P1"), stacks.Options{})
	if err != nil {
		o.Failf("harness: open twin: %v", err)
		return
	}
	defer twin.Close()
	if err := os.MkdirAll(filepath.Join(dir, "outbox"), 0o755); err != nil {
		o.Failf("harness: %v", err)
		return
	}
	obDB, err := stacks.OpenDB(filepath.Join(dir, "outbox"))
	if err != nil {
		o.Failf("harness: open outbox db: %v", err)
		return
	}
	defer obDB.Close()
	repo, err := repositoryFactory.NewStorageOutboxEntryRepository(obDB)
	if err != nil {
		o.Failf("harness: outbox repository: %v", err)
		return
	}
	ob, err := outbox.NewStorage(obDB, "verif-outbox", &noLifecycle{delegator.Wrap(inner.Storage)}, repo, prometheus.NewRegistry(), 0)
	if err != nil {
		o.Failf("harness: outbox.NewStorage: %v", err)
		return
	}
	if c.Worker {
		if err := ob.Start(ctx); err != nil {
			o.Failf("harness: outbox Start: %v", err)
			return
		}
		defer func() {
			sctx, cancel := context.WithTimeout(context.Background(), 10*time.Second)
			defer cancel()
			_ = ob.Stop(sctx)
		}()
	}
	mode := "harness-owned-flush"
	if c.Worker {
		mode = "real-worker"
	}
	o.Class("mode:" + mode)
	o.Class("stack:" + c.Stack)

	ts := &twinSide{inner: prog.NewStorageSide(twin.Storage)}
	os_ := &outboxSide{ob: ob, side: prog.NewStorageSide(ob), twin: ts, twinSt: twin.Storage, worker: c.Worker, o: &o}
	sess := run.NewSession(names, ts, os_)

	for i, op := range c.Ops {
		if op.Kind == prog.OpReopen {
			// restart of the outbox: a new instance over the same outbox database and inner storage, with whatever
			// is still queued (harness-owned mode: no worker goroutine to stop). Everything acknowledged before
			// the restart still counts: reads and conditional writes must wait for / see the queued entries
			// (seeded defect S-C07-3: an in-memory "nothing queued" fast path that is not rebuilt from the table).
			if c.Worker {
				continue
			}
			pendingAtRestart := os_.pendingCount()
			ob2, err := outbox.NewStorage(obDB, "verif-outbox", &noLifecycle{delegator.Wrap(inner.Storage)}, repo, prometheus.NewRegistry(), 0)
			if err != nil {
				o.Failf("harness: outbox.NewStorage (restart): %v", err)
				return
			}
			os_.ob, os_.side = ob2, prog.NewStorageSide(ob2)
			o.Class("restart")
			if pendingAtRestart > 0 {
				o.Class("restart-with-entries-queued")
			}
			continue
		}
		if op.Kind == prog.OpFlush {
			if !c.Worker {
				os_.flush()
				o.Class("flush-step")
			}
			continue
		}
		sr := sess.Step(op)
		tw, got := sr.Got[0], sr.Got[1]
		if os_.bound {
			o.Count("bound_hit", 1)
			o.Discard = true
			return
		}
		if got.Err == errSkipped {
			continue
		}
		o.Sub++
		isRead := op.Kind == prog.OpHead || op.Kind == prog.OpGet || op.Kind == prog.OpList
		if os_.queued {
			o.Count("queued:"+op.Kind+":"+map[bool]string{true: "accepted", false: "rejected-at-acceptance:" + got.Err}[got.Err == ""], 1)
		} else if !isRead {
			o.Count("write-through:"+op.Kind+":"+map[bool]string{true: "ok", false: "fail"}[got.Err == ""], 1)
		}
		if os_.pending > 0 {
			if isRead {
				o.Class("read-with-entries-queued")
				if os_.blocked || c.Worker {
					o.Class("read-waited-for-queued-entries:" + op.Kind)
					o.NonTrivial = true
				}
			} else if os_.blocked {
				o.Class("write-through-waited-for-queued-entries:" + op.Kind)
			}
		}
		if diffs := cmpResults(op.Kind, got, tw, os_.queued); len(diffs) > 0 {
			what := "write-through"
			if os_.queued {
				what = "queued"
			}
			if isRead {
				what = "read"
			}
			o.Failf("step %d (%s %s/%s, %s, %d entries queued before it): outbox vs twin: %s", i, op.Kind, sr.Concrete.Bucket, sr.Concrete.Key, what, os_.pending, strings.Join(diffs, "; "))
			return
		}
	}
	// drain, then the inner storage must equal the twin
	deadline := time.Now().Add(waitBound)
	for {
		n := os_.pendingCount()
		if n == 0 {
			break
		}
		if time.Now().After(deadline) {
			o.Count("bound_hit_final_drain", 1)
			o.Discard = true
			return
		}
		if c.Worker {
			time.Sleep(20 * time.Millisecond)
		} else {
			os_.flush()
		}
	}
	dopt := dump.Options{Versions: true}
	dT, err := dump.Of(ctx, twin.Storage, dopt)
	if err != nil {
		o.Failf("harness: dump twin: %v", err)
		return
	}
	dI, err := dump.Of(ctx, inner.Storage, dopt)
	if err != nil {
		o.Failf("dump of the inner storage after the drain failed: %v", err)
		return
	}
	o.Sub++
	if diffs := dump.Diff(dT, dI); len(diffs) > 0 {
		o.Failf("after the drain the inner storage differs from the accepted writes applied in order (first = twin): %s", strings.Join(diffs, "; "))
	}
	return
}

func directed(env *ev.Env) []Case {
	b := func(n int, seed uint64) *gen.BodySpec { return &gen.BodySpec{Kind: "rand", Len: n, Seed: seed} }
	return []Case{
		// queued create, queued put with options, read, queued delete, listing, bucket delete, head
		{Stack: "P1", Ops: []prog.Op{
			{Kind: prog.OpCreateBucket, B: 0},
			{Kind: prog.OpPut, B: 0, K: 0, Body: b(100, 1), ContentType: sp("text/plain"), Tags: map[string]string{"k": "v"}, Meta: &prog.Meta{CacheControl: sp("no-cache"), User: map[string]string{"a": "1"}}, Class: sp("GLACIER")},
			{Kind: prog.OpGet, B: 0, K: 0},
			{Kind: prog.OpPut, B: 0, K: 1, Body: b(10, 2)},
			{Kind: prog.OpList, B: 0},
			{Kind: prog.OpDelete, B: 0, K: 0},
			{Kind: prog.OpDelete, B: 0, K: 1},
			{Kind: prog.OpDeleteBucket, B: 0},
			{Kind: prog.OpHead, B: 0, K: 1},
			{Kind: prog.OpList, B: 0},
		}},
		// the same with the real worker
		{Stack: "P2", Worker: true, Ops: []prog.Op{
			{Kind: prog.OpCreateBucket, B: 0},
			{Kind: prog.OpPut, B: 0, K: 0, Body: b(100, 1), Tags: map[string]string{"k": "v"}},
			{Kind: prog.OpPut, B: 0, K: 0, Body: b(50, 3), IfMatch: "cur"},
			{Kind: prog.OpGet, B: 0, K: 0},
			{Kind: prog.OpSetVersioning, B: 0, Status: "Enabled"},
			{Kind: prog.OpPut, B: 0, K: 0, Body: b(10, 2)},
			{Kind: prog.OpDelete, B: 0, K: 0},
			{Kind: prog.OpList, B: 0},
		}},
	}
}

func TestC21(t *testing.T) {
	ev.Main(t, ev.Spec[Case]{
		ID:    "C21",
		Level: "exploration",
		Rule: "programs of 4-18 generated ops over 2 buckets x 3 keys through outbox.NewStorage over a real metadatapart storage (bucket create/delete, puts with options/conditions/supplied checksums, deletes, multi-delete, versioning changes, copies, appends, tagging, multipart, reads, listings), " +
			"three quarters with a harness-owned worker (one worker pass at generated flush steps and whenever an operation blocks on queued entries), one quarter with the real worker goroutine; every accepted write is applied to a twin plain storage in acceptance order. " +
			"Non-trivial = a Head/Get/List was issued while entries were queued and had to wait for them. Distinct = distinct case JSON",
		Assumptions: []string{
			"domain precondition (DESIGN.md C21): an operation the outbox queues without validating (CreateBucket, DeleteBucket, unconditional PutObject in a non-Enabled bucket, DeleteObject(s) in a never-versioned bucket) is issued only if the twin accepts it at that moment; excluded draws are counted",
			"every harness wait is bounded (30 s); a bound hit discards the case as inconclusive",
			"outbox entries live in their own SQLite database; SQLite only",
		},
		Gen:      genCase,
		Run:      runCase,
		Directed: directed,
	})
}
