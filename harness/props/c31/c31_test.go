// Package c31 checks property C31: every HTTP request that reads object data or
// changes any state is first authorized under an operation name that covers
// that effect (with the destination and copy source it acts on); when the
// authorizer denies, storage is not modified and no object data is returned;
// operations the authorizer reports as read-only never modify state; and
// per-item list/delete hooks hide or skip exactly the denied items.
//
// One case = a fixture on a fresh real storage + an authorizer program + a
// sequence of generated HTTP requests (method x path shape x subresource query
// subset x copy / tagging / directive / range / version headers x body) sent
// through server.SetupServer. Two recordings are taken per request: every
// authorizer decision (main call and per-item hooks) and every storage call
// (recstore), each storage call stamped with the number of decisions made
// before it started. The oracle works from the two recordings only.
package c31

import (
	"context"
	"encoding/xml"
	"fmt"
	"hash/fnv"
	"io"
	"net/http/httptest"
	"net/url"
	"os"
	"sort"
	"strings"
	"testing"

	"github.com/jdillenkofer/pithos/internal/http/server"
	"github.com/jdillenkofer/pithos/internal/http/server/authorization"
	luaauth "github.com/jdillenkofer/pithos/internal/http/server/authorization/lua"
	"github.com/jdillenkofer/pithos/internal/storage"
	"github.com/jdillenkofer/pithos/verifharness/dump"
	"github.com/jdillenkofer/pithos/verifharness/ev"
	"github.com/jdillenkofer/pithos/verifharness/recstore"
	"github.com/jdillenkofer/pithos/verifharness/stacks"
	"pgregory.net/rapid"
)

// Req is one HTTP request.
type Req struct {
	Method string     `json:"method"`
	Host   string     `json:"host"`   // api | vhost | site | custom
	Bucket string     `json:"bucket"` // "" = service level
	Key    string     `json:"key"`    // "" = bucket level
	Query  [][2]string `json:"query,omitempty"`
	Header [][2]string `json:"header,omitempty"`
	Body   string     `json:"body,omitempty"` // literal, or a placeholder: TAGGING | DELETE:<k1>,<k2> | COMPLETE | VERSIONING | CORS | WEBSITE | LIFECYCLE
}

type Case struct {
	Program string `json:"program"` // allow | deny | table | lua-ro | lua-table
	Seed    uint32 `json:"seed"`    // table programs: decision seed
	Pct     int    `json:"pct"`     // table programs: allow percentage
	Reqs    []Req  `json:"reqs"`
}

const (
	apiEndpoint = "s3.test"
	webEndpoint = "web.test"
	bkt0        = "bkt0"
	bkt1        = "bkt1"
	errDocKey   = "errors/404.html"
	indexDoc    = "index.html"
)

var fixtureKeys = []string{"a", "dir/b", "dir/index.html", "tagged", "index.html", errDocKey, "zz/top"}

func marker(bucket, key string) string { return "OBJDATA<" + bucket + "|" + key + ">" }

// ---- recording authorizer ---------------------------------------------------------------

type decision struct {
	Hook      string // "" = main AuthorizeRequest; else hook name
	Operation string
	Bucket    *string
	Key       *string
	SrcBucket *string
	SrcKey    *string
	Item      string // hook argument
	Allowed   bool
	Err       bool
}

type recAuth struct {
	inner authorization.RequestAuthorizer
	log   []decision
}

func (a *recAuth) count() int { return len(a.log) }

func cp(s *string) *string {
	if s == nil {
		return nil
	}
	v := *s
	return &v
}

func (a *recAuth) rec(hook string, r *authorization.Request, item string, ok bool, err error) {
	a.log = append(a.log, decision{Hook: hook, Operation: r.Operation, Bucket: cp(r.Bucket), Key: cp(r.Key), SrcBucket: cp(r.SourceBucket), SrcKey: cp(r.SourceKey), Item: item, Allowed: ok && err == nil, Err: err != nil})
}

func (a *recAuth) AuthorizeRequest(ctx context.Context, r *authorization.Request) (bool, error) {
	ok, err := a.inner.AuthorizeRequest(ctx, r)
	a.rec("", r, "", ok, err)
	return ok, err
}
func (a *recAuth) hooks() authorization.RequestResourceAuthorizer {
	h, _ := a.inner.(authorization.RequestResourceAuthorizer)
	return h
}
func (a *recAuth) AuthorizeListBucket(ctx context.Context, r *authorization.Request, bucket string) (bool, error) {
	ok, err := true, error(nil)
	if h := a.hooks(); h != nil {
		ok, err = h.AuthorizeListBucket(ctx, r, bucket)
	}
	a.rec("listBucket", r, bucket, ok, err)
	return ok, err
}
func (a *recAuth) AuthorizeListObject(ctx context.Context, r *authorization.Request, key string) (bool, error) {
	ok, err := true, error(nil)
	if h := a.hooks(); h != nil {
		ok, err = h.AuthorizeListObject(ctx, r, key)
	}
	a.rec("listObject", r, key, ok, err)
	return ok, err
}
func (a *recAuth) AuthorizeDeleteObjectEntry(ctx context.Context, r *authorization.Request, key string) (bool, error) {
	ok, err := true, error(nil)
	if h := a.hooks(); h != nil {
		ok, err = h.AuthorizeDeleteObjectEntry(ctx, r, key)
	}
	a.rec("deleteEntry", r, key, ok, err)
	return ok, err
}
func (a *recAuth) AuthorizeListMultipartUpload(ctx context.Context, r *authorization.Request, key string, uploadID string) (bool, error) {
	ok, err := true, error(nil)
	if h := a.hooks(); h != nil {
		ok, err = h.AuthorizeListMultipartUpload(ctx, r, key, uploadID)
	}
	a.rec("listUpload", r, key, ok, err)
	return ok, err
}
func (a *recAuth) AuthorizeListPart(ctx context.Context, r *authorization.Request, n int32) (bool, error) {
	ok, err := true, error(nil)
	if h := a.hooks(); h != nil {
		ok, err = h.AuthorizeListPart(ctx, r, n)
	}
	a.rec("listPart", r, fmt.Sprint(n), ok, err)
	return ok, err
}

// ---- authorizer programs ---------------------------------------------------------------------

func tableAllow(seed uint32, pct int, kind, op, bucket, key string) bool {
	h := fnv.New32a()
	fmt.Fprintf(h, "%d|%s|%s|%s|%s", seed, kind, op, bucket, key)
	return int(h.Sum32()%100) < pct
}

type constAuth bool

func (c constAuth) AuthorizeRequest(context.Context, *authorization.Request) (bool, error) {
	return bool(c), nil
}

type tableAuth struct {
	seed uint32
	pct  int
}

func sd(s *string) string {
	if s == nil {
		return ""
	}
	return *s
}
func (t tableAuth) AuthorizeRequest(_ context.Context, r *authorization.Request) (bool, error) {
	return tableAllow(t.seed, t.pct, "main", r.Operation, sd(r.Bucket), sd(r.Key)), nil
}
func (t tableAuth) AuthorizeListBucket(_ context.Context, r *authorization.Request, b string) (bool, error) {
	return tableAllow(t.seed, 60, "listBucket", "", b, ""), nil
}
func (t tableAuth) AuthorizeListObject(_ context.Context, r *authorization.Request, k string) (bool, error) {
	return tableAllow(t.seed, 60, "listObject", "", sd(r.Bucket), k), nil
}
func (t tableAuth) AuthorizeDeleteObjectEntry(_ context.Context, r *authorization.Request, k string) (bool, error) {
	return tableAllow(t.seed, 50, "deleteEntry", "", sd(r.Bucket), k), nil
}
func (t tableAuth) AuthorizeListMultipartUpload(_ context.Context, r *authorization.Request, k string, _ string) (bool, error) {
	return tableAllow(t.seed, 60, "listUpload", "", sd(r.Bucket), k), nil
}
func (t tableAuth) AuthorizeListPart(_ context.Context, r *authorization.Request, n int32) (bool, error) {
	return tableAllow(t.seed, 60, "listPart", "", sd(r.Bucket), fmt.Sprint(n)), nil
}

const luaReadOnly = `
function authorizeRequest(request)
  return request:isReadOnly()
end
`

// luaTable: read-only operations are always allowed, write operations on keys
// below "dir/" are allowed, list hooks hide keys starting with "z", the delete
// hook skips keys starting with "t".
const luaTable = `
function authorizeRequest(request)
  if request:isReadOnly() then return true end
  if request.key ~= nil and request:keyHasPrefix("dir/") then return true end
  if request:isOperation("DeleteObjects") then return true end
  return false
end
function authorizeListObject(request, key)
  return string.sub(key, 1, 1) ~= "z"
end
function authorizeDeleteObjectEntry(request, key)
  return string.sub(key, 1, 1) ~= "t"
end
`

// luaIsReadOnly asks the real Lua authorizer whether it reports an operation as read-only.
var roCache = map[string]bool{}
var roAuth *luaauth.LuaAuthorizer

func luaIsReadOnly(op string) bool {
	if v, ok := roCache[op]; ok {
		return v
	}
	if roAuth == nil {
		a, err := luaauth.NewLuaAuthorizer(luaReadOnly)
		if err != nil {
			panic(err)
		}
		roAuth = a
	}
	ok, err := roAuth.AuthorizeRequest(context.Background(), &authorization.Request{Operation: op})
	v := ok && err == nil
	roCache[op] = v
	return v
}

// ---- coverage table: operation name -> storage methods it covers ------------------------------------

var covers = map[string][]string{
	"GetObject": {"GetObject"}, "GetObjectVersion": {"GetObject"},
	"HeadObject": {"HeadObject"}, "HeadObjectVersion": {"HeadObject"},
	"PutObject": {"PutObject"}, "CopyObject": {"CopyObject"}, "AppendObject": {"AppendObject"},
	"DeleteObject": {"DeleteObject"}, "DeleteObjectVersion": {"DeleteObject"}, "DeleteObjects": {"DeleteObjects"},
	"CreateBucket": {"CreateBucket"}, "DeleteBucket": {"DeleteBucket"},
	"CreateMultipartUpload": {"CreateMultipartUpload"}, "UploadPart": {"UploadPart"}, "UploadPartCopy": {"UploadPartCopy"},
	"CompleteMultipartUpload": {"CompleteMultipartUpload"}, "AbortMultipartUpload": {"AbortMultipartUpload"},
	"PutBucketCORS": {"PutBucketCORSConfiguration"}, "DeleteBucketCORS": {"DeleteBucketCORSConfiguration"},
	"PutBucketWebsite": {"PutBucketWebsiteConfiguration"}, "DeleteBucketWebsite": {"DeleteBucketWebsiteConfiguration"},
	"PutBucketLifecycle": {"PutBucketLifecycleConfiguration"}, "DeleteBucketLifecycle": {"DeleteBucketLifecycleConfiguration"},
	"PutBucketVersioning": {"PutBucketVersioningConfiguration"}, "PutBucketNotification": {"PutBucketNotificationConfiguration"},
	"PutObjectTagging": {"PutObjectTagging"}, "PutObjectVersionTagging": {"PutObjectTagging"},
	"DeleteObjectTagging": {"DeleteObjectTagging"}, "DeleteObjectVersionTagging": {"DeleteObjectTagging"},
}

// version-addressed variants: a storage call that names a version needs the *Version operation.
var versionOp = map[string]bool{"GetObjectVersion": true, "HeadObjectVersion": true, "DeleteObjectVersion": true, "PutObjectVersionTagging": true, "DeleteObjectVersionTagging": true, "GetObjectVersionTagging": true}
var plainOfVersioned = map[string]bool{"GetObject": true, "HeadObject": true, "DeleteObject": true, "PutObjectTagging": true, "DeleteObjectTagging": true}

func sensitive(method string) bool {
	return recstore.Mutating(method) || method == "GetObject" || method == "HeadObject"
}

func opCovers(op, method string) bool {
	for _, m := range covers[op] {
		if m == method {
			return true
		}
	}
	return false
}

func quoted(s string) string { return fmt.Sprintf("%q", s) }

// covered: is the storage call preceded by an allow that covers it?
func covered(c recstore.Call, log []decision) (bool, string) {
	namesVersion := false
	for _, a := range c.Args {
		if strings.HasPrefix(a, "opts=") && strings.Contains(a, "VersionID:&") && !strings.Contains(a, "SourceVersionID:&") {
			namesVersion = true
		}
	}
	why := "no allow decision before the call"
	for i, d := range log {
		if i >= c.Mark || d.Hook != "" || !d.Allowed {
			continue
		}
		if !opCovers(d.Operation, c.Method) {
			why = "allowed operation " + d.Operation + " does not cover " + c.Method
			continue
		}
		if d.Bucket == nil || quoted(*d.Bucket) != c.Bucket {
			why = "authorized bucket differs"
			continue
		}
		if c.HasKey && (d.Key == nil || quoted(*d.Key) != c.Key) {
			why = fmt.Sprintf("authorized key %s differs from the key acted on %s", quoted(sd(d.Key)), c.Key)
			continue
		}
		if c.SrcBucket != "" && (d.SrcBucket == nil || d.SrcKey == nil || quoted(*d.SrcBucket) != c.SrcBucket || quoted(*d.SrcKey) != c.SrcKey) {
			why = "authorized copy source differs"
			continue
		}
		if namesVersion && plainOfVersioned[d.Operation] {
			why = "call names a version but the allowed operation " + d.Operation + " is the non-version variant"
			continue
		}
		return true, ""
	}
	return false, why
}

// ---- world ----------------------------------------------------------------------------------------------

type world struct {
	inst   *stacks.Instance
	rec    *recstore.Recorder
	auth   *recAuth
	upload string
}

func fixture(ctx context.Context, st storage.Storage) (string, error) {
	upload := ""
	for _, b := range []string{bkt0, bkt1} {
		bn := storage.MustNewBucketName(b)
		if err := st.CreateBucket(ctx, bn); err != nil {
			return "", err
		}
		for _, k := range fixtureKeys {
			var opts *storage.PutObjectOptions
			if k == "tagged" {
				opts = &storage.PutObjectOptions{Tags: map[string]string{"team": "x"}}
			}
			if _, err := st.PutObject(ctx, bn, storage.MustNewObjectKey(k), nil, strings.NewReader(marker(b, k)), nil, opts); err != nil {
				return "", err
			}
		}
		ed := errDocKey
		if err := st.PutBucketWebsiteConfiguration(ctx, bn, &storage.WebsiteConfiguration{IndexDocumentSuffix: indexDoc, ErrorDocumentKey: &ed}); err != nil {
			return "", err
		}
	}
	bn := storage.MustNewBucketName(bkt0)
	for _, k := range []string{"mp", "zz/mp"} {
		up, err := st.CreateMultipartUpload(ctx, bn, storage.MustNewObjectKey(k), nil, nil, nil)
		if err != nil {
			return "", err
		}
		for n := int32(1); n <= 3; n++ {
			if _, err := st.UploadPart(ctx, bn, storage.MustNewObjectKey(k), up.UploadId, n, strings.NewReader(fmt.Sprintf("%s-part-%d", marker(bkt0, k), n)), nil); err != nil {
				return "", err
			}
		}
		if k == "mp" {
			upload = up.UploadId.String()
		}
	}
	return upload, nil
}

func bodyOf(r Req) string {
	switch {
	case r.Body == "TAGGING":
		return `<Tagging><TagSet><Tag><Key>k</Key><Value>v</Value></Tag></TagSet></Tagging>`
	case r.Body == "COMPLETE":
		return `<CompleteMultipartUpload></CompleteMultipartUpload>`
	case r.Body == "VERSIONING":
		return `<VersioningConfiguration><Status>Enabled</Status></VersioningConfiguration>`
	case r.Body == "CORS":
		return `<CORSConfiguration><CORSRule><AllowedOrigin>*</AllowedOrigin><AllowedMethod>GET</AllowedMethod></CORSRule></CORSConfiguration>`
	case r.Body == "WEBSITE":
		return `<WebsiteConfiguration><IndexDocument><Suffix>index.html</Suffix></IndexDocument></WebsiteConfiguration>`
	case r.Body == "LIFECYCLE":
		return `<LifecycleConfiguration><Rule><ID>r</ID><Status>Enabled</Status><Filter><Prefix>tmp/</Prefix></Filter><Expiration><Days>1</Days></Expiration></Rule></LifecycleConfiguration>`
	case strings.HasPrefix(r.Body, "DELETE:"):
		var b strings.Builder
		b.WriteString("<Delete>")
		for _, k := range deleteKeys(r) {
			b.WriteString("<Object><Key>")
			xml.EscapeText(&b, []byte(k))
			b.WriteString("</Key></Object>")
		}
		b.WriteString("</Delete>")
		return b.String()
	}
	return r.Body
}

func deleteKeys(r Req) []string {
	if !strings.HasPrefix(r.Body, "DELETE:") {
		return nil
	}
	ks := strings.Split(strings.TrimPrefix(r.Body, "DELETE:"), ",")
	for i, k := range ks {
		if k == "LONG" { // placeholder: a key the server rejects as too long (the empty key is the other invalid one)
			ks[i] = strings.Repeat("x", 1025)
		}
	}
	return ks
}

func build(r Req, upload string) (host, target string, ok bool) {
	esc := func(k string) string { return (&url.URL{Path: "/" + k}).EscapedPath() }
	switch r.Host {
	case "vhost":
		if r.Bucket == "" {
			return "", "", false
		}
		host = r.Bucket + "." + apiEndpoint
		target = esc(r.Key)
	case "site":
		if r.Bucket == "" {
			return "", "", false
		}
		host = r.Bucket + "." + webEndpoint
		target = esc(r.Key)
	case "custom":
		if r.Bucket == "" {
			return "", "", false
		}
		host = r.Bucket
		target = esc(r.Key)
	default:
		host = apiEndpoint
		switch {
		case r.Bucket == "":
			target = "/"
		case r.Key == "":
			target = "/" + r.Bucket
		default:
			target = "/" + r.Bucket + esc(r.Key)
		}
	}
	if len(r.Query) > 0 {
		var parts []string
		for _, q := range r.Query {
			v := strings.ReplaceAll(q[1], "UPLOAD", upload)
			if v == "" {
				parts = append(parts, url.QueryEscape(q[0]))
			} else {
				parts = append(parts, url.QueryEscape(q[0])+"="+url.QueryEscape(v))
			}
		}
		target += "?" + strings.Join(parts, "&")
	}
	if _, err := url.ParseRequestURI(target); err != nil {
		return "", "", false
	}
	return host, target, true
}

type listXML struct {
	Contents []struct {
		Key string `xml:"Key"`
	} `xml:"Contents"`
	CommonPrefixes []struct {
		Prefix string `xml:"Prefix"`
	} `xml:"CommonPrefixes"`
	Buckets []struct {
		Name string `xml:"Name"`
	} `xml:"Buckets>Bucket"`
	Uploads []struct {
		Key string `xml:"Key"`
	} `xml:"Upload"`
	Parts []struct {
		PartNumber int `xml:"PartNumber"`
	} `xml:"Part"`
	IsTruncated bool `xml:"IsTruncated"`
}

func run(env *ev.Env, c Case) (o ev.Outcome) {
	ctx := context.Background()
	dir := env.TempDir()
	defer os.RemoveAll(dir)
	inst, err := stacks.Open(dir, stacks.LayoutFor("P2"), stacks.Options{})
	if err != nil {
		o.Failf("harness: open: %v", err)
		return
	}
	defer inst.Close()
	upload, err := fixture(ctx, inst.Storage)
	if err != nil {
		o.Failf("harness: fixture: %v", err)
		return
	}
	var inner authorization.RequestAuthorizer
	switch c.Program {
	case "allow":
		inner = constAuth(true)
	case "deny":
		inner = constAuth(false)
	case "table":
		inner = tableAuth{seed: c.Seed, pct: c.Pct}
	case "lua-ro", "lua-table":
		code := luaReadOnly
		if c.Program == "lua-table" {
			code = luaTable
		}
		la, err := luaauth.NewLuaAuthorizer(code)
		if err != nil {
			o.Failf("harness: lua: %v", err)
			return
		}
		inner = la
	default:
		o.Failf("harness: unknown program %q", c.Program)
		return
	}
	auth := &recAuth{inner: inner}
	rec := recstore.New(inst.Storage)
	rec.MarkFn = auth.count
	o.Class("program:" + c.Program)

	var before *dump.Dump
	stateMustNotChange := c.Program == "deny" || c.Program == "lua-ro"
	if stateMustNotChange {
		if before, err = dump.Of(ctx, inst.Storage, dump.Options{Versions: true}); err != nil {
			o.Failf("harness: dump: %v", err)
			return
		}
	}
	nontrivial := false

	for ri, r := range c.Reqs {
		host, target, ok := build(r, upload)
		if !ok {
			continue
		}
		h := server.SetupServer(nil, "eu-central-1", apiEndpoint, webEndpoint, auth, rec)
		body := bodyOf(r)
		var rd io.Reader
		if body != "" {
			rd = strings.NewReader(body)
		}
		req := httptest.NewRequest(r.Method, "http://"+host+target, rd)
		req.Host = host
		hasCopy := false
		for _, hv := range r.Header {
			v := strings.ReplaceAll(hv[1], "UPLOAD", upload)
			req.Header.Set(hv[0], v)
			if strings.EqualFold(hv[0], "x-amz-copy-source") {
				hasCopy = true
			}
		}
		auth.log = nil
		rec.Reset()
		out := httptest.NewRecorder()
		h.ServeHTTP(out, req)
		calls := rec.Take()
		log := auth.log
		o.Sub++
		resp := out.Body.String()

		reached := len(log) > 0
		if reached {
			o.Class("reached:authorizer")
			o.Class("op:" + log[0].Operation)
			if len(r.Query) >= 2 || hasCopy {
				nontrivial = true
			}
		} else {
			o.Class(fmt.Sprintf("not-reached:status-%d", out.Code))
		}
		o.Class("host:" + r.Host)
		desc := func() string {
			var ds, cs []string
			for _, d := range log {
				ds = append(ds, fmt.Sprintf("%s%s(op=%s bucket=%s key=%s src=%s/%s item=%q)=%v", map[bool]string{true: "hook:", false: ""}[d.Hook != ""], d.Hook, d.Operation, sd(d.Bucket), sd(d.Key), sd(d.SrcBucket), sd(d.SrcKey), d.Item, d.Allowed))
			}
			for _, cl := range calls {
				cs = append(cs, fmt.Sprintf("[after %d decisions] %s err=%q", cl.Mark, cl.Sig(), cl.Err))
			}
			return fmt.Sprintf("request %d: %s %s%s hdr=%v body=%q -> status %d\n authorizer: %s\n storage:\n  %s", ri, r.Method, host, target, r.Header, r.Body, out.Code, strings.Join(ds, "; "), strings.Join(cs, "\n  "))
		}

		// (1) every sensitive storage call is preceded by an allow that covers it
		lastMain := -1
		for i, d := range log {
			if d.Hook == "" {
				lastMain = i
			}
		}
		denied := lastMain >= 0 && !log[lastMain].Allowed
		for _, cl := range calls {
			if !sensitive(cl.Method) {
				continue
			}
			okc, why := covered(cl, log)
			if okc {
				o.Class("covered:" + cl.Method)
				continue
			}
			// KF-C31-1: the website handlers read other objects than the one the request was
			// authorized for: the configured error document (GetObject, its bytes are
			// returned) and "<key>/<index document>" (HeadObject existence probe).
			if (r.Host == "site" || r.Host == "custom") && env.Known("c31.websiteReadsUnauthorizedKeys") && websiteSideRead(cl, log, r) {
				o.KnownHits = append(o.KnownHits, "KF-C31-1")
				o.Class("known:KF-C31-1:" + cl.Method)
				continue
			}
			o.Failf("storage call without a covering allow (%s): %s\n%s", why, cl.Sig(), desc())
			return
		}
		// (2) denied => nothing modified, no object data returned
		if denied || !reached {
			for _, cl := range calls {
				if recstore.Mutating(cl.Method) {
					o.Failf("mutating storage call although the request was %s: %s\n%s", map[bool]string{true: "denied", false: "never authorized"}[denied], cl.Sig(), desc())
					return
				}
			}
			if i := strings.Index(resp, "OBJDATA<"); i >= 0 {
				o.Failf("object data in the response of a request that was %s: %q\n%s", map[bool]string{true: "denied", false: "never authorized"}[denied], resp[i:min(len(resp), i+60)], desc())
				return
			}
			if denied {
				o.Class("denied")
			}
		}
		// (3) only read-only operations allowed => no mutating call
		allRO := true
		for _, d := range log {
			if d.Hook == "" && d.Allowed && !luaIsReadOnly(d.Operation) {
				allRO = false
			}
		}
		if allRO {
			for _, cl := range calls {
				if recstore.Mutating(cl.Method) {
					o.Failf("mutating storage call under operations the authorizer reports as read-only: %s\n%s", cl.Sig(), desc())
					return
				}
			}
		}
		// (4) per-item hooks hide / skip exactly the denied items
		if reached && !denied && out.Code == 200 && log[0].Hook == "" {
			if msg := checkHooks(ctx, inst.Storage, r, log, calls, resp, &o); msg != "" {
				o.Failf("%s\n%s", msg, desc())
				return
			}
		}
	}
	if stateMustNotChange {
		after, err := dump.Of(ctx, inst.Storage, dump.Options{Versions: true})
		if err != nil {
			o.Failf("harness: dump: %v", err)
			return
		}
		if d := dump.Diff(before, after); d != nil {
			o.Failf("state changed under program %s (every request denied / only read-only operations allowed): %v", c.Program, d)
			return
		}
		o.Class("state-unchanged-verified")
	}
	o.NonTrivial = nontrivial
	return
}

// websiteSideRead recognises the two reads of KF-C31-1.
func websiteSideRead(cl recstore.Call, log []decision, r Req) bool {
	var main *decision
	for i := range log {
		if log[i].Hook == "" && log[i].Allowed && i < cl.Mark {
			main = &log[i]
		}
	}
	if main == nil || main.Bucket == nil || quoted(*main.Bucket) != cl.Bucket {
		return false
	}
	if cl.Method == "GetObject" && cl.Key == quoted(errDocKey) {
		return true
	}
	if cl.Method == "HeadObject" && cl.Key == quoted(r.Key+"/"+indexDoc) {
		return true
	}
	return false
}

func hookAllowed(log []decision, hook, item string) (allowed, asked bool) {
	for _, d := range log {
		if d.Hook == hook && d.Item == item {
			return d.Allowed, true
		}
	}
	return false, false
}

func sortedSet(m map[string]bool) []string {
	var s []string
	for k := range m {
		s = append(s, k)
	}
	sort.Strings(s)
	return s
}

// checkHooks: the response shows exactly the items whose hook decision was allow.
func checkHooks(ctx context.Context, st storage.Storage, r Req, log []decision, calls []recstore.Call, resp string, o *ev.Outcome) string {
	op := log[0].Operation
	q := map[string]string{}
	for _, kv := range r.Query {
		if _, dup := q[kv[0]]; !dup { // the server reads the first value of a repeated parameter
			q[kv[0]] = kv[1]
		}
	}
	var lx listXML
	switch op {
	case "ListBuckets", "ListObjects", "ListMultipartUploads", "ListParts", "DeleteObjects":
	default:
		return ""
	}
	if op != "DeleteObjects" {
		if err := xml.Unmarshal([]byte(resp), &lx); err != nil {
			return ""
		}
		if lx.IsTruncated {
			return ""
		}
	}
	switch op {
	case "ListBuckets":
		bs, err := st.ListBuckets(ctx)
		if err != nil {
			return ""
		}
		want, got := map[string]bool{}, map[string]bool{}
		for _, b := range bs {
			if ok, asked := hookAllowed(log, "listBucket", b.Name.String()); ok || !asked {
				if !asked {
					return "bucket " + b.Name.String() + " was listed without asking the listBucket hook"
				}
				want[b.Name.String()] = true
			}
		}
		for _, b := range lx.Buckets {
			got[b.Name] = true
		}
		o.Class("hooks:listBuckets-compared")
		if fmt.Sprint(sortedSet(want)) != fmt.Sprint(sortedSet(got)) {
			return fmt.Sprintf("ListBuckets shows %v, the hook allowed exactly %v", sortedSet(got), sortedSet(want))
		}
	case "ListObjects":
		if _, has := q["max-keys"]; has {
			return ""
		}
		bn, err := storage.NewBucketName(r.Bucket)
		if err != nil {
			return ""
		}
		opts := storage.ListObjectsOptions{MaxKeys: 1000}
		if v, ok := q["prefix"]; ok {
			opts.Prefix = &v
		}
		if v, ok := q["delimiter"]; ok {
			opts.Delimiter = &v
		}
		if q["list-type"] == "2" {
			if v, ok := q["continuation-token"]; ok {
				opts.StartAfter = &v
			} else if v, ok := q["start-after"]; ok {
				opts.StartAfter = &v
			}
		} else {
			if v, ok := q["marker"]; ok {
				opts.StartAfter = &v
			} else if v, ok := q["start-after"]; ok {
				opts.StartAfter = &v
			}
		}
		res, err := st.ListObjects(ctx, bn, opts)
		if err != nil || res.IsTruncated {
			return ""
		}
		want, got := map[string]bool{}, map[string]bool{}
		items := []string{}
		for _, ob := range res.Objects {
			items = append(items, ob.Key.String())
		}
		items = append(items, res.CommonPrefixes...)
		for _, it := range items {
			ok, asked := hookAllowed(log, "listObject", it)
			if !asked {
				return "item " + it + " was never put to the listObject hook"
			}
			if ok {
				want[it] = true
			}
		}
		for _, x := range lx.Contents {
			got[x.Key] = true
		}
		for _, x := range lx.CommonPrefixes {
			got[x.Prefix] = true
		}
		o.Class("hooks:listObjects-compared")
		if len(want) != len(items) {
			o.Class("hooks:listObjects-some-hidden")
		}
		if fmt.Sprint(sortedSet(want)) != fmt.Sprint(sortedSet(got)) {
			return fmt.Sprintf("ListObjects shows %v, the hook allowed exactly %v of %v", sortedSet(got), sortedSet(want), items)
		}
	case "ListMultipartUploads":
		if len(q) > 1 {
			return ""
		}
		want, got := map[string]bool{}, map[string]bool{}
		if r.Bucket != bkt0 {
			return ""
		}
		bn := storage.MustNewBucketName(bkt0)
		ups, err := st.ListMultipartUploads(ctx, bn, storage.ListMultipartUploadsOptions{MaxUploads: 1000})
		if err != nil || ups.IsTruncated {
			return ""
		}
		for _, u := range ups.Uploads {
			k := u.Key.String()
			ok, asked := hookAllowed(log, "listUpload", k)
			if !asked {
				return "upload " + k + " was never put to the listMultipartUpload hook"
			}
			if ok {
				want[k] = true
			}
		}
		for _, u := range lx.Uploads {
			got[u.Key] = true
		}
		o.Class("hooks:listUploads-compared")
		if fmt.Sprint(sortedSet(want)) != fmt.Sprint(sortedSet(got)) {
			return fmt.Sprintf("ListMultipartUploads shows %v, the hook allowed exactly %v", sortedSet(got), sortedSet(want))
		}
	case "ListParts":
		if r.Bucket != bkt0 || r.Key != "mp" || len(q) > 1 {
			return ""
		}
		want, got := map[string]bool{}, map[string]bool{}
		upID := q["uploadId"]
		for _, kv := range r.Query {
			if kv[0] == "uploadId" && kv[1] != "UPLOAD" {
				return ""
			}
		}
		_ = upID
		var uploadID storage.UploadId
		ups, err := st.ListMultipartUploads(ctx, storage.MustNewBucketName(bkt0), storage.ListMultipartUploadsOptions{MaxUploads: 1000})
		if err != nil {
			return ""
		}
		// the upload the request named (a program may have created further uploads on the same key)
		asked := ""
		for _, cl := range calls {
			if cl.Method != "ListParts" {
				continue
			}
			for _, a := range cl.Args {
				if strings.HasPrefix(a, "uploadId=") {
					asked = strings.Trim(strings.TrimPrefix(a, "uploadId="), "\"")
				}
			}
		}
		found := false
		for _, u := range ups.Uploads {
			if u.Key.String() == "mp" && u.UploadId.String() == asked {
				uploadID, found = u.UploadId, true
			}
		}
		if !found {
			return ""
		}
		ps, err := st.ListParts(ctx, storage.MustNewBucketName(bkt0), storage.MustNewObjectKey("mp"), uploadID, storage.ListPartsOptions{MaxParts: 1000})
		if err != nil || ps.IsTruncated {
			return ""
		}
		for _, p := range ps.Parts {
			n := int(p.PartNumber)
			ok, asked := hookAllowed(log, "listPart", fmt.Sprint(n))
			if !asked {
				return fmt.Sprintf("part %d was never put to the listPart hook", n)
			}
			if ok {
				want[fmt.Sprint(n)] = true
			}
		}
		for _, p := range lx.Parts {
			got[fmt.Sprint(p.PartNumber)] = true
		}
		o.Class("hooks:listParts-compared")
		if fmt.Sprint(sortedSet(want)) != fmt.Sprint(sortedSet(got)) {
			return fmt.Sprintf("ListParts shows %v, the hook allowed exactly %v", sortedSet(got), sortedSet(want))
		}
	case "DeleteObjects":
		keys := deleteKeys(r)
		if keys == nil {
			return ""
		}
		var wantEntries []string
		for _, k := range keys {
			if _, err := storage.NewObjectKey(k); err != nil {
				continue
			}
			ok, asked := hookAllowed(log, "deleteEntry", k)
			if !asked {
				return "entry " + k + " was never put to the deleteEntry hook"
			}
			if ok {
				wantEntries = append(wantEntries, k)
			} else {
				o.Class("hooks:delete-entry-skipped")
			}
		}
		var gotEntries []string
		for _, cl := range calls {
			if cl.Method != "DeleteObjects" {
				continue
			}
			for _, a := range cl.Args {
				if strings.HasPrefix(a, "entries=") {
					// entries=[{Key:"k" VersionID:nil IfMatchETag:nil} ...]
					for _, seg := range strings.Split(a, "{Key:")[1:] {
						if e := strings.Index(seg[1:], "\""); e >= 0 {
							if k, err := strconvUnquote(seg[:e+2]); err == nil {
								gotEntries = append(gotEntries, k)
							}
						}
					}
				}
			}
		}
		o.Class("hooks:deleteObjects-compared")
		if fmt.Sprint(wantEntries) != fmt.Sprint(gotEntries) {
			return fmt.Sprintf("DeleteObjects passed %v to the storage, the hook allowed exactly %v", gotEntries, wantEntries)
		}
	}
	return ""
}

func strconvUnquote(s string) (string, error) {
	var out string
	_, err := fmt.Sscanf(s, "%q", &out)
	return out, err
}

// ---- generator ---------------------------------------------------------------------------------------------

var subresources = []string{"tagging", "uploads", "uploadId", "partNumber", "versionId", "versions", "versioning", "cors", "website", "lifecycle", "notification",
	"append", "delete", "list-type", "prefix", "delimiter", "acl", "policy", "torrent", "restore", "x-id", "marker", "start-after"}

func genQuery(t *rapid.T) [][2]string {
	n := rapid.SampledFrom([]int{0, 0, 1, 1, 1, 2, 2, 3}).Draw(t, "nq")
	var q [][2]string
	seen := map[string]bool{}
	for i := 0; i < n; i++ {
		name := rapid.SampledFrom(subresources).Draw(t, "qn")
		if seen[name] {
			continue
		}
		seen[name] = true
		val := ""
		switch name {
		case "uploadId":
			val = rapid.SampledFrom([]string{"UPLOAD", "UPLOAD", "nonexistent"}).Draw(t, "uid")
		case "partNumber":
			val = rapid.SampledFrom([]string{"1", "4", "0", "x"}).Draw(t, "pn")
		case "versionId":
			val = rapid.SampledFrom([]string{"null", "", "01ARZ3NDEKTSV4RRFFQ69G5FAV"}).Draw(t, "vid")
		case "list-type":
			val = rapid.SampledFrom([]string{"2", "1"}).Draw(t, "lt")
		case "prefix":
			val = rapid.SampledFrom([]string{"dir/", "z", ""}).Draw(t, "pfx")
		case "delimiter":
			val = "/"
		case "marker", "start-after":
			val = rapid.SampledFrom([]string{"a", "dir/b"}).Draw(t, "mk")
		}
		q = append(q, [2]string{name, val})
	}
	return q
}

func genReq(t *rapid.T) Req {
	// one request in eight is a well-formed multi-object delete (the unstructured generator below reaches
	// that shape too rarely for the per-entry hook to be exercised); batches include keys the server
	// rejects as invalid ("" and an over-long key) in front of, between and behind valid ones
	if rapid.IntRange(0, 7).Draw(t, "multiDelete") == 3 {
		ks := rapid.SliceOfN(rapid.SampledFrom([]string{"a", "tagged", "dir/b", "zz/top", "t-none", "missing", "", "LONG", "a", "tagged"}), 1, 6).Draw(t, "mdk")
		return Req{Method: "POST", Host: rapid.SampledFrom([]string{"api", "api", "vhost"}).Draw(t, "mdHost"),
			Bucket: rapid.SampledFrom([]string{bkt0, bkt0, bkt1}).Draw(t, "mdBucket"),
			Query:  [][2]string{{"delete", ""}}, Body: "DELETE:" + strings.Join(ks, ",")}
	}
	r := Req{}
	r.Method = rapid.SampledFrom([]string{"GET", "GET", "HEAD", "PUT", "PUT", "POST", "DELETE", "DELETE", "OPTIONS", "PATCH"}).Draw(t, "method")
	r.Host = rapid.SampledFrom([]string{"api", "api", "api", "api", "vhost", "site", "custom"}).Draw(t, "host")
	shape := rapid.SampledFrom([]string{"service", "bucket", "object", "object", "object", "deep", "new"}).Draw(t, "shape")
	r.Bucket = rapid.SampledFrom([]string{bkt0, bkt0, bkt0, bkt1, "nobucket"}).Draw(t, "bucket")
	switch shape {
	case "service":
		r.Bucket = ""
	case "bucket":
	case "object":
		r.Key = rapid.SampledFrom(append([]string{"mp", "dir", "dir/", "missing"}, fixtureKeys...)).Draw(t, "key")
	case "deep":
		r.Key = rapid.SampledFrom([]string{"dir/b", "dir/new/x", "zz/top", "zz/mp", "a/b/c/d"}).Draw(t, "dkey")
	case "new":
		r.Key = rapid.SampledFrom([]string{"new", "dir/new", "t-new"}).Draw(t, "nkey")
	}
	if r.Host != "api" && r.Bucket == "" {
		r.Bucket = bkt0
	}
	r.Query = genQuery(t)
	// headers
	if rapid.IntRange(0, 9).Draw(t, "copy") < 2 {
		src := rapid.SampledFrom([]string{"/" + bkt1 + "/a", "/" + bkt0 + "/tagged", bkt1 + "/dir/b", "/" + bkt1 + "/a?versionId=null", "/" + bkt0 + "/" + "missing", "garbage", "/" + bkt0 + "/dir%2Fb"}).Draw(t, "src")
		r.Header = append(r.Header, [2]string{"x-amz-copy-source", src})
		if rapid.Bool().Draw(t, "csr") {
			r.Header = append(r.Header, [2]string{"x-amz-copy-source-range", "bytes=0-3"})
		}
		if rapid.IntRange(0, 2).Draw(t, "md") == 1 {
			r.Header = append(r.Header, [2]string{"x-amz-metadata-directive", rapid.SampledFrom([]string{"REPLACE", "COPY", "bogus"}).Draw(t, "mdv")})
		}
	}
	if rapid.IntRange(0, 9).Draw(t, "tagh") < 2 {
		r.Header = append(r.Header, [2]string{"x-amz-tagging", rapid.SampledFrom([]string{"a=1", "a=1&b=2", "%%%"}).Draw(t, "tv")})
		if rapid.Bool().Draw(t, "td") {
			r.Header = append(r.Header, [2]string{"x-amz-tagging-directive", rapid.SampledFrom([]string{"REPLACE", "COPY"}).Draw(t, "tdv")})
		}
	}
	if rapid.IntRange(0, 9).Draw(t, "range") == 4 {
		r.Header = append(r.Header, [2]string{"Range", rapid.SampledFrom([]string{"bytes=0-3", "bytes=-4", "bytes=2-"}).Draw(t, "rv")})
	}
	if rapid.IntRange(0, 9).Draw(t, "cond") == 5 {
		r.Header = append(r.Header, [2]string{rapid.SampledFrom([]string{"If-None-Match", "If-Match"}).Draw(t, "cn"), "*"})
	}
	if rapid.IntRange(0, 9).Draw(t, "origin") == 6 {
		r.Header = append(r.Header, [2]string{"Origin", "http://app.example"})
	}
	// body
	if r.Method == "PUT" || r.Method == "POST" {
		has := func(n string) bool {
			for _, q := range r.Query {
				if q[0] == n {
					return true
				}
			}
			return false
		}
		switch {
		case has("tagging"):
			r.Body = "TAGGING"
		case has("delete"):
			ks := rapid.SliceOfNDistinct(rapid.SampledFrom([]string{"a", "tagged", "dir/b", "zz/top", "t-none", "missing", "", "LONG", "a", "tagged", "dir/b"}), 1, 5, func(s string) string { return s }).Draw(t, "dk")
			r.Body = "DELETE:" + strings.Join(ks, ",")
		case has("versioning"):
			r.Body = "VERSIONING"
		case has("cors"):
			r.Body = "CORS"
		case has("website"):
			r.Body = "WEBSITE"
		case has("lifecycle"):
			r.Body = "LIFECYCLE"
		case has("uploadId") && r.Method == "POST":
			r.Body = "COMPLETE"
		default:
			r.Body = rapid.SampledFrom([]string{"new-body", "", "<garbage"}).Draw(t, "body")
		}
		if rapid.IntRange(0, 14).Draw(t, "garbageBody") == 9 {
			r.Body = "<<<not xml"
		}
	}
	return r
}

// directedReqs: the documented shapes of every handler, so every operation is reached in every run.
func directedReqs() []Req {
	q := func(kv ...string) [][2]string {
		var out [][2]string
		for i := 0; i+1 < len(kv); i += 2 {
			out = append(out, [2]string{kv[i], kv[i+1]})
		}
		return out
	}
	h := q
	return []Req{
		{Method: "GET", Host: "api"},
		{Method: "GET", Host: "api", Bucket: bkt0},
		{Method: "GET", Host: "api", Bucket: bkt0, Query: q("list-type", "2", "prefix", "dir/")},
		{Method: "GET", Host: "api", Bucket: bkt0, Query: q("delimiter", "/")},
		{Method: "GET", Host: "api", Bucket: bkt0, Query: q("uploads", "")},
		{Method: "GET", Host: "api", Bucket: bkt0, Query: q("versions", "")},
		{Method: "GET", Host: "api", Bucket: bkt0, Key: "mp", Query: q("uploadId", "UPLOAD")},
		{Method: "GET", Host: "api", Bucket: bkt0, Key: "a"},
		{Method: "GET", Host: "vhost", Bucket: bkt0, Key: "dir/b", Header: h("Range", "bytes=0-3")},
		{Method: "HEAD", Host: "api", Bucket: bkt0, Key: "tagged"},
		{Method: "GET", Host: "api", Bucket: bkt0, Key: "tagged", Query: q("tagging", "")},
		{Method: "GET", Host: "api", Bucket: bkt0, Key: "a", Query: q("versionId", "null")},
		{Method: "PUT", Host: "api", Bucket: bkt0, Key: "dir/new", Body: "new-body"},
		{Method: "PUT", Host: "api", Bucket: bkt0, Key: "new", Body: "new-body", Header: h("x-amz-tagging", "a=1")},
		{Method: "PUT", Host: "api", Bucket: bkt0, Key: "dir/copy", Header: h("x-amz-copy-source", "/"+bkt1+"/a")},
		{Method: "PUT", Host: "api", Bucket: bkt0, Key: "copy2", Header: h("x-amz-copy-source", "/"+bkt1+"/dir/b", "x-amz-metadata-directive", "REPLACE")},
		{Method: "PUT", Host: "api", Bucket: bkt0, Key: "a", Query: q("append", ""), Body: "more"},
		{Method: "PUT", Host: "api", Bucket: bkt0, Key: "tagged", Query: q("tagging", ""), Body: "TAGGING"},
		{Method: "DELETE", Host: "api", Bucket: bkt0, Key: "tagged", Query: q("tagging", "")},
		{Method: "POST", Host: "api", Bucket: bkt0, Key: "dir/mpu", Query: q("uploads", "")},
		{Method: "PUT", Host: "api", Bucket: bkt0, Key: "mp", Query: q("partNumber", "4", "uploadId", "UPLOAD"), Body: "part4"},
		{Method: "PUT", Host: "api", Bucket: bkt0, Key: "mp", Query: q("partNumber", "4", "uploadId", "UPLOAD"), Header: h("x-amz-copy-source", "/"+bkt1+"/a")},
		{Method: "POST", Host: "api", Bucket: bkt0, Key: "mp", Query: q("uploadId", "UPLOAD"), Body: "COMPLETE"},
		{Method: "DELETE", Host: "api", Bucket: bkt0, Key: "mp", Query: q("uploadId", "UPLOAD")},
		{Method: "POST", Host: "api", Bucket: bkt0, Query: q("delete", ""), Body: "DELETE:a,tagged,zz/top,t-none"},
		{Method: "DELETE", Host: "api", Bucket: bkt0, Key: "dir/b"},
		{Method: "DELETE", Host: "api", Bucket: bkt0, Key: "a", Query: q("versionId", "null")},
		{Method: "PUT", Host: "api", Bucket: "newbucket"},
		{Method: "DELETE", Host: "api", Bucket: bkt1},
		{Method: "PUT", Host: "api", Bucket: bkt0, Query: q("cors", ""), Body: "CORS"},
		{Method: "PUT", Host: "api", Bucket: bkt0, Query: q("versioning", ""), Body: "VERSIONING"},
		{Method: "PUT", Host: "api", Bucket: bkt0, Query: q("website", ""), Body: "WEBSITE"},
		{Method: "PUT", Host: "api", Bucket: bkt0, Query: q("lifecycle", ""), Body: "LIFECYCLE"},
		{Method: "DELETE", Host: "api", Bucket: bkt0, Query: q("cors", "")},
		{Method: "DELETE", Host: "api", Bucket: bkt0, Query: q("website", "")},
		{Method: "DELETE", Host: "api", Bucket: bkt0, Query: q("lifecycle", "")},
		{Method: "GET", Host: "site", Bucket: bkt1, Key: "a"},
		{Method: "GET", Host: "site", Bucket: bkt1, Key: "dir"},
		{Method: "GET", Host: "site", Bucket: bkt1, Key: "missing"},
		{Method: "HEAD", Host: "site", Bucket: bkt1, Key: "missing"},
		{Method: "GET", Host: "custom", Bucket: bkt1, Key: ""},
		{Method: "PUT", Host: "site", Bucket: bkt1, Key: "x", Body: "new-body"},
	}
}

func genCase(t *rapid.T, env *ev.Env) Case {
	c := Case{}
	c.Program = rapid.SampledFrom([]string{"table", "table", "table", "allow", "deny", "lua-ro", "lua-table"}).Draw(t, "program")
	c.Seed = rapid.Uint32Range(0, 1<<20).Draw(t, "seed")
	c.Pct = rapid.SampledFrom([]int{50, 70, 30, 90}).Draw(t, "pct")
	n := rapid.IntRange(6, 16).Draw(t, "n")
	dr := directedReqs()
	for i := 0; i < n; i++ {
		if rapid.IntRange(0, 9).Draw(t, "useDirected") < 3 {
			// a documented shape, possibly with one more query parameter / another host
			r := dr[rapid.IntRange(0, len(dr)-1).Draw(t, "di")]
			if rapid.Bool().Draw(t, "extraQ") {
				r.Query = append(append([][2]string{}, r.Query...), genQuery(t)...)
			}
			c.Reqs = append(c.Reqs, r)
			continue
		}
		c.Reqs = append(c.Reqs, genReq(t))
	}
	return c
}

func directed(env *ev.Env) []Case {
	var cs []Case
	for _, p := range []string{"allow", "deny", "lua-ro", "lua-table", "table"} {
		cs = append(cs, Case{Program: p, Seed: 7, Pct: 60, Reqs: directedReqs()})
	}
	cs = append(cs, Case{Program: "table", Seed: 12345, Pct: 50, Reqs: directedReqs()}, Case{Program: "table", Seed: 99, Pct: 80, Reqs: directedReqs()})
	return cs
}

func TestC31(t *testing.T) {
	ev.Main(t, ev.Spec[Case]{
		ID:    "C31",
		Level: "exploration",
		Rule: "a case is an authorizer program (allow-all, deny-all, seeded decision table with per-item hooks, real Lua isReadOnly(), real Lua policy with hooks) + 6-16 HTTP requests (method x path shape x <=3 subresource query names x copy/tagging/directive/range/condition headers x body) on a fresh fixture; " +
			"non-trivial when some request reached the authorizer and carried >=2 query parameters or a copy source; distinct = distinct case JSON",
		Assumptions: []string{
			"the recording storage (generated from pithos' delegator, compile-time checked against storage.Storage) sees every storage call; the recording authorizer sees every decision",
			"coverage table operation -> storage methods is written from the S3 operation names, independently of the handlers; sensitive calls = mutating methods + GetObject + HeadObject; whitelisted before authorization: GetBucketCORSConfiguration, GetBucketWebsiteConfiguration, GetObjectTagging (lazy tag resolver), listings",
			"a storage call is covered only by an allow decision made before the call started, with equal bucket, key and copy source, and the *Version operation variant when the call names a version",
		},
		Gen:      genCase,
		Run:      run,
		Directed: directed,
	})
}
