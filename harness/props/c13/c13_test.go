package c13

import (
	"context"
	"fmt"
	"testing"

	"github.com/jdillenkofer/pithos/internal/storage"
	"github.com/jdillenkofer/pithos/verifharness/dump"
	"github.com/jdillenkofer/pithos/verifharness/ev"
	"github.com/jdillenkofer/pithos/verifharness/gen"
	"github.com/jdillenkofer/pithos/verifharness/prog"
	"github.com/jdillenkofer/pithos/verifharness/run"
	"github.com/jdillenkofer/pithos/verifharness/stacks"
	"pgregory.net/rapid"
)

var names = run.Names{Buckets: []string{"imm-bucket"}, Keys: []string{"k", "dir/k2", "K"}}

func genCfg() prog.GenConfig {
	return prog.GenConfig{
		Buckets: 1, Keys: 3, MinOps: 8, MaxOps: 36,
		Weights: map[string]int{
			prog.OpSetVersioning: 5, prog.OpPut: 10, prog.OpCopy: 3, prog.OpAppend: 5, prog.OpMpuSeq: 3,
			prog.OpDelete: 6, prog.OpPutTags: 4, prog.OpDeleteTags: 1, prog.OpTransition: 4, prog.OpReopen: 1, prog.OpGC: 1,
		},
		Versions: true, Tags: true, HotKey: true, InterleaveSeq: true, Boundaries: []int{1024}, MaxBody: 3000,
		Classes: []string{"STANDARD", "GLACIER", "STANDARD_IA"},
		Prelude: []prog.Op{{Kind: prog.OpCreateBucket, B: 0}, {Kind: prog.OpSetVersioning, B: 0, Status: "Enabled"}},
	}
}

func genCase(t *rapid.T, env *ev.Env) run.ProgCase {
	stack := rapid.SampledFrom([]string{"P1", "P2", "N1"}).Draw(t, "stack")
	c := run.ProgCase{Stack: stack, Ops: genCfg().Gen(t)}
	_ = gen.BodySpec{}
	return c
}

// pinned first observation of one version id
type pin struct {
	size    int64
	etag    string
	sha     string
	lastMod int64
	key     string
	step    int
}

func runCase(env *ev.Env, c run.ProgCase) ev.Outcome {
	var st run.ProgStats
	pins := map[string]*pin{}  // raw version id -> first observation (non-null ids)
	nullSeq := map[string]int{} // key -> model Seq of the null version that is pinned under key+"\x00null"
	step := 0
	rereadAfterLaterWrite := false
	specialSeen := false // suspended append / transition / toggle happened after a pin
	writesSincePin := map[string]int{}
	lastModKnown := env.Known("c13.lastModifiedBumped")
	after := func(s *run.Session, inst *stacks.Instance, sr *run.StepResult, o *ev.Outcome) bool {
		step++
		if sr.Expect.Err == "" && !sr.Expect.FailOrOK {
			switch sr.Op.Kind {
			case prog.OpPut, prog.OpCopy, prog.OpAppend, prog.OpMpuComplete, prog.OpDelete:
				writesSincePin[sr.Concrete.Key]++
			}
			mb := s.Model.Buckets[sr.Concrete.Bucket]
			switch sr.Op.Kind {
			case prog.OpTransition, prog.OpSetVersioning:
				specialSeen = true
			case prog.OpAppend:
				if mb != nil && mb.Versioning == "Suspended" {
					specialSeen = true
				}
			}
		}
		bn := storage.MustNewBucketName(names.Buckets[0])
		mb := s.Model.Buckets[names.Buckets[0]]
		if mb == nil {
			return false
		}
		res, err := inst.Storage.ListObjectVersions(context.Background(), bn, storage.ListObjectVersionsOptions{MaxKeys: 1000})
		if err != nil {
			o.Failf("ListObjectVersions: %v", err)
			return true
		}
		seen := map[string]bool{}
		for _, v := range res.Versions {
			if v.IsDeleteMarker {
				continue
			}
			key := v.Key.String()
			id := v.VersionID
			pinKey := id
			if id == "null" || id == "" {
				id = "null"
				pinKey = key + "\x00null"
				// the null version may be replaced by unversioned/suspended writes: re-pin when the model's null version changed
				var seq int
				for _, mv := range mb.Keys[key] {
					if mv.ID == "null" {
						seq = mv.Seq
					}
				}
				if nullSeq[key] != seq {
					nullSeq[key] = seq
					delete(pins, pinKey)
				}
			}
			seen[pinKey] = true
			vid := id
			r := s.Sides[0].Do(prog.Concrete{Op: prog.Op{Kind: prog.OpGet}, Bucket: names.Buckets[0], Key: key, VersionID: &vid})
			o.Sub++
			if r.Err != "" {
				o.Failf("step %d (%s): listed version %s of %s not readable: %s (%s)", step, sr.Op.Kind, id, key, r.Err, r.ErrText)
				return true
			}
			p := pins[pinKey]
			if p == nil {
				pins[pinKey] = &pin{size: r.Obj.Size, etag: r.Obj.ETag, sha: r.Obj.BodySHA, lastMod: r.Obj.LastMod, key: key, step: step}
				continue
			}
			if p.size != r.Obj.Size || p.etag != r.Obj.ETag || p.sha != r.Obj.BodySHA {
				o.Failf("step %d (%s %s): version %s of %s changed after it was returned at step %d: size %d->%d etag %s->%s sha %.12s->%.12s",
					step, sr.Op.Kind, sr.Concrete.Key, id, key, p.step, p.size, r.Obj.Size, p.etag, r.Obj.ETag, p.sha, r.Obj.BodySHA)
				return true
			}
			// the listing's own view of the version must agree too
			if v.Size != p.size || (v.ETag != nil && *v.ETag != p.etag) {
				o.Failf("step %d: ListObjectVersions reports size %d etag %v for version %s of %s, pinned size %d etag %s", step, v.Size, v.ETag, id, key, p.size, p.etag)
				return true
			}
			if p.lastMod != r.Obj.LastMod {
				// known finding KF-C13-1: Last-Modified is the row's updated_at, which later
				// operations on the same key bump (is_latest flips, tagging, transitions)
				if lastModKnown && touched(sr, key) {
					o.KnownHits = append(o.KnownHits, "KF-C13-1")
					p.lastMod = r.Obj.LastMod
				} else {
					o.Failf("step %d (%s %s): Last-Modified of version %s of %s changed from %d to %d (content unchanged; pinned at step %d)",
						step, sr.Op.Kind, sr.Concrete.Key, id, key, p.lastMod, r.Obj.LastMod, p.step)
					return true
				}
			}
			if id != "null" && p.step < step && writesSincePin[key] > 0 {
				rereadAfterLaterWrite = true
			}
		}
		// pins of deleted versions are dropped
		for k := range pins {
			if !seen[k] {
				delete(pins, k)
			}
		}
		return false
	}
	o := run.RunModelProgram(env, c, run.ModelRunOptions{
		Dump: dump.Options{Versions: true}, Names: names, Stats: &st, AfterStep: after,
		Setup: func(s *run.Session) { s.Model.PromoteByRowCreation = true }, // current-version choice is C02's subject (KF-C02-1), not C13's
	})
	o.NonTrivial = rereadAfterLaterWrite && specialSeen
	if rereadAfterLaterWrite {
		o.Class("pinned-version-reread-after-later-write")
	}
	if specialSeen {
		o.Class("suspended-append/transition/toggle")
	}
	o.Class(fmt.Sprintf("stack:%s", c.Stack))
	for k, v := range st.OKByKind {
		o.Count("ok:"+k, v)
	}
	return o
}

// touched reports whether the step operated on the given key of the bucket.
func touched(sr *run.StepResult, key string) bool {
	if sr.Op.Kind == prog.OpDeleteObjects {
		for _, e := range sr.Concrete.Entries {
			if e.Key == key {
				return true
			}
		}
		return false
	}
	return sr.Concrete.Key == key && sr.Op.IsMutation()
}

func TestC13(t *testing.T) {
	ev.Main(t, ev.Spec[run.ProgCase]{
		ID:    "C13",
		Level: "exploration",
		Rule: "versioning programs (8-36 ops: toggles, put, copy, append, multipart, deletes, tag changes, transitions, restarts, GC) on stacks P1/P2/N1; after every step every listed version is read by id and compared with its first (pinned) observation; " +
			"non-trivial = a pinned non-null version was re-read after >=1 later write to its key AND the program contained a transition, a versioning toggle or a suspended-state append; distinct = distinct case JSON",
		Assumptions: []string{"first observation of a version id is the reference; only the null version may be replaced (re-pinned when the reference model says it was rewritten)", "which version is current after deleting the current one is judged by C02, not here"},
		Gen:         genCase,
		Run:         runCase,
	})
}
