package c10

import (
	"context"
	"database/sql"
	"fmt"
	"os"
	"strings"
	"testing"

	"github.com/jdillenkofer/pithos/internal/storage"
	"github.com/jdillenkofer/pithos/internal/storage/database"
	"github.com/jdillenkofer/pithos/internal/storage/metadatapart"
	"github.com/jdillenkofer/pithos/verifharness/dump"
	"github.com/jdillenkofer/pithos/verifharness/ev"
	"github.com/jdillenkofer/pithos/verifharness/gen"
	"github.com/jdillenkofer/pithos/verifharness/inject"
	"github.com/jdillenkofer/pithos/verifharness/prog"
	"github.com/jdillenkofer/pithos/verifharness/run"
	"github.com/jdillenkofer/pithos/verifharness/stacks"
	"pgregory.net/rapid"
)

var names = run.Names{Buckets: []string{"crash-a", "crash-b"}, Keys: []string{"k", "dir/k2", "K"}}

// Case: a prefix program, one victim operation, and the sampling offset used in
// the quick tier when the victim passes more crash points than the budget.
type Case struct {
	Stack  string    `json:"stack"`
	Pre    []prog.Op `json:"pre"`
	Victim prog.Op   `json:"victim"`
	Offset int       `json:"offset"`
}

var victimKinds = []string{prog.OpPut, prog.OpPut, prog.OpDelete, prog.OpDelete, prog.OpCopy, prog.OpMpuComplete, prog.OpMpuAbort, prog.OpTransition, prog.OpAppend, prog.OpMpuPart, prog.OpDeleteObjects}

func genCfg(stack string) prog.GenConfig {
	cfg := prog.GenConfig{
		Buckets: 2, Keys: 3, MinOps: 2, MaxOps: 9,
		Weights: map[string]int{
			prog.OpPut: 10, prog.OpCopy: 3, prog.OpAppend: 2, prog.OpMpuSeq: 3, prog.OpMpuCreate: 2, prog.OpMpuPart: 3,
			prog.OpDelete: 2, prog.OpSetVersioning: 2,
		},
		Versions: true, Tags: true, HotKey: true, Boundaries: stacks.Boundaries(stack), MaxBody: 4000,
	}
	if stack == "N2" {
		cfg.Classes = []string{"STANDARD", "GLACIER", "STANDARD_IA"}
	}
	return cfg
}

func genCase(t *rapid.T, env *ev.Env) Case {
	stack := rapid.SampledFrom([]string{"P2", "P2", "P3", "P4", "N2"}).Draw(t, "stack")
	cfg := genCfg(stack)
	c := Case{Stack: stack, Pre: cfg.Gen(t)}
	kind := victimKinds[(rapid.IntRange(0, 63).Draw(t, "victimKindHi")*64+rapid.IntRange(0, 63).Draw(t, "victimKindLo")*37)%len(victimKinds)]
	c.Victim = cfg.GenOp(t, kind)
	if rapid.IntRange(0, 4).Draw(t, "victimHot") > 0 {
		c.Victim.B, c.Victim.K, c.Victim.SB, c.Victim.SK = 0, 0, 0, 0
		c.Victim.Upload = prog.LastUpload
		if c.Victim.Ver != "" && c.Victim.Ver != "null" {
			c.Victim.Ver = "cur"
		}
	}
	if kind == prog.OpTransition && stack == "N2" {
		cl := rapid.SampledFrom([]string{"GLACIER", "STANDARD_IA", "STANDARD"}).Draw(t, "tcls")
		c.Victim.Class = &cl
	}
	// victims that act on a multipart upload get a pending upload with parts to act on
	switch kind {
	case prog.OpMpuAbort, prog.OpMpuComplete, prog.OpMpuPart, prog.OpMpuPartCopy:
		if rapid.IntRange(0, 4).Draw(t, "pendingUpload") > 0 {
			c.Pre = append(c.Pre, prog.Op{Kind: prog.OpMpuCreate, B: 0, K: 0})
			np := rapid.IntRange(1, 3).Draw(t, "pendingParts")
			for pn := 1; pn <= np; pn++ {
				c.Pre = append(c.Pre, prog.Op{Kind: prog.OpMpuPart, Upload: prog.LastUpload, PartNo: pn, Body: &gen.BodySpec{Kind: "rand", Len: 100 * pn, Seed: uint64(pn)}})
			}
			c.Victim.B, c.Victim.K, c.Victim.Upload = 0, 0, prog.LastUpload
			if kind == prog.OpMpuPart || kind == prog.OpMpuPartCopy {
				c.Victim.PartNo = rapid.IntRange(1, np+1).Draw(t, "victimPart")
			}
			if c.Victim.Manifest != "" {
				c.Victim.Manifest = "ok"
			}
			c.Victim.IfMatch, c.Victim.IfNoneMatchStar, c.Victim.Supplied = "", false, ""
		}
	}
	c.Offset = rapid.IntRange(0, 1000).Draw(t, "offset")
	return c
}

type world struct {
	dir  string
	inst *stacks.Instance
	sess *run.Session
}

func (w *world) close() {
	if w.inst != nil {
		w.inst.Close()
		w.inst = nil
	}
	if w.dir != "" {
		os.RemoveAll(w.dir)
		w.dir = ""
	}
}

func build(env *ev.Env, c Case, o *ev.Outcome) *world {
	w := &world{dir: env.TempDir()}
	inst, err := stacks.Open(w.dir, stacks.LayoutFor(c.Stack), stacks.Options{Inject: true})
	if err != nil {
		o.Failf("harness: open: %v", err)
		w.close()
		return nil
	}
	w.inst = inst
	w.sess = run.NewSession(names, prog.NewStorageSide(inst.Storage))
	w.sess.Model.PromoteByRowCreation = true
	for _, op := range c.Pre {
		if op.IsMutation() {
			w.sess.Step(op)
		}
	}
	return w
}

func dumpOf(inst *stacks.Instance) (*dump.Dump, error) {
	return dump.Of(context.Background(), inst.Storage, dump.Options{Versions: true})
}

// unreadable lists the objects/versions of a dump that the API lists but cannot read back consistently.
func unreadable(d *dump.Dump) []string {
	var out []string
	for _, b := range d.Buckets {
		for _, ob := range b.Objects {
			if ob.Err != "" {
				out = append(out, fmt.Sprintf("%s/%s: %s", b.Name, ob.Key, ob.Err))
			}
		}
		for _, v := range b.Versions {
			if v.Err != "" {
				out = append(out, fmt.Sprintf("%s/%s@%s: %s", b.Name, v.Key, v.ID, v.Err))
			}
		}
	}
	return out
}

func maxPoints(env *ev.Env) int {
	if env.Thorough() {
		return 1 << 30
	}
	return 24
}

// crashRun executes the victim with a crash armed at the site; reports whether the crash fired.
func crashRun(w *world, victim prog.Op, site inject.Site) (crashed bool, res prog.Result) {
	defer func() {
		if r := recover(); r != nil {
			if _, ok := r.(inject.CrashSentinel); ok {
				crashed = true
				inject.C.Disarm()
				return
			}
			inject.C.Disarm()
			panic(r)
		}
	}()
	s := site
	inject.C.Arm(&s, true)
	res = w.sess.Sides[0].Do(w.sess.Resolve(victim, 0))
	inject.C.Disarm()
	return false, res
}

func runCase(env *ev.Env, c Case) (o ev.Outcome) {
	o.Class("stack:" + c.Stack)
	o.Class("victim:" + c.Victim.Kind)
	// 1. clean run: record the crash points and the state after a clean execution
	w := build(env, c, &o)
	if w == nil {
		return
	}
	before, err := dumpOf(w.inst)
	if err != nil {
		o.Failf("harness: dump before: %v", err)
		w.close()
		return
	}
	inject.C.Arm(nil, false)
	sr := w.sess.Step(c.Victim)
	sites, _, _ := inject.C.Disarm()
	clean, err := dumpOf(w.inst)
	w.close()
	if err != nil {
		o.Failf("harness: dump after clean run: %v", err)
		return
	}
	if len(sr.Got) == 0 || sr.Got[0].Err != "" {
		o.Class("victim-fails-semantically")
		return // a victim that fails cleanly has no interesting crash points (C03 owns failures)
	}
	o.Count("crash_points_recorded", len(sites))
	points := sites
	if m := maxPoints(env); len(points) > m {
		var picked []inject.Site
		k := (len(points) + m - 1) / m
		for i := c.Offset % k; i < len(points); i += k {
			picked = append(picked, points[i])
		}
		// always keep the commit boundary and the commit-phase actions: they decide atomicity
		for _, p := range points {
			if strings.HasPrefix(p.Name, "sql:commit") || strings.HasSuffix(p.Name, "commit") {
				picked = append(picked, p)
			}
		}
		points = picked
	}
	seen := map[inject.Site]bool{}
	for _, pt := range points {
		if seen[pt] {
			continue
		}
		seen[pt] = true
		w := build(env, c, &o)
		if w == nil {
			return
		}
		crashed, _ := crashRun(w, c.Victim, pt)
		if !crashed {
			o.Count("crash_point_not_reached", 1)
			w.close()
			continue
		}
		o.Sub++
		o.Count("crash_runs", 1)
		o.Count("crash:"+siteClass(pt.Name), 1)
		// the process is dead: connections vanish without commit, goroutines are reaped, nothing else runs
		dir := w.dir
		w.dir = "" // keep the directory
		w.inst.Kill()
		w.inst = nil
		// restart on the same directory
		inst2, err := stacks.Open(dir, stacks.LayoutFor(c.Stack), stacks.Options{})
		if err != nil {
			os.RemoveAll(dir)
			if strings.Contains(err.Error(), "database is locked") {
				// a lock held inside this process is an artefact of simulating the kill in-process
				o.Count("restart_lock_artefact", 1)
				continue
			}
			o.Failf("restart after crash at %s in %s failed: %v", pt, c.Victim.Kind, err)
			return
		}
		after, err := dumpOf(inst2)
		missing := ""
		if err == nil {
			missing = referencedPartsMissing(inst2)
			if missing == "" {
				missing = completePendingUploads(inst2)
			}
		}
		inst2.Close()
		os.RemoveAll(dir)
		if err != nil {
			o.Failf("after crash at %s in %s the storage cannot be listed: %v", pt, c.Victim.Kind, err)
			return
		}
		afterCommit := pt.Name == "sql:commit:after" || strings.HasSuffix(pt.Name, ":aftercommit")
		if strings.HasSuffix(pt.Name, "commit") || strings.HasPrefix(pt.Name, "sql:commit") || strings.HasSuffix(pt.Name, ":after") {
			o.NonTrivial = true
		}
		if bad := unreadable(after); len(bad) > 0 {
			if env.Known("c10.backupNotRestored") && !afterCommit && isBackupLoss(bad) {
				o.KnownHits = append(o.KnownHits, "KF-C10-1")
				continue
			}
			o.Failf("after crash at %s in %s (%s) and restart, listed objects are not readable: %v", pt, c.Victim.Kind, c.Stack, bad)
			return
		}
		if missing != "" {
			o.Failf("after crash at %s in %s (%s) and restart: %s", pt, c.Victim.Kind, c.Stack, missing)
			return
		}
		dBefore, dClean := dump.Diff(before, after), dump.Diff(clean, after)
		if len(dBefore) > 0 && len(dClean) > 0 {
			o.Failf("after crash at %s in %s (%s) and restart the state is neither the state before nor the state after the operation:\n vs before: %v\n vs after: %v", pt, c.Victim.Kind, c.Stack, dBefore, dClean)
			return
		}
		if len(dBefore) == 0 {
			o.Count("outcome:absent", 1)
		} else {
			o.Count("outcome:applied", 1)
		}
	}
	return
}

// referencedPartsMissing checks that every part id the metadata references (objects and
// pending uploads) exists in one of the configured stores.
func referencedPartsMissing(inst *stacks.Instance) string {
	ms := metadatapart.VerifMetadataStore(inst.Storage)
	db := metadatapart.VerifDatabase(inst.Storage)
	stores := metadatapart.VerifNamedStores(inst.Storage)
	msg := ""
	err := database.WithTx(context.Background(), db, &sql.TxOptions{ReadOnly: true}, func(ctx context.Context, tx database.Tx) error {
		live, err := ms.GetInUsePartIdCounts(ctx, tx.SqlTx())
		if err != nil {
			return err
		}
		have := map[string]bool{}
		for _, st := range stores {
			ids, err := st.GetPartIds(ctx, tx)
			if err != nil {
				return err
			}
			for _, id := range ids {
				have[id.String()] = true
			}
		}
		for id := range live {
			if !have[id.String()] {
				msg = fmt.Sprintf("part %s is referenced by the metadata (object or pending upload) but is in no part store", id.String())
				return nil
			}
		}
		return nil
	})
	if err != nil {
		return "cannot check referenced parts: " + err.Error()
	}
	return msg
}

// completePendingUploads completes every pending upload that survived the crash and reads the
// result: what the API shows as an upload with parts must be usable.
func completePendingUploads(inst *stacks.Instance) string {
	ctx := context.Background()
	st := inst.Storage
	buckets, err := st.ListBuckets(ctx)
	if err != nil {
		return "ListBuckets: " + err.Error()
	}
	for _, b := range buckets {
		res, err := st.ListMultipartUploads(ctx, b.Name, storage.ListMultipartUploadsOptions{MaxUploads: 1000})
		if err != nil {
			return "ListMultipartUploads: " + err.Error()
		}
		for _, u := range res.Uploads {
			lp, err := st.ListParts(ctx, b.Name, u.Key, u.UploadId, storage.ListPartsOptions{MaxParts: 1000})
			if err != nil {
				return "ListParts: " + err.Error()
			}
			var want int64
			ok := len(lp.Parts) > 0
			for i, p := range lp.Parts {
				if int(p.PartNumber) != i+1 {
					ok = false
				}
				want += p.Size
			}
			if !ok {
				continue
			}
			if _, err := st.CompleteMultipartUpload(ctx, b.Name, u.Key, u.UploadId, nil, nil); err != nil {
				return fmt.Sprintf("pending upload of %s/%s (parts listed) cannot be completed: %v", b.Name, u.Key, err)
			}
			_, readers, err := st.GetObject(ctx, b.Name, u.Key, nil, nil)
			if err != nil {
				return fmt.Sprintf("object completed from the surviving upload of %s/%s cannot be opened: %v", b.Name, u.Key, err)
			}
			body, err := prog.ReadAll(readers)
			if err != nil {
				return fmt.Sprintf("object completed from the surviving upload of %s/%s is not readable: %v", b.Name, u.Key, err)
			}
			if int64(len(body)) != want {
				return fmt.Sprintf("object completed from the surviving upload of %s/%s has %d bytes, parts listed %d", b.Name, u.Key, len(body), want)
			}
		}
	}
	return ""
}

// isBackupLoss recognises the mechanism of KF-C10-1: parts renamed to *.txbackup.* by a
// pre-commit action of the filesystem store are not restored on restart ("part not found").
func isBackupLoss(bad []string) bool {
	for _, b := range bad {
		if !strings.Contains(b, "part not found") {
			return false
		}
	}
	return true
}

func siteClass(name string) string {
	if strings.HasPrefix(name, "ps:") {
		parts := strings.Split(name, ":")
		if len(parts) >= 4 {
			return "ps:" + parts[len(parts)-2] + ":" + parts[len(parts)-1]
		}
	}
	return name
}

func TestC10(t *testing.T) {
	ev.Main(t, ev.Spec[Case]{
		ID:    "C10",
		Level: "fault_enumeration",
		Rule: "case = (prefix program of 2-9 ops, one victim op in {put/overwrite, delete, delete version, copy, complete, abort, transition, append, upload part, multi-delete}) on filesystem-backed stacks P2/P3/P4/N2 with SQLite; a clean run records every crash point the victim passes (each part-store call before/mid/after, each pre-commit and after-commit action of the part store, each SQL statement, before and after the database commit); for each point (quick: <=24 sampled + all commit-phase points, thorough: all) the victim is re-run on a fresh copy of the state and the process is 'killed' there (panic unwinds to the harness, SQLite connections closed without commit, no rollback hooks run), the storage is restarted on the same directory; " +
			"oracle: every listed object/version is readable with its recorded size and ETag and the dump equals dump(before) or dump(after clean run); non-trivial = crash point in the commit phase or after a part-store write; distinct = distinct case JSON",
		Assumptions: []string{"process kill, not power loss (un-fsynced data is not lost)", "crash points are those visible to the harness wrappers (part-store calls, commit-phase actions registered after each part-store call, SQL statements, commit); points between two renames inside one filesystem closure are not separated"},
		Gen:         genCase,
		Run:         runCase,
	})
}
