// Package c37 checks C37: storage migration copies every object faithfully.
//
// A case is two operation programs: one populates the source storage, the
// other prepares the destination (nothing / empty buckets / buckets that
// already hold objects). migrator.MigrateStorage is then run source ->
// destination and the observable state of both sides (public API only, via
// dump.Of) is compared, restricted to what the property names: buckets and,
// per current object, content, content type, system + user metadata, tags and
// storage class.
package c37

import (
	"context"
	"encoding/json"
	"errors"
	"fmt"
	"net/http"
	"os"
	"sort"
	"testing"
	"time"

	"github.com/jdillenkofer/pithos/internal/storage/migrator"
	"github.com/jdillenkofer/pithos/verifharness/dump"
	"github.com/jdillenkofer/pithos/verifharness/ev"
	"github.com/jdillenkofer/pithos/verifharness/gen"
	"github.com/jdillenkofer/pithos/verifharness/prog"
	"github.com/jdillenkofer/pithos/verifharness/run"
	"github.com/jdillenkofer/pithos/verifharness/stacks"
	"pgregory.net/rapid"
)

// Case is one migration scenario.
type Case struct {
	SrcStack string    `json:"srcStack"`
	DstStack string    `json:"dstStack"`
	Src      []prog.Op `json:"src"` // populates the source
	Dst      []prog.Op `json:"dst"` // prepares the destination (createBucket / put only)
}

// no tink stacks: scrypt key derivation costs seconds per process and encryption is irrelevant to the migrator
var caseStacks = []string{"P1", "P2", "N1", "P3"}

var names = run.Names{
	Buckets: []string{"bucket-a", "bucket.b", "third-bucket"},
	Keys:    []string{"a", "a/b", "A", "é %_", "dir/", "z+y=1&x"},
}

var allClasses = []string{"STANDARD", "GLACIER", "STANDARD_IA", "DEEP_ARCHIVE", "REDUCED_REDUNDANCY"}

// multipartThreshold is the part size of the s3 manager uploader the migrator
// uses: bodies above it are routed through Create/UploadPart/Complete.
const multipartThreshold = 5 * 1024 * 1024

func srcCfg(bigAllowed bool) prog.GenConfig {
	return prog.GenConfig{
		Buckets: 3, Keys: 6, MinOps: 3, MaxOps: 20,
		Weights: map[string]int{
			prog.OpCreateBucket: 2, prog.OpPut: 14, prog.OpCopy: 3, prog.OpAppend: 2, prog.OpMpuSeq: 3,
			prog.OpMpuCreate: 1, prog.OpMpuPart: 1, prog.OpDelete: 2, prog.OpPutTags: 2, prog.OpDeleteTags: 1,
			prog.OpTransition: 2, prog.OpSetVersioning: 1,
		},
		Meta: true, Tags: true, Classes: allClasses,
		Boundaries: []int{1024, 65536, 262144}, MaxBody: 300000,
		Prelude: []prog.Op{{Kind: prog.OpCreateBucket, B: 0}, {Kind: prog.OpCreateBucket, B: 1}},
	}
}

func gen37(t *rapid.T, env *ev.Env) Case {
	c := Case{
		SrcStack: rapid.SampledFrom(caseStacks).Draw(t, "srcStack"),
		DstStack: rapid.SampledFrom(caseStacks).Draw(t, "dstStack"),
	}
	cfg := srcCfg(true)
	c.Src = cfg.Gen(t)
	// "full" object: tags + user metadata + non-STANDARD class in one put, so
	// the class the property cares most about does not depend on luck
	if rapid.IntRange(0, 2).Draw(t, "fullObj") > 0 {
		o := cfg.GenOp(t, prog.OpPut)
		o.Tags = map[string]string{"env": rapid.SampledFrom([]string{"prod", "x=y&z", ""}).Draw(t, "fullTag")}
		m := prog.Meta{}
		if o.Meta != nil {
			m = *o.Meta
		}
		if m.User == nil {
			m.User = map[string]string{}
		}
		m.User[rapid.SampledFrom([]string{"a", "long-key-name"}).Draw(t, "fullUk")] = rapid.SampledFrom([]string{"v", "with space", "ünï"}).Draw(t, "fullUv")
		o.Meta = &m
		cl := rapid.SampledFrom(allClasses[1:]).Draw(t, "fullClass")
		o.Class = &cl
		o.B = 0
		pos := rapid.IntRange(1, len(c.Src)).Draw(t, "fullPos")
		c.Src = append(c.Src[:pos:pos], append([]prog.Op{o}, c.Src[pos:]...)...)
	}
	// objects above the uploader's multipart threshold (1 in 12 quick, 1 in 3 thorough);
	// two draws defeat rapid's small-value bias
	bigOdds := 12
	if env.Thorough() {
		bigOdds = 3
	}
	if (rapid.IntRange(0, 63).Draw(t, "bigHi")*64+rapid.IntRange(0, 63).Draw(t, "bigLo")*37)%bigOdds == 0 {
		o := cfg.GenOp(t, prog.OpPut)
		size := multipartThreshold + rapid.SampledFrom([]int{1, 2, 4096, multipartThreshold - 1, multipartThreshold, multipartThreshold + 1, 2*multipartThreshold + 77}).Draw(t, "bigExtra")
		o.Body = &gen.BodySpec{Kind: rapid.SampledFrom([]string{"zero", "rand"}).Draw(t, "bigKind"), Len: size, Seed: uint64(rapid.IntRange(0, 3).Draw(t, "bigSeed"))}
		o.B = 0
		// the multipart path builds its own options from (tags, metadata, class): every subset of the three
		// is drawn with equal weight (seeded defect S-C37-1 needs "class only")
		mask := (rapid.IntRange(0, 7).Draw(t, "bigMaskA") + rapid.IntRange(0, 7).Draw(t, "bigMaskB")*3) % 8
		if mask&1 == 0 {
			o.Tags = nil
		} else if len(o.Tags) == 0 {
			o.Tags = map[string]string{"env": "prod"}
		}
		if mask&2 == 0 {
			o.Meta = nil
		} else if o.Meta == nil {
			o.Meta = &prog.Meta{User: map[string]string{"a": "v"}}
		}
		if mask&4 == 0 {
			o.Class = nil
		} else if o.Class == nil || *o.Class == "STANDARD" {
			cl := rapid.SampledFrom(allClasses[1:]).Draw(t, "bigClass")
			o.Class = &cl
		}
		c.Src = append(c.Src, o)
	} else if (rapid.IntRange(0, 63).Draw(t, "edgeHi")*64+rapid.IntRange(0, 63).Draw(t, "edgeLo")*37)%16 == 0 {
		// exactly at / just below the threshold: single PutObject path
		o := cfg.GenOp(t, prog.OpPut)
		o.Body = &gen.BodySpec{Kind: "zero", Len: multipartThreshold - rapid.IntRange(0, 1).Draw(t, "edgeOff"), Seed: 5}
		o.B = 0
		c.Src = append(c.Src, o)
	}
	fixExpires(c.Src)
	// destination preparation
	switch rapid.IntRange(0, 5).Draw(t, "dstKind") {
	case 0, 1: // empty, no buckets
	case 2, 3: // some buckets exist, all empty
		n := rapid.IntRange(1, 3).Draw(t, "dstBuckets")
		for i := 0; i < n; i++ {
			c.Dst = append(c.Dst, prog.Op{Kind: prog.OpCreateBucket, B: rapid.IntRange(0, 3).Draw(t, "dstB")})
		}
	default: // a non-empty bucket
		n := rapid.IntRange(1, 2).Draw(t, "dstBuckets")
		var bs []int
		for i := 0; i < n; i++ {
			b := rapid.SampledFrom([]int{0, 1, 2, 3, 0, 1}).Draw(t, "dstB")
			bs = append(bs, b)
			c.Dst = append(c.Dst, prog.Op{Kind: prog.OpCreateBucket, B: b})
		}
		m := rapid.IntRange(1, 3).Draw(t, "dstObjs")
		dcfg := srcCfg(false)
		dcfg.Buckets = 4
		for i := 0; i < m; i++ {
			p := dcfg.GenOp(t, prog.OpPut)
			p.B = rapid.SampledFrom(bs).Draw(t, "dstPutB")
			c.Dst = append(c.Dst, p)
		}
	}
	fixExpires(c.Dst)
	return c
}

// fixExpires enforces the input precondition of this check: Expires values are
// well-formed IMF-fixdates, i.e. they are a fixed point of parse + format
// (the migrator carries Expires through time.Time). The shared metadata
// generator contains one value with a wrong weekday ("Thu, 01 Dec 2094", a
// Wednesday), which net/http parses leniently and re-formats differently.
func fixExpires(ops []prog.Op) {
	for i := range ops {
		m := ops[i].Meta
		if m == nil || m.Expires == nil {
			continue
		}
		tm, err := http.ParseTime(*m.Expires)
		if err != nil {
			panic("c37 generator: Expires value is not an HTTP date: " + *m.Expires)
		}
		canon := tm.UTC().Format(http.TimeFormat)
		if canon != *m.Expires {
			mm := m.Clone()
			mm.Expires = &canon
			ops[i].Meta = &mm
		}
	}
}

// dstNames adds one bucket the source never has, so "unrelated non-empty
// destination bucket" is reachable.
var dstNames = run.Names{Buckets: append(append([]string{}, names.Buckets...), "dst-only"), Keys: names.Keys}

// projObj is the part of an object the property speaks about.
type projObj struct {
	Key   string  `json:"key"`
	Err   string  `json:"err,omitempty"`
	Size  int64   `json:"size"`
	SHA   string  `json:"sha"`
	CT    *string `json:"ct"`
	Meta  string  `json:"meta"`
	Tags  string  `json:"tags"`
	Class string  `json:"class"`
}

type projBucket struct {
	Name    string
	Objects []projObj
	Full    dump.Bucket // everything dump sees (used for "unchanged")
}

func project(d *dump.Dump) map[string]*projBucket {
	out := map[string]*projBucket{}
	for _, b := range d.Buckets {
		pb := &projBucket{Name: b.Name, Full: b}
		for _, o := range b.Objects {
			pb.Objects = append(pb.Objects, projObj{Key: o.Key, Err: o.Err, Size: o.Size, SHA: o.BodySHA, CT: o.ContentType, Meta: o.Meta, Tags: o.Tags, Class: o.Class})
		}
		out[b.Name] = pb
	}
	return out
}

func js(v any) string { b, _ := json.Marshal(v); return string(b) }

func sortedKeys[V any](m map[string]V) []string {
	var ks []string
	for k := range m {
		ks = append(ks, k)
	}
	sort.Strings(ks)
	return ks
}

func runProgram(names run.Names, inst *stacks.Instance, ops []prog.Op) (ok map[string]int) {
	s := run.NewSession(names, prog.NewStorageSide(inst.Storage))
	ok = map[string]int{}
	side := s.Sides[0]
	for _, op := range ops {
		if op.Kind == prog.OpPut && op.Body != nil && op.Body.Len > 1<<20 {
			// large bodies bypass the reference model of the session (which would
			// compute six digests of them); nothing here consults the model
			if r := side.Do(s.Resolve(op, 0)); r.Err == "" {
				ok[op.Kind]++
			}
			continue
		}
		sr := s.Step(op)
		if len(sr.Got) > 0 && sr.Got[0].Err == "" {
			ok[op.Kind]++
		}
	}
	return ok
}

func runCase(env *ev.Env, c Case) (o ev.Outcome) {
	ctx := context.Background()
	dir := env.TempDir()
	defer os.RemoveAll(dir)
	open := func(sub, stack string) *stacks.Instance {
		inst, err := stacks.Open(dir+"/"+sub, stacks.LayoutFor(stack), stacks.Options{GCGrace: time.Hour})
		if err != nil {
			o.Failf("harness: open %s (%s): %v", sub, stack, err)
			return nil
		}
		return inst
	}
	src := open("src", c.SrcStack)
	if src == nil {
		return
	}
	defer src.Close()
	dst := open("dst", c.DstStack)
	if dst == nil {
		return
	}
	defer dst.Close()
	o.Class("src:" + c.SrcStack)
	o.Class("dst:" + c.DstStack)

	srcOK := runProgram(names, src, c.Src)
	runProgram(dstNames, dst, c.Dst)

	dopt := dump.Options{}
	srcDump, err := dump.Of(ctx, src.Storage, dopt)
	if err != nil {
		o.Failf("harness: dump of source failed: %v", err)
		return
	}
	dstBefore, err := dump.Of(ctx, dst.Storage, dopt)
	if err != nil {
		o.Failf("harness: dump of destination failed: %v", err)
		return
	}
	S, DB := project(srcDump), project(dstBefore)
	for _, b := range S {
		for _, ob := range b.Objects {
			if ob.Err != "" {
				// the source itself is not readable through its API: nothing to migrate faithfully
				o.Discard = true
				return
			}
		}
	}

	// classify the scenario
	conflict, unrelatedNonEmpty, preexisting := false, false, 0
	for n, b := range DB {
		if len(b.Objects) > 0 {
			if _, ok := S[n]; ok {
				conflict = true
			} else {
				unrelatedNonEmpty = true
			}
		}
		if _, ok := S[n]; ok {
			preexisting++
		}
	}
	switch {
	case conflict:
		o.Class("dstState:non-empty-conflict")
	case unrelatedNonEmpty:
		o.Class("dstState:non-empty-unrelated")
	case len(DB) == 0:
		o.Class("dstState:no-buckets")
	case preexisting > 0:
		o.Class("dstState:empty-existing-buckets")
	default:
		o.Class("dstState:empty-other-buckets")
	}
	nObj, full, big, multipartSrc := 0, false, false, false
	for _, b := range S {
		for _, ob := range b.Objects {
			nObj++
			hasTags, hasUser, hasClass := ob.Tags != "{}", !endsWith(ob.Meta, "user={}"), ob.Class != "STANDARD"
			if hasTags {
				o.Count("obj:tags", 1)
			}
			if hasUser {
				o.Count("obj:userMeta", 1)
			}
			if hasClass {
				o.Count("obj:class", 1)
			}
			if ob.CT != nil {
				o.Count("obj:contentType", 1)
			}
			if ob.Size == 0 {
				o.Count("obj:empty", 1)
			}
			if ob.Size > multipartThreshold {
				big = true
				o.Count("obj:aboveMultipartThreshold", 1)
			}
			if hasTags && hasUser && hasClass {
				full = true
			}
		}
		for _, ob := range b.Full.Objects {
			if len(ob.ETag) > 3 && containsDash(ob.ETag) {
				multipartSrc = true
			}
		}
	}
	o.Count("objects", nObj)
	switch {
	case nObj == 0:
		o.Class("srcObjects:0")
	case nObj <= 3:
		o.Class("srcObjects:1-3")
	default:
		o.Class("srcObjects:4+")
	}
	if big {
		o.Class("src:has-object-above-5MiB")
	}
	if multipartSrc {
		o.Class("src:has-multipart-or-appended-object")
	}
	if full {
		o.Class("src:has-tags+usermeta+class-object")
	}
	if srcOK[prog.OpSetVersioning] > 0 {
		o.Class("src:versioned-bucket")
	}
	if len(S) > 1 {
		o.Class("src:multi-bucket")
	}
	o.NonTrivial = full

	// ---- the migration -----------------------------------------------------------
	merr := migrator.MigrateStorage(ctx, src.Storage, dst.Storage)
	switch {
	case merr == nil:
		o.Class("result:ok")
	case errors.Is(merr, migrator.ErrDestinationNotEmpty):
		o.Class("result:ErrDestinationNotEmpty")
	default:
		o.Class("result:other-error")
	}

	dstAfter, err := dump.Of(ctx, dst.Storage, dopt)
	if err != nil {
		o.Failf("dump of destination after migration failed: %v", err)
		return
	}
	DA := project(dstAfter)
	o.Sub++

	// (1) nothing that existed in the destination is overwritten: every bucket
	// that held objects before is exactly as it was
	for _, n := range sortedKeys(DB) {
		b := DB[n]
		if len(b.Objects) == 0 {
			continue
		}
		a, ok := DA[n]
		if !ok {
			o.Failf("non-empty destination bucket %q disappeared during migration (migrate returned %v)", n, merr)
			return
		}
		if js(a.Full) != js(b.Full) {
			o.Failf("non-empty destination bucket %q changed during migration (migrate returned %v):\n before: %s\n after : %s", n, merr, js(b.Full), js(a.Full))
			return
		}
		o.Sub++
	}
	// (2) a non-empty destination bucket that the migration would write into => failure
	if conflict {
		if merr == nil {
			o.Failf("migration into a non-empty destination bucket succeeded")
		}
		return
	}
	// (3) all destination buckets empty => success
	if merr != nil {
		if unrelatedNonEmpty {
			// the antecedent "destination whose buckets are empty" does not hold; the property is silent
			o.Class("silent:error-with-unrelated-non-empty-bucket")
			return
		}
		o.Failf("migration into an empty destination failed: %v", merr)
		return
	}
	// (4) every source bucket exists with exactly the source's current objects
	for _, n := range sortedKeys(S) {
		sb := S[n]
		db, ok := DA[n]
		if !ok {
			o.Failf("source bucket %q missing in destination after migration", n)
			return
		}
		sm, dm := map[string]projObj{}, map[string]projObj{}
		for _, x := range sb.Objects {
			sm[x.Key] = x
		}
		for _, x := range db.Objects {
			dm[x.Key] = x
		}
		for _, k := range sortedKeys(sm) {
			so := sm[k]
			do, ok := dm[k]
			if !ok {
				o.Failf("bucket %q: object %q missing in destination", n, k)
				return
			}
			o.Sub++
			if so.Class != do.Class && do.Class == "STANDARD" && env.Known("c37.classDropped") {
				// KF-C37-1: the migrator's upload input carries no storage class. Exactly
				// this mechanism: the destination reports the default class, everything
				// else is still compared.
				o.KnownHits = append(o.KnownHits, "KF-C37-1")
				do.Class = so.Class
			}
			if js(so) != js(do) {
				o.Failf("bucket %q: object %q differs after migration:\n source     : %s\n destination: %s", n, k, js(so), js(do))
				return
			}
		}
		for _, k := range sortedKeys(dm) {
			if _, ok := sm[k]; !ok {
				o.Failf("bucket %q: destination has object %q that is not a current object of the source", n, k)
				return
			}
		}
		if len(sb.Objects) == len(db.Objects) {
			for i := range sb.Objects {
				if sb.Objects[i].Key != db.Objects[i].Key {
					o.Failf("bucket %q: listing order differs", n)
					return
				}
			}
		}
	}
	// destination buckets that are not in the source were empty (or unrelated) before: they must not gain objects
	for _, n := range sortedKeys(DA) {
		if _, ok := S[n]; ok {
			continue
		}
		b, ok := DB[n]
		if !ok {
			o.Failf("destination gained bucket %q that the source does not have", n)
			return
		}
		if js(b.Full) != js(DA[n].Full) {
			o.Failf("destination bucket %q (not in source) changed during migration", n)
			return
		}
	}
	return
}

func endsWith(s, suf string) bool { return len(s) >= len(suf) && s[len(s)-len(suf):] == suf }
func containsDash(s string) bool {
	for i := 0; i < len(s); i++ {
		if s[i] == '-' {
			return true
		}
	}
	return false
}

func sp(s string) *string { return &s }

// directed: fixed scenarios the generator reaches rarely in one piece.
func directed(env *ev.Env) []Case {
	fullMeta := &prog.Meta{CacheControl: sp("max-age=60, public"), ContentDisposition: sp("attachment; filename=\"a b.txt\""), ContentEncoding: sp("gzip"),
		ContentLanguage: sp("de-DE, en"), Expires: sp("Wed, 01 Dec 2094 16:00:00 GMT"), Redirect: sp("/other"), User: map[string]string{"a": "", "long-key-name": "ünï"}}
	tags := map[string]string{"a b": "x=y&z", "K": ""}
	big := func(n int, kind string) prog.Op {
		return prog.Op{Kind: prog.OpPut, B: 0, K: 1, Body: &gen.BodySpec{Kind: kind, Len: n, Seed: 9}, ContentType: sp("image/png; charset=binary"), Meta: fullMeta, Tags: tags, Class: sp("GLACIER")}
	}
	mk := func(src []prog.Op, dst ...prog.Op) Case {
		return Case{SrcStack: "P2", DstStack: "P1", Src: append([]prog.Op{{Kind: prog.OpCreateBucket, B: 0}}, src...), Dst: dst}
	}
	cases := []Case{
		// all fields at once, small
		mk([]prog.Op{big(1000, "rand")}),
		// multipart path of the uploader with every field
		mk([]prog.Op{big(multipartThreshold+1, "rand")}),
		mk([]prog.Op{big(2*multipartThreshold+12345, "zero")}),
		// exactly the threshold
		mk([]prog.Op{big(multipartThreshold, "zero")}),
		// multipart path with each attribute alone (the adapter builds its options from tags / metadata / class)
		mk([]prog.Op{
			{Kind: prog.OpPut, B: 0, K: 0, Body: &gen.BodySpec{Kind: "zero", Len: multipartThreshold + 1, Seed: 1}, Class: sp("STANDARD_IA")},
			{Kind: prog.OpPut, B: 0, K: 1, Body: &gen.BodySpec{Kind: "zero", Len: multipartThreshold + 2, Seed: 2}, Tags: map[string]string{"only": "tags"}},
			{Kind: prog.OpPut, B: 0, K: 2, Body: &gen.BodySpec{Kind: "zero", Len: multipartThreshold + 3, Seed: 3}, Meta: &prog.Meta{User: map[string]string{"only": "meta"}}},
			{Kind: prog.OpPut, B: 0, K: 3, Body: &gen.BodySpec{Kind: "zero", Len: multipartThreshold + 4, Seed: 4}, ContentType: sp("x/only-content-type")},
			{Kind: prog.OpPut, B: 0, K: 4, Body: &gen.BodySpec{Kind: "zero", Len: multipartThreshold + 5, Seed: 5}, Meta: &prog.Meta{Redirect: sp("/only-redirect")}},
		}),
		// non-empty destination, same key
		mk([]prog.Op{big(10, "rand")}, prog.Op{Kind: prog.OpCreateBucket, B: 0}, prog.Op{Kind: prog.OpPut, B: 0, K: 1, Body: &gen.BodySpec{Kind: "text", Len: 7}}),
		// two buckets, the second one conflicts
		mk([]prog.Op{big(10, "rand"), {Kind: prog.OpCreateBucket, B: 1}, {Kind: prog.OpPut, B: 1, K: 0, Body: &gen.BodySpec{Kind: "text", Len: 3}}},
			prog.Op{Kind: prog.OpCreateBucket, B: 1}, prog.Op{Kind: prog.OpPut, B: 1, K: 2, Body: &gen.BodySpec{Kind: "text", Len: 7}}),
		// empty source bucket
		mk(nil),
	}
	if env.Thorough() {
		cases = append(cases, mk([]prog.Op{big(4*multipartThreshold+1, "rand")}))
	}
	return cases
}

func TestC37(t *testing.T) {
	ev.Main(t, ev.Spec[Case]{
		ID:    "C37",
		Level: "exploration",
		Rule: "a source storage populated by a generated program (puts with all metadata/tag/class combinations, copies, appends, multipart uploads, deletes, tagging, transitions, optional versioning; 1 in 12 cases adds an object above the uploader's 5 MiB part size) " +
			"on a drawn stack, a destination on an independently drawn stack prepared as no-buckets / empty buckets / buckets holding objects; non-trivial = the source has at least one current object that carries tags, user metadata and a non-STANDARD storage class at once; distinct = distinct case JSON",
		Assumptions: []string{
			"observable state is read through the public storage API (dump.Of); Expires values are IMF-fixdate (the migrator re-serialises them through time.Time)",
			"destination buckets are non-empty by current objects only (no delete markers or pending uploads are prepared in the destination)",
		},
		Gen:      gen37,
		Run:      runCase,
		Directed: directed,
	})
}

var _ = fmt.Sprintf
