package c35

import (
	"bytes"
	"context"
	"crypto/md5"
	"crypto/sha1"
	"crypto/sha256"
	"encoding/base64"
	"encoding/binary"
	"encoding/hex"
	"fmt"
	"hash/crc32"
	"io"
	"sync"
	"testing"

	"github.com/jdillenkofer/pithos/internal/checksumutils"
	"github.com/jdillenkofer/pithos/verifharness/ev"
	"github.com/jdillenkofer/pithos/verifharness/gen"
	"pgregory.net/rapid"
)

const hashBlock = 256 * 1024

// Case: one byte string, one read schedule, one split point.
type Case struct {
	Body   gen.BodySpec `json:"body"`
	Reader string       `json:"reader"`  // whole | onebyte | sizes | short
	Sizes  []int        `json:"sizes"`   // cyclic read sizes for "sizes"/"short"
	BufLen int          `json:"buf_len"` // consumer buffer length
	Split  int          `json:"split"`   // |a| for combine(crc(a), crc(b), |b|)
	Mode   string       `json:"mode"`    // both | stream | combine
	// Par > 1: the combine identity is additionally evaluated by Par goroutines at once (different split
	// points each, 40 rounds): the combine functions are called concurrently by multipart completes, appends
	// and the integrity validator, so their arithmetic must not depend on other calls in flight.
	Par int `json:"par,omitempty"`
}

// ---- independent reference implementations -------------------------------------

// bitwise CRC-64/NVME (reflected, poly 0x9a6c9329ac4bc9b5, init/xorout all ones);
// check("123456789") = 0xAE8B14860A799888.
func crc64nvmeRef(p []byte) uint64 {
	crc := ^uint64(0)
	for _, b := range p {
		crc ^= uint64(b)
		for i := 0; i < 8; i++ {
			if crc&1 == 1 {
				crc = (crc >> 1) ^ 0x9a6c9329ac4bc9b5
			} else {
				crc >>= 1
			}
		}
	}
	return ^crc
}

// bitwise CRC-32C (reflected Castagnoli 0x82F63B78); check = 0xE3069283.
func crc32cRef(p []byte) uint32 {
	crc := ^uint32(0)
	for _, b := range p {
		crc ^= uint32(b)
		for i := 0; i < 8; i++ {
			if crc&1 == 1 {
				crc = (crc >> 1) ^ 0x82F63B78
			} else {
				crc >>= 1
			}
		}
	}
	return ^crc
}

func be32(v uint32) []byte { b := make([]byte, 4); binary.BigEndian.PutUint32(b, v); return b }
func be64(v uint64) []byte { b := make([]byte, 8); binary.BigEndian.PutUint64(b, v); return b }
func b64(b []byte) string  { return base64.StdEncoding.EncodeToString(b) }

// for long inputs the bitwise CRCs are too slow; use them up to this length and
// the stdlib table implementation (cross-checked against the bitwise one on the
// prefix) beyond it.
const bitwiseMax = 1 << 14

var castagnoli = crc32.MakeTable(crc32.Castagnoli)

func refCRC32C(p []byte) uint32 {
	if len(p) <= bitwiseMax {
		return crc32cRef(p)
	}
	return crc32.Checksum(p, castagnoli)
}

// table-driven CRC64/NVME built from the bitwise definition (not hash/crc64).
var nvmeTable = func() (t [256]uint64) {
	for i := 0; i < 256; i++ {
		crc := uint64(i)
		for j := 0; j < 8; j++ {
			if crc&1 == 1 {
				crc = (crc >> 1) ^ 0x9a6c9329ac4bc9b5
			} else {
				crc >>= 1
			}
		}
		t[i] = crc
	}
	return
}()

func refCRC64(p []byte) uint64 {
	crc := ^uint64(0)
	for _, b := range p {
		crc = nvmeTable[byte(crc)^b] ^ (crc >> 8)
	}
	return ^crc
}

// ---- readers -------------------------------------------------------------------

type schedReader struct {
	data  []byte
	sizes []int
	i     int
	short bool // return (n, nil) with n possibly 0 < n < len(p); never (0, nil)
}

func (r *schedReader) Read(p []byte) (int, error) {
	if len(r.data) == 0 {
		return 0, io.EOF
	}
	n := len(p)
	if len(r.sizes) > 0 {
		s := r.sizes[r.i%len(r.sizes)]
		r.i++
		if s < 1 {
			s = 1
		}
		if s < n {
			n = s
		}
	}
	if n > len(r.data) {
		n = len(r.data)
	}
	copy(p, r.data[:n])
	r.data = r.data[n:]
	if len(r.data) == 0 && r.short {
		return n, io.EOF // data together with EOF
	}
	return n, nil
}

func run(env *ev.Env, c Case) (o ev.Outcome) {
	data := c.Body.Bytes()
	o.Class("len:" + lenClass(len(data)))
	o.Class("reader:" + c.Reader)
	o.Class("mode:" + c.Mode)
	if c.Mode != "combine" {
		var r io.Reader
		switch c.Reader {
		case "whole":
			r = bytes.NewReader(data)
		case "onebyte":
			r = &schedReader{data: data, sizes: []int{1}}
		case "short":
			r = &schedReader{data: data, sizes: c.Sizes, short: true}
		default:
			r = &schedReader{data: data, sizes: c.Sizes}
		}
		bufLen := c.BufLen
		if bufLen < 1 {
			bufLen = 32 * 1024
		}
		var consumed bytes.Buffer
		n, sums, err := checksumutils.CalculateChecksumsStreaming(context.Background(), r, func(rd io.Reader) error {
			buf := make([]byte, bufLen)
			for {
				k, err := rd.Read(buf)
				consumed.Write(buf[:k])
				if err == io.EOF {
					return nil
				}
				if err != nil {
					return err
				}
			}
		})
		o.Sub++
		if err != nil {
			o.Failf("streaming returned error %v", err)
			return
		}
		if n == nil || *n != int64(len(data)) {
			o.Failf("bytesRead = %v, want %d", n, len(data))
			return
		}
		if !bytes.Equal(consumed.Bytes(), data) {
			o.Failf("consumer saw different bytes than the source")
			return
		}
		m := md5.Sum(data)
		s1 := sha1.Sum(data)
		s256 := sha256.Sum256(data)
		want := map[string]string{
			"ETag":      "\"" + hex.EncodeToString(m[:]) + "\"",
			"CRC32":     b64(be32(crc32.ChecksumIEEE(data))),
			"CRC32C":    b64(be32(refCRC32C(data))),
			"CRC64NVME": b64(be64(refCRC64(data))),
			"SHA1":      b64(s1[:]),
			"SHA256":    b64(s256[:]),
		}
		got := map[string]*string{"ETag": sums.ETag, "CRC32": sums.ChecksumCRC32, "CRC32C": sums.ChecksumCRC32C,
			"CRC64NVME": sums.ChecksumCRC64NVME, "SHA1": sums.ChecksumSHA1, "SHA256": sums.ChecksumSHA256}
		for _, k := range []string{"ETag", "CRC32", "CRC32C", "CRC64NVME", "SHA1", "SHA256"} {
			if got[k] == nil || *got[k] != want[k] {
				o.Failf("streaming %s = %v, one-shot %s (len %d, reader %s sizes %v)", k, deref(got[k]), want[k], len(data), c.Reader, c.Sizes)
				return
			}
		}
	}
	split := c.Split
	if c.Mode != "stream" {
		if split > len(data) {
			split = len(data)
		}
		if split < 0 {
			split = 0
		}
		a, b := data[:split], data[split:]
		o.Sub += 3
		if g, w := checksumutils.CombineCrc32(be32(crc32.ChecksumIEEE(a)), be32(crc32.ChecksumIEEE(b)), int64(len(b))), be32(crc32.ChecksumIEEE(data)); !bytes.Equal(g, w) {
			o.Failf("CombineCrc32(|a|=%d,|b|=%d) = %x, crc(a||b) = %x", len(a), len(b), g, w)
			return
		}
		if g, w := checksumutils.CombineCrc32c(be32(refCRC32C(a)), be32(refCRC32C(b)), int64(len(b))), be32(refCRC32C(data)); !bytes.Equal(g, w) {
			o.Failf("CombineCrc32c(|a|=%d,|b|=%d) = %x, crc(a||b) = %x", len(a), len(b), g, w)
			return
		}
		if g, w := checksumutils.CombineCrc64Nvme(be64(refCRC64(a)), be64(refCRC64(b)), int64(len(b))), be64(refCRC64(data)); !bytes.Equal(g, w) {
			o.Failf("CombineCrc64Nvme(|a|=%d,|b|=%d) = %x, crc(a||b) = %x", len(a), len(b), g, w)
			return
		}
		if split == 0 || split == len(data) {
			o.Class("split:at-end")
		}
		if c.Par > 1 && c.Par <= 16 {
			o.Class("combine:concurrent-callers")
			errs := make(chan string, c.Par)
			var wg sync.WaitGroup
			for g := 0; g < c.Par; g++ {
				sp := 0
				if len(data) > 0 {
					sp = (split + g*(len(data)/c.Par+1)) % (len(data) + 1)
				}
				a, b := data[:sp], data[sp:]
				in32a, in32b, w32 := be32(crc32.ChecksumIEEE(a)), be32(crc32.ChecksumIEEE(b)), be32(crc32.ChecksumIEEE(data))
				inCa, inCb, wC := be32(refCRC32C(a)), be32(refCRC32C(b)), be32(refCRC32C(data))
				in64a, in64b, w64 := be64(refCRC64(a)), be64(refCRC64(b)), be64(refCRC64(data))
				wg.Add(1)
				go func(g, sp int) {
					defer wg.Done()
					for r := 0; r < 40; r++ {
						if got := checksumutils.CombineCrc32(in32a, in32b, int64(len(b))); !bytes.Equal(got, w32) {
							errs <- fmt.Sprintf("CombineCrc32(|a|=%d,|b|=%d) = %x with %d concurrent callers, crc(a||b) = %x", sp, len(b), got, c.Par, w32)
							return
						}
						if got := checksumutils.CombineCrc32c(inCa, inCb, int64(len(b))); !bytes.Equal(got, wC) {
							errs <- fmt.Sprintf("CombineCrc32c(|a|=%d,|b|=%d) = %x with %d concurrent callers, crc(a||b) = %x", sp, len(b), got, c.Par, wC)
							return
						}
						if got := checksumutils.CombineCrc64Nvme(in64a, in64b, int64(len(b))); !bytes.Equal(got, w64) {
							errs <- fmt.Sprintf("CombineCrc64Nvme(|a|=%d,|b|=%d) = %x with %d concurrent callers, crc(a||b) = %x", sp, len(b), got, c.Par, w64)
							return
						}
					}
				}(g, sp)
			}
			wg.Wait()
			close(errs)
			o.Sub += 3 * 40 * c.Par
			for e := range errs {
				o.Failf("%s", e)
				return
			}
		}
	}
	// non-trivial: exhaustive part: all; random part: length within ±1 of a
	// hash-block multiple or a split at an end of the string.
	if c.Body.Kind == "lit" {
		o.NonTrivial = true
	} else {
		l := len(data)
		near := l > 1 && ((l+1)%hashBlock <= 2)
		o.NonTrivial = near || (c.Mode != "stream" && (split == 0 || split == l))
		if near {
			o.Class("len:near-hash-block")
		}
	}
	return
}

func deref(s *string) string {
	if s == nil {
		return "<nil>"
	}
	return *s
}

func lenClass(n int) string {
	switch {
	case n == 0:
		return "0"
	case n <= 2:
		return "1-2"
	case n < 256:
		return "3-255"
	case n < hashBlock-1:
		return "256-256Ki"
	case n <= 2*hashBlock+1:
		return "256Ki-512Ki"
	default:
		return ">512Ki"
	}
}

func genCase(t *rapid.T, env *ev.Env) Case {
	max := 2*hashBlock + 70000
	if env.Thorough() {
		max = 2 * 1024 * 1024
	}
	boundaries := []int{255, 256, 257, hashBlock, 2 * hashBlock, 65536, 32 * 1024}
	c := Case{Mode: "both"}
	c.Body = gen.Body(boundaries, max).Draw(t, "body")
	if c.Body.Len > 300000 && !env.Thorough() {
		// keep the quick tier cheap: long strings mostly at the block boundaries
		c.Body.Len = rapid.SampledFrom([]int{hashBlock - 1, hashBlock, hashBlock + 1, 2*hashBlock - 1, 2 * hashBlock, 2*hashBlock + 1}).Draw(t, "blk")
	}
	c.Reader = rapid.SampledFrom([]string{"whole", "onebyte", "sizes", "sizes", "short"}).Draw(t, "reader")
	if c.Reader == "onebyte" && c.Body.Len > 70000 {
		c.Reader = "sizes"
	}
	if c.Reader == "sizes" || c.Reader == "short" {
		c.Sizes = rapid.SliceOfN(rapid.SampledFrom([]int{1, 2, 3, 7, 13, 31, 127, 1021, 4096, 8191, 65537, hashBlock - 1, hashBlock, hashBlock + 1}), 1, 4).Draw(t, "sizes")
		if c.Body.Len > 100000 {
			// avoid only-tiny schedules on long inputs
			c.Sizes = append(c.Sizes, 65537)
		}
	}
	c.BufLen = rapid.SampledFrom([]int{1, 7, 512, 32 * 1024, hashBlock, hashBlock + 1, 1 << 20}).Draw(t, "buf")
	if c.BufLen < 512 && c.Body.Len > 70000 {
		c.BufLen = 32 * 1024
	}
	switch rapid.IntRange(0, 3).Draw(t, "splitKind") {
	case 0:
		c.Split = 0
	case 1:
		c.Split = c.Body.Len
	default:
		c.Split = rapid.IntRange(0, c.Body.Len).Draw(t, "split")
	}
	if rapid.IntRange(0, 9).Draw(t, "par") == 7 {
		// the CRC references are bitwise: keep the strings of the concurrent sub-check short
		c.Par = rapid.SampledFrom([]int{2, 4, 8}).Draw(t, "parN")
		c.Mode = "combine"
		if c.Body.Len > 70000 {
			c.Body.Len = rapid.SampledFrom([]int{1, 255, 4096, 65536, 70000}).Draw(t, "parLen")
			if c.Split > c.Body.Len {
				c.Split = c.Body.Len
			}
		}
	}
	return c
}

func lit(b []byte, split int, mode string) Case {
	return Case{Body: gen.BodySpec{Kind: "lit", Len: len(b), Hex: hex.EncodeToString(b)}, Reader: "onebyte", BufLen: 3, Split: split, Mode: mode}
}

// exhaustive part: every byte string of length <= 2 with every split point
// (combine), streaming for every string of length <= 1 and, in the thorough
// tier, every string of length 2 as well.
func directed(env *ev.Env) []Case {
	var cs []Case
	cs = append(cs, lit(nil, 0, "both"))
	for a := 0; a < 256; a++ {
		for s := 0; s <= 1; s++ {
			cs = append(cs, lit([]byte{byte(a)}, s, "both"))
		}
	}
	for a := 0; a < 256; a++ {
		for b := 0; b < 256; b++ {
			for s := 0; s <= 2; s++ {
				mode := "combine"
				if s == 1 && (env.Thorough() || (a*256+b)%64 == 0) {
					mode = "both"
				}
				cs = append(cs, lit([]byte{byte(a), byte(b)}, s, mode))
			}
		}
	}
	if env.Thorough() {
		// three-byte strings: first two bytes exhaustive, third from a small set, all splits
		for a := 0; a < 256; a++ {
			for b := 0; b < 256; b++ {
				for _, c := range []byte{0x00, 0x01, 0x80, 0xff} {
					for s := 0; s <= 3; s++ {
						cs = append(cs, lit([]byte{byte(a), byte(b), c}, s, "combine"))
					}
				}
			}
		}
	}
	return cs
}

func TestC35(t *testing.T) {
	// self-check of the reference implementations on the standard check string
	chk := []byte("123456789")
	if crc64nvmeRef(chk) != 0xAE8B14860A799888 || refCRC64(chk) != 0xAE8B14860A799888 || crc32cRef(chk) != 0xE3069283 {
		t.Fatalf("reference CRC self-check failed: %x %x %x", crc64nvmeRef(chk), refCRC64(chk), crc32cRef(chk))
	}
	big := gen.BodySpec{Kind: "rand", Len: 100000, Seed: 3}.Bytes()
	if crc32cRef(big) != crc32.Checksum(big, castagnoli) {
		t.Fatal("bitwise crc32c disagrees with table crc32c")
	}
	ev.Main(t, ev.Spec[Case]{
		ID:    "C35",
		Level: "exploration",
		Rule: "exhaustive part: every byte string of length <=2 (x every split point) counts; generated part: a case is non-trivial when " +
			"its length is within +-1 of a multiple of the 256 KiB hash block or the combine split is at an end of the string; distinct = distinct case JSON",
		Assumptions: []string{"crypto/md5, sha1, sha256 and hash/crc32 IEEE of the Go standard library are the one-shot reference; CRC32C and CRC64NVME references are bitwise implementations written for this check and self-tested on the standard check value"},
		Gen:         genCase,
		Run:         run,
		Directed:    directed,
		Exhaustive:  false,
		Extra: func() map[string]any {
			return map[string]any{"exhaustive_part": fmt.Sprintf("all byte strings of length <=2 with all split points (combine) and streaming for all strings of length <=1")}
		},
	})
}

// FuzzC35 is the byte-level target of the thorough tier: bytes + split point.
func FuzzC35(f *testing.F) {
	f.Add([]byte(""), uint16(0), uint8(0))
	f.Add([]byte("123456789"), uint16(4), uint8(1))
	f.Add(bytes.Repeat([]byte{0xff}, 300), uint16(299), uint8(7))
	f.Add(bytes.Repeat([]byte{0}, 70000), uint16(65535), uint8(3))
	env := &ev.Env{Property: "C35", Tier: "thorough"}
	f.Fuzz(func(t *testing.T, data []byte, split uint16, sz uint8) {
		c := Case{Body: gen.BodySpec{Kind: "lit", Len: len(data), Hex: hex.EncodeToString(data)}, Reader: "sizes",
			Sizes: []int{int(sz) + 1}, BufLen: int(sz)*3 + 1, Split: int(split), Mode: "both"}
		if o := run(env, c); o.Violation != "" {
			t.Fatal(o.Violation)
		}
	})
}
