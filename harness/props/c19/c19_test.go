// Package c19 checks property C19: caches never serve bytes that were not stored.
//
// Four kinds of cases, one Case type:
//
//	gc-seq   deterministic model-based programs on cache.GenericCache (Set / Get /
//	         Remove plus reader handles that stay open across later operations),
//	         executed in-process; persistor x eviction policy x tiny limits.
//	gc-conc  concurrent Get/Set/Remove workloads with self-describing values.
//	ps-seq   harness-owned schedules on the cache part store (put / delete with
//	         commit or rollback, open / read / close of readers incl. abandoned
//	         ones and a second reader while the first is still filling the cache).
//	ps-conc  concurrent GetPart/PutPart/DeletePart workloads on the cache part store.
//
// Everything except gc-seq runs in a child process (the test binary re-executed
// with -test.run ^TestC19Child$): the binary is built with -race, and a DATA
// RACE report, a Go runtime "fatal error: concurrent map ..." or a panic on a
// background goroutine cannot be caught in-process. The parent reads the
// child's outcome file and its stderr and classifies every runtime report.
package c19

import (
	"bytes"
	"context"
	"crypto/sha256"
	"database/sql"
	"encoding/hex"
	"encoding/json"
	"errors"
	"fmt"
	"io"
	"os"
	"os/exec"
	"path/filepath"
	"regexp"
	"sort"
	"strconv"
	"strings"
	"sync"
	"sync/atomic"
	"testing"
	"time"

	cachepkg "github.com/jdillenkofer/pithos/internal/cache"
	"github.com/jdillenkofer/pithos/internal/cache/evictionpolicy"
	"github.com/jdillenkofer/pithos/internal/cache/evictionpolicy/evictionchecker/fixedkeylimit"
	"github.com/jdillenkofer/pithos/internal/cache/evictionpolicy/evictionchecker/fixedsizelimit"
	"github.com/jdillenkofer/pithos/internal/cache/evictionpolicy/evictnothing"
	"github.com/jdillenkofer/pithos/internal/cache/evictionpolicy/lfu"
	"github.com/jdillenkofer/pithos/internal/cache/persistor"
	fspersistor "github.com/jdillenkofer/pithos/internal/cache/persistor/filesystem"
	"github.com/jdillenkofer/pithos/internal/cache/persistor/inmemory"
	"github.com/jdillenkofer/pithos/internal/storage/database"
	"github.com/jdillenkofer/pithos/internal/storage/metadatapart/partstore"
	"github.com/jdillenkofer/pithos/verifharness/ev"
	"github.com/jdillenkofer/pithos/verifharness/stacks"
	"pgregory.net/rapid"
)

// Known-finding matcher names.
const (
	mLFU      = "c19.lfuPopsEmptyHeapOnOversizedValue"
	mMapRace  = "c19.inMemoryPersistorUnguardedMap"
	mInPlace  = "c19.fsPersistorRewritesInPlace"
	mResurect = "c19.fillAfterDeleteResurrectsPart"
)

// Op is one operation of a program / thread.
//
// GenericCache kinds: set (V = value number, Len = payload length, Mode =
// exact|unknown|fail, FailAt), get (open + read all + close), remove, open
// (Get, keep the reader), read (handle H, N bytes), close (handle H).
// Part-store kinds: put / del (Commit false = roll the transaction back), get,
// abandon (open, read N bytes, close), open, read, drain (read to EOF, keep open), close.
type Op struct {
	Op     string `json:"op"`
	K      int    `json:"k"`
	V      int    `json:"v,omitempty"`
	Len    int    `json:"len,omitempty"`
	Mode   string `json:"mode,omitempty"`
	FailAt int    `json:"fail_at,omitempty"`
	H      int    `json:"h,omitempty"`
	N      int    `json:"n,omitempty"`
	Commit bool   `json:"commit,omitempty"`
}

// Case is one cache configuration plus a program (seq) or a workload (conc).
type Case struct {
	Kind      string `json:"kind"`      // gc-seq | gc-conc | ps-seq | ps-conc
	Persistor string `json:"persistor"` // mem | fs
	Policy    string `json:"policy"`    // lfu-keys | lfu-size | none
	Limit     int64  `json:"limit"`
	Inner     string `json:"inner,omitempty"`    // ps-*: fs | sql
	MaxPart   int64  `json:"max_part,omitempty"` // ps-*: MaxPartSizeBytes (0 = default 64 MiB)
	Lens      []int  `json:"lens,omitempty"`     // ps-*: content length per part id
	Cold      bool   `json:"cold,omitempty"`     // ps-*: every id is already in the inner store and the cache is cold (state after a restart)
	Ops       []Op   `json:"ops,omitempty"`
	Threads   [][]Op `json:"threads,omitempty"`
	Procs     int    `json:"procs,omitempty"`
}

// ---- values -----------------------------------------------------------------------

func splitmix(x *uint64) uint64 {
	*x += 0x9e3779b97f4a7c15
	z := *x
	z = (z ^ (z >> 30)) * 0xbf58476d1ce4e5b9
	z = (z ^ (z >> 27)) * 0x94d049bb133111eb
	return z ^ (z >> 31)
}

func payload(seed uint64, n int) []byte {
	out := make([]byte, n)
	s := seed
	for i := 0; i < n; i++ {
		if i%8 == 0 {
			v := splitmix(&s)
			for j := 0; j < 8 && i+j < n; j++ {
				out[i+j] = byte(v >> (8 * j))
			}
		}
	}
	return out
}

func keyName(k int) string { return fmt.Sprintf("key%d", k) }

// mkValue builds the self-describing value key|writer|seq|len|sha256|payload.
func mkValue(k, writer, seq, n int) []byte {
	p := payload(uint64(k)*1000003+uint64(writer)*10007+uint64(seq)*101+7, n)
	h := sha256.Sum256(p)
	head := fmt.Sprintf("%s|%d|%d|%d|%s|", keyName(k), writer, seq, n, hex.EncodeToString(h[:]))
	return append([]byte(head), p...)
}

// parseValue checks that b is one complete self-describing value.
func parseValue(b []byte) (key string, writer, seq int, ok bool) {
	parts := bytes.SplitN(b, []byte("|"), 6)
	if len(parts) != 6 {
		return "", 0, 0, false
	}
	w, e1 := strconv.Atoi(string(parts[1]))
	s, e2 := strconv.Atoi(string(parts[2]))
	n, e3 := strconv.Atoi(string(parts[3]))
	if e1 != nil || e2 != nil || e3 != nil || n != len(parts[5]) {
		return "", 0, 0, false
	}
	h := sha256.Sum256(parts[5])
	if hex.EncodeToString(h[:]) != string(parts[4]) {
		return "", 0, 0, false
	}
	return string(parts[0]), w, s, true
}

func partContent(i, n int) []byte {
	return append([]byte(fmt.Sprintf("part%d:", i)), payload(uint64(i)*7919+13, n)...)
}

func partID(i int) partstore.PartId {
	b := make([]byte, 16)
	b[0] = 1
	b[15] = byte(i + 1)
	id, err := partstore.NewPartIdFromBytes(b)
	if err != nil {
		panic(err)
	}
	return *id
}

// positionwiseMix reports whether every byte of obs equals, at its offset, the
// byte of some candidate value: exactly what a file rewritten in place
// (O_TRUNC + sequential writes at the same offsets) can expose to a reader that
// holds the inode open.
func positionwiseMix(obs []byte, cands [][]byte) bool {
	return positionwiseMixZ(obs, cands, false)
}

// positionwiseMixZ additionally accepts zero bytes when holes is set: two
// unserialised writers of the same file (each O_TRUNC + writes at its private
// offset) leave zero-filled holes where the later truncation cut the earlier
// writer's prefix away.
func positionwiseMixZ(obs []byte, cands [][]byte, holes bool) bool {
	for p, c := range obs {
		ok := holes && c == 0
		for _, v := range cands {
			if p < len(v) && v[p] == c {
				ok = true
				break
			}
		}
		if !ok {
			return false
		}
	}
	return true
}

// ---- cache construction ---------------------------------------------------------------

func buildPolicy(policy string, limit int64) (evictionpolicy.CacheEvictionPolicy, error) {
	switch policy {
	case "lfu-keys":
		chk, err := fixedkeylimit.New(int(limit))
		if err != nil {
			return nil, err
		}
		return lfu.New(chk)
	case "lfu-size":
		chk, err := fixedsizelimit.New(limit)
		if err != nil {
			return nil, err
		}
		return lfu.New(chk)
	default:
		return evictnothing.New()
	}
}

func buildCache(dir string, c Case) (*cachepkg.GenericCache, error) {
	pol, err := buildPolicy(c.Policy, c.Limit)
	if err != nil {
		return nil, err
	}
	var p persistor.CachePersistor
	if c.Persistor == "fs" {
		p, err = fspersistor.New(filepath.Join(dir, "cache"))
	} else {
		p, err = inmemory.New()
	}
	if err != nil {
		return nil, err
	}
	return cachepkg.NewGenericCache(p, pol)
}

// failingReader delivers n bytes and then fails.
type failingReader struct {
	r io.Reader
	n int
}

var errInjected = errors.New("injected reader failure")

func (f *failingReader) Read(p []byte) (int, error) {
	if f.n <= 0 {
		return 0, errInjected
	}
	if len(p) > f.n {
		p = p[:f.n]
	}
	n, err := f.r.Read(p)
	f.n -= n
	if err == io.EOF {
		return n, errInjected
	}
	return n, err
}

// ---- gc-seq -------------------------------------------------------------------------------

type gcHandle struct {
	k        int
	rc       io.ReadCloser
	want     [][]byte // acceptable values at open time
	got      []byte
	closed   bool
	disturbd bool // a Set or Remove of the same key ran after the handle was opened
	dead     bool
}

// lfuOversized reports whether a Set of n bytes makes the LFU policy evict
// until its heap is empty (the value alone exceeds the size limit).
func lfuOversized(c Case, n int) bool {
	return (c.Policy == "lfu-size" && int64(n) > c.Limit) || (c.Policy == "lfu-keys" && c.Limit < 1)
}

func runGCSeq(env *ev.Env, c Case) (o ev.Outcome) {
	dir := env.TempDir()
	defer os.RemoveAll(dir)
	cache, err := buildCache(dir, c)
	if err != nil {
		o.Failf("harness: build cache: %v", err)
		return
	}
	o.Class("gc-seq:" + c.Persistor + "/" + c.Policy)
	// model: per key the acceptable values (last completed Set; a failed Set leaves
	// "old value or nothing"); all[k] = every value ever handed to Set for k.
	model := map[int][][]byte{}
	all := map[int][][]byte{}
	sets := map[int]int{}
	var handles []*gcHandle
	hits, misses, reSets, heldAcross := 0, 0, 0, 0
	defer func() {
		for _, h := range handles {
			if !h.closed && h.rc != nil {
				h.rc.Close()
			}
		}
	}()

	checkDelivered := func(h *gcHandle, when string, eof bool) bool {
		o.Sub++
		for _, w := range h.want {
			if eof && bytes.Equal(h.got, w) {
				return true
			}
			if !eof && bytes.HasPrefix(w, h.got) {
				return true
			}
		}
		// discrepancy: classify
		kind := "not a value of a completed Set for that key"
		for _, w := range all[h.k] {
			if bytes.Equal(h.got, w) {
				kind = "a stale value (an earlier Set, not the last one)"
			}
		}
		if c.Persistor == "fs" && h.disturbd && positionwiseMix(h.got, all[h.k]) && env.Known(mInPlace) {
			o.KnownHits = append(o.KnownHits, "KF-C19-3")
			h.dead = true
			return true
		}
		o.Failf("%s: reader of %s delivered %d bytes (eof=%v) that are %s; acceptable lengths %v", when, keyName(h.k), len(h.got), eof, kind, lens(h.want))
		return false
	}
	readSome := func(h *gcHandle, n int, when string) bool {
		if h.closed || h.dead {
			return true
		}
		buf := make([]byte, n)
		m, err := h.rc.Read(buf)
		h.got = append(h.got, buf[:m]...)
		if err != nil && err != io.EOF {
			o.Failf("%s: reading a cache hit of %s failed: %v", when, keyName(h.k), err)
			return false
		}
		return checkDelivered(h, when, err == io.EOF)
	}
	drain := func(h *gcHandle, when string) bool {
		for i := 0; i < 1<<20 && !h.closed && !h.dead; i++ {
			before := len(h.got)
			buf := make([]byte, 4096)
			m, err := h.rc.Read(buf)
			h.got = append(h.got, buf[:m]...)
			if err == io.EOF {
				return checkDelivered(h, when, true)
			}
			if err != nil {
				o.Failf("%s: reading a cache hit of %s failed: %v", when, keyName(h.k), err)
				return false
			}
			if len(h.got) == before && i > 1000 {
				o.Failf("%s: reader of %s makes no progress", when, keyName(h.k))
				return false
			}
		}
		return true
	}
	open := func(k int, when string) (*gcHandle, bool) {
		rc, err := cache.Get(keyName(k))
		o.Sub++
		if err != nil {
			if errors.Is(err, cachepkg.ErrCacheMiss) {
				misses++
				return nil, true
			}
			o.Failf("%s: Get(%s) failed: %v", when, keyName(k), err)
			return nil, false
		}
		hits++
		if len(model[k]) == 0 {
			rc.Close()
			what := "never Set"
			if sets[k] > 0 {
				what = "removed (or its only Set failed)"
			}
			o.Failf("%s: Get(%s) is a hit although the key was %s", when, keyName(k), what)
			return nil, false
		}
		h := &gcHandle{k: k, rc: rc, want: model[k]}
		handles = append(handles, h)
		return h, true
	}
	disturb := func(k int) {
		for _, h := range handles {
			if h.k == k && !h.closed {
				h.disturbd = true
				heldAcross++
			}
		}
	}

	for i, op := range c.Ops {
		when := fmt.Sprintf("op %d (%s %s)", i, op.Op, keyName(op.K))
		switch op.Op {
		case "set":
			val := mkValue(op.K, 0, i, op.Len)
			all[op.K] = append(all[op.K], val)
			if sets[op.K] > 0 {
				reSets++
			}
			sets[op.K]++
			disturb(op.K)
			var rd io.Reader = bytes.NewReader(val)
			size := int64(len(val))
			switch op.Mode {
			case "unknown":
				size = -1
			case "fail":
				size = -1
				rd = &failingReader{r: rd, n: op.FailAt % (len(val) + 1)}
			}
			var setErr error
			panicked := func() (p any) {
				defer func() { p = recover() }()
				setErr = cache.Set(keyName(op.K), rd, size)
				return nil
			}()
			o.Sub++
			if panicked != nil {
				if lfuOversized(c, len(val)) && strings.Contains(fmt.Sprint(panicked), "index out of range") && env.Known(mLFU) {
					o.KnownHits = append(o.KnownHits, "KF-C19-1")
					o.Excluded = true
					o.Class("gc-seq:cut-by-lfu-panic")
					finishGCSeq(&o, hits, misses, reSets, heldAcross)
					return
				}
				o.Failf("%s: Set of a %d-byte value panicked: %v", when, len(val), panicked)
				return
			}
			switch {
			case op.Mode == "fail":
				if setErr == nil {
					o.Failf("%s: Set reported success although its reader failed", when)
					return
				}
				// old value or nothing
			case setErr != nil:
				o.Failf("%s: Set failed: %v", when, setErr)
				return
			default:
				model[op.K] = [][]byte{val}
			}
		case "remove":
			disturb(op.K)
			if err := cache.Remove(keyName(op.K)); err != nil {
				o.Failf("%s: Remove failed: %v", when, err)
				return
			}
			o.Sub++
			delete(model, op.K)
		case "get":
			h, ok := open(op.K, when)
			if !ok {
				return
			}
			if h != nil {
				if !drain(h, when) {
					return
				}
				h.rc.Close()
				h.closed = true
			}
		case "open":
			if _, ok := open(op.K, when); !ok {
				return
			}
		case "read", "close":
			if len(handles) == 0 {
				continue
			}
			h := handles[op.H%len(handles)]
			if h.closed {
				continue
			}
			if op.Op == "read" {
				n := op.N
				if n < 1 {
					n = 1
				}
				if !readSome(h, n, when) {
					return
				}
			} else {
				if !drain(h, when) {
					return
				}
				h.rc.Close()
				h.closed = true
			}
		}
	}
	for _, h := range handles {
		if !h.closed {
			if !drain(h, "epilogue") {
				return
			}
			h.rc.Close()
			h.closed = true
		}
	}
	finishGCSeq(&o, hits, misses, reSets, heldAcross)
	return
}

func finishGCSeq(o *ev.Outcome, hits, misses, reSets, heldAcross int) {
	o.Count("gc-seq:hits", hits)
	o.Count("gc-seq:misses", misses)
	o.Count("gc-seq:re-sets", reSets)
	o.Count("gc-seq:readers-held-across-write", heldAcross)
	// non-trivial: at least one eviction-or-removal visible as a miss after a Set,
	// at least one re-Set of an existing key, and at least one verified hit.
	o.NonTrivial = hits > 0 && misses > 0 && reSets > 0
}

func lens(vs [][]byte) []int {
	var out []int
	for _, v := range vs {
		out = append(out, len(v))
	}
	return out
}

// ---- gc-conc (runs in the child) -----------------------------------------------------------

type interval struct {
	k          int
	write      bool
	start, end int64
	op         string
}

func overlapStats(iv []interval) (pairs, overlapping, keyWriteOverlap int) {
	for i := 0; i < len(iv); i++ {
		for j := i + 1; j < len(iv); j++ {
			pairs++
			if iv[i].start < iv[j].end && iv[j].start < iv[i].end {
				overlapping++
				if iv[i].k == iv[j].k && (iv[i].write || iv[j].write) {
					keyWriteOverlap++
				}
			}
		}
	}
	return
}

func runGCConc(env *ev.Env, c Case) (o ev.Outcome) {
	dir := env.TempDir()
	defer os.RemoveAll(dir)
	cache, err := buildCache(dir, c)
	if err != nil {
		o.Failf("harness: build cache: %v", err)
		return
	}
	o.Class("gc-conc:" + c.Persistor + "/" + c.Policy)
	// planned values per key; invoked[t][i] is set before the Set is called
	planned := map[int][][]byte{}
	invoked := make([][]atomic.Bool, len(c.Threads))
	for t, ops := range c.Threads {
		invoked[t] = make([]atomic.Bool, len(ops))
		for i, op := range ops {
			if op.Op == "set" {
				planned[op.K] = append(planned[op.K], mkValue(op.K, t+1, i, op.Len))
			}
		}
	}
	var clock atomic.Int64
	var mu sync.Mutex
	var ivs []interval
	var problems []string
	var known3, known2 int
	hits := 0
	start := make(chan struct{})
	var wg sync.WaitGroup
	for t, ops := range c.Threads {
		wg.Add(1)
		go func(t int, ops []Op) {
			defer wg.Done()
			<-start
			for i, op := range ops {
				s := clock.Add(1)
				var prob string
				hit := false
				torn := false
				tornMem := false
				switch op.Op {
				case "set":
					val := mkValue(op.K, t+1, i, op.Len)
					invoked[t][i].Store(true)
					size := int64(len(val))
					if op.Mode == "unknown" {
						size = -1
					}
					if err := cache.Set(keyName(op.K), bytes.NewReader(val), size); err != nil {
						// the filesystem persistor may fail a Store when a concurrent Remove
						// unlinks... it cannot: report every Set error
						prob = fmt.Sprintf("thread %d op %d: Set(%s) failed: %v", t, i, keyName(op.K), err)
					}
				case "remove":
					if err := cache.Remove(keyName(op.K)); err != nil {
						prob = fmt.Sprintf("thread %d op %d: Remove(%s) failed: %v", t, i, keyName(op.K), err)
					}
				case "get":
					rc, err := cache.Get(keyName(op.K))
					if err == nil {
						b, rerr := io.ReadAll(rc)
						rc.Close()
						hit = true
						if rerr != nil {
							prob = fmt.Sprintf("thread %d op %d: reading a hit of %s failed: %v", t, i, keyName(op.K), rerr)
						} else if key, w, sq, ok := parseValue(b); !ok || key != keyName(op.K) || w < 1 || w > len(c.Threads) || sq >= len(c.Threads[w-1]) || c.Threads[w-1][sq].Op != "set" || !invoked[w-1][sq].Load() {
							if c.Persistor == "fs" && positionwiseMixZ(b, planned[op.K], true) && env.Known(mInPlace) {
								torn = true
							} else if c.Persistor == "mem" && positionwiseMix(b, planned[op.K]) && env.Known(mMapRace) {
								// a racy read of the unguarded map can see a torn slice header (data
								// race = undefined behaviour); the parent accepts this only if the race
								// detector reported the map race in this very process
								tornMem = true
							} else {
								what := "a torn or partial value"
								if ok && key != keyName(op.K) {
									what = "a value of another key (" + key + ")"
								} else if ok {
									what = "a value no Set had been invoked with yet"
								}
								prob = fmt.Sprintf("thread %d op %d: Get(%s) hit returned %d bytes that are %s", t, i, keyName(op.K), len(b), what)
							}
						}
					} else if !errors.Is(err, cachepkg.ErrCacheMiss) {
						prob = fmt.Sprintf("thread %d op %d: Get(%s) failed: %v", t, i, keyName(op.K), err)
					}
				}
				e := clock.Add(1)
				mu.Lock()
				ivs = append(ivs, interval{k: op.K, write: op.Op != "get", start: s, end: e})
				if prob != "" {
					problems = append(problems, prob)
				}
				if hit {
					hits++
				}
				if torn {
					known3++
				}
				if tornMem {
					known2++
				}
				mu.Unlock()
			}
		}(t, ops)
	}
	close(start)
	wg.Wait()
	o.Sub = len(ivs)
	sort.Strings(problems)
	if len(problems) > 0 {
		o.Failf("%s (and %d more)", problems[0], len(problems)-1)
	}
	if known2 > 0 {
		o.Count("gc-conc:mem-torn-hits-under-map-race", known2)
	}
	if known3 > 0 {
		o.KnownHits = append(o.KnownHits, "KF-C19-3")
		o.Count("gc-conc:torn-hits-tolerated", known3)
	}
	pairs, ov, kw := overlapStats(ivs)
	o.Count("gc-conc:op-pairs", pairs)
	o.Count("gc-conc:overlapping-pairs", ov)
	o.Count("gc-conc:hits", hits)
	o.NonTrivial = kw > 0
	return
}

// ---- part store cases (run in the child) -------------------------------------------------------

// breakOnce wraps the inner store of the cache part store: when armed (breakAfter >= 0) the next part reader it
// hands out fails with a non-EOF error after breakAfter bytes (a connection reset, EIO, a cancelled read).
type breakOnce struct {
	partstore.PartStore
	mu         sync.Mutex
	breakAfter int
}

var errBrokenStream = errors.New("verif: broken inner stream")

func (b *breakOnce) Capabilities() partstore.Capabilities { return partstore.CapabilitiesOf(b.PartStore) }

func (b *breakOnce) GetPart(ctx context.Context, tx database.Tx, id partstore.PartId) (io.ReadCloser, error) {
	rc, err := b.PartStore.GetPart(ctx, tx, id)
	if err != nil {
		return nil, err
	}
	b.mu.Lock()
	n := b.breakAfter
	b.breakAfter = -1
	b.mu.Unlock()
	if n < 0 {
		return rc, nil
	}
	return &breakingReader{rc: rc, left: n}, nil
}

type breakingReader struct {
	rc   io.ReadCloser
	left int
}

func (r *breakingReader) Read(p []byte) (int, error) {
	if r.left <= 0 {
		return 0, errBrokenStream
	}
	if len(p) > r.left {
		p = p[:r.left]
	}
	n, err := r.rc.Read(p)
	r.left -= n
	return n, err
}

func (r *breakingReader) Close() error { return r.rc.Close() }

type psEnv struct {
	brk   *breakOnce
	dir   string
	db    database.Database
	b     *stacks.Builder
	ps    partstore.PartStore
	inner partstore.PartStore
	txGet bool // GetPart needs a transaction (sql inner)
}

func openPS(env *ev.Env, c Case) (*psEnv, error) {
	dir := env.TempDir()
	db, err := stacks.OpenDB(dir)
	if err != nil {
		os.RemoveAll(dir)
		return nil, err
	}
	opts := stacks.Options{CacheMaxPart: c.MaxPart}
	layer := "cachemem"
	switch {
	case c.Policy == "none":
		layer = "cachenoevict"
	case c.Policy == "lfu-size":
		layer = "cachememsize"
		opts.CacheSizeLimit = c.Limit
	default:
		opts.CacheKeyLimit = int(c.Limit)
	}
	if c.Persistor == "fs" {
		// the builder only offers the filesystem persistor with the key-limit policy
		layer = "cachefs"
		opts.CacheKeyLimit = int(c.Limit)
	}
	inner := c.Inner
	if inner == "" {
		inner = "fs"
	}
	brk := &breakOnce{breakAfter: -1}
	opts.WrapBase = func(name string, ps partstore.PartStore) partstore.PartStore {
		brk.PartStore = ps
		return brk
	}
	b := stacks.NewBuilder(dir, db, opts)
	ps, err := b.Build(layer+">"+inner, "default")
	if err == nil {
		err = ps.Start(context.Background())
	}
	if err != nil {
		db.Close()
		os.RemoveAll(dir)
		return nil, err
	}
	return &psEnv{brk: brk, dir: dir, db: db, b: b, ps: ps, inner: b.Bases["default"], txGet: inner == "sql"}, nil
}

func (p *psEnv) close() {
	p.ps.Stop(context.Background())
	p.db.Close()
	p.b.Release()
	os.RemoveAll(p.dir)
}

var errRollback = errors.New("harness: roll back")

func (p *psEnv) write(commit bool, fn func(ctx context.Context, tx database.Tx) error) error {
	err := database.WithTx(context.Background(), p.db, &sql.TxOptions{}, func(ctx context.Context, tx database.Tx) error {
		if err := fn(ctx, tx); err != nil {
			return err
		}
		if !commit {
			return errRollback
		}
		return nil
	})
	if !commit && errors.Is(err, errRollback) {
		return nil
	}
	return err
}

// psReader is an open GetPart reader with the read transaction it lives in.
type psReader struct {
	id      int
	rc      io.ReadCloser
	tx      *database.TxController
	got     []byte
	eof     bool
	closed  bool
	present bool // the id was committed-present when the reader was opened
	fill    bool // the reader streams from the inner store into the cache (miss path)
	racy    bool // another reader of the id was still filling, or a put of the id committed, while this one was open
}

func (p *psEnv) open(store partstore.PartStore, id int) (*psReader, error) {
	ctx := context.Background()
	r := &psReader{id: id}
	var tx database.Tx
	if p.txGet {
		t, err := p.db.BeginTx(ctx, &sql.TxOptions{ReadOnly: true})
		if err != nil {
			return nil, err
		}
		r.tx = t
		tx = t
		ctx = database.ContextWithTx(ctx, t)
	}
	rc, err := store.GetPart(ctx, tx, partID(id))
	if err != nil {
		if r.tx != nil {
			r.tx.Rollback(ctx)
		}
		return nil, err
	}
	r.rc = rc
	r.fill = strings.Contains(fmt.Sprintf("%T", rc), "streamingCacheOnRead")
	return r, nil
}

func (r *psReader) close() error {
	if r.closed {
		return nil
	}
	r.closed = true
	err := r.rc.Close()
	if r.tx != nil {
		r.tx.Rollback(context.Background())
	}
	return err
}

// seedCold writes every id straight into the inner store: the state after a
// restart (NewGenericCache empties the cache on construction).
func (p *psEnv) seedCold(content [][]byte) error {
	for i := range content {
		err := p.write(true, func(ctx context.Context, tx database.Tx) error {
			return p.inner.PutPart(ctx, tx, partID(i), bytes.NewReader(content[i]))
		})
		if err != nil {
			return err
		}
	}
	return nil
}

func psClass(c Case) string {
	inner := c.Inner
	if inner == "" {
		inner = "fs"
	}
	return c.Persistor + "/" + c.Policy + ">" + inner
}

func psOversized(c Case) bool {
	if c.Policy != "lfu-size" || c.Persistor == "fs" {
		return false
	}
	for i, n := range c.Lens {
		l := int64(len(partContent(i, n)))
		if l > c.Limit && (c.MaxPart <= 0 || l <= c.MaxPart) {
			return true
		}
	}
	return false
}

func runPSSeq(env *ev.Env, c Case) (o ev.Outcome) {
	p, err := openPS(env, c)
	if err != nil {
		o.Failf("harness: open part store: %v", err)
		return
	}
	defer p.close()
	o.Class("ps-seq:" + psClass(c))
	nid := len(c.Lens)
	if nid == 0 {
		o.Discard = true
		return
	}
	content := make([][]byte, nid)
	for i := range content {
		content[i] = partContent(i, c.Lens[i])
	}
	present := make([]bool, nid)
	deleted := make([]bool, nid)          // a committed delete happened at some time
	fillOpenAtDelete := make([]bool, nid) // a cache-fill reader of the id was open when a delete committed
	if c.Cold {
		if err := p.seedCold(content); err != nil {
			o.Failf("harness: seeding the inner store: %v", err)
			return
		}
		for i := range present {
			present[i] = true
		}
		o.Class("ps-seq:cold-start")
	}
	var readers []*psReader
	defer func() {
		for _, r := range readers {
			r.close()
		}
	}()
	interesting := false
	hitsAfterWrite := 0

	verify := func(r *psReader, when string) bool {
		o.Sub++
		w := content[r.id]
		if !bytes.HasPrefix(w, r.got) || (r.eof && len(r.got) != len(w)) {
			kind := "bytes that were not stored under that id"
			if r.eof && bytes.HasPrefix(w, r.got) {
				kind = "a partial value with a clean EOF"
			}
			if c.Persistor == "fs" && r.racy && !r.fill && bytes.HasPrefix(w, r.got) && env.Known(mInPlace) {
				o.KnownHits = append(o.KnownHits, "KF-C19-3")
				return true
			}
			o.Failf("%s: GetPart(part%d) delivered %d of %d bytes (eof=%v, cache hit=%v, another reader was filling or a put committed meanwhile=%v): %s", when, r.id, len(r.got), len(w), r.eof, !r.fill, r.racy, kind)
			return false
		}
		return true
	}
	readN := func(r *psReader, n int, when string) bool {
		if r.closed || r.eof {
			return true
		}
		buf := make([]byte, n)
		m, err := r.rc.Read(buf)
		r.got = append(r.got, buf[:m]...)
		if err == io.EOF {
			r.eof = true
		} else if err != nil {
			o.Failf("%s: reading part%d failed after %d bytes: %v", when, r.id, len(r.got), err)
			return false
		}
		return verify(r, when)
	}
	drain := func(r *psReader, when string) bool {
		for i := 0; i < 1<<20 && !r.closed && !r.eof; i++ {
			if !readN(r, 4096, when) {
				return false
			}
		}
		return true
	}
	open := func(id int, when string) (*psReader, bool) {
		r, err := p.open(p.ps, id)
		o.Sub++
		if err != nil {
			if errors.Is(err, partstore.ErrPartNotFound) {
				if present[id] {
					o.Count("ps-seq:not-found-for-present-part", 1)
				}
				return nil, true
			}
			o.Failf("%s: GetPart(part%d) failed: %v", when, id, err)
			return nil, false
		}
		r.present = present[id]
		for _, q := range readers {
			if q.id == id && !q.closed && q.fill {
				r.racy = true // opened while a fill of the same id was in progress
			}
		}
		readers = append(readers, r)
		if !present[id] {
			what := "was never committed"
			if deleted[id] {
				what = "was deleted by a committed DeletePart (stale after delete)"
			}
			if deleted[id] && fillOpenAtDelete[id] && env.Known(mResurect) {
				o.KnownHits = append(o.KnownHits, "KF-C19-4")
				r.close()
				return nil, true
			}
			o.Failf("%s: GetPart(part%d) succeeded although the part %s", when, id, what)
			return nil, false
		}
		if deleted[id] {
			hitsAfterWrite++
		}
		return r, true
	}
	for i, op := range c.Ops {
		id := ((op.K % nid) + nid) % nid
		when := fmt.Sprintf("op %d (%s part%d)", i, op.Op, id)
		switch op.Op {
		case "put":
			for _, r := range readers {
				if r.id == id && !r.closed {
					interesting = true
				}
			}
			err := p.write(op.Commit, func(ctx context.Context, tx database.Tx) error {
				return p.ps.PutPart(ctx, tx, partID(id), bytes.NewReader(content[id]))
			})
			if err != nil {
				o.Failf("%s: PutPart failed: %v", when, err)
				return
			}
			if op.Commit {
				present[id] = true
				fillOpenAtDelete[id] = false
				for _, r := range readers {
					if r.id == id && !r.closed {
						r.racy = true // the after-commit cache.Set rewrote the entry under the reader
					}
				}
			}
		case "del":
			if !present[id] && !op.Commit {
				continue
			}
			windowFailed := false
			err := p.write(op.Commit, func(ctx context.Context, tx database.Tx) error {
				if err := p.ps.DeletePart(ctx, tx, partID(id)); err != nil {
					return err
				}
				if op.Mode == "window" && present[id] {
					// a complete read of the part between DeletePart(tx) and the end of the transaction
					// (another request; the delete is not committed, so the part is there): it must not
					// leave anything behind that outlives the committed delete (seeded defect S-C15-2)
					o.Class("ps-seq:read-inside-delete-transaction")
					interesting = true
					r, ok := open(id, when+" [read inside the delete transaction]")
					if !ok {
						windowFailed = true
						return nil
					}
					if r != nil {
						if !drain(r, when+" [read inside the delete transaction]") {
							windowFailed = true
						}
						r.close()
					}
				}
				return nil
			})
			if windowFailed {
				return
			}
			if err != nil {
				if !present[id] {
					continue // deleting an absent part may fail; not this property's business
				}
				o.Failf("%s: DeletePart failed: %v", when, err)
				return
			}
			if op.Commit {
				for _, r := range readers {
					if r.id == id && !r.closed {
						interesting = true
						if r.fill {
							fillOpenAtDelete[id] = true
						}
					}
				}
				if present[id] {
					deleted[id] = true
				}
				present[id] = false
			}
		case "get", "abandon", "open":
			for _, r := range readers {
				if r.id == id && !r.closed && !r.eof {
					interesting = true // second reader while the first may still be filling the cache
				}
			}
			r, ok := open(id, when)
			if !ok {
				return
			}
			if r == nil {
				continue
			}
			switch op.Op {
			case "get":
				if !drain(r, when) {
					return
				}
				r.close()
			case "abandon":
				n := op.N
				if n < 1 {
					n = 1
				}
				if !readN(r, n, when) {
					return
				}
				r.close()
			}
		case "breakget":
			// a download whose inner stream breaks with a non-EOF error after N bytes (if the part is served from
			// the cache the inner store is not asked and nothing breaks): the broken download may fail, nothing of
			// it may be kept as the complete part (seeded defect S-C40-3)
			if !present[id] {
				continue
			}
			p.brk.mu.Lock()
			p.brk.breakAfter = max(1, op.N)
			p.brk.mu.Unlock()
			r, err := p.open(p.ps, id)
			if err == nil {
				var got []byte
				var rerr error
				buf := make([]byte, 4096)
				for i := 0; i < 1<<16; i++ {
					n, e := r.rc.Read(buf)
					got = append(got, buf[:n]...)
					if e != nil {
						rerr = e
						break
					}
				}
				r.close()
				o.Sub++
				w := content[id]
				switch {
				case !bytes.HasPrefix(w, got):
					o.Failf("%s: a download whose inner stream broke delivered bytes that were not stored under that id", when)
					return
				case rerr == io.EOF && len(got) != len(w):
					racy := false
					for _, q := range readers {
						if q.id == id && !q.closed && q.fill {
							racy = true // another reader of the id is still filling the cache
						}
					}
					if c.Persistor == "fs" && racy && !r.fill && env.Known(mInPlace) {
						// KF-C19-3: a hit on the partial file another reader is still writing (nothing broke here:
						// the inner store was not asked)
						o.KnownHits = append(o.KnownHits, "KF-C19-3")
						break
					}
					o.Failf("%s: a download whose inner stream broke after %d bytes ended with a clean EOF after %d of %d bytes", when, op.N, len(got), len(w))
					return
				case rerr != io.EOF:
					o.Class("ps-seq:download-broken-by-inner-stream-error")
					interesting = true
				}
			}
			p.brk.mu.Lock()
			p.brk.breakAfter = -1
			p.brk.mu.Unlock()
		case "read", "close", "drain":
			if len(readers) == 0 {
				continue
			}
			r := readers[op.H%len(readers)]
			if r.closed {
				continue
			}
			if op.Op == "drain" {
				if !drain(r, when) {
					return
				}
			} else if op.Op == "read" {
				n := op.N
				if n < 1 {
					n = 1
				}
				if !readN(r, n, when) {
					return
				}
			} else {
				r.close()
			}
		}
	}
	// epilogue: finish every open reader, then every id must agree with the model
	for _, r := range readers {
		if !r.closed {
			if !drain(r, "epilogue") {
				return
			}
			r.close()
		}
	}
	for pass := 0; pass < 2; pass++ { // second pass reads what the first pass put into the cache
		for id := 0; id < nid; id++ {
			r, ok := open(id, fmt.Sprintf("final read %d of part%d", pass, id))
			if !ok {
				return
			}
			if r != nil {
				if !drain(r, "final read") {
					return
				}
				r.close()
			}
		}
	}
	o.Count("ps-seq:hits-after-delete-and-re-put", hitsAfterWrite)
	o.NonTrivial = interesting
	return
}

func runPSConc(env *ev.Env, c Case) (o ev.Outcome) {
	p, err := openPS(env, c)
	if err != nil {
		o.Failf("harness: open part store: %v", err)
		return
	}
	defer p.close()
	o.Class("ps-conc:" + psClass(c))
	nid := len(c.Lens)
	if nid == 0 {
		o.Discard = true
		return
	}
	content := make([][]byte, nid)
	for i := range content {
		content[i] = partContent(i, c.Lens[i])
	}
	if c.Cold {
		if err := p.seedCold(content); err != nil {
			o.Failf("harness: seeding the inner store: %v", err)
			return
		}
		o.Class("ps-conc:cold-start")
	}
	var clock atomic.Int64
	var mu sync.Mutex
	var ivs []interval
	var problems []string
	indeterminate, known3, reads := 0, 0, 0
	delDuringFill := make([]atomic.Bool, nid)
	openFills := make([]atomic.Int32, nid)
	start := make(chan struct{})
	var wg sync.WaitGroup
	for t, ops := range c.Threads {
		wg.Add(1)
		go func(t int, ops []Op) {
			defer wg.Done()
			<-start
			for i, op := range ops {
				id := ((op.K % nid) + nid) % nid
				s := clock.Add(1)
				var prob string
				indet, torn, read := false, false, false
				switch op.Op {
				case "put":
					err := p.write(true, func(ctx context.Context, tx database.Tx) error {
						return p.ps.PutPart(ctx, tx, partID(id), bytes.NewReader(content[id]))
					})
					if err != nil {
						indet = true
					}
				case "del":
					err := p.write(true, func(ctx context.Context, tx database.Tx) error {
						return p.ps.DeletePart(ctx, tx, partID(id))
					})
					if err != nil {
						indet = true
					} else if openFills[id].Load() > 0 {
						delDuringFill[id].Store(true)
					}
				case "get", "abandon":
					openFills[id].Add(1)
					r, err := p.open(p.ps, id)
					if err != nil {
						openFills[id].Add(-1)
						if !errors.Is(err, partstore.ErrPartNotFound) {
							indet = true
						}
						break
					}
					read = true
					var b []byte
					var rerr error
					if op.Op == "get" {
						b, rerr = io.ReadAll(r.rc)
					} else {
						b = make([]byte, max(1, op.N))
						var m int
						m, rerr = io.ReadFull(r.rc, b)
						b = b[:m]
						if rerr == io.ErrUnexpectedEOF || rerr == io.EOF {
							rerr = nil
						}
					}
					r.close()
					openFills[id].Add(-1)
					w := content[id]
					switch {
					case rerr != nil:
						prob = fmt.Sprintf("thread %d op %d: reading part%d failed after %d bytes: %v", t, i, id, len(b), rerr)
					case op.Op == "get" && !bytes.Equal(b, w), op.Op == "abandon" && !(bytes.HasPrefix(w, b) && (len(b) == min(len(w), max(1, op.N)))):
						if c.Persistor == "fs" && len(b) <= len(w) && positionwiseMixZ(b, [][]byte{w}, true) && env.Known(mInPlace) {
							torn = true
						} else {
							kind := "bytes that were not stored under that id"
							if bytes.HasPrefix(w, b) {
								kind = "a partial value with a clean EOF"
							}
							prob = fmt.Sprintf("thread %d op %d: GetPart(part%d) (%s) delivered %d of %d bytes: %s", t, i, id, op.Op, len(b), len(w), kind)
						}
					}
				}
				e := clock.Add(1)
				mu.Lock()
				ivs = append(ivs, interval{k: id, write: op.Op == "put" || op.Op == "del", start: s, end: e, op: op.Op})
				if prob != "" {
					problems = append(problems, prob)
				}
				if indet {
					indeterminate++
				}
				if torn {
					known3++
				}
				if read {
					reads++
				}
				mu.Unlock()
			}
		}(t, ops)
	}
	close(start)
	wg.Wait()
	o.Sub = len(ivs)
	sort.Strings(problems)
	if len(problems) > 0 {
		o.Failf("%s (and %d more)", problems[0], len(problems)-1)
		return
	}
	if known3 > 0 {
		o.KnownHits = append(o.KnownHits, "KF-C19-3")
	}
	// a committed delete overlapped in time with a read of the same id (the read
	// may have been a cache fill): the in-flight bookkeeping above can miss a fill
	// that ended between the commit and the check, the logical clock cannot
	for _, a := range ivs {
		if a.op != "del" {
			continue
		}
		for _, b := range ivs {
			if b.k == a.k && (b.op == "get" || b.op == "abandon") && a.start < b.end && b.start < a.end {
				delDuringFill[a.k].Store(true)
			}
		}
	}
	// quiescent: the cache part store must agree with its inner store
	for pass := 0; pass < 2 && !o.Failed(); pass++ {
		for id := 0; id < nid; id++ {
			innerPresent := false
			if r, err := p.open(p.inner, id); err == nil {
				innerPresent = true
				r.close()
			} else if !errors.Is(err, partstore.ErrPartNotFound) {
				o.Failf("harness: inner GetPart(part%d): %v", id, err)
				return
			}
			r, err := p.open(p.ps, id)
			o.Sub++
			if err != nil {
				if !errors.Is(err, partstore.ErrPartNotFound) {
					o.Failf("after quiescence: GetPart(part%d) failed: %v", id, err)
					return
				}
				if innerPresent {
					o.Count("ps-conc:not-found-for-present-part", 1)
				}
				continue
			}
			b, rerr := io.ReadAll(r.rc)
			r.close()
			if !innerPresent {
				if delDuringFill[id].Load() && env.Known(mResurect) {
					o.KnownHits = append(o.KnownHits, "KF-C19-4")
					continue
				}
				o.Failf("after quiescence: GetPart(part%d) returns %d bytes although the inner store no longer has the part (stale after delete)", id, len(b))
				return
			}
			if rerr != nil || !bytes.Equal(b, content[id]) {
				if c.Persistor == "fs" && rerr == nil && len(b) <= len(content[id]) && positionwiseMixZ(b, [][]byte{content[id]}, true) && env.Known(mInPlace) {
					o.KnownHits = append(o.KnownHits, "KF-C19-3")
					continue
				}
				o.Failf("after quiescence: GetPart(part%d) delivered %d of %d bytes, err=%v", id, len(b), len(content[id]), rerr)
				return
			}
		}
	}
	pairs, ov, kw := overlapStats(ivs)
	o.Count("ps-conc:op-pairs", pairs)
	o.Count("ps-conc:overlapping-pairs", ov)
	o.Count("ps-conc:reads", reads)
	o.Count("ps-conc:indeterminate-ops", indeterminate)
	if indeterminate*4 > len(ivs) {
		o.Discard = true
		return
	}
	o.NonTrivial = kw > 0
	return
}

// ---- child process plumbing -----------------------------------------------------------------------

func runInProcess(env *ev.Env, c Case) ev.Outcome {
	switch c.Kind {
	case "gc-seq":
		return runGCSeq(env, c)
	case "gc-conc":
		return runGCConc(env, c)
	case "ps-seq":
		return runPSSeq(env, c)
	case "ps-conc":
		return runPSConc(env, c)
	}
	return ev.Outcome{Discard: true}
}

type childIn struct {
	Case  Case     `json:"case"`
	Known []string `json:"known"`
	Tier  string   `json:"tier"`
	Tmp   string   `json:"tmp"`
}

// TestC19Child executes one case in a fresh process; it is a no-op unless the
// parent asked for it.
func TestC19Child(t *testing.T) {
	in := os.Getenv("VERIF_C19_CHILD_IN")
	if in == "" {
		t.Skip("child entry point")
	}
	b, err := os.ReadFile(in)
	if err != nil {
		t.Fatal(err)
	}
	var ci childIn
	if err := json.Unmarshal(b, &ci); err != nil {
		t.Fatal(err)
	}
	env := ev.NewEnv("C19", ci.Tier, ci.Tmp, ci.Known)
	o := runInProcess(env, ci.Case)
	ob, _ := json.Marshal(o)
	if err := os.WriteFile(os.Getenv("VERIF_C19_CHILD_OUT"), ob, 0o644); err != nil {
		t.Fatal(err)
	}
}

var raceBlock = regexp.MustCompile(`(?s)WARNING: DATA RACE\n(.*?)\n==================`)

// classifyStderr turns the child's runtime reports into known hits / a violation.
func classifyStderr(env *ev.Env, c Case, stderr string, o *ev.Outcome) {
	inmem := "persistor/inmemory.(*inMemoryCachePersistor)"
	for _, m := range raceBlock.FindAllStringSubmatch(stderr, -1) {
		block := m[1]
		// the two access stacks are the first two paragraphs
		paras := strings.Split(block, "\n\n")
		// known mechanism: the persistor's map (and, through the missing
		// happens-before edge, the value slices reachable from it) is accessed by
		// Store/Remove outside the cache mutex. Every access of the report must be
		// inside the in-memory persistor or be the read of a hit's bytes.Reader
		// over the slice the persistor handed out, and at least one must be inside
		// the persistor.
		accesses := 0
		inMap, viaReader := 0, 0
		for _, p := range paras {
			first := strings.SplitN(strings.TrimSpace(p), "\n", 2)[0]
			if strings.Contains(first, " at 0x") && (strings.Contains(first, "ead ") || strings.Contains(first, "rite ")) {
				accesses++
				if strings.Contains(p, inmem) {
					inMap++
				} else if strings.Contains(p, "bytes.(*Reader).Read()") && strings.HasPrefix(strings.TrimSpace(first), "Read at") || strings.HasPrefix(strings.TrimSpace(first), "Previous read at") && strings.Contains(p, "bytes.(*Reader).Read()") {
					viaReader++
				}
			}
		}
		if accesses >= 2 && inMap >= 1 && inMap+viaReader == accesses && c.Persistor == "mem" && env.Known(mMapRace) {
			o.KnownHits = append(o.KnownHits, "KF-C19-2")
			continue
		}
		o.Failf("DATA RACE reported by the race detector:\n%s", trim(dedupFrames(block), 4000))
		return
	}
	// The runtime prints "fatal error: concurrent map writes" unsynchronised with the
	// race detector's report, so the two texts can be interleaved ("fatal error:
	// =====...WARNING: DATA RACE"): accept the words anywhere after "fatal error:".
	if i := strings.Index(stderr, "fatal error: "); i >= 0 && strings.Contains(stderr[i:], "concurrent map") && !strings.Contains(stderr, "fatal error: concurrent map") {
		if strings.Contains(stderr[i:], inmem) && c.Persistor == "mem" && env.Known(mMapRace) {
			o.KnownHits = append(o.KnownHits, "KF-C19-2")
			o.Excluded = true
			return
		}
	}
	if i := strings.Index(stderr, "fatal error: concurrent map"); i >= 0 {
		tail := stderr[i:]
		// the first goroutine trace is the one that detected the concurrent access
		first := tail
		if j := strings.Index(tail, "\n\ngoroutine "); j >= 0 {
			if k := strings.Index(tail[j+2:], "\n\n"); k >= 0 {
				first = tail[:j+2+k]
			}
		}
		if strings.Contains(first, inmem) && c.Persistor == "mem" && env.Known(mMapRace) {
			o.KnownHits = append(o.KnownHits, "KF-C19-2")
			o.Excluded = true
			return
		}
		o.Failf("Go runtime fatal error in the child:\n%s", trim(tail, 3000))
		return
	}
	if i := strings.Index(stderr, "panic: "); i >= 0 {
		tail := stderr[i:]
		if strings.Contains(tail, "index out of range") && strings.Contains(tail, "lfu.(*LFUCacheEvictionPolicy).TrackSetAndReturnEvictedKeys") && strings.Contains(tail, "container/heap.Pop") &&
			childOversized(c) && env.Known(mLFU) {
			o.KnownHits = append(o.KnownHits, "KF-C19-1")
			o.Excluded = true
			return
		}
		o.Failf("panic in the child process:\n%s", trim(tail, 3000))
		return
	}
	if i := strings.Index(stderr, "fatal error: "); i >= 0 {
		o.Failf("Go runtime fatal error in the child:\n%s", trim(stderr[i:], 3000))
	}
}

func childOversized(c Case) bool {
	switch c.Kind {
	case "gc-conc":
		for t, ops := range c.Threads {
			for i, op := range ops {
				if op.Op == "set" && lfuOversized(c, len(mkValue(op.K, t+1, i, op.Len))) {
					return true
				}
			}
		}
		return false
	default:
		return psOversized(c)
	}
}

// dedupFrames collapses the repeated frame pairs the race detector prints for
// inlined calls.
func dedupFrames(s string) string {
	lines := strings.Split(s, "\n")
	var out []string
	for i := 0; i < len(lines); i++ {
		if n := len(out); n >= 2 && i+1 < len(lines) && lines[i] == out[n-2] && lines[i+1] == out[n-1] {
			i++
			continue
		}
		out = append(out, lines[i])
	}
	return strings.Join(out, "\n")
}

func trim(s string, n int) string {
	if len(s) > n {
		return s[:n] + "\n…"
	}
	return s
}

func runInChild(env *ev.Env, c Case) (o ev.Outcome) {
	dir := env.TempDir()
	defer os.RemoveAll(dir)
	in := filepath.Join(dir, "in.json")
	out := filepath.Join(dir, "out.json")
	var known []string
	for _, m := range []string{mLFU, mMapRace, mInPlace, mResurect} {
		if env.Known(m) {
			known = append(known, m)
		}
	}
	b, _ := json.Marshal(childIn{Case: c, Known: known, Tier: env.Tier, Tmp: filepath.Join(dir, "tmp")})
	if err := os.WriteFile(in, b, 0o644); err != nil {
		o.Failf("harness: %v", err)
		return
	}
	ctx, cancel := context.WithTimeout(context.Background(), 120*time.Second)
	defer cancel()
	cmd := exec.CommandContext(ctx, os.Args[0], "-test.run", "^TestC19Child$", "-test.timeout", "100s")
	procs := c.Procs
	if procs < 1 {
		procs = 2
	}
	cmd.Env = append(os.Environ(), "VERIF_C19_CHILD_IN="+in, "VERIF_C19_CHILD_OUT="+out, "GORACE=halt_on_error=0 exitcode=0",
		"GOMAXPROCS="+strconv.Itoa(procs), "VERIF_REPLAY=", "VERIF_FRAGMENT=", "VERIF_EAGER_CASE=", "VERIF_REPLAY_OUT=")
	var stderr bytes.Buffer
	cmd.Stdout = io.Discard
	cmd.Stderr = &stderr
	runErr := cmd.Run()
	if ctx.Err() != nil {
		o.Failf("child process did not finish within 120 s (deadlock?)\n%s", trim(stderr.String(), 3000))
		return
	}
	ob, rerr := os.ReadFile(out)
	if rerr == nil {
		if err := json.Unmarshal(ob, &o); err != nil {
			o = ev.Outcome{}
			o.Failf("harness: child outcome: %v", err)
			return
		}
	}
	hitsBefore := len(o.KnownHits)
	classifyStderr(env, c, stderr.String(), &o)
	if n := o.Counters["gc-conc:mem-torn-hits-under-map-race"]; n > 0 && !o.Failed() {
		raceSeen := false
		for _, k := range o.KnownHits[hitsBefore:] {
			if k == "KF-C19-2" {
				raceSeen = true
			}
		}
		if !raceSeen {
			o.Failf("in-memory persistor: %d hits returned a torn or partial value and the race detector reported no race on the persistor's map in that process", n)
		}
	}
	if rerr != nil && !o.Failed() && !o.Excluded {
		o.Failf("child process died without an outcome (%v):\n%s", runErr, trim(stderr.String(), 3000))
	}
	if rerr != nil {
		o.Class(c.Kind + ":child-died")
	}
	return
}

func runCase(env *ev.Env, c Case) ev.Outcome {
	if c.Kind == "gc-seq" {
		return runGCSeq(env, c)
	}
	return runInChild(env, c)
}

// ---- generators ------------------------------------------------------------------------------------

func genConfig(t *rapid.T, c *Case, allowOversize bool, maxLen int) {
	c.Persistor = rapid.SampledFrom([]string{"mem", "fs"}).Draw(t, "persistor")
	c.Policy = rapid.SampledFrom([]string{"lfu-keys", "lfu-size", "none"}).Draw(t, "policy")
	switch c.Policy {
	case "lfu-keys":
		c.Limit = int64(rapid.IntRange(1, 3).Draw(t, "keyLimit"))
	case "lfu-size":
		if allowOversize {
			c.Limit = int64(rapid.SampledFrom([]int{150, 300, 1000, 5000}).Draw(t, "sizeLimit"))
		} else {
			// every value fits: header (< 100 bytes) + payload
			c.Limit = int64(maxLen + 100 + rapid.SampledFrom([]int{0, 50, 400, 2000}).Draw(t, "sizeSlack"))
		}
	}
}

func genLen(t *rapid.T, maxLen int) int {
	return rapid.SampledFrom([]int{40, 0, 200, 1, maxLen, maxLen / 2, 9}).Draw(t, "len")
}

func genGCSeq(t *rapid.T, env *ev.Env) Case {
	c := Case{Kind: "gc-seq"}
	maxLen := 600
	if env.Thorough() {
		maxLen = 70000
	}
	allowOversize := rapid.IntRange(0, 3).Draw(t, "allowOversize") == 0
	genConfig(t, &c, allowOversize, maxLen)
	nkeys := rapid.IntRange(1, 4).Draw(t, "nkeys")
	opGen := rapid.Custom(func(t *rapid.T) Op {
		k := rapid.IntRange(0, nkeys-1).Draw(t, "k")
		switch rapid.SampledFrom([]string{"open", "set", "read", "get", "set", "get", "read", "close", "set", "open", "get", "remove"}).Draw(t, "op") {
		case "set":
			op := Op{Op: "set", K: k, Len: genLen(t, maxLen), Mode: rapid.SampledFrom([]string{"exact", "unknown", "exact", "unknown", "fail"}).Draw(t, "mode")}
			if op.Mode == "fail" {
				op.FailAt = rapid.IntRange(0, maxLen).Draw(t, "failAt")
			}
			return op
		case "get":
			return Op{Op: "get", K: k}
		case "remove":
			return Op{Op: "remove", K: k}
		case "open":
			return Op{Op: "open", K: k}
		case "read":
			return Op{Op: "read", H: rapid.IntRange(0, 5).Draw(t, "h"), N: rapid.SampledFrom([]int{10, 1, 100, 1000, 70}).Draw(t, "n")}
		default:
			return Op{Op: "close", H: rapid.IntRange(0, 5).Draw(t, "h")}
		}
	})
	c.Ops = rapid.SliceOfN(opGen, 3, 40).Draw(t, "ops")
	return c
}

func genGCConc(t *rapid.T, env *ev.Env) Case {
	c := Case{Kind: "gc-conc"}
	maxLen := 20000
	if env.Thorough() {
		maxLen = 200000
	}
	allowOversize := rapid.IntRange(0, 5).Draw(t, "allowOversize") == 0
	genConfig(t, &c, allowOversize, maxLen)
	nkeys := rapid.IntRange(1, 3).Draw(t, "nkeys")
	nthreads := rapid.IntRange(2, 5).Draw(t, "threads")
	opGen := rapid.Custom(func(t *rapid.T) Op {
		k := rapid.IntRange(0, nkeys-1).Draw(t, "k")
		switch rapid.IntRange(0, 9).Draw(t, "op") {
		case 0, 1, 2, 3:
			return Op{Op: "set", K: k, Len: rapid.SampledFrom([]int{maxLen, 3000, 100, maxLen / 3}).Draw(t, "len"), Mode: rapid.SampledFrom([]string{"exact", "unknown"}).Draw(t, "mode")}
		case 4:
			return Op{Op: "remove", K: k}
		default:
			return Op{Op: "get", K: k}
		}
	})
	for i := 0; i < nthreads; i++ {
		c.Threads = append(c.Threads, rapid.SliceOfN(opGen, 4, 25).Draw(t, "thread"))
	}
	c.Procs = rapid.SampledFrom([]int{4, 2, 8}).Draw(t, "procs")
	return c
}

func genPSConfig(t *rapid.T, c *Case, maxLen int) {
	c.Persistor = rapid.SampledFrom([]string{"fs", "mem", "mem"}).Draw(t, "persistor")
	c.Inner = rapid.SampledFrom([]string{"fs", "sql"}).Draw(t, "inner")
	if c.Persistor == "fs" {
		c.Policy = "lfu-keys"
	} else {
		c.Policy = rapid.SampledFrom([]string{"lfu-keys", "lfu-size", "none"}).Draw(t, "policy")
	}
	switch c.Policy {
	case "lfu-keys":
		c.Limit = int64(rapid.IntRange(1, 3).Draw(t, "keyLimit"))
	case "lfu-size":
		c.Limit = int64(maxLen + 50 + rapid.SampledFrom([]int{0, 500, 3000}).Draw(t, "sizeSlack"))
		if rapid.IntRange(0, 7).Draw(t, "oversize") == 0 {
			c.Limit = int64(maxLen / 2)
		}
	}
	c.MaxPart = int64(rapid.SampledFrom([]int{0, 0, maxLen / 2, maxLen}).Draw(t, "maxPart"))
	c.Cold = rapid.Bool().Draw(t, "cold")
	nid := rapid.IntRange(1, 3).Draw(t, "nids")
	for i := 0; i < nid; i++ {
		c.Lens = append(c.Lens, rapid.SampledFrom([]int{maxLen, maxLen / 3, 100, 1}).Draw(t, "plen"))
	}
}

func genPSSeq(t *rapid.T, env *ev.Env) Case {
	c := Case{Kind: "ps-seq"}
	maxLen := 20000
	genPSConfig(t, &c, maxLen)
	nid := len(c.Lens)
	opGen := rapid.Custom(func(t *rapid.T) Op {
		k := rapid.IntRange(0, nid-1).Draw(t, "k")
		switch rapid.IntRange(0, 19).Draw(t, "op") {
		case 0, 1, 2, 3:
			return Op{Op: "put", K: k, Commit: rapid.IntRange(0, 5).Draw(t, "commit") != 0}
		case 4, 5:
			d := Op{Op: "del", K: k, Commit: rapid.IntRange(0, 5).Draw(t, "commit") != 0}
			if rapid.Bool().Draw(t, "window") {
				d.Mode = "window"
			}
			return d
		case 6, 7, 8:
			return Op{Op: "get", K: k}
		case 9:
			return Op{Op: "abandon", K: k, N: rapid.SampledFrom([]int{1, 50, 5000, 19999}).Draw(t, "n")}
		case 10:
			if rapid.Bool().Draw(t, "breakget") {
				return Op{Op: "breakget", K: k, N: rapid.SampledFrom([]int{1, 50, 3000, 5000}).Draw(t, "bn")}
			}
			return Op{Op: "abandon", K: k, N: rapid.SampledFrom([]int{1, 50, 5000, 19999}).Draw(t, "n")}
		case 11, 12, 13:
			return Op{Op: "open", K: k}
		case 14, 15, 16:
			return Op{Op: "read", H: rapid.IntRange(0, 5).Draw(t, "h"), N: rapid.SampledFrom([]int{4000, 1, 100, 50000}).Draw(t, "n")}
		case 17:
			return Op{Op: "drain", H: rapid.IntRange(0, 5).Draw(t, "h")}
		default:
			return Op{Op: "close", H: rapid.IntRange(0, 5).Draw(t, "h")}
		}
	})
	c.Ops = rapid.SliceOfN(opGen, 3, 30).Draw(t, "ops")
	return c
}

func genPSConc(t *rapid.T, env *ev.Env) Case {
	c := Case{Kind: "ps-conc"}
	maxLen := 100000
	genPSConfig(t, &c, maxLen)
	nid := len(c.Lens)
	nthreads := rapid.IntRange(2, 5).Draw(t, "threads")
	opGen := rapid.Custom(func(t *rapid.T) Op {
		k := rapid.IntRange(0, nid-1).Draw(t, "k")
		switch rapid.IntRange(0, 9).Draw(t, "op") {
		case 0, 1:
			return Op{Op: "put", K: k, Commit: true}
		case 2:
			return Op{Op: "del", K: k, Commit: true}
		case 3, 4:
			return Op{Op: "abandon", K: k, N: rapid.SampledFrom([]int{1, 5000, 60000}).Draw(t, "n")}
		default:
			return Op{Op: "get", K: k}
		}
	})
	for i := 0; i < nthreads; i++ {
		ops := rapid.SliceOfN(opGen, 3, 15).Draw(t, "thread")
		// every id has one writing goroutine (as in pithos, where an id is written
		// by the upload that created it); all goroutines read every id
		for j := range ops {
			if (ops[j].Op == "put" || ops[j].Op == "del") && ops[j].K%nthreads != i {
				ops[j] = Op{Op: "get", K: ops[j].K}
			}
		}
		c.Threads = append(c.Threads, ops)
	}
	c.Procs = rapid.SampledFrom([]int{4, 2, 8}).Draw(t, "procs")
	return c
}

// genCase mixes the kinds: sequential GenericCache programs are cheap, the other
// kinds cost a process each.
func genCase(t *rapid.T, env *ev.Env) Case {
	// rapid biases small integers and early SampledFrom elements; hash a wide draw
	// to get the stated proportions (0, where shrinking ends, maps to gc-seq)
	x := rapid.Uint64().Draw(t, "kindBits")
	kind := "gc-seq"
	switch h := (x * 0x9e3779b97f4a7c15) >> 32 % 100; {
	case x == 0:
	case h < 4:
		kind = "gc-conc"
	case h < 8:
		kind = "ps-seq"
	case h < 12:
		kind = "ps-conc"
	}
	switch kind {
	case "gc-conc":
		return genGCConc(t, env)
	case "ps-seq":
		return genPSSeq(t, env)
	case "ps-conc":
		return genPSConc(t, env)
	default:
		return genGCSeq(t, env)
	}
}

func TestC19(t *testing.T) {
	ev.Main(t, ev.Spec[Case]{
		ID:    "C19",
		Level: "exploration",
		Rule: "four case kinds drawn about 88/4/4/4 (the last three cost a child process each): gc-seq = model-based programs (3-40 ops: Set exact/unknown size/failing reader, Get, Remove, reader handles held across later ops) on GenericCache x {in-memory, filesystem persistor} x {LFU+key limit 1-3, LFU+size limit, evict-nothing}, a quarter with values larger than the size limit; " +
			"gc-conc = 2-5 goroutines x 4-25 Get/Set/Remove on 1-3 keys with self-describing values, race detector on; ps-seq = schedules of put/delete (commit or rollback), open/read/close/abandon of GetPart readers on the cache part store over fs or sql; ps-conc = 2-5 goroutines of GetPart/abandoned GetPart/PutPart/DeletePart. " +
			"non-trivial: gc-seq = >=1 hit, >=1 miss and >=1 re-Set of an existing key; conc kinds = >=2 ops on one key/id overlapped in time and one of them was a Set/Remove/Put/Delete; ps-seq = a put/delete committed, or a second reader was opened, while a reader of the same id was open; distinct = distinct case JSON",
		Assumptions: []string{
			"concurrent kinds sample schedules: their oracles hold for every schedule of a correct implementation (hit = complete value of an invoked Set for that key; part bytes = content bound to the id; quiescent agreement with the inner store)",
			"part ids are never rewritten with different content (as in pithos, where ids are random per write)",
			"runtime reports (DATA RACE, fatal error, panic) of the child process are read from its stderr",
		},
		Gen:      genCase,
		Run:      runCase,
		Directed: directed,
	})
}

func directed(env *ev.Env) []Case {
	return []Case{
		// stale-after-delete probe: a fill that is still open when the delete commits
		{Kind: "ps-seq", Persistor: "mem", Policy: "lfu-keys", Limit: 3, Inner: "fs", Lens: []int{5000},
			Ops: []Op{{Op: "put", K: 0, Commit: true}, {Op: "get", K: 0}, {Op: "del", K: 0, Commit: true}, {Op: "get", K: 0}, {Op: "put", K: 0, Commit: true}, {Op: "get", K: 0}}},
		{Kind: "ps-seq", Persistor: "mem", Policy: "none", Inner: "sql", Cold: true, Lens: []int{5000, 100},
			Ops: []Op{{Op: "get", K: 0}, {Op: "abandon", K: 1, N: 10}, {Op: "get", K: 1}, {Op: "del", K: 0, Commit: false}, {Op: "get", K: 0}, {Op: "del", K: 0, Commit: true}, {Op: "get", K: 0}}},
		// a complete read of the part between DeletePart(tx) and the commit (fs and sql inner store, warm and cold cache)
		{Kind: "ps-seq", Persistor: "mem", Policy: "lfu-keys", Limit: 3, Inner: "fs", Lens: []int{20000},
			Ops: []Op{{Op: "put", K: 0, Commit: true}, {Op: "get", K: 0}, {Op: "del", K: 0, Commit: true, Mode: "window"}, {Op: "get", K: 0}, {Op: "get", K: 0}}},
		{Kind: "ps-seq", Persistor: "fs", Policy: "none", Inner: "sql", Cold: true, Lens: []int{5000},
			Ops: []Op{{Op: "del", K: 0, Commit: false, Mode: "window"}, {Op: "get", K: 0}, {Op: "del", K: 0, Commit: true, Mode: "window"}, {Op: "get", K: 0}}},
		// a download broken by an inner stream error in mid-part, then complete downloads of the same part
		{Kind: "ps-seq", Persistor: "mem", Policy: "none", Inner: "fs", Cold: true, Lens: []int{8192},
			Ops: []Op{{Op: "breakget", K: 0, N: 3000}, {Op: "get", K: 0}, {Op: "get", K: 0}}},
		{Kind: "ps-seq", Persistor: "fs", Policy: "lfu-keys", Limit: 3, Inner: "sql", Lens: []int{20000},
			Ops: []Op{{Op: "put", K: 0, Commit: true}, {Op: "del", K: 0, Commit: false}, {Op: "breakget", K: 0, N: 5000}, {Op: "get", K: 0}}},
		// second reader while the first one is filling the cache (filesystem persistor)
		{Kind: "ps-seq", Persistor: "fs", Policy: "lfu-keys", Limit: 3, Inner: "sql", Lens: []int{20000},
			Ops: []Op{{Op: "put", K: 0, Commit: true}, {Op: "get", K: 0}, {Op: "get", K: 0}}},
		{Kind: "gc-seq", Persistor: "fs", Policy: "none",
			Ops: []Op{{Op: "set", K: 0, Len: 100, Mode: "exact"}, {Op: "get", K: 0}, {Op: "set", K: 0, Len: 50, Mode: "unknown"}, {Op: "get", K: 0}, {Op: "remove", K: 0}, {Op: "get", K: 0}}},
	}
}
