// Package c05 checks property C05: for every object and every syntactically
// valid Range header a GET returns exactly the RFC 7233 byte slice(s) of the
// current content with matching Content-Range / Content-Length, and answers
// 416 only when no requested range is satisfiable.
package c05

import (
	"bytes"
	"context"
	"errors"
	"fmt"
	"io"
	"mime"
	"mime/multipart"
	"net/http"
	"net/http/httptest"
	"os"
	"sort"
	"strconv"
	"strings"
	"sync"
	"testing"
	"time"

	"github.com/jdillenkofer/pithos/internal/storage"
	"github.com/jdillenkofer/pithos/verifharness/ev"
	"github.com/jdillenkofer/pithos/verifharness/gen"
	"github.com/jdillenkofer/pithos/verifharness/s3http"
	"github.com/jdillenkofer/pithos/verifharness/stacks"
	"pgregory.net/rapid"
)

// ---- case ---------------------------------------------------------------------------------

// Obj describes how the object is written. Kind: put (one part), mpu (one
// uploaded part per element), append (put of the first element, then one
// AppendObject per further element).
type Obj struct {
	Kind  string         `json:"kind"`
	Parts []gen.BodySpec `json:"parts"`
}

type Case struct {
	Stack   string   `json:"stack"`
	Obj     Obj      `json:"obj"`
	Headers []string `json:"headers"` // Range header values
}

// ---- RFC 7233 evaluator (the oracle) -----------------------------------------------------

const huge = ^uint64(0) // a number that does not fit into 64 bits saturates here

// spec is one byte-range-spec (first-last / first-) or suffix-byte-range-spec (-n).
type spec struct {
	suffix  bool
	first   uint64
	last    uint64
	hasLast bool
}

func parseNum(s string) (uint64, bool) {
	if s == "" {
		return 0, false
	}
	for i := 0; i < len(s); i++ {
		if s[i] < '0' || s[i] > '9' {
			return 0, false
		}
	}
	s = strings.TrimLeft(s, "0")
	if s == "" {
		return 0, true
	}
	if len(s) > 20 {
		return huge, true
	}
	v, err := strconv.ParseUint(s, 10, 64)
	if err != nil {
		return huge, true
	}
	return v, true
}

// parseRange parses a Range header value by the RFC 7233 sender grammar:
//
//	"bytes=" 1#( first "-" [last] / "-" suffix-length ),  OWS around the commas,
//
// first <= last. ok=false: not a syntactically valid byte-range-set.
func parseRange(h string) ([]spec, bool) {
	const unit = "bytes="
	if !strings.HasPrefix(h, unit) {
		return nil, false
	}
	var out []spec
	for _, el := range strings.Split(h[len(unit):], ",") {
		el = strings.Trim(el, " \t")
		i := strings.IndexByte(el, '-')
		if i < 0 {
			return nil, false
		}
		a, b := el[:i], el[i+1:]
		if a == "" {
			n, ok := parseNum(b)
			if !ok {
				return nil, false
			}
			out = append(out, spec{suffix: true, last: n})
			continue
		}
		first, ok := parseNum(a)
		if !ok {
			return nil, false
		}
		sp := spec{first: first}
		if b != "" {
			last, ok := parseNum(b)
			if !ok || last < first {
				return nil, false
			}
			sp.last, sp.hasLast = last, true
		}
		out = append(out, sp)
	}
	return out, len(out) > 0
}

// interval is an inclusive byte interval of the representation.
type interval struct{ s, e int64 }

// resolve evaluates one spec against a representation of n bytes.
func (sp spec) resolve(n int64) (interval, bool) {
	if n <= 0 {
		return interval{}, false
	}
	if sp.suffix {
		if sp.last == 0 {
			return interval{}, false
		}
		if sp.last >= uint64(n) {
			return interval{0, n - 1}, true
		}
		return interval{n - int64(sp.last), n - 1}, true
	}
	if sp.first >= uint64(n) {
		return interval{}, false
	}
	e := n - 1
	if sp.hasLast && sp.last < uint64(n) {
		e = int64(sp.last)
	}
	return interval{int64(sp.first), e}, true
}

func satisfiable(specs []spec, n int64) (ivs []interval, unsat int) {
	for _, sp := range specs {
		if iv, ok := sp.resolve(n); ok {
			ivs = append(ivs, iv)
		} else {
			unsat++
		}
	}
	return
}

// union returns the merged, sorted set of intervals.
func union(ivs []interval) []interval {
	s := append([]interval{}, ivs...)
	sort.Slice(s, func(i, j int) bool { return s[i].s < s[j].s })
	var out []interval
	for _, iv := range s {
		if len(out) > 0 && iv.s <= out[len(out)-1].e+1 {
			if iv.e > out[len(out)-1].e {
				out[len(out)-1].e = iv.e
			}
			continue
		}
		out = append(out, iv)
	}
	return out
}

func sameIntervals(a, b []interval) bool {
	if len(a) != len(b) {
		return false
	}
	for i := range a {
		if a[i] != b[i] {
			return false
		}
	}
	return true
}

// serverMayIgnore: RFC 7233 section 3.1 lets a server ignore or reject a Range
// with more than two overlapping ranges or with ranges not in ascending order.
func serverMayIgnore(ivs []interval) bool {
	overlapping := 0
	for i := range ivs {
		for j := range ivs {
			if i != j && ivs[i].s <= ivs[j].e && ivs[j].s <= ivs[i].e {
				overlapping++
				break
			}
		}
	}
	if overlapping > 2 {
		return true
	}
	for i := 1; i < len(ivs); i++ {
		if ivs[i].s < ivs[i-1].s {
			return true
		}
	}
	return false
}

// parseContentRange parses "bytes s-e/n".
func parseContentRange(v string) (interval, int64, bool) {
	if !strings.HasPrefix(v, "bytes ") {
		return interval{}, 0, false
	}
	v = v[len("bytes "):]
	slash := strings.IndexByte(v, '/')
	dash := strings.IndexByte(v, '-')
	if slash < 0 || dash < 0 || dash > slash {
		return interval{}, 0, false
	}
	s, err1 := strconv.ParseInt(v[:dash], 10, 64)
	e, err2 := strconv.ParseInt(v[dash+1:slash], 10, 64)
	n, err3 := strconv.ParseInt(v[slash+1:], 10, 64)
	if err1 != nil || err2 != nil || err3 != nil || s < 0 || e < s {
		return interval{}, 0, false
	}
	return interval{s, e}, n, true
}

// response is what was observed for one GET.
type response struct {
	code   int
	header http.Header
	body   []byte
}

// checkPartial verifies a 206 response against the content: every returned
// part names a Content-Range inside the representation and carries exactly
// those bytes; Content-Length equals the body length. It returns the returned
// intervals in response order.
func checkPartial(r response, content []byte) ([]interval, string) {
	n := int64(len(content))
	if cl := r.header.Get("Content-Length"); cl != strconv.Itoa(len(r.body)) {
		return nil, fmt.Sprintf("Content-Length %q but the body has %d bytes", cl, len(r.body))
	}
	checkOne := func(cr string, data []byte) (interval, string) {
		iv, total, ok := parseContentRange(cr)
		if !ok {
			return iv, fmt.Sprintf("malformed Content-Range %q", cr)
		}
		if total != n || iv.e >= n {
			return iv, fmt.Sprintf("Content-Range %q does not fit the representation of %d bytes", cr, n)
		}
		if int64(len(data)) != iv.e-iv.s+1 {
			return iv, fmt.Sprintf("Content-Range %q announces %d bytes, part carries %d", cr, iv.e-iv.s+1, len(data))
		}
		if !bytes.Equal(data, content[iv.s:iv.e+1]) {
			return iv, fmt.Sprintf("wrong bytes for Content-Range %q", cr)
		}
		return iv, ""
	}
	mt, params, err := mime.ParseMediaType(r.header.Get("Content-Type"))
	if err == nil && mt == "multipart/byteranges" {
		if r.header.Get("Content-Range") != "" {
			return nil, "multipart/byteranges response also carries a top-level Content-Range"
		}
		mr := multipart.NewReader(bytes.NewReader(r.body), params["boundary"])
		var ivs []interval
		for {
			p, err := mr.NextRawPart()
			if err == io.EOF {
				break
			}
			if err != nil {
				return nil, "multipart/byteranges body does not parse: " + err.Error()
			}
			data, err := io.ReadAll(p)
			if err != nil {
				return nil, "multipart/byteranges part does not parse: " + err.Error()
			}
			iv, msg := checkOne(p.Header.Get("Content-Range"), data)
			if msg != "" {
				return nil, fmt.Sprintf("part %d: %s", len(ivs), msg)
			}
			ivs = append(ivs, iv)
		}
		if len(ivs) == 0 {
			return nil, "multipart/byteranges body without parts"
		}
		return ivs, ""
	}
	iv, msg := checkOne(r.header.Get("Content-Range"), r.body)
	if msg != "" {
		return nil, msg
	}
	return []interval{iv}, ""
}

func isFull(r response, content []byte) bool {
	return r.code == 200 && bytes.Equal(r.body, content) && r.header.Get("Content-Length") == strconv.Itoa(len(content))
}

// judge is the oracle for one syntactically valid Range header. It returns ""
// when the response is what RFC 7233 demands.
func judge(specs []spec, content []byte, r response) string {
	n := int64(len(content))
	if r.code == -1 {
		return fmt.Sprintf("GET did not complete within %s", stallLimit)
	}
	if r.code == -2 {
		return "GET handler panicked"
	}
	if n == 0 {
		// Nothing can be selected from an empty representation. 416 is the
		// expected answer; a 200 with the (empty) body is RFC-conformant as well.
		if r.code == 416 || isFull(r, content) {
			return ""
		}
		return fmt.Sprintf("empty object: status %d", r.code)
	}
	ivs, _ := satisfiable(specs, n)
	if len(ivs) == 0 {
		if r.code == 416 {
			return ""
		}
		return fmt.Sprintf("no range is satisfiable, expected 416, got %d", r.code)
	}
	if r.code == 200 && serverMayIgnore(ivs) {
		if isFull(r, content) {
			return ""
		}
		return "200 response does not carry the whole representation"
	}
	if r.code != 206 {
		return fmt.Sprintf("%d of %d ranges satisfiable, expected 206, got %d", len(ivs), len(specs), r.code)
	}
	got, msg := checkPartial(r, content)
	if msg != "" {
		return msg
	}
	if sameIntervals(got, ivs) {
		return ""
	}
	// RFC 7233 4.1: a server may coalesce overlapping/adjacent ranges and may
	// reorder; then the returned parts must cover exactly the requested bytes.
	if sameIntervals(union(got), union(ivs)) {
		return ""
	}
	return fmt.Sprintf("returned ranges %v, requested (satisfiable) %v", got, ivs)
}

// judgeInvalid is the (weak) demand for a header that is not a valid
// byte-range-set: no 5xx, and whatever is returned must be right bytes.
func judgeInvalid(content []byte, r response) string {
	switch {
	case r.code < 0:
		return "GET did not complete or panicked"
	case r.code >= 500:
		return fmt.Sprintf("status %d for a malformed Range header", r.code)
	case r.code == 200:
		if !isFull(r, content) {
			return "200 response does not carry the whole representation"
		}
	case r.code == 206:
		if _, msg := checkPartial(r, content); msg != "" {
			return msg
		}
	}
	return ""
}

// ---- running -----------------------------------------------------------------------------------

const bucket = "bkt"
const objKey = "obj"

func writeObject(st storage.Storage, o Obj) ([]byte, []int, error) {
	ctx := context.Background()
	bn := storage.MustNewBucketName(bucket)
	key := storage.MustNewObjectKey(objKey)
	if err := st.CreateBucket(ctx, bn); err != nil {
		return nil, nil, err
	}
	var content []byte
	var edges []int
	bodies := make([][]byte, len(o.Parts))
	for i, p := range o.Parts {
		bodies[i] = p.Bytes()
		content = append(content, bodies[i]...)
		edges = append(edges, len(content))
	}
	switch o.Kind {
	case "put":
		if _, err := st.PutObject(ctx, bn, key, nil, bytes.NewReader(content), nil, nil); err != nil {
			return nil, nil, err
		}
	case "mpu":
		up, err := st.CreateMultipartUpload(ctx, bn, key, nil, nil, nil)
		if err != nil {
			return nil, nil, err
		}
		for i, b := range bodies {
			if _, err := st.UploadPart(ctx, bn, key, up.UploadId, int32(i+1), bytes.NewReader(b), nil); err != nil {
				return nil, nil, fmt.Errorf("UploadPart %d: %w", i+1, err)
			}
		}
		if _, err := st.CompleteMultipartUpload(ctx, bn, key, up.UploadId, nil, nil); err != nil {
			return nil, nil, fmt.Errorf("CompleteMultipartUpload: %w", err)
		}
	case "append":
		if _, err := st.PutObject(ctx, bn, key, nil, bytes.NewReader(bodies[0]), nil, nil); err != nil {
			return nil, nil, err
		}
		for i, b := range bodies[1:] {
			if _, err := st.AppendObject(ctx, bn, key, bytes.NewReader(b), nil, nil); err != nil {
				return nil, nil, fmt.Errorf("AppendObject %d: %w", i+1, err)
			}
		}
	default:
		return nil, nil, fmt.Errorf("unknown object kind %q", o.Kind)
	}
	return content, edges, nil
}

// stallLimit bounds one GET / one storage read of an object of at most ~1 MiB
// that lives in local files or SQLite (normally milliseconds). A read that does
// not finish in this time is reported as "does not return the slice"; the
// limit is far above anything machine load can explain.
const stallLimit = 90 * time.Second

// withWatchdog runs f and reports whether it finished within stallLimit. A
// stalled f keeps running on its goroutine (it cannot be cancelled).
func withWatchdog(f func()) bool {
	done := make(chan struct{})
	go func() {
		defer close(done)
		defer func() { _ = recover() }()
		f()
	}()
	select {
	case <-done:
		return true
	case <-time.After(stallLimit):
		return false
	}
}

func get(h http.Handler, rangeHeader *string) response {
	var hdr http.Header
	if rangeHeader != nil {
		hdr = http.Header{"Range": []string{*rangeHeader}}
	}
	var r response
	panicked := true
	ok := withWatchdog(func() {
		rec := s3http.Do(h, "GET", "/"+bucket+"/"+objKey, nil, hdr, nil)
		r = recToResponse(rec)
		panicked = false
	})
	if !ok {
		return response{code: -1}
	}
	if panicked {
		return response{code: -2}
	}
	return r
}

func recToResponse(rec *httptest.ResponseRecorder) response {
	return response{code: rec.Code, header: rec.Header(), body: rec.Body.Bytes()}
}

const maxInt64 = uint64(1<<63 - 1)

// toStorageRanges converts specs the way the HTTP layer is documented to
// (exclusive end, suffix as Start=nil). ok=false when a first-byte-pos or a
// suffix length cannot be represented.
func toStorageRanges(specs []spec) ([]storage.ByteRange, bool) {
	var out []storage.ByteRange
	for _, sp := range specs {
		if sp.suffix {
			n := sp.last
			if n > maxInt64 {
				n = maxInt64
			}
			e := int64(n)
			out = append(out, storage.ByteRange{End: &e})
			continue
		}
		if sp.first > maxInt64 {
			return nil, false
		}
		s := int64(sp.first)
		br := storage.ByteRange{Start: &s}
		if sp.hasLast {
			e := int64(maxInt64)
			if sp.last < maxInt64 {
				e = int64(sp.last) + 1
			}
			br.End = &e
		}
		out = append(out, br)
	}
	return out, true
}

// checkStorage exercises storage.GetObject with ByteRange values. The storage
// contract returns one reader per range, so it cannot drop an unsatisfiable
// member: all satisfiable => exact slices; none satisfiable => ErrInvalidRange;
// mixed => either, but never wrong bytes.
func checkStorage(st storage.Storage, specs []spec, content []byte) string {
	msg := "storage.GetObject panicked"
	if !withWatchdog(func() { msg = checkStorageInner(st, specs, content) }) {
		return fmt.Sprintf("storage.GetObject / reading its readers did not complete within %s", stallLimit)
	}
	return msg
}

func checkStorageInner(st storage.Storage, specs []spec, content []byte) string {
	ranges, ok := toStorageRanges(specs)
	if !ok {
		return ""
	}
	n := int64(len(content))
	ivs, unsat := satisfiable(specs, n)
	_, readers, err := st.GetObject(context.Background(), storage.MustNewBucketName(bucket), storage.MustNewObjectKey(objKey), ranges, nil)
	if err != nil {
		if !errors.Is(err, storage.ErrInvalidRange) {
			return "storage.GetObject: unexpected error: " + err.Error()
		}
		if unsat == 0 {
			return fmt.Sprintf("storage.GetObject: ErrInvalidRange although all %d ranges are satisfiable", len(specs))
		}
		return ""
	}
	defer func() {
		for _, r := range readers {
			r.Close()
		}
	}()
	if len(ivs) == 0 && n > 0 {
		return "storage.GetObject: no error although no range is satisfiable"
	}
	if unsat > 0 {
		// mixed list accepted by the storage: only demand that nothing wrong is returned
		for _, r := range readers {
			data, err := io.ReadAll(r)
			if err != nil {
				return "storage.GetObject: read: " + err.Error()
			}
			if !bytes.Contains(content, data) {
				return "storage.GetObject: a reader of a mixed range list returned bytes that are no slice of the content"
			}
		}
		return ""
	}
	if len(readers) != len(ivs) {
		return fmt.Sprintf("storage.GetObject: %d readers for %d ranges", len(readers), len(ivs))
	}
	for i, r := range readers {
		data, err := io.ReadAll(r)
		if err != nil {
			return fmt.Sprintf("storage.GetObject: reader %d: %v", i, err)
		}
		if !bytes.Equal(data, content[ivs[i].s:ivs[i].e+1]) {
			return fmt.Sprintf("storage.GetObject: reader %d (bytes %d-%d) returned %d bytes that differ from the slice", i, ivs[i].s, ivs[i].e, len(data))
		}
	}
	return ""
}

// knownExplains recognises the two halves of DESIGN D8.
//
//	KF-C05-1 (c05.hugeLastBytePos): a last-byte-pos >= 2^63-1 (end+1 overflows, or the
//	  number does not parse as int64) makes the request 416 although it is satisfiable.
//	KF-C05-2 (c05.listAllOrNothing): a list that mixes satisfiable and unsatisfiable
//	  members is answered 416 as a whole.
func knownExplains(env *ev.Env, specs []spec, n int64, r response) string {
	if r.code != 416 || n == 0 {
		return ""
	}
	ivs, unsat := satisfiable(specs, n)
	if len(ivs) == 0 {
		return ""
	}
	if env.Known("c05.hugeLastBytePos") {
		for _, sp := range specs {
			if !sp.suffix && sp.hasLast && sp.last >= maxInt64 {
				return "KF-C05-1"
			}
			if sp.suffix && sp.last > maxInt64 {
				return "KF-C05-1"
			}
		}
	}
	if env.Known("c05.listAllOrNothing") && unsat > 0 && len(specs) > 1 {
		return "KF-C05-2"
	}
	return ""
}

func crossesEdge(iv interval, edges []int) bool {
	for _, e := range edges {
		if iv.s < int64(e) && iv.e >= int64(e) {
			return true
		}
	}
	return false
}

func runCase(env *ev.Env, c Case) (o ev.Outcome) {
	dir := env.TempDir()
	defer os.RemoveAll(dir)
	inst, err := stacks.Open(dir, stacks.LayoutFor(c.Stack), stacks.Options{})
	if err != nil {
		o.Failf("harness: open %s: %v", c.Stack, err)
		return
	}
	defer inst.Close()
	content, edges, err := writeObject(inst.Storage, c.Obj)
	if err != nil {
		o.Failf("harness: writing the object failed: %v", err)
		return
	}
	h := s3http.NewHandler(inst.Storage)
	n := int64(len(content))
	o.Class("stack:" + c.Stack)
	o.Class("obj:" + c.Obj.Kind)
	o.Class(fmt.Sprintf("boundaries:%d", len(c.Obj.Parts)-1))
	if n == 0 {
		o.Class("size:0")
	}

	// no Range header: 200 and the whole body
	o.Sub++
	if r := get(h, nil); r.code < 0 {
		o.Failf("GET without Range on %s object of %d bytes (part edges %v), stack %s: %s", c.Obj.Kind, n, edges, c.Stack, judge(nil, content, r))
		return
	} else if !isFull(r, content) {
		o.Failf("GET without Range: status %d, %d body bytes, Content-Length %q; expected 200 with the %d content bytes", r.code, len(r.body), r.header.Get("Content-Length"), n)
		return
	}

	for hi, hv := range c.Headers {
		specs, ok := parseRange(hv)
		if !ok {
			o.Failf("harness: generated header %q is not a valid byte-range-set", hv)
			return
		}
		ivs, unsat := satisfiable(specs, n)
		cross, beyond, longSuffix := false, false, false
		for _, iv := range ivs {
			if crossesEdge(iv, edges[:len(edges)-1]) {
				cross = true
			}
		}
		for _, sp := range specs {
			if !sp.suffix && sp.hasLast && sp.last >= uint64(n) && sp.first < uint64(n) {
				beyond = true
			}
			if sp.suffix && sp.last > uint64(n) && n > 0 {
				longSuffix = true
			}
		}
		mixed := len(ivs) > 0 && unsat > 0
		if cross {
			o.Class("range:crosses-part-boundary")
		}
		if beyond {
			o.Class("range:end>=size")
		}
		if longSuffix {
			o.Class("range:suffix>size")
		}
		if mixed {
			o.Class("range:mixed-list")
		}
		switch {
		case len(specs) > 1:
			o.Class("form:list")
		case specs[0].suffix:
			o.Class("form:suffix")
		case specs[0].hasLast:
			o.Class("form:first-last")
		default:
			o.Class("form:open-ended")
		}
		if len(ivs) == 0 {
			o.Class("expect:416")
		} else if len(ivs) > 1 {
			o.Class("expect:multipart")
		} else {
			o.Class("expect:206-single")
		}
		if cross || beyond || longSuffix || mixed {
			o.NonTrivial = true
		}

		o.Sub++
		r := get(h, &hv)
		if msg := judge(specs, content, r); msg != "" {
			if kf := knownExplains(env, specs, n, r); kf != "" {
				o.KnownHits = append(o.KnownHits, kf)
				o.Class("known:" + kf)
			} else {
				o.Failf("header %d %q on %s object of %d bytes (part edges %v), stack %s: %s", hi, hv, c.Obj.Kind, n, edges, c.Stack, msg)
				return
			}
		}
		o.Sub++
		if msg := checkStorage(inst.Storage, specs, content); msg != "" {
			o.Failf("header %d %q on %s object of %d bytes (part edges %v), stack %s: %s", hi, hv, c.Obj.Kind, n, edges, c.Stack, msg)
			return
		}
	}
	return
}

// ---- generator ---------------------------------------------------------------------------------------

var c05Stacks = []string{"P1", "P2", "P3", "P4", "P7", "P8"}

const tinkSeg0, tinkSegN = 131016, 131056

func genPartSize(t *rapid.T, big bool) int {
	switch k := rapid.IntRange(0, 11).Draw(t, "sizeClass"); {
	case k == 0:
		return 1
	case k <= 4:
		return rapid.IntRange(2, 64).Draw(t, "small")
	case k <= 7:
		return rapid.SampledFrom([]int{1023, 1024, 1025, 2047, 2048, 2049, 3072, 4097}).Draw(t, "stripe")
	case k <= 9 || !big:
		return rapid.IntRange(65, 6000).Draw(t, "medium")
	default:
		return rapid.SampledFrom([]int{tinkSeg0 - 1, tinkSeg0, tinkSeg0 + 1, tinkSeg0 + tinkSegN, tinkSeg0 + tinkSegN + 1, 65536, 262144, 262145}).Draw(t, "large")
	}
}

func interesting(n int64, edges []int) []uint64 {
	vals := []uint64{0, 1, 1 << 31, uint64(maxInt64) - 1}
	add := func(v int64) {
		if v >= 0 {
			vals = append(vals, uint64(v))
		}
	}
	for _, d := range []int64{-2, -1, 0, 1} {
		add(n + d)
	}
	start := 0
	for _, e := range edges {
		for _, d := range []int64{-1, 0, 1} {
			add(int64(e) + d)
		}
		// segment edges of the seekable decrypt path inside this part
		for _, off := range []int{tinkSeg0, tinkSeg0 + tinkSegN} {
			if start+off < e {
				for _, d := range []int64{-1, 0, 1} {
					add(int64(start+off) + d)
				}
			}
		}
		// erasure-coding stripe edges inside this part
		for _, off := range []int{1024, 2048} {
			if start+off < e {
				add(int64(start + off))
				add(int64(start+off) - 1)
			}
		}
		start = e
	}
	return vals
}

// genValue draws a byte position. first=true: a first-byte-pos, which is kept
// below the size most of the time so that most ranges (and most lists) are
// satisfiable and the search continues behind the two known 416 findings.
func genValue(t *rapid.T, n int64, vals []uint64, first bool) uint64 {
	var v uint64
	if rapid.IntRange(0, 9).Draw(t, "valKind") < 7 {
		v = rapid.SampledFrom(vals).Draw(t, "val")
	} else {
		v = uint64(rapid.Int64Range(0, n+2).Draw(t, "anyVal"))
	}
	if first && n > 0 && v >= uint64(n) && rapid.IntRange(0, 9).Draw(t, "keepBeyond") != 5 {
		v %= uint64(n)
	}
	return v
}

func fmtNum(t *rapid.T, v uint64) string {
	s := strconv.FormatUint(v, 10)
	if rapid.IntRange(0, 19).Draw(t, "leadingZero") == 7 {
		s = "00" + s
	}
	return s
}

func genSpec(t *rapid.T, n int64, vals []uint64) string {
	switch rapid.IntRange(0, 9).Draw(t, "specKind") {
	case 0, 1: // suffix
		v := genValue(t, n, vals, false)
		if rapid.IntRange(0, 3).Draw(t, "smallSuffix") == 0 {
			v = uint64(rapid.IntRange(1, 3).Draw(t, "sfx"))
		}
		if rapid.IntRange(0, 19).Draw(t, "zeroSuffix") == 11 {
			v = 0
		}
		return "-" + fmtNum(t, v)
	case 2, 3: // open ended
		return fmtNum(t, genValue(t, n, vals, true)) + "-"
	default:
		a, b := genValue(t, n, vals, true), genValue(t, n, vals, false)
		if a > b {
			a, b = b, a
		}
		if rapid.IntRange(0, 24).Draw(t, "beyondInt64") == 17 {
			return fmtNum(t, a) + "-" + rapid.SampledFrom([]string{"9223372036854775807", "9223372036854775807", "9223372036854775808", "18446744073709551616", "99999999999999999999999"}).Draw(t, "hugeLast")
		}
		return fmtNum(t, a) + "-" + fmtNum(t, b)
	}
}

func genHeader(t *rapid.T, n int64, vals []uint64) string {
	k := 1
	if rapid.IntRange(0, 9).Draw(t, "isList") < 4 {
		k = rapid.IntRange(2, 4).Draw(t, "listLen")
	}
	var sb strings.Builder
	sb.WriteString("bytes=")
	for i := 0; i < k; i++ {
		if i > 0 {
			sb.WriteString(rapid.SampledFrom([]string{",", ",", ", ", " ,", " , ", ",\t"}).Draw(t, "sep"))
		}
		sb.WriteString(genSpec(t, n, vals))
	}
	return sb.String()
}

func gen5(t *rapid.T, env *ev.Env) Case {
	var c Case
	c.Stack = rapid.SampledFrom(c05Stacks).Draw(t, "stack")
	big := rapid.IntRange(0, 5).Draw(t, "big") == 0
	nParts := rapid.SampledFrom([]int{1, 1, 2, 2, 2, 3, 3, 4}).Draw(t, "nparts")
	if nParts == 1 {
		c.Obj.Kind = "put"
		if rapid.IntRange(0, 2).Draw(t, "singleMpu") == 0 {
			c.Obj.Kind = "mpu"
		}
	} else {
		c.Obj.Kind = rapid.SampledFrom([]string{"mpu", "mpu", "append"}).Draw(t, "kind")
	}
	var edges []int
	total := 0
	for i := 0; i < nParts; i++ {
		sz := genPartSize(t, big)
		if nParts == 1 && rapid.IntRange(0, 14).Draw(t, "empty") == 0 {
			sz = 0
		}
		c.Obj.Parts = append(c.Obj.Parts, gen.BodySpec{Kind: rapid.SampledFrom([]string{"rand", "rand", "text", "zero"}).Draw(t, "body"), Len: sz, Seed: uint64(rapid.IntRange(0, 5).Draw(t, "seed"))})
		total += sz
		edges = append(edges, total)
	}
	vals := interesting(int64(total), edges)
	nh := rapid.IntRange(6, 20).Draw(t, "nheaders")
	for i := 0; i < nh; i++ {
		c.Headers = append(c.Headers, genHeader(t, int64(total), vals))
	}
	return c
}

func TestC05(t *testing.T) {
	ev.Main(t, ev.Spec[Case]{
		ID:    "C05",
		Level: "exploration",
		Rule: "a case = one object (put / multipart with 1-4 small parts / put+appends; part sizes 1..6000 or at tink-segment, EC-stripe and 256 KiB edges; occasionally empty) on a drawn stack (P1 sql, P2 fs, P3 zstd, P4 tink seekable, P7 tink>gzip, P8 erasure coding) " +
			"and 6-20 syntactically valid Range headers (first-last, first-, -n, lists of 2-4, optional whitespace, leading zeros; values from {0,1,part edges±1,segment edges±1,size-2..size+1,2^31,2^63-2,2^63-1,>2^63} or uniform), each sent through the HTTP handler and through storage.GetObject; " +
			"non-trivial = some range crosses a part boundary, or has last-byte-pos >= size, or is a suffix longer than the object, or a list mixes satisfiable and unsatisfiable members; distinct = distinct case JSON",
		Assumptions: []string{
			"oracle = own RFC 7233 evaluator over the bytes that were written (content is a deterministic function of the case)",
			"multipart/byteranges bodies are parsed with mime/multipart; coalesced or reordered parts are accepted when they cover exactly the requested bytes (RFC 7233 4.1)",
			"empty object with a Range header: 416 (or 200 with the empty body) accepted",
			"storage level: one reader per range, so a list with an unsatisfiable member may be rejected as a whole there; only wrong bytes are a violation in that class",
		},
		Gen: gen5,
		Run: runCase,
		Directed: func(env *ev.Env) []Case {
			part := func(n int, seed uint64) gen.BodySpec { return gen.BodySpec{Kind: "rand", Len: n, Seed: seed} }
			hs := []string{"bytes=0-0", "bytes=0-", "bytes=-1", "bytes=9-10", "bytes=10-", "bytes=19-", "bytes=20-", "bytes=-20", "bytes=-21", "bytes=-0",
				"bytes=0-19", "bytes=0-20", "bytes=5-14", "bytes=0-0,19-19", "bytes=0-4, 10-14 ,18-", "bytes=0-9223372036854775806", "bytes=3-2147483648"}
			var out []Case
			for _, s := range c05Stacks {
				out = append(out, Case{Stack: s, Obj: Obj{Kind: "mpu", Parts: []gen.BodySpec{part(10, 1), part(10, 2)}}, Headers: hs})
				out = append(out, Case{Stack: s, Obj: Obj{Kind: "append", Parts: []gen.BodySpec{part(7, 1), part(6, 2), part(7, 3)}}, Headers: hs})
			}
			return out
		},
	})
}

// ---- native fuzz target (thorough tier) -----------------------------------------------------------------

type fuzzFixture struct {
	inst    *stacks.Instance
	h       http.Handler
	content []byte
}

var (
	fuzzOnce sync.Once
	fuzzFix  []*fuzzFixture
	fuzzEnv  *ev.Env
	fuzzErr  error
)

func fuzzSetup() {
	fuzzEnv = ev.FuzzEnv("C05")
	for i, stack := range []string{"P2", "P4", "P1"} {
		dir := env2dir(fuzzEnv)
		inst, err := stacks.Open(dir, stacks.LayoutFor(stack), stacks.Options{})
		if err != nil {
			fuzzErr = err
			return
		}
		obj := Obj{Kind: "mpu", Parts: []gen.BodySpec{{Kind: "rand", Len: 700, Seed: uint64(i)}, {Kind: "text", Len: 1, Seed: 1}, {Kind: "rand", Len: 1300, Seed: 2}}}
		content, _, err := writeObject(inst.Storage, obj)
		if err != nil {
			fuzzErr = err
			return
		}
		fuzzFix = append(fuzzFix, &fuzzFixture{inst: inst, h: s3http.NewHandler(inst.Storage), content: content})
	}
}

func env2dir(env *ev.Env) string { return env.TempDir() }

// FuzzC05 mutates the Range header string against fixed objects (2001 bytes in
// three parts on P2, P4 and P1). Valid byte-range-sets are judged by the same
// oracle as TestC05; anything else only by "no 5xx, never wrong bytes".
func FuzzC05(f *testing.F) {
	for _, s := range []string{"bytes=0-0", "bytes=0-", "bytes=-1", "bytes=699-701", "bytes=0-1,5-6", "bytes=-0", "bytes=2000-", "bytes=2001-",
		"bytes=0-9223372036854775807", "bytes=0-0,3000-", "bytes=5-2", "bytes=", "bytes=a-b", "bits=0-1", "bytes=0-1,", "bytes=0--1", "bytes=-", "bytes=1-2-3",
		"bytes=18446744073709551615-", "bytes=-9223372036854775808", "bytes= 0-1", "bytes=0 -1", "bytes=0-1;2-3", "BYTES=0-1", "bytes=0-1\x00", "bytes=+1-2"} {
		f.Add(s, uint8(0))
	}
	f.Fuzz(func(t *testing.T, header string, which uint8) {
		fuzzOnce.Do(fuzzSetup)
		if fuzzErr != nil {
			t.Skip("fixture: " + fuzzErr.Error())
		}
		// net/http refuses to carry these in a header value; not the subject here
		if strings.ContainsAny(header, "\r\n") {
			return
		}
		fx := fuzzFix[int(which)%len(fuzzFix)]
		r := get(fx.h, &header)
		if header == "" {
			if !isFull(r, fx.content) {
				t.Fatalf("empty Range header: status %d", r.code)
			}
			return
		}
		specs, ok := parseRange(header)
		if !ok {
			if msg := judgeInvalid(fx.content, r); msg != "" {
				t.Fatalf("malformed Range %q: %s", header, msg)
			}
			return
		}
		if msg := judge(specs, fx.content, r); msg != "" {
			if knownExplains(fuzzEnv, specs, int64(len(fx.content)), r) == "" {
				t.Fatalf("Range %q: %s", header, msg)
			}
		}
	})
}
