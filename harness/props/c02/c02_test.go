package c02

import (
	"fmt"
	"testing"

	"github.com/jdillenkofer/pithos/verifharness/dump"
	"github.com/jdillenkofer/pithos/verifharness/ev"
	"github.com/jdillenkofer/pithos/verifharness/gen"
	"github.com/jdillenkofer/pithos/verifharness/prog"
	"github.com/jdillenkofer/pithos/verifharness/run"
	"github.com/jdillenkofer/pithos/verifharness/stacks"
	"pgregory.net/rapid"
)

var names = run.Names{Buckets: []string{"vbucket"}, Keys: []string{"k", "dir/k2", "K"}}

func genCfg(thorough bool) prog.GenConfig {
	return prog.GenConfig{
		Buckets: 1, Keys: 3, MinOps: 6, MaxOps: 36,
		Weights: map[string]int{
			prog.OpSetVersioning: 5, prog.OpPut: 10, prog.OpCopy: 3, prog.OpAppend: 3, prog.OpMpuSeq: 4,
			prog.OpMpuCreate: 2, prog.OpMpuPart: 3, prog.OpMpuComplete: 3, prog.OpDelete: 10, prog.OpDeleteObjects: 1,
			prog.OpGet: 2, prog.OpHead: 1, prog.OpReopen: 1,
		},
		Versions: true, Conditions: false, InterleaveSeq: true, HotKey: true, Boundaries: []int{1024}, MaxBody: 3000,
		Prelude: []prog.Op{{Kind: prog.OpCreateBucket, B: 0}},
	}
}

func genCase(t *rapid.T, env *ev.Env) run.ProgCase {
	stack := rapid.SampledFrom([]string{"P1", "P2"}).Draw(t, "stack")
	c := run.ProgCase{Stack: stack}
	c.Ops = genCfg(env.Thorough()).Gen(t)
	// most programs switch versioning on early so that versions accumulate
	if rapid.IntRange(0, 4).Draw(t, "earlyEnable") > 0 {
		pos := rapid.IntRange(1, 3).Draw(t, "enablePos")
		if pos > len(c.Ops) {
			pos = len(c.Ops)
		}
		st := rapid.SampledFrom([]string{"Enabled", "Enabled", "Suspended"}).Draw(t, "earlyStatus")
		ops := append([]prog.Op{}, c.Ops[:pos]...)
		ops = append(ops, prog.Op{Kind: prog.OpSetVersioning, B: 0, Status: st})
		c.Ops = append(ops, c.Ops[pos:]...)
	}
	// a third of the programs contain a scenario fragment on key 0 that builds a
	// long version history (in-place null overwrites, a late complete) and then
	// deletes the current version by id; each op of the fragment is kept with
	// probability ~0.85 so the fragments vary.
	if rapid.IntRange(0, 2).Draw(t, "fragment") == 0 {
		body := func(n int) *gen.BodySpec { return &gen.BodySpec{Kind: "rand", Len: n, Seed: uint64(n)} }
		var frag []prog.Op
		if rapid.Bool().Draw(t, "fragShape") {
			frag = []prog.Op{
				{Kind: prog.OpSetVersioning, Status: "Enabled"}, {Kind: prog.OpPut, Body: body(1)},
				{Kind: prog.OpSetVersioning, Status: "Suspended"}, {Kind: prog.OpPut, Body: body(2)},
				{Kind: prog.OpSetVersioning, Status: "Enabled"}, {Kind: prog.OpPut, Body: body(3)},
				{Kind: prog.OpSetVersioning, Status: "Suspended"}, {Kind: prog.OpPut, Body: body(4)},
				{Kind: prog.OpSetVersioning, Status: "Enabled"}, {Kind: prog.OpPut, Body: body(5)},
				{Kind: prog.OpDelete, Ver: "cur"}, {Kind: prog.OpDelete, Ver: "cur"},
			}
		} else {
			frag = []prog.Op{
				{Kind: prog.OpSetVersioning, Status: "Enabled"}, {Kind: prog.OpPut, Body: body(1)},
				{Kind: prog.OpMpuCreate}, {Kind: prog.OpMpuPart, Upload: prog.LastUpload, PartNo: 1, Body: body(7)},
				{Kind: prog.OpPut, Body: body(2)}, {Kind: prog.OpMpuComplete, Upload: prog.LastUpload},
				{Kind: prog.OpPut, Body: body(3)}, {Kind: prog.OpDelete, Ver: "cur"}, {Kind: prog.OpDelete, Ver: "cur"},
			}
		}
		var kept []prog.Op
		for i := range frag {
			if rapid.IntRange(0, 6).Draw(t, "fragKeep") > 0 {
				kept = append(kept, frag[i])
			}
		}
		pos := rapid.IntRange(1, len(c.Ops)).Draw(t, "fragPos")
		ops := append([]prog.Op{}, c.Ops[:pos]...)
		ops = append(ops, kept...)
		c.Ops = append(ops, c.Ops[pos:]...)
	}
	return c
}

// stats for the non-triviality rule
type facts struct {
	stateChanges     int
	inPlaceNull      bool // a null version was overwritten in place while other versions existed
	lateComplete     bool // a multipart upload completed after a later write to the same key
	deletedLatest    bool // a version-id delete (or marker delete) removed the then-latest version
	versionsReadByID int
}

func runCase(env *ev.Env, c run.ProgCase) ev.Outcome {
	var st run.ProgStats
	var f facts
	uploadSeqAtCreate := map[string]int{} // key -> number of writes at create time (approximation by step index)
	writesPerKey := map[string]int{}
	tolerate := func(sr *run.StepResult, diff string) (string, bool) { return "", false }
	after := func(s *run.Session, inst *stacks.Instance, sr *run.StepResult, o *ev.Outcome) bool {
		if sr.Expect.Err != "" || sr.Expect.FailOrOK {
			return false
		}
		b, k := sr.Concrete.Bucket, sr.Concrete.Key
		bk := b + "/" + k
		switch sr.Op.Kind {
		case prog.OpMpuCreate:
			uploadSeqAtCreate[sr.Expect.UploadID] = writesPerKey[bk]
		case prog.OpPut, prog.OpCopy, prog.OpAppend:
			mb := s.Model.Buckets[b]
			if mb != nil && mb.Versioning != "Enabled" && len(mb.Keys[k]) > 1 {
				f.inPlaceNull = true
			}
			writesPerKey[bk]++
		case prog.OpMpuComplete:
			// the model's upload id of this step is gone now; compare write counters
			if n, ok := uploadSeqAtCreate[mcUpload(s, sr)]; ok && writesPerKey[bk] > n {
				f.lateComplete = true
			}
			writesPerKey[bk]++
		case prog.OpDelete:
			if sr.Concrete.VersionID != nil && sr.Expect.Version != "" {
				// was it the latest? after removal we cannot tell directly; the driver
				// records it before the step through deletedLatestProbe
			}
		}
		// every live model version must be readable by the id the write returned
		side := s.Sides[0]
		for bn, mb := range s.Model.Buckets {
			for key, vs := range mb.Keys {
				for _, v := range vs {
					id := s.ImplID(bn, key, v.ID, 0)
					if id == "" {
						continue
					}
					idc := id
					r := side.Do(prog.Concrete{Op: prog.Op{Kind: prog.OpGet}, Bucket: bn, Key: key, VersionID: &idc})
					o.Sub++
					if v.Marker {
						if r.Err != prog.EVersionDM {
							o.Failf("step %s: delete marker %s of %s/%s read by id: got %q (%s), want VersionIsDeleteMarker", sr.Op.Kind, v.ID, bn, key, r.Err, r.ErrText)
							return true
						}
						continue
					}
					if r.Err != "" {
						o.Failf("step %s: live version %s (impl id %s) of %s/%s is not readable by id: %s (%s)", sr.Op.Kind, v.ID, id, bn, key, r.Err, r.ErrText)
						return true
					}
					f.versionsReadByID++
					want := v.View(true)
					if d := prog.CompareObj("get-by-id", *want, *r.Obj); len(d) > 0 {
						o.Failf("step %s: version %s (impl id %s) of %s/%s read by id differs from what was written: %v", sr.Op.Kind, v.ID, id, bn, key, d)
						return true
					}
					if id != "null" && r.Obj.Version != id {
						o.Failf("step %s: get by version id %s returned version id %q", sr.Op.Kind, id, r.Obj.Version)
						return true
					}
				}
			}
		}
		return false
	}
	// wrap the program so that "deleted the then-latest version" is observed before the step
	o := run.RunModelProgram(env, c, run.ModelRunOptions{
		Dump: dump.Options{Versions: true}, Names: names, Stats: &st, Tolerate: tolerate, AfterStep: after,
		Setup: func(s *run.Session) {
			// known finding KF-C02-1: promotion after deleting the current version picks the youngest row
			s.Model.PromoteByRowCreation = env.Known("c02.promoteByRowCreation")
		},
		Final: func(s *run.Session, o *ev.Outcome) {
			if s.Model.PromoteByRowCreation {
				for i := 0; i < s.Model.PromotionDiffers; i++ {
					o.KnownHits = append(o.KnownHits, "KF-C02-1")
				}
			}
			o.Count("promotion_choice_differs_from_row_creation_order", s.Model.PromotionDiffers)
		},
		BeforeStep: func(s *run.Session, op prog.Op) {
			if op.Kind != prog.OpDelete || op.Ver == "" {
				return
			}
			c := s.Resolve(op, -1)
			mb := s.Model.Buckets[c.Bucket]
			if mb == nil || c.VersionID == nil {
				return
			}
			if cur := mb.Current(c.Key); cur != nil && cur.ID == *c.VersionID && len(mb.Keys[c.Key]) > 1 {
				f.deletedLatest = true
			}
		},
	})
	f.stateChanges = st.VersioningSets
	o.NonTrivial = f.stateChanges >= 2 && (f.inPlaceNull || f.lateComplete) && f.deletedLatest
	if f.inPlaceNull {
		o.Class("in-place-null-overwrite")
	}
	if f.lateComplete {
		o.Class("late-complete")
	}
	if f.deletedLatest {
		o.Class("deleted-then-latest-version")
	}
	o.Class(fmt.Sprintf("versioning-changes:%d", min(f.stateChanges, 4)))
	o.Count("versions_read_by_id", f.versionsReadByID)
	for k, v := range st.OKByKind {
		o.Count("ok:"+k, v)
	}
	return o
}

func mcUpload(s *run.Session, sr *run.StepResult) string {
	return s.Resolve(sr.Op, -1).UploadID
}

func TestC02(t *testing.T) {
	ev.Main(t, ev.Spec[run.ProgCase]{
		ID:    "C02",
		Level: "exploration",
		Rule: "programs of 6-36 generated ops over 1 bucket x 3 keys mixing PutBucketVersioning(Enabled/Suspended), put, copy, append, multipart, key-only and version-id deletes on stacks P1/P2; " +
			"non-trivial = >=2 versioning-state changes AND (a null version overwritten in place while other versions exist OR a multipart upload completed after a later write to its key) AND a version-id delete of the then-latest version; distinct = distinct case JSON",
		Assumptions: []string{"reference model of DESIGN.md 2.3.1 (versions kept in write order; current = last written surviving version)"},
		Gen:         genCase,
		Run:         runCase,
	})
}
