package c12

import (
	"bytes"
	"context"
	"fmt"
	"os"
	"strings"
	"sync"
	"testing"
	"time"

	"github.com/anishathalye/porcupine"
	"github.com/prometheus/client_golang/prometheus"

	repositoryFactory "github.com/jdillenkofer/pithos/internal/storage/database/repository"
	"github.com/jdillenkofer/pithos/internal/storage/middlewares/delegator"
	"github.com/jdillenkofer/pithos/internal/storage/outbox"
	"github.com/jdillenkofer/pithos/internal/storage"
	"github.com/jdillenkofer/pithos/verifharness/dump"
	"github.com/jdillenkofer/pithos/verifharness/ev"
	"github.com/jdillenkofer/pithos/verifharness/prog"
	"github.com/jdillenkofer/pithos/verifharness/run"
	"github.com/jdillenkofer/pithos/verifharness/stacks"
	"pgregory.net/rapid"
)

var names = run.Names{Buckets: []string{"app-a"}, Keys: []string{"k", "dir/k2"}}

// WOp is one step of a concurrent worker on the single shared key.
type WOp struct {
	Kind   string `json:"kind"`   // append | appendAt | put | delete | get
	Len    int    `json:"len"`    // chunk length
	Offset string `json:"offset"` // appendAt: "last" (size this worker last saw) | "zero" | "guess" (sum of chunk lengths it appended itself)
}

type Case struct {
	Mode       string    `json:"mode"` // seq | conc
	Stack      string    `json:"stack"`
	Versioning string    `json:"versioning"` // "", Enabled, Suspended
	Ops        []prog.Op `json:"ops,omitempty"`
	Workers    [][]WOp   `json:"workers,omitempty"`
	Outbox     bool      `json:"outbox,omitempty"` // conc: storage outbox (real worker) in front of the storage
}

func seqCfg() prog.GenConfig {
	return prog.GenConfig{
		Buckets: 1, Keys: 2, MinOps: 8, MaxOps: 40,
		Weights: map[string]int{prog.OpAppend: 20, prog.OpPut: 5, prog.OpDelete: 4, prog.OpSetVersioning: 3, prog.OpGet: 3, prog.OpMpuSeq: 2, prog.OpCopy: 2, prog.OpReopen: 1},
		Versions: true, Supplied: true, HotKey: true, Boundaries: []int{1024, 65536}, MaxBody: 70000,
		Prelude: []prog.Op{{Kind: prog.OpCreateBucket, B: 0}},
	}
}

func genCase(t *rapid.T, env *ev.Env) Case {
	stack := rapid.SampledFrom([]string{"P2", "P1", "P3", "N1"}).Draw(t, "stack")
	if rapid.Bool().Draw(t, "seq") {
		return Case{Mode: "seq", Stack: stack, Ops: seqCfg().Gen(t)}
	}
	c := Case{Mode: "conc", Stack: rapid.SampledFrom([]string{"P2", "P1"}).Draw(t, "cstack"), Versioning: rapid.SampledFrom([]string{"", "", "Enabled", "Suspended"}).Draw(t, "versioning")}
	c.Outbox = rapid.IntRange(0, 2).Draw(t, "outbox") == 0
	nw := rapid.IntRange(2, 6).Draw(t, "workers")
	for w := 0; w < nw; w++ {
		n := rapid.IntRange(2, 7).Draw(t, "nops")
		var ops []WOp
		for i := 0; i < n; i++ {
			op := WOp{Kind: rapid.SampledFrom([]string{"append", "append", "append", "appendAt", "appendAt", "put", "delete", "get"}).Draw(t, "kind"), Len: rapid.SampledFrom([]int{1, 8, 40, 2000}).Draw(t, "len")}
			if op.Kind == "appendAt" {
				op.Offset = rapid.SampledFrom([]string{"last", "last", "zero", "guess"}).Draw(t, "off")
			}
			ops = append(ops, op)
		}
		c.Workers = append(c.Workers, ops)
	}
	return c
}

func runSeq(env *ev.Env, c Case) ev.Outcome {
	var st run.ProgStats
	rejected, acceptedAfterReject := false, false
	o := run.RunModelProgram(env, run.ProgCase{Stack: c.Stack, Ops: c.Ops}, run.ModelRunOptions{
		Dump: dump.Options{Versions: true}, Names: names, Stats: &st,
		Setup: func(s *run.Session) { s.Model.PromoteByRowCreation = true },
		AfterStep: func(s *run.Session, inst *stacks.Instance, sr *run.StepResult, o *ev.Outcome) bool {
			if sr.Op.Kind == prog.OpAppend && sr.Op.Offset != "" {
				if sr.Expect.Err == prog.EInvalidWriteOffset {
					rejected = true
				} else if sr.Expect.Err == "" && rejected {
					acceptedAfterReject = true
				}
			}
			return false
		},
	})
	o.Class("mode:seq")
	o.NonTrivial = acceptedAfterReject
	o.Count("ok:append", st.OKByKind[prog.OpAppend])
	o.Count("fail:append", st.FailByKind[prog.OpAppend])
	return o
}

// ---- concurrent part ---------------------------------------------------------------

type input struct {
	kind   string
	token  string // the chunk (append) or whole body (put)
	offset int64  // -1: none
}

type output struct {
	ok      bool
	size    int64  // append: returned total size
	content string // get: body ("\x00absent" if no object)
}

const absent = "\x00absent"

var appendModel = porcupine.Model{
	Init: func() interface{} { return absent },
	Step: func(state, in, out interface{}) (bool, interface{}) {
		s, i, r := state.(string), in.(input), out.(output)
		cur := s
		if cur == absent {
			cur = ""
		}
		switch i.kind {
		case "append":
			if !r.ok {
				return true, s // a rejected append is a no-op (rejection is never prohibited)
			}
			if i.offset >= 0 && i.offset != int64(len(cur)) {
				return false, s // accepted although the offset was not the current size
			}
			n := cur + i.token
			return r.size == int64(len(n)), n
		case "put":
			if !r.ok {
				return true, s
			}
			return true, i.token
		case "delete":
			if !r.ok {
				return true, s
			}
			return true, absent
		case "get":
			return r.content == s, s
		}
		return false, s
	},
	Equal: func(a, b interface{}) bool { return a.(string) == b.(string) },
	DescribeOperation: func(in, out interface{}) string {
		i, r := in.(input), out.(output)
		t := i.token
		if len(t) > 12 {
			t = t[:12] + "…"
		}
		return fmt.Sprintf("%s(%q,off=%d) -> ok=%v size=%d len(content)=%d", i.kind, t, i.offset, r.ok, r.size, len(r.content))
	},
}

type noLifecycle struct{ delegator.DelegatingStorage }

func (n *noLifecycle) Start(ctx context.Context) error { return nil }
func (n *noLifecycle) Stop(ctx context.Context) error  { return nil }

func chunk(w, i, n int) string {
	tag := fmt.Sprintf("<g%d#%d>", w, i)
	if n < len(tag) {
		n = len(tag)
	}
	return tag + strings.Repeat(string(rune('a'+w)), n-len(tag))
}

func runConc(env *ev.Env, c Case) (o ev.Outcome) {
	o.Class("mode:conc")
	o.Class("versioning:" + c.Versioning)
	dir := env.TempDir()
	defer os.RemoveAll(dir)
	inst, err := stacks.Open(dir, stacks.LayoutFor(c.Stack), stacks.Options{})
	if err != nil {
		o.Failf("harness: open: %v", err)
		return
	}
	defer inst.Close()
	ctx := context.Background()
	st := inst.Storage
	o.Class(fmt.Sprintf("outbox:%v", c.Outbox))
	if c.Outbox {
		obDB, err := stacks.OpenDB(dir + "-outbox")
		if err != nil {
			o.Failf("harness: %v", err)
			return
		}
		defer os.RemoveAll(dir + "-outbox")
		defer obDB.Close()
		repo, err := repositoryFactory.NewStorageOutboxEntryRepository(obDB)
		if err != nil {
			o.Failf("harness: %v", err)
			return
		}
		ob, err := outbox.NewStorage(obDB, "c12-outbox", &noLifecycle{delegator.Wrap(inst.Storage)}, repo, prometheus.NewRegistry(), 0)
		if err != nil {
			o.Failf("harness: %v", err)
			return
		}
		if err := ob.Start(ctx); err != nil {
			o.Failf("harness: %v", err)
			return
		}
		defer func() {
			sctx, cancel := context.WithTimeout(context.Background(), 15*time.Second)
			defer cancel()
			_ = ob.Stop(sctx)
		}()
		st = ob
	}
	bn, key := storage.MustNewBucketName("append-bucket"), storage.MustNewObjectKey("log")
	if err := st.CreateBucket(ctx, bn); err != nil {
		o.Failf("harness: %v", err)
		return
	}
	if c.Versioning != "" {
		v := storage.BucketVersioningStatus(c.Versioning)
		if err := st.PutBucketVersioningConfiguration(ctx, bn, &storage.BucketVersioningConfiguration{Status: &v}); err != nil {
			o.Failf("harness: %v", err)
			return
		}
	}
	var mu sync.Mutex
	var hist []porcupine.Operation
	infra := false
	t0 := time.Now()
	record := func(client int, in input, call int64, out output) {
		mu.Lock()
		hist = append(hist, porcupine.Operation{ClientId: client, Input: in, Call: call, Output: out, Return: time.Since(t0).Nanoseconds()})
		mu.Unlock()
	}
	get := func() (output, error) {
		_, readers, err := st.GetObject(ctx, bn, key, nil, nil)
		if err != nil {
			k := prog.Classify(err)
			if k == prog.ENoSuchKey || k == prog.ECurrentDM {
				return output{ok: true, content: absent}, nil
			}
			return output{}, err
		}
		b, err := prog.ReadAll(readers)
		if err != nil {
			return output{}, err
		}
		return output{ok: true, content: string(b)}, nil
	}
	start := make(chan struct{})
	var wg sync.WaitGroup
	for w := range c.Workers {
		wg.Add(1)
		go func(w int) {
			defer wg.Done()
			<-start
			var lastSize, ownBytes int64
			for i, op := range c.Workers[w] {
				call := time.Since(t0).Nanoseconds()
				switch op.Kind {
				case "append", "appendAt":
					tok := chunk(w, i, op.Len)
					in := input{kind: "append", token: tok, offset: -1}
					var opts *storage.AppendObjectOptions
					if op.Kind == "appendAt" {
						switch op.Offset {
						case "zero":
							in.offset = 0
						case "guess":
							in.offset = ownBytes
						default:
							in.offset = lastSize
						}
						off := in.offset
						opts = &storage.AppendObjectOptions{WriteOffset: &off}
					}
					res, err := st.AppendObject(ctx, bn, key, bytes.NewReader([]byte(tok)), nil, opts)
					if err != nil {
						if k := prog.Classify(err); k != prog.EInvalidWriteOffset && k != prog.ENoSuchKey && k != prog.EPrecondition {
							mu.Lock()
							infra = true
							mu.Unlock()
						}
						record(w, in, call, output{ok: false})
						continue
					}
					lastSize = res.Size
					ownBytes += int64(len(tok))
					record(w, in, call, output{ok: true, size: res.Size})
				case "put":
					tok := "P" + chunk(w, i, op.Len)
					_, err := st.PutObject(ctx, bn, key, nil, bytes.NewReader([]byte(tok)), nil, nil)
					if err != nil {
						mu.Lock()
						infra = true
						mu.Unlock()
					}
					record(w, input{kind: "put", token: tok, offset: -1}, call, output{ok: err == nil})
					if err == nil {
						lastSize = int64(len(tok))
					}
				case "delete":
					_, err := st.DeleteObject(ctx, bn, key, nil)
					if err != nil {
						mu.Lock()
						infra = true
						mu.Unlock()
					}
					record(w, input{kind: "delete", offset: -1}, call, output{ok: err == nil})
				case "get":
					out, err := get()
					if err != nil {
						mu.Lock()
						infra = true
						mu.Unlock()
						continue
					}
					if out.content != absent {
						lastSize = int64(len(out.content))
					}
					record(w, input{kind: "get", offset: -1}, call, out)
				}
			}
		}(w)
	}
	close(start)
	wg.Wait()
	if infra {
		o.Discard = true // an infrastructure error (e.g. database busy) makes an outcome indeterminate
		return
	}
	call := time.Since(t0).Nanoseconds()
	final, err := get()
	if err != nil {
		o.Failf("final read failed: %v", err)
		return
	}
	record(99, input{kind: "get", offset: -1}, call, final)
	o.Sub = len(hist)
	// direct invariant: every acknowledged chunk that the final content is built from appears at most once,
	// and chunks of appends that were acknowledged after the last put/delete … is implied by linearizability below.
	res, info := porcupine.CheckOperationsVerbose(appendModel, hist, 20*time.Second)
	if res == porcupine.Unknown {
		o.Discard = true
		return
	}
	if res != porcupine.Ok {
		var sb strings.Builder
		for _, h := range hist {
			fmt.Fprintf(&sb, "\n  client %d [%d,%d] %s", h.ClientId, h.Call, h.Return, appendModel.DescribeOperation(h.Input, h.Output))
		}
		_ = info
		o.Failf("history of concurrent appends on one key (versioning=%q, %s) is not linearizable against the append-log model:%s", c.Versioning, c.Stack, sb.String())
		return
	}
	// overlap statistic and non-triviality
	overlaps, rejected := 0, 0
	for i := range hist {
		if hist[i].Input.(input).kind == "append" && !hist[i].Output.(output).ok {
			rejected++
		}
		for j := i + 1; j < len(hist); j++ {
			a, b := hist[i], hist[j]
			if a.Input.(input).kind == "append" && b.Input.(input).kind == "append" && a.Call < b.Return && b.Call < a.Return {
				overlaps++
			}
		}
	}
	o.Count("overlapping_append_pairs", overlaps)
	o.Count("rejected_appends", rejected)
	o.NonTrivial = overlaps >= 1 && rejected >= 1
	return
}

func runCase(env *ev.Env, c Case) ev.Outcome {
	if c.Mode == "conc" {
		return runConc(env, c)
	}
	return runSeq(env, c)
}

func TestC12(t *testing.T) {
	ev.Main(t, ev.Spec[Case]{
		ID:    "C12",
		Level: "exploration",
		Rule: "two case kinds: (seq) model-based programs dominated by AppendObject with and without write offset (right / wrong / zero), interleaved with puts, deletes, copies, multipart completes, versioning toggles and restarts on stacks P1,P2,P3,N1, full state compared after every step; (conc) 2-6 goroutines issue 2-7 ops each on ONE key (appends of uniquely tagged chunks with and without offsets taken from sizes they observed, puts, deletes, gets) in an unversioned / Enabled / Suspended bucket, a third of them through the storage outbox with its real worker in front; the recorded history plus a final read is checked for linearizability against an append-log model with porcupine (accepted offset append => offset == size at its linearization point; returned size == new size; a get returns exactly the content); " +
			"non-trivial = seq: an offset append was rejected and a later one accepted; conc: >=2 appends overlapped in time and >=1 was rejected; distinct = distinct case JSON",
		Assumptions: []string{"conc part samples schedules; histories containing an infrastructure error (database busy) are discarded as indeterminate", "a rejected append is always admissible (the property only restricts acknowledged appends)"},
		Gen:         genCase,
		Run:         runCase,
	})
}
