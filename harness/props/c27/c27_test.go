// Package c27 checks property C27: audit log tampering is always detected, and
// every serializer decodes exactly what it encoded.
//
// A case is a generated audit log (entry specs = plain data). Run builds the
// signed log the way the audit middleware does (genesis, LOG entries, a
// grounding after every 1000 LOG entries), checks the serializer round trips,
// and then enumerates tamperings: every field of every (selected) entry x
// several value mutations x three attacker variants
//
//	raw     : the field is changed, hash/signature/links are left alone
//	relink  : the entry hash and every following PreviousHash/Hash are recomputed
//	          (needs no key)
//	relink+ : as relink, and every following grounding's Merkle root is recomputed too
//
// plus structural tamperings (insert / delete / duplicate / swap / move entries
// anywhere except a pure suffix cut) in the same three variants. Every tampered
// log is encoded with the real serializer, decoded with the real decoder and
// fed to the real auditlog.Validator with both verifiers. Oracle: the validator
// (or the decoder) rejects it.
package c27

import (
	"bytes"
	"crypto/ed25519"
	"crypto/mldsa"
	"crypto/sha256"
	"crypto/sha512"
	"encoding/json"
	"errors"
	"fmt"
	"io"
	"os"
	"path/filepath"
	"strings"
	"testing"
	"time"
	"unicode"
	"unicode/utf8"

	"github.com/jdillenkofer/pithos/internal/auditlog"
	"github.com/jdillenkofer/pithos/internal/auditlog/serialization"
	"github.com/jdillenkofer/pithos/internal/auditlog/signing"
	"github.com/jdillenkofer/pithos/verifharness/ev"
	"pgregory.net/rapid"
)

// ---- key material (fixed seeds: every process, fuzz worker and replay uses the same keys) ----

type detMlDsaSigner struct{ priv *mldsa.PrivateKey }

func (s detMlDsaSigner) Sign(data []byte) ([]byte, error) { return s.priv.SignDeterministic(data, nil) }

var (
	edSigner   signing.Signer
	mlSigner   signing.Signer
	edVerifier signing.Verifier
	mlVerifier signing.Verifier
)

func init() {
	s1 := sha256.Sum256([]byte("verif-c27-ed25519-seed"))
	priv := ed25519.NewKeyFromSeed(s1[:])
	edSigner = signing.NewEd25519Signer(priv)
	edVerifier = signing.NewEd25519Verifier(priv.Public().(ed25519.PublicKey))
	s2 := sha256.Sum256([]byte("verif-c27-mldsa87-seed"))
	mp, err := mldsa.NewPrivateKey(mldsa.MLDSA87(), s2[:])
	if err != nil {
		panic(err)
	}
	mlSigner = detMlDsaSigner{mp}
	mlVerifier = signing.NewMlDsa87Verifier(mp.PublicKey())
}

// ---- case ----------------------------------------------------------------------------

// E is the spec of one LOG entry. V: 0 = auditlog.CurrentVersion, else literal.
type E struct {
	V  uint16 `json:"v"`
	Ts int64  `json:"ts"`
	Op string `json:"op"`
	Ph string `json:"ph"`
	B  string `json:"b"`
	K  string `json:"k"`
	U  string `json:"u"`
	P  int32  `json:"p"`
	SB string `json:"sb"`
	SK string `json:"sk"`
	Cr string `json:"cr"`
	At string `json:"at"`
	Rq string `json:"rq"`
	Tr string `json:"tr"`
	Ip string `json:"ip"`
	St int32  `json:"st"`
	Oc string `json:"oc"`
	Ec string `json:"ec"`
	Er string `json:"er"`
	Du int64  `json:"du"`
}

// SM is one structural tampering. Indices are positions in the built log
// (genesis = 0), reduced modulo what exists at run time.
type SM struct {
	Kind string `json:"kind"` // delete | dup | insert-copy | insert-forged | swap | move | append-copy | append-forged
	I    int    `json:"i"`
	J    int    `json:"j"`
}

type Case struct {
	Ser     string   `json:"ser"`     // serializer used for the tampering part: bin | json | jsonindent
	Entries []E      `json:"entries"` // LOG entry specs
	Pad     int      `json:"pad"`     // total number of LOG entries wanted; entries beyond len(Entries) repeat the specs cyclically with shifted timestamp/key
	Alt     []string `json:"alt"`     // replacement values used by the "alt" mutation
	Struct  []SM     `json:"struct"`
	Sel     []int    `json:"sel"`    // long logs: positions that get the full field enumeration (besides those around block edges); empty = all
	Mode    string   `json:"mode"`   // "" = everything; "roundtrip" = round trip only (used by the text witness)
	Forged  E        `json:"forged"` // content of forged inserted entries
}

// ---- building the log ------------------------------------------------------------------

func (s E) version() uint16 {
	if s.V == 0 {
		return auditlog.CurrentVersion
	}
	return s.V
}

// toEntry builds the unsigned entry. Legacy versions are canonicalised to the
// fields that existed in that version (what a decoder of that version yields).
func (s E) toEntry() *auditlog.Entry {
	v := s.version()
	d := &auditlog.LogDetails{
		Operation: auditlog.Operation(s.Op),
		Phase:     auditlog.Phase(s.Ph),
		Resource:  auditlog.ResourceDetails{Bucket: s.B, Key: s.K, UploadID: s.U, PartNumber: s.P, SourceBucket: s.SB, SourceKey: s.SK},
		Actor:     auditlog.ActorDetails{CredentialID: s.Cr, AuthType: auditlog.AuthType(s.At)},
		Request:   auditlog.RequestDetails{RequestID: s.Rq, TraceID: s.Tr, ClientIP: s.Ip},
		Outcome:   auditlog.OutcomeDetails{StatusCode: s.St, Outcome: auditlog.OutcomeType(s.Oc), ErrorCode: s.Ec, Error: s.Er, DurationMs: s.Du},
	}
	if v <= 2 {
		d.Resource.SourceBucket, d.Resource.SourceKey = "", ""
	}
	if v <= 1 {
		d.Actor.AuthType = auditlog.AuthTypeAnonymous
		d.Request = auditlog.RequestDetails{}
		d.Outcome = auditlog.OutcomeDetails{Error: s.Er, Outcome: auditlog.OutcomeSuccess, StatusCode: 200}
		if s.Er != "" {
			d.Outcome.Outcome = auditlog.OutcomeError
			d.Outcome.StatusCode = 500
		}
	}
	return &auditlog.Entry{Version: v, Timestamp: time.Unix(0, s.Ts).UTC(), Type: auditlog.EntryTypeLog, Details: d}
}

func (c Case) spec(k int) E {
	s := c.Entries[k%len(c.Entries)]
	if k >= len(c.Entries) {
		s.Ts += int64(k) * 1000003
		s.K = fmt.Sprintf("%s#%d", s.K, k)
	}
	return s
}

func (c Case) nLog() int {
	if c.Pad > len(c.Entries) {
		return c.Pad
	}
	return len(c.Entries)
}

func mustSign(e *auditlog.Entry) {
	if err := e.Sign(edSigner); err != nil {
		panic(err)
	}
}

// buildLog signs the log exactly like the audit middleware does.
func buildLog(c Case) []*auditlog.Entry {
	pithos := sha512.Sum512([]byte("pithos"))
	first := c.spec(0)
	g := &auditlog.Entry{Version: auditlog.CurrentVersion, Timestamp: time.Unix(0, first.Ts-1).UTC(), Type: auditlog.EntryTypeGenesis,
		Details: &auditlog.GenesisDetails{}, PreviousHash: pithos[:]}
	mustSign(g)
	out := []*auditlog.Entry{g}
	last := g.Hash
	var block [][]byte
	n := c.nLog()
	for k := 0; k < n; k++ {
		e := c.spec(k).toEntry()
		e.PreviousHash = last
		mustSign(e)
		out = append(out, e)
		last = e.Hash
		block = append(block, e.Hash)
		if len(block) == auditlog.GroundingBlockSize {
			root := auditlog.CalculateMerkleRoot(block)
			sigEd, _ := edSigner.Sign(root)
			sigMl, _ := mlSigner.Sign(root)
			gr := &auditlog.Entry{Version: auditlog.CurrentVersion, Timestamp: e.Timestamp.Add(1), Type: auditlog.EntryTypeGrounding,
				Details: &auditlog.GroundingDetails{MerkleRootHash: root, SignatureEd25519: sigEd, SignatureMlDsa87: sigMl}, PreviousHash: last}
			mustSign(gr)
			out = append(out, gr)
			last = gr.Hash
			block = nil
		}
	}
	return out
}

// ---- helpers ---------------------------------------------------------------------------

func serializerFor(name string) serialization.Serializer {
	switch name {
	case "bin":
		return &serialization.BinarySerializer{}
	case "json":
		return &serialization.JsonSerializer{}
	case "jsonindent":
		return &serialization.JsonSerializer{Indent: true}
	case "text":
		return &serialization.TextSerializer{}
	}
	panic("unknown serializer " + name)
}

func cloneBytes(b []byte) []byte {
	if b == nil {
		return nil
	}
	return append([]byte{}, b...)
}

func cloneEntry(e *auditlog.Entry) *auditlog.Entry {
	c := *e
	c.PreviousHash, c.Hash, c.SignatureEd25519 = cloneBytes(e.PreviousHash), cloneBytes(e.Hash), cloneBytes(e.SignatureEd25519)
	switch d := e.Details.(type) {
	case *auditlog.LogDetails:
		dd := *d
		c.Details = &dd
	case *auditlog.GroundingDetails:
		c.Details = &auditlog.GroundingDetails{MerkleRootHash: cloneBytes(d.MerkleRootHash), SignatureEd25519: cloneBytes(d.SignatureEd25519), SignatureMlDsa87: cloneBytes(d.SignatureMlDsa87)}
	case *auditlog.GenesisDetails:
		c.Details = &auditlog.GenesisDetails{}
	}
	return &c
}

// diffEntry compares field by field; "" = equal.
func diffEntry(a, b *auditlog.Entry, ignoreSource bool) string {
	if a.Version != b.Version {
		return fmt.Sprintf("Version %d != %d", a.Version, b.Version)
	}
	if a.Timestamp.UnixNano() != b.Timestamp.UnixNano() || !a.Timestamp.Equal(b.Timestamp) {
		return fmt.Sprintf("Timestamp %v != %v", a.Timestamp.UTC(), b.Timestamp.UTC())
	}
	if a.Type != b.Type {
		return fmt.Sprintf("Type %q != %q", a.Type, b.Type)
	}
	if !bytes.Equal(a.PreviousHash, b.PreviousHash) {
		return "PreviousHash differs"
	}
	if !bytes.Equal(a.Hash, b.Hash) {
		return "Hash differs"
	}
	if !bytes.Equal(a.SignatureEd25519, b.SignatureEd25519) {
		return "SignatureEd25519 differs"
	}
	switch da := a.Details.(type) {
	case *auditlog.GenesisDetails:
		if _, ok := b.Details.(*auditlog.GenesisDetails); !ok {
			return fmt.Sprintf("Details type %T != %T", a.Details, b.Details)
		}
	case *auditlog.LogDetails:
		db, ok := b.Details.(*auditlog.LogDetails)
		if !ok {
			return fmt.Sprintf("Details type %T != %T", a.Details, b.Details)
		}
		x, y := *da, *db
		if ignoreSource {
			x.Resource.SourceBucket, x.Resource.SourceKey, y.Resource.SourceBucket, y.Resource.SourceKey = "", "", "", ""
		}
		if x != y {
			for _, f := range strFields {
				if f.get(&x) != f.get(&y) {
					return fmt.Sprintf("LogDetails %s %.200q != %.200q", f.name, f.get(&x), f.get(&y))
				}
			}
			return fmt.Sprintf("LogDetails part/status/duration (%d,%d,%d) != (%d,%d,%d)", x.Resource.PartNumber, x.Outcome.StatusCode, x.Outcome.DurationMs,
				y.Resource.PartNumber, y.Outcome.StatusCode, y.Outcome.DurationMs)
		}
	case *auditlog.GroundingDetails:
		db, ok := b.Details.(*auditlog.GroundingDetails)
		if !ok {
			return fmt.Sprintf("Details type %T != %T", a.Details, b.Details)
		}
		if !bytes.Equal(da.MerkleRootHash, db.MerkleRootHash) || !bytes.Equal(da.SignatureEd25519, db.SignatureEd25519) || !bytes.Equal(da.SignatureMlDsa87, db.SignatureMlDsa87) {
			return "GroundingDetails differ"
		}
	default:
		if a.Details != nil || b.Details != nil {
			return fmt.Sprintf("Details type %T != %T", a.Details, b.Details)
		}
	}
	return ""
}

func safeEncode(ser serialization.Serializer, w io.Writer, e *auditlog.Entry) (err error) {
	defer func() {
		if r := recover(); r != nil {
			err = fmt.Errorf("encode panic: %v", r)
		}
	}()
	return ser.Encode(w, e)
}

var errValidatorPanic = errors.New("validator panic")

func safeValidate(v *auditlog.Validator, e *auditlog.Entry) (err error) {
	defer func() {
		if r := recover(); r != nil {
			err = fmt.Errorf("%w: %v", errValidatorPanic, r)
		}
	}()
	return v.ValidateEntry(e)
}

func safeHash(e *auditlog.Entry) (h []byte, ok bool) {
	defer func() {
		if r := recover(); r != nil {
			h, ok = nil, false
		}
	}()
	return e.CalculateHash(), true
}

// ---- tampered logs as lazy sequences ---------------------------------------------------

// tamper describes a tampered log: entries [0,start) are the original ones and
// next() yields the entries from position start on (nil at the end).
type tamper struct {
	start int
	mk    func() func() *auditlog.Entry // fresh iterator per evaluation
}

// sliceSeq yields the given entries.
func sliceSeq(es []*auditlog.Entry) func() *auditlog.Entry {
	i := 0
	return func() *auditlog.Entry {
		if i >= len(es) {
			return nil
		}
		e := es[i]
		i++
		return e
	}
}

// chain yields first() until it is exhausted, then second().
func chain(fs ...func() *auditlog.Entry) func() *auditlog.Entry {
	i := 0
	return func() *auditlog.Entry {
		for i < len(fs) {
			if e := fs[i](); e != nil {
				return e
			}
			i++
		}
		return nil
	}
}

// relink rewrites PreviousHash and Hash of every entry of the sequence so that
// the chain is consistent again (what an attacker without the key can do);
// prevHash is the hash of the entry before the first one. keepFirstPrev: the
// first entry keeps its PreviousHash (used when the tampering is that field).
// withRoots additionally recomputes the Merkle root of following groundings
// over the hashes as they now are (block = hashes of LOG entries since the
// previous grounding; blockPrefix = those before the sequence starts).
func relink(next func() *auditlog.Entry, prevHash []byte, blockPrefix [][]byte, withRoots bool, keepFirstPrev bool) func() *auditlog.Entry {
	prev := prevHash
	block := append([][]byte{}, blockPrefix...)
	first := true
	return func() *auditlog.Entry {
		e := next()
		if e == nil {
			return nil
		}
		c := cloneEntry(e)
		if !(first && keepFirstPrev) && prev != nil {
			c.PreviousHash = cloneBytes(prev)
		}
		first = false
		if gd, ok := c.Details.(*auditlog.GroundingDetails); ok && c.Type == auditlog.EntryTypeGrounding {
			if withRoots {
				gd.MerkleRootHash = cloneBytes(auditlog.CalculateMerkleRoot(block))
			}
			block = nil
		}
		if h, ok := safeHash(c); ok {
			c.Hash = h
		}
		if c.Type == auditlog.EntryTypeLog {
			block = append(block, c.Hash)
		}
		prev = c.Hash
		return c
	}
}

// lazyReader encodes the sequence on demand and tracks whether everything
// emitted so far is byte-identical to the original log at the same position.
type lazyReader struct {
	next      func() *auditlog.Entry
	ser       serialization.Serializer
	buf       bytes.Buffer
	encErr    error
	orig      [][]byte
	pos       int
	identical bool
	scratch   bytes.Buffer
}

func (r *lazyReader) Read(p []byte) (int, error) {
	for r.buf.Len() == 0 {
		if r.encErr != nil {
			return 0, r.encErr
		}
		e := r.next()
		if e == nil {
			return 0, io.EOF
		}
		r.scratch.Reset()
		if err := safeEncode(r.ser, &r.scratch, e); err != nil {
			r.encErr = err
			return 0, err
		}
		if r.pos >= len(r.orig) || !bytes.Equal(r.scratch.Bytes(), r.orig[r.pos]) {
			r.identical = false
		}
		r.pos++
		r.buf.Write(r.scratch.Bytes())
	}
	return r.buf.Read(p)
}

type verdict struct {
	kind     string // unencodable | decode | hash | chain | sig | grounding | genesis | panic | other | accepted
	at       int    // position of the rejected entry
	accepted int    // number of entries accepted (from start)
	noop     bool   // accepted and byte-identical to the original log
	reason   string
}

func classify(err error) string {
	if errors.Is(err, errValidatorPanic) {
		return "panic"
	}
	var ve *auditlog.VerificationError
	if errors.As(err, &ve) {
		r := ve.Reason
		switch {
		case strings.HasPrefix(r, "entry hash mismatch"):
			return "hash"
		case strings.HasPrefix(r, "chain break"):
			return "chain"
		case strings.HasPrefix(r, "entry signature invalid"):
			return "sig"
		case strings.HasPrefix(r, "first entry is not GENESIS"), strings.HasPrefix(r, "genesis previous hash"):
			return "genesis"
		case strings.Contains(r, "grounding"), strings.Contains(r, "merkle"):
			return "grounding"
		}
	}
	return "other"
}

// ---- the analysed log ------------------------------------------------------------------

type logCtx struct {
	ser      serialization.Serializer
	entries  []*auditlog.Entry
	enc      [][]byte // encoded bytes per entry
	blockLo  []int    // blockLo[i] = index of first entry of the grounding block that position i belongs to (first LOG entry after the previous grounding / genesis)
	snapOK   bool     // derived snapshots agreed with the real validator state on the untampered pass
	fullEach int      // run a from-scratch validation for every fullEach-th tampering
	counter  int
}

// snapshot returns a validator positioned before entry i of the original log.
func (lc *logCtx) snapshot(i int) *auditlog.Validator {
	if i == 0 {
		return auditlog.NewValidator(edVerifier, mlVerifier)
	}
	// (not NewValidator: it preallocates a 1000-slot buffer, too costly per tampering)
	v := &auditlog.Validator{Ed25519Verifier: edVerifier, MlDsa87Verifier: mlVerifier}
	v.Index = i
	v.PrevHash = lc.entries[i-1].Hash
	for k := lc.blockLo[i]; k < i; k++ {
		if lc.entries[k].Type == auditlog.EntryTypeLog {
			v.HashBuffer = append(v.HashBuffer, lc.entries[k].Hash)
		}
	}
	return v
}

func (lc *logCtx) blockPrefix(i int) [][]byte {
	var b [][]byte
	for k := lc.blockLo[i]; k < i && k < len(lc.entries); k++ {
		if lc.entries[k].Type == auditlog.EntryTypeLog {
			b = append(b, lc.entries[k].Hash)
		}
	}
	return b
}

// prepare encodes the untampered log, validates it from scratch through the
// decoder and cross-checks the derived snapshots against the validator's state.
func prepare(ser serialization.Serializer, entries []*auditlog.Entry) (*logCtx, error) {
	lc := &logCtx{ser: ser, entries: entries, snapOK: true}
	var all bytes.Buffer
	for i, e := range entries {
		var b bytes.Buffer
		if err := safeEncode(ser, &b, e); err != nil {
			return nil, fmt.Errorf("encode of untampered entry %d failed: %v", i, err)
		}
		lc.enc = append(lc.enc, b.Bytes())
		all.Write(b.Bytes())
	}
	lc.blockLo = make([]int, len(entries)+1)
	lo := 1
	for i := range entries {
		lc.blockLo[i] = lo
		if entries[i].Type == auditlog.EntryTypeGrounding {
			lo = i + 1
		}
	}
	lc.blockLo[len(entries)] = lo
	lc.blockLo[0] = 0
	dec := ser.NewDecoder(bytes.NewReader(all.Bytes()))
	v := auditlog.NewValidator(edVerifier, mlVerifier)
	for i := 0; ; i++ {
		e, err := dec.Decode()
		if err == io.EOF {
			if i != len(entries) {
				return nil, fmt.Errorf("untampered log: decoder returned %d entries, %d were encoded", i, len(entries))
			}
			break
		}
		if err != nil {
			return nil, fmt.Errorf("untampered log: decode of entry %d failed: %v", i, err)
		}
		if i >= len(entries) {
			return nil, fmt.Errorf("untampered log: decoder returned more entries than were encoded")
		}
		// derived snapshot vs real state
		s := lc.snapshot(i)
		if s.Index != v.Index || !bytes.Equal(s.PrevHash, v.PrevHash) || len(s.HashBuffer) != len(v.HashBuffer) {
			lc.snapOK = false
		}
		if d := diffEntry(entries[i], e, false); d != "" {
			return nil, fmt.Errorf("round trip: entry %d decodes differently: %s", i, d)
		}
		if err := safeValidate(v, e); err != nil {
			return nil, fmt.Errorf("untampered log fails verification at entry %d: %v", i, err)
		}
	}
	return lc, nil
}

// judge runs one tampered log through encoder, decoder and validator.
func (lc *logCtx) judge(t tamper, fromScratch bool) verdict {
	var lr *lazyReader
	var v *auditlog.Validator
	if fromScratch || !lc.snapOK {
		lr = &lazyReader{next: chain(sliceSeq(lc.entries[:t.start]), t.mk()), ser: lc.ser, orig: lc.enc, pos: 0, identical: true}
		v = auditlog.NewValidator(edVerifier, mlVerifier)
	} else {
		lr = &lazyReader{next: t.mk(), ser: lc.ser, orig: lc.enc, pos: t.start, identical: true}
		v = lc.snapshot(t.start)
	}
	dec := lc.ser.NewDecoder(lr)
	n := 0
	for {
		e, err := dec.Decode()
		if err != nil {
			if lr.encErr != nil {
				return verdict{kind: "unencodable", at: v.Index, reason: lr.encErr.Error()}
			}
			if err == io.EOF {
				break
			}
			return verdict{kind: "decode", at: v.Index, reason: err.Error()}
		}
		if err := safeValidate(v, e); err != nil {
			return verdict{kind: classify(err), at: v.Index, reason: err.Error()}
		}
		n++
	}
	return verdict{kind: "accepted", accepted: n, noop: lr.identical && lr.pos == len(lc.enc)}
}

// ---- field tamperings ------------------------------------------------------------------

type mutation struct {
	field string
	kind  string
	// apply tampers with a private copy of the entry; false = not applicable / no change
	apply func(e *auditlog.Entry) bool
}

type strField struct {
	name string
	get  func(d *auditlog.LogDetails) string
	set  func(d *auditlog.LogDetails, s string)
}

// in hash order
var strFields = []strField{
	{"operation", func(d *auditlog.LogDetails) string { return string(d.Operation) }, func(d *auditlog.LogDetails, s string) { d.Operation = auditlog.Operation(s) }},
	{"phase", func(d *auditlog.LogDetails) string { return string(d.Phase) }, func(d *auditlog.LogDetails, s string) { d.Phase = auditlog.Phase(s) }},
	{"bucket", func(d *auditlog.LogDetails) string { return d.Resource.Bucket }, func(d *auditlog.LogDetails, s string) { d.Resource.Bucket = s }},
	{"key", func(d *auditlog.LogDetails) string { return d.Resource.Key }, func(d *auditlog.LogDetails, s string) { d.Resource.Key = s }},
	{"upload_id", func(d *auditlog.LogDetails) string { return d.Resource.UploadID }, func(d *auditlog.LogDetails, s string) { d.Resource.UploadID = s }},
	{"source_bucket", func(d *auditlog.LogDetails) string { return d.Resource.SourceBucket }, func(d *auditlog.LogDetails, s string) { d.Resource.SourceBucket = s }},
	{"source_key", func(d *auditlog.LogDetails) string { return d.Resource.SourceKey }, func(d *auditlog.LogDetails, s string) { d.Resource.SourceKey = s }},
	{"credential_id", func(d *auditlog.LogDetails) string { return d.Actor.CredentialID }, func(d *auditlog.LogDetails, s string) { d.Actor.CredentialID = s }},
	{"auth_type", func(d *auditlog.LogDetails) string { return string(d.Actor.AuthType) }, func(d *auditlog.LogDetails, s string) { d.Actor.AuthType = auditlog.AuthType(s) }},
	{"request_id", func(d *auditlog.LogDetails) string { return d.Request.RequestID }, func(d *auditlog.LogDetails, s string) { d.Request.RequestID = s }},
	{"trace_id", func(d *auditlog.LogDetails) string { return d.Request.TraceID }, func(d *auditlog.LogDetails, s string) { d.Request.TraceID = s }},
	{"client_ip", func(d *auditlog.LogDetails) string { return d.Request.ClientIP }, func(d *auditlog.LogDetails, s string) { d.Request.ClientIP = s }},
	{"outcome", func(d *auditlog.LogDetails) string { return string(d.Outcome.Outcome) }, func(d *auditlog.LogDetails, s string) { d.Outcome.Outcome = auditlog.OutcomeType(s) }},
	{"error_code", func(d *auditlog.LogDetails) string { return d.Outcome.ErrorCode }, func(d *auditlog.LogDetails, s string) { d.Outcome.ErrorCode = s }},
	{"error", func(d *auditlog.LogDetails) string { return d.Outcome.Error }, func(d *auditlog.LogDetails, s string) { d.Outcome.Error = s }},
}

func logMut(field, kind string, f func(d *auditlog.LogDetails) bool) mutation {
	return mutation{field, kind, func(e *auditlog.Entry) bool {
		d, ok := e.Details.(*auditlog.LogDetails)
		if !ok {
			return false
		}
		return f(d)
	}}
}

func swapCase(s string) string {
	for i, r := range s {
		var q rune
		switch {
		case unicode.IsUpper(r):
			q = unicode.ToLower(r)
		case unicode.IsLower(r):
			q = unicode.ToUpper(r)
		default:
			continue
		}
		if q == r || utf8.RuneLen(q) < 0 {
			continue
		}
		return s[:i] + string(q) + s[i+utf8.RuneLen(r):]
	}
	return s
}

func flip(b []byte, pos int) bool {
	if len(b) == 0 {
		return false
	}
	b[pos%len(b)] ^= 1 << uint(pos%8)
	return true
}

// mutationsFor lists every field tampering for the entry at position i.
func mutationsFor(lc *logCtx, i int, alts []string) []mutation {
	e := lc.entries[i]
	var ms []mutation
	// envelope: version, timestamp, type
	for _, v := range []uint16{0, 1, 2, 3, 4, 5, 0x0300, 0xffff} {
		v := v
		ms = append(ms, mutation{"version", fmt.Sprintf("=%d", v), func(e *auditlog.Entry) bool {
			if e.Version == v {
				return false
			}
			e.Version = v
			return true
		}})
	}
	for _, d := range []time.Duration{1, -1, time.Microsecond, time.Second, -time.Hour, 24 * time.Hour} {
		d := d
		ms = append(ms, mutation{"timestamp", "add" + d.String(), func(e *auditlog.Entry) bool { e.Timestamp = e.Timestamp.Add(d); return true }})
	}
	ms = append(ms, mutation{"timestamp", "trunc-second", func(e *auditlog.Entry) bool {
		t := e.Timestamp.Truncate(time.Second)
		if t.Equal(e.Timestamp) {
			return false
		}
		e.Timestamp = t
		return true
	}})
	// type: the details are replaced by what a decoder produces for the new type
	// (so the tampered entry stays well-formed); for the JSON serializers the
	// type is additionally changed with the details left as they are. (Not for
	// the binary serializer: there a type/details mismatch desynchronises the
	// stream and the decoder then allocates whatever a garbage 32-bit length
	// prefix says, up to 4 GiB per read - rejected, but at seconds per case.)
	var otherGrounding *auditlog.GroundingDetails
	for k, o := range lc.entries {
		if od, ok := o.Details.(*auditlog.GroundingDetails); ok && k != i {
			otherGrounding = od
			break
		}
	}
	for _, ty := range []string{"GENESIS", "LOG", "GROUNDING", "", "log", "LOG "} {
		ty := ty
		ms = append(ms, mutation{"type", "=" + ty + "+details", func(e *auditlog.Entry) bool {
			if string(e.Type) == ty {
				return false
			}
			switch auditlog.EntryType(ty) {
			case auditlog.EntryTypeGenesis:
				e.Details = &auditlog.GenesisDetails{}
			case auditlog.EntryTypeLog:
				e.Details = &auditlog.LogDetails{Operation: "PutObject", Phase: auditlog.PhaseComplete, Outcome: auditlog.OutcomeDetails{Outcome: auditlog.OutcomeSuccess, StatusCode: 200}}
			case auditlog.EntryTypeGrounding:
				if otherGrounding == nil {
					return false
				}
				e.Details = cloneEntry(&auditlog.Entry{Details: otherGrounding}).Details
			default:
				e.Details = nil
			}
			e.Type = auditlog.EntryType(ty)
			return true
		}})
		if _, isBin := lc.ser.(*serialization.BinarySerializer); !isBin {
			ms = append(ms, mutation{"type", "=" + ty, func(e *auditlog.Entry) bool {
				if string(e.Type) == ty {
					return false
				}
				e.Type = auditlog.EntryType(ty)
				return true
			}})
		}
	}
	// chain fields
	for _, pos := range []int{0, 31, 63} {
		pos := pos
		ms = append(ms, mutation{"previous_hash", fmt.Sprintf("flip%d", pos), func(e *auditlog.Entry) bool { return flip(e.PreviousHash, pos) }})
		ms = append(ms, mutation{"hash", fmt.Sprintf("flip%d", pos), func(e *auditlog.Entry) bool { return flip(e.Hash, pos) }})
		ms = append(ms, mutation{"signature", fmt.Sprintf("flip%d", pos), func(e *auditlog.Entry) bool { return flip(e.SignatureEd25519, pos) }})
	}
	ms = append(ms, mutation{"signature", "zero", func(e *auditlog.Entry) bool { e.SignatureEd25519 = make([]byte, len(e.SignatureEd25519)); return true }})
	if i > 0 {
		other := lc.entries[i-1]
		ms = append(ms, mutation{"signature", "from-previous-entry", func(e *auditlog.Entry) bool { e.SignatureEd25519 = cloneBytes(other.SignatureEd25519); return true }})
		ms = append(ms, mutation{"previous_hash", "=previous-entry's-previous", func(e *auditlog.Entry) bool {
			if bytes.Equal(e.PreviousHash, other.PreviousHash) {
				return false
			}
			e.PreviousHash = cloneBytes(other.PreviousHash)
			return true
		}})
	}
	switch e.Details.(type) {
	case *auditlog.LogDetails:
		for fi, f := range strFields {
			f, fi := f, fi
			set := func(kind string, fn func(old string) string) {
				ms = append(ms, logMut(f.name, kind, func(d *auditlog.LogDetails) bool {
					old := f.get(d)
					nw := fn(old)
					if nw == old {
						return false
					}
					f.set(d, nw)
					return true
				}))
			}
			set("append", func(s string) string { return s + "x" })
			set("append-space", func(s string) string { return s + " " })
			set("empty", func(string) string { return "" })
			set("drop-first", func(s string) string {
				if s == "" {
					return s
				}
				_, n := utf8.DecodeRuneInString(s)
				return s[n:]
			})
			set("case", swapCase)
			for ai, a := range alts {
				a := a
				set(fmt.Sprintf("alt%d", ai), func(string) string { return a })
			}
			if fi+1 < len(strFields) {
				g := strFields[fi+1]
				ms = append(ms, logMut(f.name, "shift-last-rune-to-"+g.name, func(d *auditlog.LogDetails) bool {
					s := f.get(d)
					if s == "" {
						return false
					}
					_, n := utf8.DecodeLastRuneInString(s)
					f.set(d, s[:len(s)-n])
					g.set(d, s[len(s)-n:]+g.get(d))
					return true
				}))
				ms = append(ms, logMut(f.name, "swap-with-"+g.name, func(d *auditlog.LogDetails) bool {
					a, b := f.get(d), g.get(d)
					if a == b {
						return false
					}
					f.set(d, b)
					g.set(d, a)
					return true
				}))
			}
		}
		ms = append(ms, logMut("phase", "toggle", func(d *auditlog.LogDetails) bool {
			if d.Phase == auditlog.PhaseStart {
				d.Phase = auditlog.PhaseComplete
			} else {
				d.Phase = auditlog.PhaseStart
			}
			return true
		}))
		ms = append(ms, logMut("outcome", "error->success", func(d *auditlog.LogDetails) bool {
			if d.Outcome.Outcome == auditlog.OutcomeSuccess {
				d.Outcome.Outcome = auditlog.OutcomeDenied
			} else {
				d.Outcome.Outcome = auditlog.OutcomeSuccess
			}
			return true
		}))
		for _, k := range []string{"+1", "neg", "zero", "big"} {
			k := k
			num := func(x int64, bits int) int64 {
				switch k {
				case "+1":
					return x + 1
				case "neg":
					return -x
				case "zero":
					return 0
				default:
					if bits == 32 {
						return x ^ (1 << 30)
					}
					return x ^ (1 << 40)
				}
			}
			ms = append(ms, logMut("part_number", k, func(d *auditlog.LogDetails) bool {
				n := int32(num(int64(d.Resource.PartNumber), 32))
				if n == d.Resource.PartNumber {
					return false
				}
				d.Resource.PartNumber = n
				return true
			}))
			ms = append(ms, logMut("status_code", k, func(d *auditlog.LogDetails) bool {
				n := int32(num(int64(d.Outcome.StatusCode), 32))
				if n == d.Outcome.StatusCode {
					return false
				}
				d.Outcome.StatusCode = n
				return true
			}))
			ms = append(ms, logMut("duration_ms", k, func(d *auditlog.LogDetails) bool {
				n := num(d.Outcome.DurationMs, 64)
				if n == d.Outcome.DurationMs {
					return false
				}
				d.Outcome.DurationMs = n
				return true
			}))
		}
		ms = append(ms, logMut("status_code", "500<->200", func(d *auditlog.LogDetails) bool {
			if d.Outcome.StatusCode == 200 {
				d.Outcome.StatusCode = 500
			} else {
				d.Outcome.StatusCode = 200
			}
			return true
		}))
	case *auditlog.GroundingDetails:
		gm := func(field, kind string, f func(d *auditlog.GroundingDetails) bool) {
			ms = append(ms, mutation{field, kind, func(e *auditlog.Entry) bool {
				d, ok := e.Details.(*auditlog.GroundingDetails)
				if !ok {
					return false
				}
				return f(d)
			}})
		}
		for _, pos := range []int{0, 17, 63} {
			pos := pos
			gm("merkle_root", fmt.Sprintf("flip%d", pos), func(d *auditlog.GroundingDetails) bool { return flip(d.MerkleRootHash, pos) })
			gm("grounding_sig_ed25519", fmt.Sprintf("flip%d", pos), func(d *auditlog.GroundingDetails) bool { return flip(d.SignatureEd25519, pos) })
			gm("grounding_sig_mldsa87", fmt.Sprintf("flip%d", pos*70), func(d *auditlog.GroundingDetails) bool { return flip(d.SignatureMlDsa87, pos*70) })
		}
		gm("merkle_root", "root-of-reversed-block", func(d *auditlog.GroundingDetails) bool {
			bp := lc.blockPrefix(i)
			for a, b := 0, len(bp)-1; a < b; a, b = a+1, b-1 {
				bp[a], bp[b] = bp[b], bp[a]
			}
			d.MerkleRootHash = cloneBytes(auditlog.CalculateMerkleRoot(bp))
			return true
		})
		gm("merkle_root", "root-of-block-minus-one", func(d *auditlog.GroundingDetails) bool {
			bp := lc.blockPrefix(i)
			if len(bp) < 2 {
				return false
			}
			d.MerkleRootHash = cloneBytes(auditlog.CalculateMerkleRoot(bp[:len(bp)-1]))
			return true
		})
		gm("grounding_sig_ed25519", "=entry-signature", func(d *auditlog.GroundingDetails) bool {
			d.SignatureEd25519 = cloneBytes(e.SignatureEd25519)
			return true
		})
		gm("grounding_sig_mldsa87", "zero", func(d *auditlog.GroundingDetails) bool {
			d.SignatureMlDsa87 = make([]byte, len(d.SignatureMlDsa87))
			return true
		})
		// another grounding's (validly signed) details
		for k, o := range lc.entries {
			if od, ok := o.Details.(*auditlog.GroundingDetails); ok && k != i {
				od := od
				gm("grounding_details", "from-other-grounding", func(d *auditlog.GroundingDetails) bool {
					d.MerkleRootHash, d.SignatureEd25519, d.SignatureMlDsa87 = cloneBytes(od.MerkleRootHash), cloneBytes(od.SignatureEd25519), cloneBytes(od.SignatureMlDsa87)
					return true
				})
				break
			}
		}
	}
	return ms
}

var variants = []string{"raw", "relink", "relink+roots"}

// fieldTamper builds the tampered log for mutation m of entry i in the given variant.
func (lc *logCtx) fieldTamper(i int, m mutation, variant string) (tamper, *auditlog.Entry, bool) {
	c := cloneEntry(lc.entries[i])
	if !m.apply(c) {
		return tamper{}, nil, false
	}
	rest := func() func() *auditlog.Entry {
		return chain(sliceSeq([]*auditlog.Entry{c}), sliceSeq(lc.entries[i+1:]))
	}
	switch variant {
	case "raw":
		return tamper{i, rest}, c, true
	default:
		if m.field == "hash" {
			return tamper{}, nil, false // the recomputation overwrites it
		}
		var prev []byte
		if i > 0 {
			prev = lc.entries[i-1].Hash
		}
		return tamper{i, func() func() *auditlog.Entry {
			return relink(rest(), prev, lc.blockPrefix(i), variant == "relink+roots", true)
		}}, c, true
	}
}

// structTamper builds the tampered log for a structural tampering.
func (lc *logCtx) structTamper(sm SM, variant string, forged E) (tamper, string, bool) {
	n := len(lc.entries)
	es := lc.entries
	mod := func(x, m int) int {
		if m <= 0 {
			return 0
		}
		x %= m
		if x < 0 {
			x += m
		}
		return x
	}
	var start int
	var seq []*auditlog.Entry // entries from start on
	kind := sm.Kind
	forge := func(at int) *auditlog.Entry {
		f := forged.toEntry()
		if at > 0 {
			f.PreviousHash = cloneBytes(es[at-1].Hash)
			f.SignatureEd25519 = cloneBytes(es[at-1].SignatureEd25519)
		} else {
			p := sha512.Sum512([]byte("pithos"))
			f.PreviousHash = p[:]
			f.SignatureEd25519 = cloneBytes(es[0].SignatureEd25519)
		}
		f.Hash = f.CalculateHash()
		return f
	}
	switch kind {
	case "delete": // remove [i, j), j < n  (never a pure suffix cut)
		if n < 2 {
			return tamper{}, kind, false
		}
		i := mod(sm.I, n-1)
		j := i + 1 + mod(sm.J, n-1-i)
		start = i
		seq = append(seq, es[j:]...)
	case "dup": // copy of entry i inserted right after it, or at position j
		i := mod(sm.I, n)
		j := i + 1
		if sm.J%3 == 0 {
			j = mod(sm.J/3, n+1)
		}
		start = j
		seq = append(seq, es[i])
		seq = append(seq, es[j:]...)
	case "insert-copy": // copy of entry j inserted before position i
		i, j := mod(sm.I, n+1), mod(sm.J, n)
		start = i
		seq = append(seq, es[j])
		seq = append(seq, es[i:]...)
	case "insert-forged":
		i := mod(sm.I, n+1)
		start = i
		seq = append(seq, forge(i))
		seq = append(seq, es[i:]...)
	case "append-copy":
		start = n
		seq = append(seq, es[mod(sm.J, n)])
	case "append-forged":
		start = n
		seq = append(seq, forge(n))
	case "swap":
		if n < 2 {
			return tamper{}, kind, false
		}
		i := mod(sm.I, n-1)
		j := i + 1 + mod(sm.J, n-1-i)
		start = i
		seq = append(seq, es[i:]...)
		seq[0], seq[j-i] = seq[j-i], seq[0]
	case "move": // entry i moved to position j
		if n < 2 {
			return tamper{}, kind, false
		}
		i, j := mod(sm.I, n), mod(sm.J, n)
		if i == j {
			j = (j + 1) % n
		}
		tmp := make([]*auditlog.Entry, 0, n)
		for k, e := range es {
			if k != i {
				tmp = append(tmp, e)
			}
		}
		tmp = append(tmp[:j], append([]*auditlog.Entry{es[i]}, tmp[j:]...)...)
		start = i
		if j < i {
			start = j
		}
		seq = tmp[start:]
	case "replace-block-entry": // entry i replaced by a copy of entry j (same position in another place)
		if n < 2 {
			return tamper{}, kind, false
		}
		i, j := mod(sm.I, n), mod(sm.J, n)
		if i == j {
			j = (j + 1) % n
		}
		start = i
		seq = append(seq, es[j])
		seq = append(seq, es[i+1:]...)
	default:
		return tamper{}, kind, false
	}
	mk := func() func() *auditlog.Entry { return sliceSeq(seq) }
	if variant != "raw" {
		var prev []byte
		if start > 0 {
			prev = es[start-1].Hash
		}
		mk = func() func() *auditlog.Entry {
			return relink(sliceSeq(seq), prev, lc.blockPrefix(start), variant == "relink+roots", false)
		}
	}
	return tamper{start, mk}, kind, true
}

// ---- run -------------------------------------------------------------------------------

const (
	matcherSource = "c27.sourceNotHashed"     // KF-C27-1
	matcherText   = "c27.textSerializerLossy" // KF-C27-2
)

// trimmed is the known lossy behaviour of the text serializer (KF-C27-2): its
// decoder applies strings.TrimSpace to every (still escaped) value. The text
// escaping turns \n, \r, | and \ into two-character sequences, so leading or
// trailing newlines survive while every other Unicode white space is lost.
func trimmed(e *auditlog.Entry) *auditlog.Entry {
	c := cloneEntry(e)
	if d, ok := c.Details.(*auditlog.LogDetails); ok {
		for _, f := range strFields {
			f.set(d, textUnescape(strings.TrimSpace(textEscape(f.get(d)))))
		}
	}
	return c
}

func textEscape(s string) string {
	return strings.NewReplacer("\\", "\\\\", "\n", "\\n", "\r", "\\r", "|", "\\|").Replace(s)
}

func textUnescape(s string) string {
	var b strings.Builder
	for i := 0; i < len(s); i++ {
		if s[i] == '\\' && i+1 < len(s) {
			switch s[i+1] {
			case 'n':
				b.WriteByte('\n')
			case 'r':
				b.WriteByte('\r')
			case '|':
				b.WriteByte('|')
			case '\\':
				b.WriteByte('\\')
			default:
				b.WriteByte('\\')
				b.WriteByte(s[i+1])
			}
			i++
			continue
		}
		b.WriteByte(s[i])
	}
	return b.String()
}

func roundTrip(serName string, entries []*auditlog.Entry, norm func(*auditlog.Entry) *auditlog.Entry) string {
	ser := serializerFor(serName)
	var all bytes.Buffer
	for i, e := range entries {
		if err := safeEncode(ser, &all, e); err != nil {
			return fmt.Sprintf("%s: encode of entry %d failed: %v", serName, i, err)
		}
	}
	dec := ser.NewDecoder(bytes.NewReader(all.Bytes()))
	for i := 0; ; i++ {
		var e *auditlog.Entry
		var err error
		func() {
			defer func() {
				if r := recover(); r != nil {
					err = fmt.Errorf("decoder panic: %v", r)
				}
			}()
			e, err = dec.Decode()
		}()
		if err == io.EOF {
			if i != len(entries) {
				return fmt.Sprintf("%s: decoder returned %d entries, %d were encoded", serName, i, len(entries))
			}
			return ""
		}
		if err != nil {
			return fmt.Sprintf("%s: decode of entry %d failed: %v", serName, i, err)
		}
		if i >= len(entries) {
			return fmt.Sprintf("%s: decoder returned more entries than were encoded", serName)
		}
		want := entries[i]
		if norm != nil {
			want = norm(want)
		}
		if d := diffEntry(want, e, false); d != "" {
			return fmt.Sprintf("%s: entry %d (type %s, version %d) decodes differently: %s", serName, i, entries[i].Type, entries[i].Version, d)
		}
	}
}

func run(env *ev.Env, c Case) (o ev.Outcome) {
	if len(c.Entries) == 0 {
		o.Discard = true
		return
	}
	entries := buildLog(c)
	n := len(entries)
	long := c.nLog() >= auditlog.GroundingBlockSize
	if long {
		o.Class("log:with-grounding")
	} else {
		o.Class("log:short")
	}
	o.Class("ser:" + c.Ser)
	vs := map[uint16]bool{}
	hasCopy := false
	for _, e := range entries {
		vs[e.Version] = true
		if d, ok := e.Details.(*auditlog.LogDetails); ok && (d.Resource.SourceBucket != "" || d.Resource.SourceKey != "") {
			hasCopy = true
		}
	}
	for v := range vs {
		o.Class(fmt.Sprintf("has-version:%d", v))
	}
	if hasCopy {
		o.Class("has-copy-source")
	}

	// --- round trips: every serializer decodes exactly what it encoded ---------------
	for _, sn := range []string{"bin", "json", "jsonindent", "text"} {
		o.Sub++
		msg := roundTrip(sn, entries, nil)
		if msg == "" {
			o.Count("roundtrip_ok:"+sn, 1)
			continue
		}
		if sn == "text" && env.Known(matcherText) {
			msg2 := roundTrip(sn, entries, trimmed)
			if msg2 == "" {
				// exactly the known mechanism: what comes back is the entry with every value TrimSpace'd
				o.KnownHits = append(o.KnownHits, "KF-C27-2")
				o.Class("text-roundtrip:known-lossy")
				continue
			}
			msg = msg2 + " (expected side already has KF-C27-2's TrimSpace applied)"
		}
		o.Failf("round trip failed: %s", msg)
		return
	}
	if c.Mode == "roundtrip" {
		o.NonTrivial = true
		return
	}

	// --- tampering -------------------------------------------------------------------
	lc, err := prepare(serializerFor(c.Ser), entries)
	if err != nil {
		o.Failf("%v", err)
		return
	}
	if !lc.snapOK {
		o.Class("snapshots:disabled")
	}
	lc.fullEach = 211
	if long {
		lc.fullEach = 997
	}

	// which positions get the full field enumeration
	sel := map[int]bool{}
	if !long || len(c.Sel) == 0 && n <= 80 {
		for i := 0; i < n; i++ {
			sel[i] = true
		}
	} else {
		for _, i := range []int{0, 1, 2, n - 3, n - 2, n - 1} {
			if i >= 0 && i < n {
				sel[i] = true
			}
		}
		for i, e := range entries {
			if e.Type == auditlog.EntryTypeGrounding {
				for d := -2; d <= 2; d++ {
					if i+d >= 0 && i+d < n {
						sel[i+d] = true
					}
				}
			}
		}
		for _, s := range c.Sel {
			if s < 0 {
				s = -s
			}
			sel[s%n] = true
		}
	}

	decodable := 0
	knownSrc := 0
	// onlySource: the tampered entry is a LOG entry of format version <= 3 that differs from the
	// signed one in nothing but Resource.SourceBucket / Resource.SourceKey (KF-C27-1).
	check := func(t tamper, what string, field string, onlySource bool) bool {
		lc.counter++
		o.Sub++
		v := lc.judge(t, false)
		if v.kind != "accepted" && lc.counter%lc.fullEach == 0 {
			// cross-check the snapshot shortcut against a from-scratch validation
			fv := lc.judge(t, true)
			o.Count("full_crosschecks", 1)
			if fv.kind != v.kind || fv.at != v.at {
				o.Failf("harness cross-check: %s: from snapshot rejected as %s at %d, from scratch %s at %d (%s)", what, v.kind, v.at, fv.kind, fv.at, fv.reason)
				return false
			}
		}
		if v.kind == "accepted" {
			// confirm on the full path (whole log through decoder and a fresh validator)
			v = lc.judge(t, true)
		}
		o.Count("verdict:"+v.kind, 1)
		switch v.kind {
		case "unencodable":
			return true
		case "decode":
			return true
		case "accepted":
			if v.noop {
				o.Count("noop", 1)
				return true
			}
			if onlySource && env.Known(matcherSource) {
				knownSrc++
				return true
			}
			o.Failf("tampering not detected (%s serializer, %d entries): %s; the validator with both verifiers accepted all %d entries", c.Ser, n, what, v.accepted)
			return false
		default:
			decodable++
			o.Count("rejected_by_validator:"+field, 1)
			return true
		}
	}

	// Tamperings of the unhashed source fields that are followed to the end of the
	// log per case while KF-C27-1 is open (each costs a full signature pass).
	srcBudget := 12
	if long {
		srcBudget = 4
	}
	vs3 := variants
	if !long {
		vs3 = variants[:2] // without a grounding "relink+roots" is the same tampering as "relink"
	}
	for i := 0; i < n; i++ {
		if !sel[i] {
			continue
		}
		// raw: every value mutation of every field (is the field covered by the hash?).
		// relinked: the first applicable mutation of each field plus every mutation of
		// the chain fields (is the recomputed hash rejected by the signature?) - the
		// outcome of a relinked tampering does not depend on the new value, and each
		// one costs an Ed25519 verification.
		relinked := map[string]bool{}
		for _, m := range mutationsFor(lc, i, c.Alt) {
			isSrc := m.field == "source_bucket" || m.field == "source_key"
			chainField := m.field == "previous_hash" || m.field == "signature" || m.field == "type" || m.field == "version"
			for _, variant := range vs3 {
				if isSrc && env.Known(matcherSource) && entries[i].Version <= 3 && knownSrc >= srcBudget {
					o.Count("skipped_behind_KF-C27-1", 1)
					continue
				}
				if variant != "raw" && !chainField && relinked[variant+m.field] {
					continue
				}
				t, tampered, ok := lc.fieldTamper(i, m, variant)
				if !ok {
					continue
				}
				if variant != "raw" {
					relinked[variant+m.field] = true
				}
				what := fmt.Sprintf("entry %d (%s v%d) field %s %s, variant %s", i, entries[i].Type, entries[i].Version, m.field, m.kind, variant)
				onlySource := entries[i].Type == auditlog.EntryTypeLog && entries[i].Version <= 3 &&
					diffEntry(entries[i], tampered, true) == "" && diffEntry(entries[i], tampered, false) != ""
				if !check(t, what, m.field, onlySource) {
					return
				}
				o.Count("field_tamperings", 1)
				o.Count("field_tamperings:"+variant, 1)
			}
		}
	}
	for _, sm := range c.Struct {
		for _, variant := range vs3 {
			t, kind, ok := lc.structTamper(sm, variant, c.Forged)
			if !ok {
				continue
			}
			o.Class("struct:" + kind)
			what := fmt.Sprintf("structural %s i=%d j=%d, variant %s", kind, sm.I, sm.J, variant)
			if !check(t, what, "struct:"+kind, false) {
				return
			}
			o.Count("struct_tamperings", 1)
		}
	}
	if knownSrc > 0 {
		o.KnownHits = append(o.KnownHits, "KF-C27-1")
	}
	o.NonTrivial = decodable > 0
	return
}

// ---- generators ------------------------------------------------------------------------

var ops = []string{"CreateBucket", "DeleteBucket", "ListBuckets", "HeadObject", "GetObject", "PutObject", "CopyObject", "AppendObject", "DeleteObject",
	"DeleteObjects", "CreateMultipartUpload", "UploadPart", "UploadPartCopy", "CompleteMultipartUpload", "AbortMultipartUpload", "ListParts", "PutBucketVersioning", "ListObjectVersions"}

var hostile = []string{"", "", " ", "a", "a b", " lead", "trail ", "x\ny", "x\r\ny", "a|b", " | ", "a | b: c", "k: v", ": ", "é", "日本語", " ", " x ", "\\", "\\n", "a\\", "\\|", "\x00", "\t",
	"<>&\"'", "%", "Bucket: x", " | Hash: 00", "V3 [", "}{", "\",\"", "null", "ÿ", "\U0001F600"}

func genStr(t *rapid.T, label string) string {
	switch rapid.IntRange(0, 9).Draw(t, label+"K") {
	case 0, 1, 2:
		return rapid.SampledFrom(hostile).Draw(t, label)
	case 3:
		return rapid.SampledFrom(hostile).Draw(t, label+"a") + rapid.SampledFrom(hostile).Draw(t, label+"b")
	case 4:
		n := rapid.SampledFrom([]int{200, 255, 256, 257, 1000}).Draw(t, label+"L")
		return strings.Repeat(rapid.SampledFrom([]string{"a", "é", "| ", ": "}).Draw(t, label+"u"), n)
	case 5, 6:
		return rapid.StringN(0, 24, -1).Draw(t, label)
	default:
		return rapid.StringMatching(`[a-z0-9./-]{1,16}`).Draw(t, label)
	}
}

func genEntry(t *rapid.T, ts int64) E {
	var e E
	e.V = rapid.SampledFrom([]uint16{0, 0, 0, 0, 0, 0, 3, 3, 2, 1}).Draw(t, "v")
	e.Ts = ts
	if rapid.IntRange(0, 7).Draw(t, "opK") == 0 {
		e.Op = genStr(t, "op")
	} else {
		e.Op = rapid.SampledFrom(ops).Draw(t, "op")
	}
	switch rapid.IntRange(0, 9).Draw(t, "phK") {
	case 0:
		e.Ph = genStr(t, "ph")
	case 1, 2, 3, 4:
		e.Ph = "START"
	default:
		e.Ph = "COMPLETE"
	}
	e.B = genStr(t, "b")
	e.K = genStr(t, "k")
	if rapid.Bool().Draw(t, "hasU") {
		e.U = genStr(t, "u")
		e.P = rapid.SampledFrom([]int32{0, 1, 2, 10000, -1, 2147483647, -2147483648}).Draw(t, "p")
	}
	if e.Op == "CopyObject" || e.Op == "UploadPartCopy" || rapid.IntRange(0, 3).Draw(t, "srcK") == 0 {
		e.SB = genStr(t, "sb")
		e.SK = genStr(t, "sk")
	}
	e.Cr = genStr(t, "cr")
	if rapid.IntRange(0, 4).Draw(t, "atK") == 0 {
		e.At = genStr(t, "at")
	} else {
		e.At = rapid.SampledFrom([]string{"anonymous", "sigv4-header", "sigv4-presign"}).Draw(t, "at")
	}
	e.Rq = genStr(t, "rq")
	e.Tr = genStr(t, "tr")
	e.Ip = rapid.SampledFrom([]string{"", "10.0.0.1", "::1", "2001:db8::1", " 1.2.3.4", "x"}).Draw(t, "ip")
	e.St = rapid.SampledFrom([]int32{0, 200, 500, 403, -1, 2147483647}).Draw(t, "st")
	if rapid.IntRange(0, 4).Draw(t, "ocK") == 0 {
		e.Oc = genStr(t, "oc")
	} else {
		e.Oc = rapid.SampledFrom([]string{"pending", "success", "error", "denied"}).Draw(t, "oc")
	}
	if rapid.Bool().Draw(t, "hasErr") {
		e.Ec = genStr(t, "ec")
		e.Er = genStr(t, "er")
	}
	e.Du = rapid.SampledFrom([]int64{0, 1, 12, 4294967296, -1, 9223372036854775807}).Draw(t, "du")
	return e
}

func genTs(t *rapid.T) int64 {
	switch rapid.IntRange(0, 5).Draw(t, "tsK") {
	case 0:
		return rapid.SampledFrom([]int64{0, 1, -1, 1_000_000_000, 999_999_999, 1700000000_000000000, -6000000000_000000000, 8000000000_000000000}).Draw(t, "ts")
	case 1: // whole second / whole microsecond
		return rapid.Int64Range(0, 4_000_000_000).Draw(t, "tsS") * 1_000_000_000
	default:
		return rapid.Int64Range(1_600_000_000_000_000_000, 1_900_000_000_000_000_000).Draw(t, "ts")
	}
}

var structKinds = []string{"delete", "delete", "dup", "insert-copy", "insert-forged", "append-copy", "append-forged", "swap", "move", "replace-block-entry"}

func genStruct(t *rapid.T, n int) []SM {
	k := rapid.IntRange(4, 12).Draw(t, "nStruct")
	var out []SM
	for i := 0; i < k; i++ {
		out = append(out, SM{Kind: rapid.SampledFrom(structKinds).Draw(t, "sk"), I: rapid.IntRange(0, n+1).Draw(t, "si"), J: rapid.IntRange(0, n+1).Draw(t, "sj")})
	}
	return out
}

func genCase(t *rapid.T, env *ev.Env) Case {
	var c Case
	c.Ser = rapid.SampledFrom([]string{"bin", "bin", "json", "json", "jsonindent"}).Draw(t, "ser")
	n := rapid.IntRange(2, 60).Draw(t, "n")
	ts := genTs(t)
	for i := 0; i < n; i++ {
		switch rapid.IntRange(0, 5).Draw(t, "dtK") {
		case 0: // equal timestamps
		case 1:
			ts -= rapid.Int64Range(1, 1000).Draw(t, "back")
		default:
			ts += rapid.Int64Range(1, 2_000_000_000).Draw(t, "dt")
		}
		c.Entries = append(c.Entries, genEntry(t, ts))
	}
	c.Alt = []string{genStr(t, "alt0"), genStr(t, "alt1")}
	c.Forged = genEntry(t, ts+5)
	// about 2% (quick) / 4% (thorough) long logs; the residue test keeps rapid's
	// bias towards small and boundary values out of the rate
	longMod := 50
	if env.Thorough() {
		longMod = 25
	}
	if rapid.IntRange(0, 9999).Draw(t, "long")%longMod == 7 {
		c.Pad = rapid.SampledFrom([]int{1000, 1001, 1003, 1999, 2000, 2001, 2100}).Draw(t, "pad")
		c.Sel = rapid.SliceOfN(rapid.IntRange(0, c.Pad+2), 5, 40).Draw(t, "sel")
	}
	c.Struct = genStruct(t, c.nLog()+1)
	return c
}

func plainEntry(k int, op string) E {
	e := E{Ts: 1_750_000_000_000_000_000 + int64(k)*1_000_000, Op: op, Ph: "START", B: "bucket", K: fmt.Sprintf("dir/key-%d", k), Cr: "AKIDEXAMPLE", At: "sigv4-header",
		Rq: fmt.Sprintf("req-%d", k), Tr: "0af7651916cd43dd8448eb211c80319c", Ip: "10.0.0.1", Oc: "pending"}
	if k%2 == 1 {
		e.Ph, e.Oc, e.St, e.Du = "COMPLETE", "success", 200, 3
	}
	if op == "CopyObject" || op == "UploadPartCopy" {
		e.SB, e.SK = "src-bucket", "src/key"
	}
	if op == "UploadPart" || op == "UploadPartCopy" {
		e.U, e.P = "upload-1", 2
	}
	return e
}

// directed: long logs crossing 1-2 grounding blocks, with the block edge at
// every relative position, for every serializer.
func directed(env *ev.Env) []Case {
	var cs []Case
	base := []E{plainEntry(0, "PutObject"), plainEntry(1, "PutObject"), plainEntry(2, "CopyObject"), plainEntry(3, "CopyObject"), plainEntry(4, "UploadPartCopy"),
		plainEntry(5, "UploadPartCopy"), plainEntry(6, "DeleteObject"), plainEntry(7, "DeleteObject")}
	base[6].Er, base[6].Ec = "", ""
	base[7].Oc, base[7].St, base[7].Er, base[7].Ec = "error", 500, "no such key: x | y", "NoSuchKey"
	st := []SM{{"delete", 1, 0}, {"delete", 998, 3}, {"delete", 1000, 0}, {"delete", 1001, 0}, {"delete", 1, 999}, {"delete", 1, 1000}, {"dup", 1000, 1}, {"dup", 1001, 1}, {"dup", 5, 3000},
		{"swap", 1000, 0}, {"swap", 1001, 0}, {"swap", 3, 997}, {"move", 1001, 500}, {"move", 1001, 1002}, {"insert-copy", 1001, 1001}, {"insert-copy", 1002, 1001}, {"insert-forged", 1001, 0},
		{"insert-forged", 1002, 0}, {"append-copy", 0, 1001}, {"append-forged", 0, 0}, {"replace-block-entry", 1001, 2002}, {"replace-block-entry", 500, 1500}, {"insert-forged", 0, 0}, {"delete", 0, 0}}
	pads := []struct {
		ser string
		pad int
	}{{"bin", 1000}, {"json", 1001}, {"bin", 1999}, {"jsonindent", 2000}, {"json", 2001}, {"bin", 2100}}
	for i, p := range pads {
		sel := []int{}
		for k := 0; k < 30; k++ {
			sel = append(sel, (k*71+i*13)%(p.pad+2))
		}
		cs = append(cs, Case{Ser: p.ser, Entries: base, Pad: p.pad, Alt: []string{"other", " | Hash: 00"}, Struct: st, Sel: sel, Forged: plainEntry(9, "DeleteBucket")})
	}
	// short fixed log with every hostile value in every string field (all serializers incl. text round trip)
	for _, ser := range []string{"bin", "json", "jsonindent"} {
		var es []E
		for k, h := range hostile {
			e := plainEntry(k, ops[k%len(ops)])
			e.B, e.K, e.U, e.SB, e.SK, e.Cr, e.Rq, e.Tr, e.Ec, e.Er = h, h+"k", h, h, h+"s", h, h, h, h, h
			if k%5 == 0 {
				e.V = 2
			}
			if k%7 == 0 {
				e.V = 1
			}
			es = append(es, e)
		}
		cs = append(cs, Case{Ser: ser, Entries: es, Alt: []string{"x", ""}, Struct: []SM{{"delete", 1, 0}, {"dup", 2, 1}, {"swap", 1, 0}, {"move", 3, 1}, {"insert-forged", 2, 0}, {"append-copy", 0, 1}}, Forged: plainEntry(3, "GetObject")})
	}
	return cs
}

// ---- test entry points -----------------------------------------------------------------

func TestC27(t *testing.T) {
	ev.Main(t, ev.Spec[Case]{
		ID:    "C27",
		Level: "exploration",
		Rule: "a case is one generated signed log (10-60 LOG entries with arbitrary valid-UTF-8 values, versions 1-3; some with 1000-2100 entries = 1-2 groundings) x every field of every (selected) entry x value mutations x {raw, relinked, relinked+roots} + structural tamperings; " +
			"non-trivial when at least one tampered log stayed encodable and decodable so that only the Validator could reject it; distinct = distinct case JSON",
		Assumptions: []string{
			"Ed25519 and ML-DSA-87 signatures are unforgeable without the key (the attacker variants never use the private keys)",
			"verification = real decoder + auditlog.Validator with both verifiers, as `pithos audit-log verify` does",
			"tampered logs are validated from a validator snapshot positioned at the first changed entry; the snapshot is cross-checked against the real validator state on the untampered pass, every n-th rejection and every acceptance is re-validated from scratch through the whole log",
		},
		Gen:      genCase,
		Run:      run,
		Directed: directed,
	})
}

// knownOpen reports whether known-findings.json lists an open finding with this matcher
// (the fuzz target has no ev.Env).
func knownOpen(matcher string) bool {
	root := os.Getenv("VERIF_ROOT")
	if root == "" {
		root = "/verif"
	}
	b, err := os.ReadFile(filepath.Join(root, "known-findings.json"))
	if err != nil {
		return false
	}
	var ff struct {
		Findings []struct {
			Status  string `json:"status"`
			Matcher string `json:"matcher"`
		} `json:"findings"`
	}
	if json.Unmarshal(b, &ff) != nil {
		return false
	}
	for _, f := range ff.Findings {
		if f.Status == "open" && f.Matcher == matcher {
			return true
		}
	}
	return false
}

// binLengthsSane walks the binary framing (an independent reading of the format)
// and reports false when a length prefix exceeds the bytes that remain.
func binLengthsSane(b []byte) bool {
	take := func(n int) bool {
		if n > len(b) {
			b = nil
			return false
		}
		b = b[n:]
		return true
	}
	str := func() (string, bool, bool) { // value, ok (enough bytes), sane
		if len(b) < 4 {
			b = nil
			return "", false, true
		}
		l := int(uint32(b[0])<<24 | uint32(b[1])<<16 | uint32(b[2])<<8 | uint32(b[3]))
		b = b[4:]
		if l > len(b) {
			return "", false, false
		}
		s := string(b[:l])
		b = b[l:]
		return s, true, true
	}
	for len(b) > 0 {
		if len(b) < 10 {
			return true
		}
		version := uint16(b[0])<<8 | uint16(b[1])
		b = b[10:]
		typ, ok, sane := str()
		if !sane {
			return false
		}
		if !ok {
			return true
		}
		strs := func(n int) (bool, bool) {
			for i := 0; i < n; i++ {
				_, ok, sane := str()
				if !sane {
					return false, false
				}
				if !ok {
					return false, true
				}
			}
			return true, true
		}
		switch typ {
		case "LOG":
			if ok, sane := strs(5); !sane {
				return false
			} else if !ok {
				return true
			}
			if !take(4) {
				return true
			}
			n := 0
			if version >= 3 {
				n = 2
			}
			if version <= 1 {
				n += 2
			} else {
				n += 5
			}
			if ok, sane := strs(n); !sane {
				return false
			} else if !ok {
				return true
			}
			if version >= 2 {
				if !take(4) {
					return true
				}
				if ok, sane := strs(3); !sane {
					return false
				} else if !ok {
					return true
				}
				if !take(8) {
					return true
				}
			}
		case "GROUNDING":
			if ok, sane := strs(1); !sane {
				return false
			} else if !ok {
				return true
			}
			if !take(64 + 4627) {
				return true
			}
		}
		if !take(64 + 64 + 64) {
			return true
		}
	}
	return true
}

// FuzzC27: byte-level mutation of an encoded log. Only the seed logs were ever
// signed with the process keys, so every prefix of entries that the decoder
// yields and the Validator (both verifiers) accepts must be, field by field, a
// prefix of the seed log.
func FuzzC27(f *testing.F) {
	var es []E
	for k, op := range []string{"CreateBucket", "PutObject", "CopyObject", "CopyObject", "UploadPartCopy", "DeleteObject"} {
		es = append(es, plainEntry(k, op))
	}
	es[5].Er, es[5].Oc, es[5].St, es[5].Ph = "boom | x: y", "error", 500, "COMPLETE"
	legacy := plainEntry(6, "GetObject")
	legacy.V = 1
	es = append(es, legacy)
	v2 := plainEntry(7, "HeadObject")
	v2.V = 2
	es = append(es, v2)
	seed := buildLog(Case{Entries: es})
	for si, sn := range []string{"bin", "json", "jsonindent"} {
		var b bytes.Buffer
		for _, e := range seed {
			if err := serializerFor(sn).Encode(&b, e); err != nil {
				f.Fatal(err)
			}
		}
		f.Add(b.Bytes(), uint8(si))
	}
	ignoreSrc := knownOpen(matcherSource)
	f.Fuzz(func(t *testing.T, data []byte, which uint8) {
		ser := serializerFor([]string{"bin", "json", "jsonindent"}[int(which)%3])
		if int(which)%3 == 0 && !binLengthsSane(data) {
			// a length prefix points beyond the end of the input: the real decoder
			// fails with an unexpected EOF - after allocating that many bytes (up
			// to 4 GiB), which a fuzz worker cannot afford. Rejected either way.
			return
		}
		dec := ser.NewDecoder(bytes.NewReader(data))
		v := auditlog.NewValidator(edVerifier, mlVerifier)
		for i := 0; ; i++ {
			var e *auditlog.Entry
			var err error
			func() {
				defer func() {
					if r := recover(); r != nil {
						err = fmt.Errorf("decoder panic: %v", r)
					}
				}()
				e, err = dec.Decode()
			}()
			if err != nil {
				return
			}
			if safeValidate(v, e) != nil {
				return
			}
			if i >= len(seed) {
				t.Fatalf("validator accepted %d entries; only %d were ever signed", i+1, len(seed))
			}
			src := ignoreSrc && seed[i].Version <= 3
			if d := diffEntry(seed[i], e, src); d != "" {
				t.Fatalf("validator accepted entry %d which differs from the signed one: %s", i, d)
			}
		}
	})
}
