package c04

import (
	"bytes"
	"context"
	"errors"
	"io"
	"testing"

	"github.com/jdillenkofer/pithos/internal/storage"
	"github.com/jdillenkofer/pithos/verifharness/gen"

	"github.com/jdillenkofer/pithos/verifharness/dump"
	"github.com/jdillenkofer/pithos/verifharness/ev"
	"github.com/jdillenkofer/pithos/verifharness/prog"
	"github.com/jdillenkofer/pithos/verifharness/run"
	"github.com/jdillenkofer/pithos/verifharness/stacks"
	"pgregory.net/rapid"
)

var names = run.Names{Buckets: []string{"sums-a", "sums-b"}, Keys: []string{"k", "dir/k2", "K"}}

func genCfg(thorough bool) prog.GenConfig {
	// the quick tier reaches the 256 KiB hash-block size of the streaming checksum writer (±1)
	max := 262145
	if thorough {
		max = 3 << 20
	}
	return prog.GenConfig{
		Buckets: 2, Keys: 3, MinOps: 6, MaxOps: 30,
		Weights: map[string]int{
			prog.OpPut: 8, prog.OpCopy: 6, prog.OpAppend: 6, prog.OpMpuSeq: 8, prog.OpMpuPart: 2, prog.OpMpuPartCopy: 3,
			prog.OpMpuComplete: 2, prog.OpSetVersioning: 1, prog.OpGet: 2, prog.OpHead: 1, prog.OpDelete: 1,
		},
		Supplied: true, CkTypes: true, Manifests: true, Boundaries: []int{1024, 65536, 262144}, MaxBody: max, HotKey: true,
	}
}

// Abort is an upload whose source fails in mid-stream (a client that goes away): PutObject of Len bytes to key
// "aborted" of the first bucket, the reader returns an error after FailAt bytes. It must fail, and the uploads
// after it must still get ETags and checksums of their own bodies (seeded defect S-C04-3: pooled digests that
// are released while a hash worker of the aborted upload is still writing into them).
type Abort struct {
	After  int    `json:"after"` // executed after step After (modulo the number of steps)
	FailAt int    `json:"failAt"`
	Class  string `json:"class,omitempty"`
}

// Case is a program plus aborted uploads between its steps.
type Case struct {
	run.ProgCase
	Aborts []Abort `json:"aborts,omitempty"`
}

var errAborted = errors.New("verif: upload source failed")

type failingReader struct {
	r      io.Reader
	failed bool
}

func (f *failingReader) Read(p []byte) (int, error) {
	n, err := f.r.Read(p)
	if err == io.EOF {
		f.failed = true
		return n, errAborted
	}
	return n, err
}

func genCase(t *rapid.T, env *ev.Env) Case {
	stack := rapid.SampledFrom([]string{"P2", "P1", "P3", "N1"}).Draw(t, "stack")
	c := Case{ProgCase: run.ProgCase{Stack: stack, Ops: genCfg(env.Thorough()).Gen(t)}}
	if rapid.IntRange(0, 3).Draw(t, "aborts") == 1 {
		n := rapid.IntRange(1, 3).Draw(t, "nAborts")
		for i := 0; i < n; i++ {
			c.Aborts = append(c.Aborts, Abort{
				After:  rapid.IntRange(0, len(c.Ops)).Draw(t, "abortAfter"),
				FailAt: 262144*rapid.IntRange(1, 3).Draw(t, "abortBlocks") + rapid.SampledFrom([]int{0, 0, 1, 70000}).Draw(t, "abortExtra"),
				Class:  rapid.SampledFrom([]string{"", "GLACIER"}).Draw(t, "abortClass"),
			})
		}
	}
	return c
}

func runCase(env *ev.Env, c Case) ev.Outcome {
	var st run.ProgStats
	step, abortsDone := 0, 0
	doAborts := func(inst *stacks.Instance, o *ev.Outcome) bool {
		for _, a := range c.Aborts {
			n := len(c.Ops)
			if n == 0 || ((a.After%n)+n)%n != step%n || a.FailAt < 1 || a.FailAt > 8<<20 {
				continue
			}
			data := gen.BodySpec{Kind: "rand", Len: a.FailAt, Seed: 77}.Bytes()
			var opts *storage.PutObjectOptions
			if a.Class != "" {
				cl := a.Class
				opts = &storage.PutObjectOptions{StorageClass: &cl}
			}
			bn, kn := storage.MustNewBucketName(names.Buckets[0]), storage.MustNewObjectKey("aborted")
			_, err := inst.Storage.PutObject(context.Background(), bn, kn, nil, &failingReader{r: bytes.NewReader(data)}, nil, opts)
			o.Sub++
			abortsDone++
			if err == nil {
				o.Failf("after step %d: PutObject whose source failed after %d bytes was accepted", step, a.FailAt)
				return true
			}
		}
		return false
	}
	suppliedBad, suppliedOK, multiPartSizes, reuse := 0, 0, false, false
	appends := map[string]int{}
	after := func(s *run.Session, inst *stacks.Instance, sr *run.StepResult, o *ev.Outcome) bool {
		defer func() { step++ }()
		if doAborts(inst, o) {
			return true
		}
		if sr.Op.Supplied != "" {
			if prog.SuppliedIsBad(sr.Op.Supplied) {
				suppliedBad++
			} else {
				suppliedOK++
			}
		}
		if sr.Expect.Err != "" {
			return false
		}
		switch sr.Op.Kind {
		case prog.OpAppend:
			appends[sr.Concrete.Bucket+"/"+sr.Concrete.Key]++
		case prog.OpMpuComplete:
			if v := s.Model.CurrentObject(sr.Concrete.Bucket, sr.Concrete.Key); v != nil && len(v.Parts) >= 3 {
				sizes := map[int]bool{}
				for _, p := range v.Parts {
					sizes[len(p.Data)] = true
				}
				if len(sizes) >= 2 {
					multiPartSizes = true
				}
			}
		case prog.OpCopy, prog.OpMpuPartCopy:
			reuse = true
		}
		return false
	}
	o := run.RunModelProgram(env, c.ProgCase, run.ModelRunOptions{Dump: dump.Options{Versions: true}, Names: names, Stats: &st, AfterStep: after})
	twoAppends := false
	for _, n := range appends {
		if n >= 2 {
			twoAppends = true
		}
	}
	o.NonTrivial = (multiPartSizes || twoAppends) && reuse
	o.Count("supplied_bad", suppliedBad)
	o.Count("supplied_ok", suppliedOK)
	if multiPartSizes {
		o.Class(">=3-parts-of-different-sizes")
	}
	if twoAppends {
		o.Class(">=2-appends-on-one-key")
	}
	if reuse {
		o.Class("copy-or-part-copy")
	}
	if abortsDone > 0 {
		o.Class("aborted-upload-between-steps")
		o.Count("aborted_uploads", abortsDone)
	}
	for k, v := range st.OKByKind {
		o.Count("ok:"+k, v)
	}
	for k, v := range st.FailByKind {
		o.Count("fail:"+k, v)
	}
	return o
}

func TestC04(t *testing.T) {
	ev.Main(t, ev.Spec[Case]{
		ID:    "C04",
		Level: "exploration",
		Rule: "write-heavy programs (put, multipart with arbitrary part-size sequences incl. empty parts and both checksum types, UploadPartCopy of whole parts and ranges, append chains, copies) with optional supplied checksums/Content-MD5 that are right, wrong in one field, or right for another body, at put/part/append/complete; every ETag and checksum returned by a write or a following Head/Get/listing is compared with values recomputed from the model's bytes; " +
			"non-trivial = (a completed upload with >=3 parts of different sizes OR >=2 appends on one key) AND a copy or UploadPartCopy; distinct = distinct case JSON",
		Assumptions: []string{"reference digests: Go stdlib md5/sha1/sha256/crc32 and a CRC-64/NVME table built from the bitwise definition (checked against pithos' own arithmetic separately in C35)", "absent checksum values are accepted, present ones must be right"},
		Gen:         genCase,
		Run:         runCase,
	})
}
