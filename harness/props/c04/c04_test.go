package c04

import (
	"testing"

	"github.com/jdillenkofer/pithos/verifharness/dump"
	"github.com/jdillenkofer/pithos/verifharness/ev"
	"github.com/jdillenkofer/pithos/verifharness/prog"
	"github.com/jdillenkofer/pithos/verifharness/run"
	"github.com/jdillenkofer/pithos/verifharness/stacks"
	"pgregory.net/rapid"
)

var names = run.Names{Buckets: []string{"sums-a", "sums-b"}, Keys: []string{"k", "dir/k2", "K"}}

func genCfg(thorough bool) prog.GenConfig {
	// the quick tier reaches the 256 KiB hash-block size of the streaming checksum writer (±1)
	max := 262145
	if thorough {
		max = 3 << 20
	}
	return prog.GenConfig{
		Buckets: 2, Keys: 3, MinOps: 6, MaxOps: 30,
		Weights: map[string]int{
			prog.OpPut: 8, prog.OpCopy: 6, prog.OpAppend: 6, prog.OpMpuSeq: 8, prog.OpMpuPart: 2, prog.OpMpuPartCopy: 3,
			prog.OpMpuComplete: 2, prog.OpSetVersioning: 1, prog.OpGet: 2, prog.OpHead: 1, prog.OpDelete: 1,
		},
		Supplied: true, CkTypes: true, Manifests: true, Boundaries: []int{1024, 65536, 262144}, MaxBody: max, HotKey: true,
	}
}

func genCase(t *rapid.T, env *ev.Env) run.ProgCase {
	stack := rapid.SampledFrom([]string{"P2", "P1", "P3", "N1"}).Draw(t, "stack")
	return run.ProgCase{Stack: stack, Ops: genCfg(env.Thorough()).Gen(t)}
}

func runCase(env *ev.Env, c run.ProgCase) ev.Outcome {
	var st run.ProgStats
	suppliedBad, suppliedOK, multiPartSizes, reuse := 0, 0, false, false
	appends := map[string]int{}
	after := func(s *run.Session, inst *stacks.Instance, sr *run.StepResult, o *ev.Outcome) bool {
		if sr.Op.Supplied != "" {
			if prog.SuppliedIsBad(sr.Op.Supplied) {
				suppliedBad++
			} else {
				suppliedOK++
			}
		}
		if sr.Expect.Err != "" {
			return false
		}
		switch sr.Op.Kind {
		case prog.OpAppend:
			appends[sr.Concrete.Bucket+"/"+sr.Concrete.Key]++
		case prog.OpMpuComplete:
			if v := s.Model.CurrentObject(sr.Concrete.Bucket, sr.Concrete.Key); v != nil && len(v.Parts) >= 3 {
				sizes := map[int]bool{}
				for _, p := range v.Parts {
					sizes[len(p.Data)] = true
				}
				if len(sizes) >= 2 {
					multiPartSizes = true
				}
			}
		case prog.OpCopy, prog.OpMpuPartCopy:
			reuse = true
		}
		return false
	}
	o := run.RunModelProgram(env, c, run.ModelRunOptions{Dump: dump.Options{Versions: true}, Names: names, Stats: &st, AfterStep: after})
	twoAppends := false
	for _, n := range appends {
		if n >= 2 {
			twoAppends = true
		}
	}
	o.NonTrivial = (multiPartSizes || twoAppends) && reuse
	o.Count("supplied_bad", suppliedBad)
	o.Count("supplied_ok", suppliedOK)
	if multiPartSizes {
		o.Class(">=3-parts-of-different-sizes")
	}
	if twoAppends {
		o.Class(">=2-appends-on-one-key")
	}
	if reuse {
		o.Class("copy-or-part-copy")
	}
	for k, v := range st.OKByKind {
		o.Count("ok:"+k, v)
	}
	for k, v := range st.FailByKind {
		o.Count("fail:"+k, v)
	}
	return o
}

func TestC04(t *testing.T) {
	ev.Main(t, ev.Spec[run.ProgCase]{
		ID:    "C04",
		Level: "exploration",
		Rule: "write-heavy programs (put, multipart with arbitrary part-size sequences incl. empty parts and both checksum types, UploadPartCopy of whole parts and ranges, append chains, copies) with optional supplied checksums/Content-MD5 that are right, wrong in one field, or right for another body, at put/part/append/complete; every ETag and checksum returned by a write or a following Head/Get/listing is compared with values recomputed from the model's bytes; " +
			"non-trivial = (a completed upload with >=3 parts of different sizes OR >=2 appends on one key) AND a copy or UploadPartCopy; distinct = distinct case JSON",
		Assumptions: []string{"reference digests: Go stdlib md5/sha1/sha256/crc32 and a CRC-64/NVME table built from the bitwise definition (checked against pithos' own arithmetic separately in C35)", "absent checksum values are accepted, present ones must be right"},
		Gen:         genCase,
		Run:         runCase,
	})
}
