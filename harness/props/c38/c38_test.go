// Package c38 checks C38: the S3 client backend behaves like the storage it
// forwards to.
//
// Side 0: s3client.NewStorage(aws-sdk-go-v2 client) -> real HTTP (httptest
// server) -> server.SetupServer (SigV4 credentials configured) -> plain
// metadatapart storage A. Side 1: an identical plain storage B driven directly.
// The same generated program runs on both; every call's result (error kind,
// returned fields, object views, listings incl. pagination) is compared and at
// the end dump(A) must equal dump(B).
package c38

import (
	"bytes"
	"context"
	"errors"
	"fmt"
	"io"
	"net"
	"net/http"
	"net/http/httptest"
	"os"
	"sort"
	"strings"
	"sync"
	"testing"
	"time"

	"github.com/aws/aws-sdk-go-v2/aws"
	"github.com/aws/aws-sdk-go-v2/credentials"
	"github.com/aws/aws-sdk-go-v2/service/s3"
	"github.com/jdillenkofer/pithos/internal/http/server"
	"github.com/jdillenkofer/pithos/internal/http/server/authorization"
	"github.com/jdillenkofer/pithos/internal/settings"
	"github.com/jdillenkofer/pithos/internal/storage"
	"github.com/jdillenkofer/pithos/internal/storage/s3client"
	"github.com/jdillenkofer/pithos/verifharness/dump"
	"github.com/jdillenkofer/pithos/verifharness/ev"
	"github.com/jdillenkofer/pithos/verifharness/prog"
	"github.com/jdillenkofer/pithos/verifharness/run"
	"github.com/jdillenkofer/pithos/verifharness/stacks"
	"pgregory.net/rapid"
)

// Query is a read-only call that prog.Op does not cover (paginated listings,
// tagging reads, upload listings).
type Query struct {
	Kind      string `json:"kind"` // listObjects | listVersions | getTags | listUploads | listParts | headBucket | getVersioning | listBuckets
	B         int    `json:"b"`
	K         int    `json:"k,omitempty"`
	Prefix    string `json:"prefix,omitempty"`
	Delimiter string `json:"delimiter,omitempty"`
	MaxKeys   int    `json:"maxKeys,omitempty"`
	Ver       string `json:"ver,omitempty"`
}

// Step is one step of a case: an operation of the shared program vocabulary or a query.
type Step struct {
	Op *prog.Op `json:"op,omitempty"`
	Q  *Query   `json:"q,omitempty"`
}

// Case is one twin program.
type Case struct {
	Stack string `json:"stack"`
	Steps []Step `json:"steps"`
}

var names = run.DefaultNames // buckets bucket-a, bucket.b; keys a, a/b, A, "é %_"

type allowAll struct{}

func (allowAll) AuthorizeRequest(ctx context.Context, request *authorization.Request) (bool, error) {
	return true, nil
}

const (
	accessKey = "AKIAVERIFC38EXAMPLE"
	secretKey = "c38/secret/key/wJalrXUtnFEMI/K7MDENG"
	region    = "eu-central-1"
)

func cfg() prog.GenConfig {
	return prog.GenConfig{
		Buckets: 2, Keys: 4, MinOps: 4, MaxOps: 22,
		Weights: map[string]int{
			prog.OpCreateBucket: 2, prog.OpDeleteBucket: 1, prog.OpSetVersioning: 2, prog.OpPut: 14, prog.OpCopy: 6,
			prog.OpMpuSeq: 4, prog.OpMpuCreate: 1, prog.OpMpuPart: 2, prog.OpMpuPartCopy: 3, prog.OpMpuComplete: 1, prog.OpMpuAbort: 1,
			prog.OpDelete: 4, prog.OpDeleteObjects: 2, prog.OpTransition: 2, prog.OpPutTags: 2, prog.OpDeleteTags: 1,
			prog.OpHead: 5, prog.OpGet: 7, prog.OpList: 1,
		},
		Classes: []string{"STANDARD", "GLACIER", "STANDARD_IA"}, Meta: true, Tags: true, Versions: true, Conditions: true, SrcConds: true,
		Boundaries: []int{1024, 65536}, MaxBody: 70000, Manifests: true,
	}
}

var queryKinds = []string{"listObjects", "listObjects", "listVersions", "listVersions", "getTags", "getTags", "listUploads", "listParts", "headBucket", "getVersioning", "listBuckets"}

func gen38(t *rapid.T, env *ev.Env) Case {
	c := Case{Stack: rapid.SampledFrom([]string{"P2", "P1"}).Draw(t, "stack")}
	g := cfg()
	// half of the cases concentrate on one key (long histories, conditions and version
	// references that hit), the other half spread over the key universe (listings)
	g.HotKey = rapid.Bool().Draw(t, "hotKey")
	ops := g.Gen(t)
	// three unconditional puts right after the buckets exist, so that reads, copies, conditions and
	// version references of the program find objects (a random program alone mostly misses)
	var seedPuts []prog.Op
	for j := 0; j < 3; j++ {
		p := g.GenOp(t, prog.OpPut)
		p.IfMatch, p.IfNoneMatchStar, p.Tags = "", false, nil
		if j == 0 {
			p.B, p.K = 0, 0
		}
		seedPuts = append(seedPuts, p)
	}
	// in half of the cases bucket 0 is versioning-enabled from the start (version ids in results, delete
	// markers, named versions and ListObjectVersions are a large part of the translation under test)
	head := append([]prog.Op(nil), ops[:2]...)
	if rapid.Bool().Draw(t, "versioned") {
		head = append(head, prog.Op{Kind: prog.OpSetVersioning, B: 0, Status: "Enabled"})
	}
	ops = append(append(head, seedPuts...), ops[2:]...)
	for i := range ops {
		op := ops[i]
		fixExpires(&op)
		// a nil content type cannot be expressed through the SDK (it always sends
		// Content-Type: application/octet-stream): always name one
		if (op.Kind == prog.OpPut || op.Kind == prog.OpMpuCreate || (op.Kind == prog.OpCopy && op.ReplaceMeta)) && op.ContentType == nil {
			ct := "application/octet-stream"
			op.ContentType = &ct
		}
		// ranged CopyObject is answered with ErrNotImplemented by S3ClientStorage (documented-unsupported)
		if op.Kind == prog.OpCopy {
			op.Range = nil
			// an unchanged copy of an object onto itself is rejected by the S3 API (InvalidRequest)
			if op.SB == op.B && op.SK == op.K {
				op.K = (op.K + 1) % 4
			}
		}
		// a transition of a named version is answered with ErrNotImplemented (documented-unsupported)
		if op.Kind == prog.OpTransition {
			op.Ver = ""
		}
		// DeleteObjects names each key at most once: the response lists deleted and failed
		// entries separately, so results of a key named twice cannot be paired with their requests
		if op.Kind == prog.OpDeleteObjects {
			seen := map[int]bool{}
			var es []prog.DelSpec
			for _, e := range op.Entries {
				if !seen[e.K%len(names.Keys)] {
					seen[e.K%len(names.Keys)] = true
					es = append(es, e)
				}
			}
			op.Entries = es
		}
		// (KF-C38-4, KF-C38-6 and KF-C38-8 are fixed: tagged puts, REPLACE-tag copies and conditional
		// DeleteObjects entries are no longer thinned out in the generator)
		// version references and conditions mostly miss in a random program: half of them are dropped so
		// that enough operations succeed (the other half keeps the failing paths populated)
		if (op.Ver != "" || op.SrcVer != "") && rapid.Bool().Draw(t, "dropVer") {
			op.Ver, op.SrcVer = "", ""
		}
		if (op.IfMatch != "" || op.IfNoneMatchStar || op.SrcCond != "") && rapid.Bool().Draw(t, "dropCond") {
			op.IfMatch, op.IfNoneMatchStar, op.SrcCond = "", false, ""
		}

		c.Steps = append(c.Steps, Step{Op: &op})
		// a plain read of the key right after half of the deletes: in a versioning-enabled bucket its current
		// version is then a delete marker, whose error (kind, marker version id) has its own translation
		// (seeded defect S-C38-2); after an unversioned delete it is the plain NoSuchKey path
		if (op.Kind == prog.OpDelete || op.Kind == prog.OpDeleteObjects) && rapid.Bool().Draw(t, "readAfterDelete") {
			rd := prog.Op{Kind: rapid.SampledFrom([]string{prog.OpHead, prog.OpGet}).Draw(t, "radKind"), B: op.B, K: op.K}
			if op.Kind == prog.OpDeleteObjects && len(op.Entries) > 0 {
				rd.K = op.Entries[0].K
			}
			c.Steps = append(c.Steps, Step{Op: &rd})
		}
		if i < 2 || rapid.IntRange(0, 3).Draw(t, "query?") != 0 {
			continue
		}
		hi := rapid.IntRange(0, 63).Draw(t, "qHi")
		lo := rapid.IntRange(0, 63).Draw(t, "qLo")
		q := Query{Kind: queryKinds[(hi*64+lo*37)%len(queryKinds)], B: rapid.IntRange(0, 1).Draw(t, "qb"), K: rapid.IntRange(0, 3).Draw(t, "qk")}
		switch q.Kind {
		case "listObjects", "listVersions":
			q.Prefix = rapid.SampledFrom([]string{"", "", "a", "a/", "é", "A"}).Draw(t, "prefix")
			q.Delimiter = rapid.SampledFrom([]string{"", "", "/"}).Draw(t, "delim")
			q.MaxKeys = rapid.SampledFrom([]int{1, 1, 2, 3, 1000}).Draw(t, "maxKeys")
		case "getTags":
			q.Ver = rapid.SampledFrom([]string{"", "", "null", "ref:0", "ref:1"}).Draw(t, "qver")
		}
		c.Steps = append(c.Steps, Step{Q: &q})
	}
	// closing queries: a full paginated walk of both listings of every bucket
	for b := 0; b < 2; b++ {
		c.Steps = append(c.Steps, Step{Q: &Query{Kind: "listObjects", B: b, MaxKeys: 1}}, Step{Q: &Query{Kind: "listVersions", B: b, MaxKeys: 2}})
	}
	return c
}

// fixExpires: the S3 protocol carries Expires as an HTTP date; well-formed
// IMF-fixdates only (same input precondition as C37).
func fixExpires(op *prog.Op) {
	if op.Meta != nil && op.Meta.Expires != nil && *op.Meta.Expires == "Thu, 01 Dec 2094 16:00:00 GMT" {
		m := op.Meta.Clone()
		v := "Wed, 01 Dec 2094 16:00:00 GMT"
		m.Expires = &v
		op.Meta = &m
	}
}

// ---- canonical query results -------------------------------------------------------

type symIDs struct {
	m map[string]string
}

func (s *symIDs) of(id string) string {
	if id == "" || id == "null" {
		return "null"
	}
	if v, ok := s.m[id]; ok {
		return v
	}
	v := fmt.Sprintf("v%d", len(s.m))
	s.m[id] = v
	return v
}

// etagOf: a delete marker has no ETag; nil and "" are the same observation
func etagOf(p *string) string {
	if p == nil {
		return ""
	}
	return *p
}

func sp(p *string) string {
	if p == nil {
		return "<nil>"
	}
	return *p
}

// doQuery runs a query on one storage and renders the observable result
// canonically; a panic inside the storage is an observable result too.
func doQuery(ctx context.Context, st storage.Storage, s *run.Session, side int, q Query) (out string, pages [][]string) {
	defer func() {
		if r := recover(); r != nil {
			out, pages = "ERR Panic", nil
		}
	}()
	out = doQuery1(ctx, st, s, side, q, &pages)
	return
}

// flatten is the walk of a listing without its page structure: the set of its entries.
func flatten(pages [][]string) string {
	seen := map[string]bool{}
	var out []string
	for _, p := range pages {
		for _, e := range p {
			if !seen[e] {
				seen[e] = true
				out = append(out, e)
			}
		}
	}
	sort.Strings(out)
	return strings.Join(out, " ")
}

// stripPrefixes renders the entries of a walk without the common prefixes.
func stripPrefixes(pages [][]string) string {
	var out []string
	seen := map[string]bool{}
	for _, p := range pages {
		for _, e := range p {
			if !strings.HasPrefix(e, "prefix(") && !seen[e] {
				seen[e] = true
				out = append(out, e)
			}
		}
	}
	sort.Strings(out)
	return strings.Join(out, " ")
}

// prefixesLost: the common prefixes of walk a are a proper subset of those of walk b.
func prefixesLost(a, b [][]string) bool {
	set := func(pages [][]string) map[string]bool {
		m := map[string]bool{}
		for _, p := range pages {
			for _, e := range p {
				if strings.HasPrefix(e, "prefix(") {
					m[e] = true
				}
			}
		}
		return m
	}
	sa, sb := set(a), set(b)
	for e := range sa {
		if !sb[e] {
			return false
		}
	}
	return len(sa) < len(sb)
}

func maxPage(pages [][]string) int {
	n := 0
	for _, p := range pages {
		if len(p) > n {
			n = len(p)
		}
	}
	return n
}

// clientSide is side 0: S3ClientStorage. A panic inside a storage call becomes
// the error kind "Panic". The session learns the version ids a side created from
// the results of its writes; where S3ClientStorage returns none (KF-C38-5) the id
// is read from storage A directly (it sits behind the server, so that is the id
// the client should have returned) - only for the session's bookkeeping, so that
// later ops can name the version on both sides. The id actually returned is kept
// in rawVersion and is what the per-call comparison sees.
type clientSide struct {
	inner      prog.Side
	a          storage.Storage
	rawVersion string
}

func (s *clientSide) Do(c prog.Concrete) (r prog.Result) {
	defer func() {
		if p := recover(); p != nil {
			r = prog.Result{Err: "Panic", ErrText: fmt.Sprint(p), Size: -1}
			s.rawVersion = ""
		}
	}()
	r = s.inner.Do(c)
	s.rawVersion = r.Version
	if r.Err == "" && c.Kind == prog.OpDeleteObjects {
		// the wire format carries the deleted entries and the failed entries as two
		// separate lists: bring them back into request order (keys are distinct per request)
		var ordered []prog.DelResult
		used := make([]bool, len(r.Entries))
		for _, want := range c.Entries {
			for i, e := range r.Entries {
				if !used[i] && e.Key == want.Key {
					used[i] = true
					ordered = append(ordered, e)
					break
				}
			}
		}
		for i, e := range r.Entries {
			if !used[i] {
				ordered = append(ordered, e)
			}
		}
		r.Entries = ordered
	}
	if r.Err != "" || r.Version != "" {
		return r
	}
	switch c.Kind {
	case prog.OpPut, prog.OpCopy, prog.OpMpuComplete:
		if o, err := s.a.HeadObject(context.Background(), storage.MustNewBucketName(c.Bucket), storage.MustNewObjectKey(c.Key), nil); err == nil && o.VersionID != nil {
			r.Version = *o.VersionID
		}
	case prog.OpDelete:
		if c.VersionID == nil {
			_, err := s.a.HeadObject(context.Background(), storage.MustNewBucketName(c.Bucket), storage.MustNewObjectKey(c.Key), nil)
			var cdm *storage.CurrentDeleteMarkerError
			if errors.As(err, &cdm) {
				r.Version = cdm.VersionID
			}
		}
	}
	return r
}

func doQuery1(ctx context.Context, st storage.Storage, s *run.Session, side int, q Query, pages *[][]string) string {
	bucket := names.Buckets[q.B%len(names.Buckets)]
	key := names.Keys[q.K%len(names.Keys)]
	bn := storage.MustNewBucketName(bucket)
	errs := func(err error) string { return "ERR " + prog.Classify(err) }
	var sb strings.Builder
	switch q.Kind {
	case "listBuckets":
		bs, err := st.ListBuckets(ctx)
		if err != nil {
			return errs(err)
		}
		var ns []string
		for _, b := range bs {
			ns = append(ns, b.Name.String())
		}
		sort.Strings(ns)
		return strings.Join(ns, ",")
	case "headBucket":
		b, err := st.HeadBucket(ctx, bn)
		if err != nil {
			return errs(err)
		}
		return "bucket " + b.Name.String()
	case "getVersioning":
		vc, err := st.GetBucketVersioningConfiguration(ctx, bn)
		if err != nil {
			return errs(err)
		}
		if vc == nil || vc.Status == nil {
			return "versioning <unset>"
		}
		return "versioning " + string(*vc.Status)
	case "getTags":
		var opts *storage.ObjectTaggingOptions
		if v := s.Resolve(prog.Op{Kind: prog.OpHead, B: q.B, K: q.K, Ver: q.Ver}, side).VersionID; v != nil {
			opts = &storage.ObjectTaggingOptions{VersionID: v}
		}
		tags, err := st.GetObjectTagging(ctx, bn, storage.MustNewObjectKey(key), opts)
		if err != nil {
			return errs(err)
		}
		return "tags " + prog.TagsString(tags)
	case "listObjects":
		var startAfter *string
		var pfx, delim *string
		if q.Prefix != "" {
			pfx = &q.Prefix
		}
		if q.Delimiter != "" {
			delim = &q.Delimiter
		}
		for page := 0; page < 50; page++ {
			res, err := st.ListObjects(ctx, bn, storage.ListObjectsOptions{Prefix: pfx, Delimiter: delim, StartAfter: startAfter, MaxKeys: int32(q.MaxKeys)})
			if err != nil {
				return sb.String() + errs(err)
			}
			fmt.Fprintf(&sb, "page[trunc=%v", res.IsTruncated)
			// continuation as storage.ListAllObjectsOfBucket does it: after the last object of the
			// page; after the last common prefix only when the page has no object (the storage may
			// report common prefixes that sort behind objects it has not listed yet)
			last := ""
			var entries []string
			for _, o := range res.Objects {
				entries = append(entries, fmt.Sprintf("obj(%q size=%d etag=%s class=%s)", o.Key.String(), o.Size, o.ETag, storage.EffectiveStorageClass(o.StorageClass)))
				if o.Key.String() > last {
					last = o.Key.String()
				}
			}
			for _, p := range res.CommonPrefixes {
				entries = append(entries, fmt.Sprintf("prefix(%q)", p))
				if len(res.Objects) == 0 && p > last {
					last = p
				}
			}
			for _, e := range entries {
				sb.WriteString(" " + e)
			}
			*pages = append(*pages, entries)
			sb.WriteString("] ")
			if !res.IsTruncated || last == "" || (startAfter != nil && *startAfter == last) {
				break
			}
			l := last
			startAfter = &l
		}
		return sb.String()
	case "listVersions":
		var km, vm *string
		var pfx, delim *string
		if q.Prefix != "" {
			pfx = &q.Prefix
		}
		if q.Delimiter != "" {
			delim = &q.Delimiter
		}
		for page := 0; page < 50; page++ {
			res, err := st.ListObjectVersions(ctx, bn, storage.ListObjectVersionsOptions{Prefix: pfx, Delimiter: delim, KeyMarker: km, VersionIDMarker: vm, MaxKeys: int32(q.MaxKeys)})
			if err != nil {
				return sb.String() + errs(err)
			}
			fmt.Fprintf(&sb, "page[trunc=%v n=%d", res.IsTruncated, len(res.Versions))
			// the S3 wire format lists versions and delete markers in two separate
			// sequences, so their relative order inside one page is not carried;
			// compare the page as a set ordered by (key, listing position per kind)
			var rows []string
			for _, v := range res.Versions {
				rows = append(rows, fmt.Sprintf("ver(%q %s latest=%v marker=%v size=%d etag=%s class=%s)", v.Key.String(), prog.NormVersion(v.VersionID), v.IsLatest, v.IsDeleteMarker, v.Size, etagOf(v.ETag), storage.EffectiveStorageClass(v.StorageClass)))
			}
			sort.Strings(rows)
			sb.WriteString(" " + strings.Join(rows, " "))
			for _, p := range res.CommonPrefixes {
				fmt.Fprintf(&sb, " prefix(%q)", p)
				rows = append(rows, fmt.Sprintf("prefix(%q)", p))
			}
			*pages = append(*pages, rows)
			sb.WriteString("] ")
			if !res.IsTruncated {
				break
			}
			km, vm = res.NextKeyMarker, res.NextVersionIDMarker
			if km == nil {
				sb.WriteString("truncated-without-marker")
				break
			}
		}
		return sb.String()
	case "listUploads":
		res, err := st.ListMultipartUploads(ctx, bn, storage.ListMultipartUploadsOptions{MaxUploads: 1000})
		if err != nil {
			return errs(err)
		}
		var rows []string
		for _, u := range res.Uploads {
			rows = append(rows, fmt.Sprintf("upload(%q class=%s)", u.Key.String(), storage.EffectiveStorageClass(u.StorageClass)))
		}
		sort.Strings(rows)
		return fmt.Sprintf("uploads[trunc=%v] %s", res.IsTruncated, strings.Join(rows, " "))
	case "listParts":
		c := s.Resolve(prog.Op{Kind: prog.OpMpuAbort, B: q.B, K: q.K, Upload: prog.LastUpload}, side)
		uid, err := storage.NewUploadId(c.UploadID)
		if err != nil {
			return "ERR bad upload id"
		}
		res, err := st.ListParts(ctx, storage.MustNewBucketName(c.Bucket), storage.MustNewObjectKey(c.Key), uid, storage.ListPartsOptions{MaxParts: 1000})
		if err != nil {
			return errs(err)
		}
		for _, p := range res.Parts {
			fmt.Fprintf(&sb, "part(%d size=%d etag=%s) ", p.PartNumber, p.Size, p.ETag)
		}
		return fmt.Sprintf("parts[trunc=%v] %s", res.IsTruncated, sb.String())
	}
	return "harness: unknown query " + q.Kind
}

// ---- per-call comparison -------------------------------------------------------------

// diff is one discrepancy between the client side and the direct side.
type diff struct {
	Code string // mechanism code: "<op>/<field>[/<detail>]"
	Text string
	Idx  int // deleteObjects: index of the entry, otherwise -1
}

func pstr(p *string) string {
	if p == nil {
		return "<nil>"
	}
	return fmt.Sprintf("%q", *p)
}

func compareResults(kind string, cl, dr prog.Result) []diff {
	var d []diff
	add := func(code, format string, a ...any) {
		d = append(d, diff{Code: kind + "/" + code, Text: fmt.Sprintf(format, a...), Idx: -1})
	}
	if cl.Err != dr.Err {
		add("err/"+cl.Err+"<-"+dr.Err, "client side error kind %q (%s), direct side %q (%s)", cl.Err, cl.ErrText, dr.Err, dr.ErrText)
		return d
	}
	if cl.Err != "" {
		return nil
	}
	if cl.ETag != dr.ETag {
		add("etag", "returned ETag %s vs %s", cl.ETag, dr.ETag)
	}
	if prog.NormVersion(cl.Version) != prog.NormVersion(dr.Version) {
		add("version", "returned version id %q vs %q", cl.Version, dr.Version)
	}
	if cl.DeleteMarker != dr.DeleteMarker {
		add("deleteMarker", "delete-marker flag %v vs %v", cl.DeleteMarker, dr.DeleteMarker)
	}
	if kind == prog.OpAppend && cl.Size != dr.Size {
		add("size", "size %d vs %d", cl.Size, dr.Size)
	}
	for k, v := range dr.Checksums {
		if cv, ok := cl.Checksums[k]; ok && cv != v {
			add("checksum", "checksum %s %s vs %s", k, cv, v)
		} else if !ok {
			add("checksumMissing", "checksum %s missing on the client side (direct %s)", k, v)
		}
	}
	for k, v := range cl.Checksums {
		if _, ok := dr.Checksums[k]; !ok {
			add("checksumExtra", "checksum %s=%s only on the client side", k, v)
		}
	}
	if (cl.Obj == nil) != (dr.Obj == nil) {
		add("obj", "object view presence differs")
	} else if cl.Obj != nil {
		a, b := *cl.Obj, *dr.Obj
		if a.Size != b.Size {
			add("obj.size", "size %d vs %d", a.Size, b.Size)
		}
		if a.ETag != b.ETag {
			add("obj.etag", "ETag %s vs %s", a.ETag, b.ETag)
		}
		if pstr(a.ContentType) != pstr(b.ContentType) {
			add("obj.contentType", "content type %s vs %s", pstr(a.ContentType), pstr(b.ContentType))
		}
		if a.BodySHA != b.BodySHA || a.BodyLen != b.BodyLen {
			add("obj.body", "body len %d sha %.12s vs len %d sha %.12s", a.BodyLen, a.BodySHA, b.BodyLen, b.BodySHA)
		}
		if a.Meta.String() != b.Meta.String() {
			add("obj.meta", "metadata %s vs %s", a.Meta, b.Meta)
		}
		// tags: HEAD/GET Object responses of the S3 protocol carry only a tag count,
		// so S3ClientStorage cannot fill Object.Tags; tags are compared through
		// GetObjectTagging queries and the final dumps instead
		if a.Class != b.Class {
			add("obj.class", "storage class %s vs %s", a.Class, b.Class)
		}
		if prog.NormVersion(a.Version) != prog.NormVersion(b.Version) {
			add("obj.version", "version id %q vs %q", a.Version, b.Version)
		}
		if a.CkType != b.CkType {
			add("obj.checksumType", "checksum type %q vs %q", a.CkType, b.CkType)
		}
		for k, v := range b.Checksums {
			if cv, ok := a.Checksums[k]; !ok || cv != v {
				add("obj.checksum", "checksum %s %q vs %q", k, cv, v)
			}
		}
		for k, v := range a.Checksums {
			if _, ok := b.Checksums[k]; !ok {
				add("obj.checksumExtra", "checksum %s=%s only on the client side", k, v)
			}
		}
	}
	if strings.Join(cl.Keys, "\x00") != strings.Join(dr.Keys, "\x00") {
		add("keys", "keys %q vs %q", cl.Keys, dr.Keys)
	}
	if len(cl.Entries) != len(dr.Entries) {
		add("entries", "%d result entries vs %d", len(cl.Entries), len(dr.Entries))
	} else {
		for i := range cl.Entries {
			a, b := cl.Entries[i], dr.Entries[i]
			if a.Key != b.Key || a.Deleted != b.Deleted || a.ErrCode != b.ErrCode || a.DeleteMarker != b.DeleteMarker || prog.NormVersion(a.Version) != prog.NormVersion(b.Version) {
				add("entries", "entry %d %+v vs %+v", i, a, b)
				d[len(d)-1].Idx = i
			}
		}
	}
	return d
}

// refine replaces the generic code of a discrepancy by the code of a specific
// mechanism when the requests S3ClientStorage sent (wire) show that mechanism:
// a condition or version id the caller supplied that never went out.
func refine(c prog.Concrete, cl, dr prog.Result, ds []diff, wire []wireReq) []diff {
	sent := func(method, queryHas string) *wireReq {
		for i := range wire {
			if wire[i].Method == method && strings.Contains(wire[i].Query, queryHas) {
				return &wire[i]
			}
		}
		return nil
	}
	for i := range ds {
		d := &ds[i]
		switch {
		case d.Code == "mpuComplete/err/<-PreconditionFailed" && (c.IfMatchETag != nil || c.IfNoneMatchStar):
			// CompleteMultipartUpload went out without the If-Match / If-None-Match the caller supplied
			if r := sent(http.MethodPost, "uploadId="); r != nil && r.Header.Get("If-Match") == "" && r.Header.Get("If-None-Match") == "" {
				d.Code = "mpuComplete/conditionNotSent"
			}
		case d.Code == "deleteObjects/entries" && d.Idx >= 0 && d.Idx < len(c.Entries) && d.Idx < len(cl.Entries) && d.Idx < len(dr.Entries):
			e, a, b := c.Entries[d.Idx], cl.Entries[d.Idx], dr.Entries[d.Idx]
			if e.IfMatchETag == nil || !a.Deleted || b.Deleted || b.ErrCode != "PreconditionFailed" {
				break
			}
			r := sent(http.MethodPost, "delete")
			switch {
			case r != nil && !strings.Contains(r.Body, "<ETag>"):
				// the entry's ETag condition never went out
				d.Code = "deleteObjects/etagNotSent"
			case r != nil && e.VersionID != nil && a.ErrCode == "":
				// the condition went out and the entry names a version: the endpoint answered "deleted"
				d.Code = "deleteObjects/failedVersionEntryReportedDeleted"
			}
		case c.Kind == prog.OpGet && c.VersionID != nil && (strings.HasPrefix(d.Code, "get/obj.") && d.Code != "get/obj.body" ||
			d.Code == "get/err/CurrentDeleteMarker<-" || d.Code == "get/err/NoSuchBucket<-" || d.Code == "get/err/CurrentDeleteMarker<-VersionIsDeleteMarker"):
			// GetObject of a named version asked for the metadata of the current version
			if r := sent(http.MethodHead, ""); r != nil && !strings.Contains(r.Query, "versionId=") {
				d.Code = "get/headWithoutVersion"
			}
		}
	}
	return ds
}

// ---- the twin ------------------------------------------------------------------------

type twin struct {
	a, b   *stacks.Instance
	srv    *httptest.Server
	client storage.Storage
	wire   *wireLog
}

// wireReq is one request S3ClientStorage sent to the endpoint (what was asked of
// the server, not what it answered): used only to attribute a discrepancy to
// "the client did not send X" as opposed to "the server answered differently".
type wireReq struct {
	Method, Path, Query string
	Header              http.Header
	Body                string // POST bodies only (DeleteObjects, CompleteMultipartUpload)
}

type wireLog struct {
	mu   sync.Mutex
	reqs []wireReq
}

func (w *wireLog) reset() {
	w.mu.Lock()
	w.reqs = nil
	w.mu.Unlock()
}

func (w *wireLog) all() []wireReq {
	w.mu.Lock()
	defer w.mu.Unlock()
	return append([]wireReq(nil), w.reqs...)
}

func (w *wireLog) wrap(h http.Handler) http.Handler {
	return http.HandlerFunc(func(rw http.ResponseWriter, r *http.Request) {
		q := wireReq{Method: r.Method, Path: r.URL.Path, Query: r.URL.RawQuery, Header: r.Header.Clone()}
		if r.Method == http.MethodPost && r.ContentLength >= 0 && r.ContentLength < 1<<20 && r.Header.Get("Content-Encoding") == "" {
			b, _ := io.ReadAll(r.Body)
			q.Body = string(b)
			r.Body = io.NopCloser(bytes.NewReader(b))
		}
		w.mu.Lock()
		w.reqs = append(w.reqs, q)
		w.mu.Unlock()
		h.ServeHTTP(rw, r)
	})
}

func (t *twin) close() {
	if t.client != nil {
		_ = t.client.Stop(context.Background())
	}
	if t.srv != nil {
		t.srv.Close()
	}
	// the two storages are independent: close them side by side (opening and closing
	// a storage dominates the cost of a short case on a loaded machine)
	var wg sync.WaitGroup
	for _, in := range []*stacks.Instance{t.a, t.b} {
		if in != nil {
			wg.Add(1)
			go func(in *stacks.Instance) { defer wg.Done(); in.Close() }(in)
		}
	}
	wg.Wait()
}

func openTwin(dir, stack string) (*twin, error) {
	t := &twin{}
	var err, errB error
	var wg sync.WaitGroup
	wg.Add(1)
	go func() {
		defer wg.Done()
		t.b, errB = stacks.Open(dir+"/b", stacks.LayoutFor(stack), stacks.Options{GCGrace: time.Hour})
	}()
	t.a, err = stacks.Open(dir+"/a", stacks.LayoutFor(stack), stacks.Options{GCGrace: time.Hour})
	wg.Wait()
	if err == nil {
		err = errB
	}
	if err != nil {
		t.close()
		return nil, err
	}
	t.srv = httptest.NewUnstartedServer(nil)
	// the host router strips the port from the request's Host before comparing
	host, _, _ := net.SplitHostPort(t.srv.Listener.Addr().String())
	t.wire = &wireLog{}
	t.srv.Config.Handler = t.wire.wrap(server.SetupServer([]settings.Credentials{{AccessKeyId: accessKey, SecretAccessKey: secretKey}}, region, host, "website."+host, allowAll{}, t.a.Storage))
	t.srv.Start()
	cl := s3.New(s3.Options{
		Region:       region,
		BaseEndpoint: aws.String(t.srv.URL),
		UsePathStyle: true,
		Credentials:  credentials.NewStaticCredentialsProvider(accessKey, secretKey, ""),
		HTTPClient:   t.srv.Client(),
	})
	if t.client, err = s3client.NewStorage(cl); err != nil {
		t.close()
		return nil, err
	}
	if err = t.client.Start(context.Background()); err != nil {
		t.close()
		return nil, err
	}
	return t, nil
}

// knownCodes maps discrepancy codes to the known finding that explains them
// (matcher name, finding id, whether the states have diverged).
type known struct {
	matcher, id string
	endCase     bool
}

func classify(code string) (known, bool) {
	for _, k := range knownTable {
		if k.match(code) {
			return k.known, true
		}
	}
	return known{}, false
}

type knownEntry struct {
	known
	match func(code string) bool
}

var knownTable = []knownEntry{
	// KF-C38-1: S3 API error codes are not translated back: the client side returns the raw
	// SDK error (kind Other) where the direct side returns a specific storage error kind
	{known{"c38.errorKindNotTranslated", "KF-C38-1", false}, func(c string) bool {
		i := strings.Index(c, "/err/Other<-")
		return i > 0 && len(c) > i+len("/err/Other<-")
	}},
	// KF-C38-2: HeadObject (and GetObject, which starts with a HeadObject) maps every 404 to ErrNoSuchBucket
	{known{"c38.notFoundAsNoSuchBucket", "KF-C38-2", false}, func(c string) bool {
		for _, k := range []string{"head", "get"} {
			for _, e := range []string{"NoSuchKey", "CurrentDeleteMarker", "VersionIsDeleteMarker"} {
				if c == k+"/err/NoSuchBucket<-"+e {
					return true
				}
			}
		}
		return false
	}},
	// KF-C38-3: ListMultipartUploads dereferences optional response fields that are absent
	{known{"c38.listUploadsPanics", "KF-C38-3", false}, func(c string) bool { return c == "q.listUploads/err/Panic<-ok" }},
	// KF-C38-4: PutObject does not forward opts.Tags (detected right after the put; states diverged)
	{known{"c38.putTagsDropped", "KF-C38-4", true}, func(c string) bool { return c == "put/tagsDropped" }},
	// KF-C38-5: PutObject / CopyObject results carry no version id
	{known{"c38.versionIdNotReturned", "KF-C38-5", false}, func(c string) bool { return c == "put/version" || c == "copy/version" || c == "delete/version" }},
	// KF-C38-6: CopyObject does not forward ReplaceTags / Tags (detected right after the copy; states diverged)
	{known{"c38.copyTagsNotReplaced", "KF-C38-6", true}, func(c string) bool { return c == "copy/tagsNotReplaced" }},
	// KF-C38-7: CompleteMultipartUpload goes out without the caller's If-Match / If-None-Match (the upload completes; states diverged)
	{known{"c38.completeConditionNotSent", "KF-C38-7", true}, func(c string) bool { return c == "mpuComplete/conditionNotSent" }},
	// KF-C38-8: DeleteObjects goes out without the entries' ETag conditions (the object is deleted; states diverged)
	{known{"c38.deleteObjectsEtagNotSent", "KF-C38-8", true}, func(c string) bool { return c == "deleteObjects/etagNotSent" }},
	// KF-C38-9: GetObject of a named version takes its metadata from a HeadObject of the current version
	{known{"c38.getHeadWithoutVersion", "KF-C38-9", false}, func(c string) bool { return c == "get/headWithoutVersion" }},
	// KF-C38-10: ListObjectVersions drops the CommonPrefixes of the response
	{known{"c38.listVersionsPrefixesDropped", "KF-C38-10", false}, func(c string) bool { return c == "q.listVersions/commonPrefixesDropped" }},
	// KF-C38-11: TransitionObjectStorageClass (a self copy) creates a new version in a versioning-enabled bucket (states diverged)
	{known{"c38.transitionNewVersion", "KF-C38-11", true}, func(c string) bool { return c == "transition/newVersion" }},
	// KF-C38-12: TransitionObjectStorageClass (a self copy) loses the website redirect location (states diverged)
	{known{"c38.transitionRedirectLost", "KF-C38-12", true}, func(c string) bool { return c == "transition/redirectLost" }},
	// KF-C38-14: a delimiter listing through the endpoint loses common prefixes at a page break (server side)
	{known{"c38.commonPrefixLostAtPageBreak", "KF-C38-14", false}, func(c string) bool { return c == "q.listObjects/commonPrefixLostAtPageBreak" }},
	// KF-C38-13: the endpoint reports a DeleteObjects entry that names a version id and failed its ETag condition as deleted
	{known{"c38.failedVersionEntryReportedDeleted", "KF-C38-13", false}, func(c string) bool { return c == "deleteObjects/failedVersionEntryReportedDeleted" }},
}

// survey (development aid, VERIF_C38_SURVEY=1): tolerate every discrepancy and
// count its code, to see the whole population of mechanisms in one run.
var survey = os.Getenv("VERIF_C38_SURVEY") != ""
var surveySeen = map[string]int{}

func surveyLog(format string, a ...any) {
	f, err := os.OpenFile(os.Getenv("VERIF_C38_SURVEY"), os.O_APPEND|os.O_CREATE|os.O_WRONLY, 0o644)
	if err != nil {
		return
	}
	defer f.Close()
	fmt.Fprintf(f, format, a...)
}

func runCase(env *ev.Env, c Case) (o ev.Outcome) {
	ctx := context.Background()
	dir := env.TempDir()
	defer os.RemoveAll(dir)
	tw, err := openTwin(dir, c.Stack)
	if err != nil {
		o.Failf("harness: open twin: %v", err)
		return
	}
	defer tw.close()
	o.Class("stack:" + c.Stack)
	side0 := &clientSide{inner: prog.NewStorageSide(tw.client), a: tw.a.Storage}
	s := run.NewSession(names, side0, prog.NewStorageSide(tw.b.Storage))

	mpu, versionedDelete, paginated := false, false, false
	handle := func(step int, what string, ds []diff) (stop bool) {
		for _, d := range ds {
			if survey {
				if k, kn := classify(d.Code); kn && k.endCase {
					o.Count("survey:"+d.Code, 1)
					return true
				}
				o.Count("survey:"+d.Code, 1)
				if _, kn := classify(d.Code); !kn && surveySeen[d.Code] < 2 {
					surveySeen[d.Code]++
					surveyLog("SURVEY %s step %d (%s): %s\n", d.Code, step, what, d.Text)
				}
				continue
			}
			k, ok := classify(d.Code)
			if !ok || !env.Known(k.matcher) {
				o.Failf("step %d (%s) [%s]: %s", step, what, d.Code, d.Text)
				return true
			}
			o.KnownHits = append(o.KnownHits, k.id)
			if k.endCase {
				o.Excluded = true
				return true
			}
		}
		return false
	}
	for i, st := range c.Steps {
		if st.Q != nil {
			q := *st.Q
			ca, pa := doQuery(ctx, tw.client, s, 0, q)
			cb, pb := doQuery(ctx, tw.b.Storage, s, 1, q)
			o.Sub++
			o.Count("query:"+q.Kind, 1)
			if strings.Count(cb, "page[") >= 2 {
				paginated = true
			}
			if ca != cb && !strings.Contains(ca, "ERR ") && !strings.Contains(cb, "ERR ") && (q.Kind == "listObjects" || q.Kind == "listVersions") &&
				q.MaxKeys > 0 && maxPage(pb) > q.MaxKeys && maxPage(pa) <= q.MaxKeys && flatten(pa) == flatten(pb) {
				// the storage itself answered a page with more than MaxKeys entries (MaxKeys objects plus
				// common prefixes, which may sort behind objects not listed yet): the endpoint cuts the page
				// at MaxKeys and serves the rest on later pages. The complete walks hold the same entries;
				// where the page breaks fall is not the client's translation.
				o.Count("note:"+q.Kind+"-direct-page-exceeds-maxKeys", 1)
				ca = cb
			}
			if ca != cb {
				code := "q." + q.Kind + "/result"
				if strings.Contains(ca, "ERR ") || strings.Contains(cb, "ERR ") {
					code = "q." + q.Kind + "/err/" + errOf(ca) + "<-" + errOf(cb)
				} else if q.Kind == "listObjects" && q.Delimiter != "" && maxPage(pb) > q.MaxKeys && stripPrefixes(pa) == stripPrefixes(pb) && prefixesLost(pa, pb) {
					// same objects in the same order, but common prefixes of the direct walk never arrive:
					// the storage answered a page with MaxKeys objects plus common prefixes, the endpoint
					// returned the objects, moved the marker past the prefixes and dropped them
					code = "q.listObjects/commonPrefixLostAtPageBreak"
				} else if q.Kind == "listVersions" && q.Delimiter != "" && !strings.Contains(ca, " prefix(") && strings.Contains(cb, " prefix(") && stripPrefixes(pa) == stripPrefixes(pb) {
					// same versions, but the client side has no common prefix at all
					code = "q.listVersions/commonPrefixesDropped"
				}
				if handle(i, "query "+q.Kind, []diff{{Code: code, Text: fmt.Sprintf("client side:\n   %s\n direct side:\n   %s", ca, cb)}}) {
					return
				}
			}
			continue
		}
		op := *st.Op
		if op.Kind == prog.OpAppend || op.Kind == prog.OpGC || op.Kind == prog.OpReopen || op.Kind == prog.OpFlush {
			continue // AppendObject is documented-unsupported by S3ClientStorage
		}
		tw.wire.reset()
		sr := s.Step(op)
		o.Sub++
		cl, dr := sr.Got[0], sr.Got[1]
		cl.Version = side0.rawVersion // what S3ClientStorage itself returned
		if dr.Err == "" {
			o.Count("ok:"+op.Kind, 1)
			switch {
			case op.Kind == prog.OpMpuComplete:
				mpu = true
			case (op.Kind == prog.OpDelete || op.Kind == prog.OpDeleteObjects) && (dr.Version != "" || dr.DeleteMarker || op.Ver != ""):
				versionedDelete = true
			}
		} else {
			o.Count("fail:"+op.Kind+":"+dr.Err, 1)
		}
		ds := refine(sr.Concrete, cl, dr, compareResults(op.Kind, cl, dr), tw.wire.all())
		if op.Kind == prog.OpPut && len(op.Tags) > 0 && cl.Err == "" && dr.Err == "" {
			// look at storage A directly: did the tags of this put arrive?
			ta, ea := tw.a.Storage.GetObjectTagging(ctx, storage.MustNewBucketName(sr.Concrete.Bucket), storage.MustNewObjectKey(sr.Concrete.Key), nil)
			if ea == nil && len(ta) == 0 {
				ds = append(ds, diff{Code: "put/tagsDropped", Text: fmt.Sprintf("PutObject with tags %s through S3ClientStorage stored the object without tags", prog.TagsString(op.Tags))})
			}
		}
		if op.Kind == prog.OpCopy && op.ReplaceTags && cl.Err == "" && dr.Err == "" {
			bn, k := storage.MustNewBucketName(sr.Concrete.Bucket), storage.MustNewObjectKey(sr.Concrete.Key)
			ta, ea := tw.a.Storage.GetObjectTagging(ctx, bn, k, nil)
			tb, eb := tw.b.Storage.GetObjectTagging(ctx, bn, k, nil)
			if ea == nil && eb == nil && prog.TagsString(ta) != prog.TagsString(tb) {
				ds = append(ds, diff{Code: "copy/tagsNotReplaced", Text: fmt.Sprintf("CopyObject with ReplaceTags %s through S3ClientStorage left tags %s (direct: %s)", prog.TagsString(op.Tags), prog.TagsString(ta), prog.TagsString(tb))})
			}
		}
		if op.Kind == prog.OpTransition && cl.Err == "" && dr.Err == "" {
			// S3ClientStorage transitions by an in-place self copy: look at both storages directly
			bn, k := storage.MustNewBucketName(sr.Concrete.Bucket), storage.MustNewObjectKey(sr.Concrete.Key)
			if na, nb := versionCount(ctx, tw.a.Storage, bn, k), versionCount(ctx, tw.b.Storage, bn, k); na == nb+1 {
				ds = append(ds, diff{Code: "transition/newVersion", Idx: -1, Text: fmt.Sprintf("TransitionObjectStorageClass through S3ClientStorage left %d versions of the key (direct: %d)", na, nb)})
			}
			ha, ea := tw.a.Storage.HeadObject(ctx, bn, k, nil)
			hb, eb := tw.b.Storage.HeadObject(ctx, bn, k, nil)
			if ea == nil && eb == nil && ha.Metadata.WebsiteRedirectLocation == nil && hb.Metadata.WebsiteRedirectLocation != nil {
				ds = append(ds, diff{Code: "transition/redirectLost", Idx: -1, Text: fmt.Sprintf("TransitionObjectStorageClass through S3ClientStorage dropped the website redirect location %q", *hb.Metadata.WebsiteRedirectLocation)})
			}
		}
		if handle(i, fmt.Sprintf("%s %s/%s", op.Kind, sr.Concrete.Bucket, sr.Concrete.Key), ds) {
			return
		}
	}
	// final state: storage A (behind the server) vs storage B
	da, err := dump.Of(ctx, tw.a.Storage, dump.Options{Versions: true})
	if err != nil {
		o.Failf("dump of storage A failed: %v", err)
		return
	}
	db, err := dump.Of(ctx, tw.b.Storage, dump.Options{Versions: true})
	if err != nil {
		o.Failf("dump of storage B failed: %v", err)
		return
	}
	o.Sub++
	if ds := dump.Diff(da, db); len(ds) > 0 && survey {
		o.Count("survey:final-dump-differs", 1)
		if surveySeen["dump"] < 12 {
			surveySeen["dump"]++
			surveyLog("SURVEY dump: %s\n", strings.Join(ds, "\n   "))
		}
	} else if len(ds) > 0 {
		o.Failf("final state differs (A = behind S3ClientStorage, B = direct): %s", strings.Join(ds, "\n "))
		return
	}
	o.NonTrivial = mpu || versionedDelete || paginated
	if mpu {
		o.Class("has:multipart-complete")
	}
	if versionedDelete {
		o.Class("has:versioned-delete")
	}
	if paginated {
		o.Class("has:paginated-listing")
	}
	return
}

// versionCount counts the versions and delete markers of one key.
func versionCount(ctx context.Context, st storage.Storage, bn storage.BucketName, k storage.ObjectKey) int {
	pfx := k.String()
	res, err := st.ListObjectVersions(ctx, bn, storage.ListObjectVersionsOptions{Prefix: &pfx, MaxKeys: 1000})
	if err != nil {
		return -1
	}
	n := 0
	for _, v := range res.Versions {
		if v.Key.String() == pfx {
			n++
		}
	}
	return n
}

func errOf(s string) string {
	i := strings.LastIndex(s, "ERR ")
	if i < 0 {
		return "ok"
	}
	return strings.TrimSpace(s[i+4:])
}

func TestC38(t *testing.T) {
	ev.Main(t, ev.Spec[Case]{
		ID:    "C38",
		Level: "exploration",
		Rule: "programs of 4-22 generated ops (buckets, versioning, puts with metadata/tags/class/conditions incl. zero-length bodies, copies incl. source versions and source conditions, multipart incl. UploadPartCopy, zero-length parts, manifests and conditional complete, deletes incl. named versions and conditions, DeleteObjects (each key once) incl. versions and ETag conditions, tagging incl. named versions, plain transitions, head/get incl. named versions) interleaved with queries " +
			"(ListObjects / ListObjectVersions walked page by page with MaxKeys 1-3, prefix, delimiter; GetObjectTagging; ListMultipartUploads; ListParts; HeadBucket; versioning) executed through S3ClientStorage -> aws-sdk-go-v2 -> HTTP -> SetupServer (SigV4) -> storage A and directly on twin storage B; " +
			"non-trivial = a multipart upload completed, or a delete created/removed a version or marker, or a listing walk took >=2 pages; distinct = distinct case JSON",
		Assumptions: []string{
			"the directly driven twin storage B is the specification; AppendObject, ranged CopyObject and transitions of a named version (ErrNotImplemented: documented-unsupported) are not generated; version ids are compared as null/non-null",
			"Expires values are well-formed IMF-fixdates (the S3 protocol carries them as HTTP dates)",
			"where the storage itself answers a listing page with more than MaxKeys entries the walks are compared without their page structure (the endpoint cuts such a page at MaxKeys)",
			"version ids S3ClientStorage does not return (KF-C38-5) are read from storage A directly, for the harness' bookkeeping only",
		},
		Gen: gen38,
		Run: runCase,
	})
}
