package c03

import (
	"context"
	"fmt"
	"os"
	"strings"
	"testing"

	"github.com/jdillenkofer/pithos/verifharness/dump"
	"github.com/jdillenkofer/pithos/verifharness/ev"
	"github.com/jdillenkofer/pithos/verifharness/gen"
	"github.com/jdillenkofer/pithos/verifharness/inject"
	"github.com/jdillenkofer/pithos/verifharness/prog"
	"github.com/jdillenkofer/pithos/verifharness/run"
	"github.com/jdillenkofer/pithos/verifharness/stacks"
	"pgregory.net/rapid"
)

var names = run.Names{Buckets: []string{"fail-a", "fail-b"}, Keys: []string{"k", "dir/k2", "K"}}

// Case: a prefix program that builds a state, one victim operation, and the
// sampling offset used when the victim passes more fault sites than the tier's budget.
type Case struct {
	Stack  string    `json:"stack"`
	Pre    []prog.Op `json:"pre"`
	Victim prog.Op   `json:"victim"`
	Offset int       `json:"offset"`
}

var victimKinds = []string{prog.OpPut, prog.OpPut, prog.OpCopy, prog.OpAppend, prog.OpMpuPart, prog.OpMpuPartCopy, prog.OpMpuComplete,
	prog.OpMpuAbort, prog.OpDelete, prog.OpDelete, prog.OpDeleteObjects, prog.OpPutTags, prog.OpTransition, prog.OpSetVersioning, prog.OpCreateBucket, prog.OpDeleteBucket}

func genCfg(stack string) prog.GenConfig {
	cfg := prog.GenConfig{
		Buckets: 2, Keys: 3, MinOps: 2, MaxOps: 12,
		Weights: map[string]int{
			prog.OpPut: 10, prog.OpCopy: 3, prog.OpAppend: 2, prog.OpMpuSeq: 3, prog.OpMpuCreate: 2, prog.OpMpuPart: 3,
			prog.OpDelete: 3, prog.OpSetVersioning: 2, prog.OpPutTags: 1,
		},
		Versions: true, Conditions: true, Tags: true, Meta: true, Manifests: true, Supplied: true, HotKey: true,
		Boundaries: stacks.Boundaries(stack), MaxBody: 5000,
	}
	if stack == "N1" {
		cfg.Classes = []string{"STANDARD", "GLACIER"}
	}
	return cfg
}

func genCase(t *rapid.T, env *ev.Env) Case {
	stack := rapid.SampledFrom([]string{"P2", "P1", "P3", "P8", "P10", "P12", "N1"}).Draw(t, "stack")
	cfg := genCfg(stack)
	c := Case{Stack: stack, Pre: cfg.Gen(t)}
	kind := victimKinds[(rapid.IntRange(0, 63).Draw(t, "victimKindHi")*64+rapid.IntRange(0, 63).Draw(t, "victimKindLo")*37)%len(victimKinds)]
	c.Victim = cfg.GenOp(t, kind)
	// victims mostly act on the hot key / the most recent upload so that they would succeed
	if rapid.IntRange(0, 3).Draw(t, "victimHot") > 0 {
		c.Victim.B, c.Victim.K, c.Victim.SB, c.Victim.SK = 0, 0, 0, 0
		c.Victim.Upload = prog.LastUpload
		c.Victim.IfMatch, c.Victim.IfNoneMatchStar, c.Victim.Supplied = "", false, ""
		if c.Victim.Manifest != "" {
			c.Victim.Manifest = "ok"
		}
	}
	// victims that act on a multipart upload get a pending upload with parts to act on
	switch kind {
	case prog.OpMpuAbort, prog.OpMpuComplete, prog.OpMpuPart, prog.OpMpuPartCopy:
		if rapid.IntRange(0, 4).Draw(t, "pendingUpload") > 0 {
			c.Pre = append(c.Pre, prog.Op{Kind: prog.OpMpuCreate, B: 0, K: 0})
			np := rapid.IntRange(1, 3).Draw(t, "pendingParts")
			for pn := 1; pn <= np; pn++ {
				c.Pre = append(c.Pre, prog.Op{Kind: prog.OpMpuPart, Upload: prog.LastUpload, PartNo: pn, Body: &gen.BodySpec{Kind: "rand", Len: 100 * pn, Seed: uint64(pn)}})
			}
			c.Victim.B, c.Victim.K, c.Victim.Upload = 0, 0, prog.LastUpload
			if kind == prog.OpMpuPart || kind == prog.OpMpuPartCopy {
				c.Victim.PartNo = rapid.IntRange(1, np+1).Draw(t, "victimPart")
			}
			if c.Victim.Manifest != "" {
				c.Victim.Manifest = "ok"
			}
			c.Victim.IfMatch, c.Victim.IfNoneMatchStar, c.Victim.Supplied = "", false, ""
		}
	}
	c.Offset = rapid.IntRange(0, 1000).Draw(t, "offset")
	return c
}

// faultable reports whether a recorded site may be used as a *fault* target
// (crash-only sites are excluded: they are harness closures after the commit).
func faultable(s inject.Site) bool {
	return !strings.HasSuffix(s.Name, ":aftercommit") && s.Name != "sql:commit:after"
}

type world struct {
	dir  string
	inst *stacks.Instance
	sess *run.Session
	side *prog.StorageSide
}

func (w *world) close() {
	if w.inst != nil {
		w.inst.Close()
		w.inst = nil
	}
	if w.dir != "" {
		os.RemoveAll(w.dir)
	}
}

// build opens a fresh instance and runs the prefix program on it; every
// operation of the prefix that fails must itself leave no trace.
func build(env *ev.Env, c Case, o *ev.Outcome, checkSemantic bool) *world {
	w := &world{dir: env.TempDir()}
	inst, err := stacks.Open(w.dir, stacks.LayoutFor(c.Stack), stacks.Options{Inject: true})
	if err != nil {
		o.Failf("harness: open: %v", err)
		w.close()
		return nil
	}
	w.inst = inst
	w.side = prog.NewStorageSide(inst.Storage)
	w.sess = run.NewSession(names, w.side)
	w.sess.Model.PromoteByRowCreation = true
	for i, op := range c.Pre {
		if !op.IsMutation() {
			continue
		}
		var before *dump.Dump
		if checkSemantic {
			before, err = dump.Of(context.Background(), inst.Storage, dump.Options{Versions: true})
			if err != nil {
				o.Failf("harness: dump: %v", err)
				w.close()
				return nil
			}
		}
		sr := w.sess.Step(op)
		if checkSemantic && len(sr.Got) > 0 && sr.Got[0].Err != "" {
			after, err := dump.Of(context.Background(), inst.Storage, dump.Options{Versions: true})
			if err != nil {
				o.Failf("dump after failed op: %v", err)
				w.close()
				return nil
			}
			o.Sub++
			o.Count("semantic_failures_checked", 1)
			o.Count("semantic:"+sr.Got[0].Err, 1)
			if d := dump.Diff(before, after); len(d) > 0 {
				o.Failf("prefix op %d (%s) returned %s (%s) but changed the observable state: %v", i, op.Kind, sr.Got[0].Err, sr.Got[0].ErrText, d)
				w.close()
				return nil
			}
		}
	}
	return w
}

func maxSites(env *ev.Env) int {
	if env.Thorough() {
		return 1 << 30
	}
	return 40
}

func runCase(env *ev.Env, c Case) (o ev.Outcome) {
	o.Class("stack:" + c.Stack)
	o.Class("victim:" + c.Victim.Kind)
	// 1. recording run: which sites does the victim pass in this state, and does it succeed?
	w := build(env, c, &o, true)
	if w == nil {
		return
	}
	inject.C.Arm(nil, false)
	sr := w.sess.Step(c.Victim)
	sites, _, _ := inject.C.Disarm()
	w.close()
	if len(sr.Got) == 0 {
		return
	}
	if sr.Got[0].Err != "" {
		// semantic failure of the victim itself: covered by the same no-trace rule
		o.Class("victim-fails-semantically")
		w2 := build(env, c, &o, false)
		if w2 == nil {
			return
		}
		defer w2.close()
		before, _ := dump.Of(context.Background(), w2.inst.Storage, dump.Options{Versions: true})
		r := w2.sess.Step(c.Victim)
		after, err := dump.Of(context.Background(), w2.inst.Storage, dump.Options{Versions: true})
		if err != nil {
			o.Failf("dump after failed victim: %v", err)
			return
		}
		o.Sub++
		o.Count("semantic:"+r.Got[0].Err, 1)
		if r.Got[0].Err != "" {
			if d := dump.Diff(before, after); len(d) > 0 {
				o.Failf("victim %s returned %s (%s) but changed the observable state: %v", c.Victim.Kind, r.Got[0].Err, r.Got[0].ErrText, d)
			}
		}
		return
	}
	var targets []inject.Site
	for _, s := range sites {
		if faultable(s) {
			targets = append(targets, s)
		}
	}
	o.Count("sites_recorded", len(targets))
	if len(targets) == 0 {
		return
	}
	if m := maxSites(env); len(targets) > m {
		// deterministic sample: every k-th site starting at the case's offset, always keeping the first and last
		var pickd []inject.Site
		k := (len(targets) + m - 1) / m
		for i := c.Offset % k; i < len(targets); i += k {
			pickd = append(pickd, targets[i])
		}
		targets = pickd
	}
	// 2. one faulted execution per target site
	var wld *world
	defer func() {
		if wld != nil {
			wld.close()
		}
	}()
	var before *dump.Dump
	// every target is hit with an injected error; commit-phase targets and every 4th other target
	// additionally with a cancellation of the request context at that point
	type runSpec struct {
		target inject.Site
		mode   int
	}
	var runs []runSpec
	for i, tg := range targets {
		runs = append(runs, runSpec{tg, 0})
		if strings.HasSuffix(tg.Name, "precommit") || tg.Name == "sql:commit:before" || i%4 == c.Offset%4 {
			runs = append(runs, runSpec{tg, 1})
		}
	}
	for _, run := range runs {
		target := run.target
		if wld == nil {
			wld = build(env, c, &o, false)
			if wld == nil {
				return
			}
			var err error
			before, err = dump.Of(context.Background(), wld.inst.Storage, dump.Options{Versions: true})
			if err != nil {
				o.Failf("harness: dump before: %v", err)
				return
			}
		}
		tgt := target
		mode := "error"
		if run.mode == 1 {
			mode = "cancel"
		}
		side := wld.sess.Sides[0].(*prog.StorageSide)
		if mode == "cancel" {
			ctx, cancel := context.WithCancel(context.Background())
			side.Ctx = ctx
			inject.C.ArmCancel(&tgt, cancel)
			defer cancel()
		} else {
			inject.C.Arm(&tgt, false)
		}
		r := side.Do(wld.sess.Resolve(c.Victim, 0))
		_, fired, writesBefore := inject.C.Disarm()
		side.Ctx = context.Background()
		o.Sub++
		o.Count("fault_runs", 1)
		o.Count("fault:"+mode+":"+siteClass(target.Name), 1)
		if !fired {
			o.Count("fault_not_reached", 1)
		}
		if r.Err == "" {
			// the fault was absorbed or not reached: the op took effect; not judged here. Rebuild the state.
			if fired {
				o.Count("fault_absorbed", 1)
			}
			wld.close()
			wld = nil
			continue
		}
		if fired && writesBefore > 0 {
			o.NonTrivial = true
			o.Count("faults_after_a_write", 1)
		}
		after, err := dump.Of(context.Background(), wld.inst.Storage, dump.Options{Versions: true})
		if err != nil {
			o.Failf("after injected fault at %s in %s: storage no longer dumpable: %v", target, c.Victim.Kind, err)
			return
		}
		if d := dump.Diff(before, after); len(d) > 0 {
			o.Failf("victim %s failed with %s (%s) after injected fault at %s (fired=%v) but the observable state changed: %v", c.Victim.Kind, r.Err, r.ErrText, target, fired, d)
			return
		}
	}
	return
}

func siteClass(name string) string {
	// ps:<store>:<op>:<phase> -> ps:<op>:<phase>
	if strings.HasPrefix(name, "ps:") {
		parts := strings.Split(name, ":")
		if len(parts) >= 4 {
			return "ps:" + parts[len(parts)-2] + ":" + parts[len(parts)-1]
		}
	}
	return name
}

func TestC03(t *testing.T) {
	_ = fmt.Sprintf
	ev.Main(t, ev.Spec[Case]{
		ID:    "C03",
		Level: "fault_enumeration",
		Rule: "case = (prefix program of 2-12 ops building a state, one victim operation); the victim is executed once in recording mode to list every fault site it passes (each part-store call before / mid-stream / after, each pre-commit action, each SQL statement, the commit), then once per site (quick: <=40 sampled per victim, thorough: all) with an error injected there; " +
			"whenever an operation returns an error (semantic failures of prefix ops and victims included) dump(before)==dump(after) incl. versions, tags, uploads and parts, and every listed object stays readable; non-trivial = an injected fault fired after the victim had already done >=1 part-store write or SQL write; distinct = distinct case JSON",
		Assumptions: []string{"fault sites are those of the harness part-store wrapper around every base store and of the wrapping database/sql driver (verif hook H2); faults inside erasure-coding shard goroutines and after-commit actions are not injected", "orphan parts are judged by C09, not here"},
		Gen:         genCase,
		Run:         runCase,
	})
}
