// Package c17 checks property C17: the erasure-coding part store tolerates
// parity-many faulty shards (and heals missing ones) and never returns other
// bytes than the original with a clean EOF.
//
// A case = one geometry (data, parity), one base store kind (harness-owned
// in-memory stores or filesystem stores), one body, and a list of fault sets.
// For every fault set the part is written afresh through the real PutPart, the
// stored shard bytes are tampered with, the part is read through the real
// GetPart, and - when the read had to succeed - a second fault set is applied
// to check that healing really restored the missing shards.
package c17

import (
	"bytes"
	"context"
	"crypto/sha256"
	"database/sql"
	"encoding/binary"
	"encoding/hex"
	"encoding/json"
	"errors"
	"fmt"
	"io"
	"os"
	"path/filepath"
	"sort"
	"strings"
	"testing"

	"github.com/jdillenkofer/pithos/internal/storage/database"
	"github.com/jdillenkofer/pithos/internal/storage/metadatapart/partstore"
	"github.com/jdillenkofer/pithos/verifharness/ev"
	"github.com/jdillenkofer/pithos/verifharness/gen"
	"github.com/jdillenkofer/pithos/verifharness/stacks"
	"github.com/klauspost/reedsolomon"
	"pgregory.net/rapid"
)

const (
	stripe         = 1024
	shardHdrSize   = 15
	frameHdrSize   = 48
	maxFlipLenBits = 26 // flips in the payloadLen field stay below 64 MiB (the reader allocates payloadLen bytes)
)

// Fault is one tampering of one shard's stored bytes.
type Fault struct {
	Shard int    `json:"shard"`
	Kind  string `json:"kind"`            // missing | trunc | flip | stale | foreign | othershard | junk | dupframe
	Where string `json:"where,omitempty"` // trunc: edge | framehdr | payload | shardhdr | zero ; flip: shardhdr | stripe | databytes | payloadlen | hash | payload
	Frame int    `json:"frame,omitempty"` // frame index (taken modulo the number of frames)
	Off   int    `json:"off,omitempty"`   // byte offset inside the field / payload (modulo its length)
	Bit   int    `json:"bit,omitempty"`   // bit to flip (modulo 8)
}

// Set is one fault set, the read mode and the follow-up set after a healing read.
type Set struct {
	Faults []Fault `json:"faults"`
	Mode   string  `json:"mode"` // nil | commit | rollback: how the read transaction is handled
	Buf    int     `json:"buf,omitempty"`
	Second []Fault `json:"second,omitempty"`
}

// Case is one geometry + body + fault sets.
type Case struct {
	D       int          `json:"d"`
	P       int          `json:"p"`
	Base    string       `json:"base"` // mem | fs
	Body    gen.BodySpec `json:"body"`
	Stale   gen.BodySpec `json:"stale"`   // earlier content of the same id (same length as body), source of stale shards
	Foreign gen.BodySpec `json:"foreign"` // content of another part, source of foreign shards
	Sets    []Set        `json:"sets"`
	// Scan: instead of fault sets on one part, several damaged parts and complete heal-scan passes (c17_scan_test.go).
	Scan *Scan `json:"scan,omitempty"`
}

func pid(i int) partstore.PartId {
	b := []byte{0x01, 0x8f, 0x00, 0x00, 0x00, 0x00, 0xc1, 0x7c, 0x17, 0, 0, 0, 0, 0, 0, byte(i + 1)}
	id, err := partstore.NewPartIdFromBytes(b)
	if err != nil {
		panic(err)
	}
	return *id
}

// ---- raw shard access ---------------------------------------------------------------

type shardIO struct {
	b    *stacks.Builder
	base string
	n    int
}

func (s *shardIO) name(i int) string { return fmt.Sprintf("default.s%d", i) }
func (s *shardIO) path(i int, id partstore.PartId) string {
	return filepath.Join(s.b.BaseDirs[s.name(i)], hex.EncodeToString(id.Bytes()))
}
func (s *shardIO) get(i int, id partstore.PartId) ([]byte, bool) {
	if s.base == "mem" {
		return s.b.Mems[s.name(i)].Raw(id)
	}
	b, err := os.ReadFile(s.path(i, id))
	if err != nil {
		return nil, false
	}
	return b, true
}
func (s *shardIO) set(i int, id partstore.PartId, b []byte) {
	if s.base == "mem" {
		s.b.Mems[s.name(i)].SetRaw(id, b)
		return
	}
	if err := os.WriteFile(s.path(i, id), b, 0o600); err != nil {
		panic(err)
	}
}
func (s *shardIO) remove(i int, id partstore.PartId) {
	if s.base == "mem" {
		s.b.Mems[s.name(i)].Remove(id)
		return
	}
	_ = os.Remove(s.path(i, id))
}
func (s *shardIO) all(id partstore.PartId) [][]byte {
	out := make([][]byte, s.n)
	for i := 0; i < s.n; i++ {
		if b, ok := s.get(i, id); ok {
			if b == nil {
				b = []byte{}
			}
			out[i] = b
		}
	}
	return out
}

// frame layout of an untampered shard: offsets of the frame headers.
func frameOffsets(raw []byte) []int {
	var offs []int
	pos := shardHdrSize
	for pos+frameHdrSize <= len(raw) {
		pl := int(binary.BigEndian.Uint32(raw[pos+12 : pos+16]))
		offs = append(offs, pos)
		pos += frameHdrSize + pl
	}
	return offs
}

func mod(a, n int) int {
	if n <= 0 {
		return 0
	}
	return ((a % n) + n) % n
}

// applyFault returns the tampered bytes (nil, true = remove the shard). label names the
// concrete fault class; noop is true when the fault could not change anything.
func applyFault(f Fault, raw, stale, foreign, other []byte) (out []byte, remove bool, label string, noop bool) {
	offs := frameOffsets(raw)
	nf := len(offs)
	frameEnd := func(k int) int {
		if k+1 < nf {
			return offs[k+1]
		}
		return len(raw)
	}
	cp := append([]byte(nil), raw...)
	switch f.Kind {
	case "missing":
		return nil, true, "missing", false
	case "stale":
		if stale == nil || bytes.Equal(stale, raw) {
			return cp, false, "stale", true
		}
		return append([]byte(nil), stale...), false, "stale", false
	case "foreign":
		if foreign == nil || bytes.Equal(foreign, raw) {
			return cp, false, "foreign", true
		}
		return append([]byte(nil), foreign...), false, "foreign", false
	case "othershard":
		// the bytes of another shard of the same part (wrong shard index for this store)
		if other == nil || bytes.Equal(other, raw) {
			return cp, false, "othershard", true
		}
		return append([]byte(nil), other...), false, "othershard", false
	case "junk":
		n := 1 + mod(f.Off, 100)
		j := make([]byte, n)
		for i := range j {
			j[i] = byte(0xa5 ^ i ^ f.Bit)
		}
		return append(cp, j...), false, "junk", false
	case "dupframe":
		if nf == 0 {
			return append(cp, cp[len(cp)-min(len(cp), 7):]...), false, "dupframe", false
		}
		k := mod(f.Frame, nf)
		return append(cp, raw[offs[k]:frameEnd(k)]...), false, "dupframe", false
	case "trunc":
		var at int
		switch f.Where {
		case "zero":
			at = 0
		case "shardhdr":
			at = mod(f.Off, shardHdrSize)
		case "edge":
			if nf == 0 {
				at = mod(f.Off, shardHdrSize)
			} else {
				at = offs[mod(f.Frame, nf)]
			}
		case "framehdr":
			if nf == 0 {
				at = mod(f.Off, shardHdrSize)
			} else {
				at = offs[mod(f.Frame, nf)] + 1 + mod(f.Off, frameHdrSize-1)
			}
		default: // payload
			if nf == 0 {
				at = mod(f.Off, shardHdrSize)
			} else {
				k := mod(f.Frame, nf)
				pl := frameEnd(k) - offs[k] - frameHdrSize
				if pl <= 0 {
					at = offs[k]
				} else {
					at = offs[k] + frameHdrSize + mod(f.Off, pl)
				}
			}
		}
		if at >= len(raw) {
			return cp, false, "trunc:" + f.Where, true
		}
		return cp[:at], false, "trunc:" + f.Where, false
	case "flip":
		bit := byte(1) << uint(mod(f.Bit, 8))
		where := f.Where
		if nf == 0 && where != "shardhdr" {
			where = "shardhdr"
		}
		var pos int
		switch where {
		case "shardhdr":
			pos = mod(f.Off, shardHdrSize)
		case "stripe":
			pos = offs[mod(f.Frame, nf)] + mod(f.Off, 8)
		case "databytes":
			pos = offs[mod(f.Frame, nf)] + 8 + mod(f.Off, 4)
		case "payloadlen":
			// keep the tampered length below 64 MiB: the reader allocates payloadLen bytes
			o := mod(f.Off, 4)
			pos = offs[mod(f.Frame, nf)] + 12 + o
			if o == 0 {
				bit = byte(1) << uint(mod(f.Bit, 2)) // bits 24, 25
			}
		case "hash":
			pos = offs[mod(f.Frame, nf)] + 16 + mod(f.Off, 32)
		default: // payload
			k := mod(f.Frame, nf)
			pl := frameEnd(k) - offs[k] - frameHdrSize
			if pl <= 0 {
				pos = offs[k] + 16
				where = "hash"
			} else {
				pos = offs[k] + frameHdrSize + mod(f.Off, pl)
			}
		}
		cp[pos] ^= bit
		return cp, false, "flip:" + where, false
	}
	return cp, false, "unknown", true
}

// ---- the "trusting decoder": what a reader outputs that accepts every internally
// consistent shard (valid shard header, frame index, payload hash) and takes
// dataBytes from the first valid frame of a stripe. Used only by the known-finding
// matchers to recognise exactly those mechanisms.

type decoded struct {
	out []byte
	err bool
}

func trustingDecode(d, p int, shards [][]byte) decoded {
	total := d + p
	type rd struct {
		b   []byte
		pos int
	}
	rs := make([]*rd, total)
	for i := 0; i < total; i++ {
		b := shards[i]
		if b == nil || len(b) < shardHdrSize {
			continue
		}
		h := b[:shardHdrSize]
		if string(h[0:4]) != "PEC1" || h[4] != 1 {
			continue
		}
		if int(binary.BigEndian.Uint16(h[5:7])) != d || int(binary.BigEndian.Uint16(h[7:9])) != total ||
			int(binary.BigEndian.Uint16(h[9:11])) != i || int(binary.BigEndian.Uint32(h[11:15])) != stripe {
			continue
		}
		rs[i] = &rd{b: b, pos: shardHdrSize}
	}
	enc, err := reedsolomon.New(d, p)
	if err != nil {
		panic(err)
	}
	// since /repo efaafa5 the store refuses to open a part with fewer than d usable shards
	usable := 0
	for _, r := range rs {
		if r != nil {
			usable++
		}
	}
	if usable < d {
		return decoded{err: true}
	}
	var out []byte
	for si := uint64(0); ; si++ {
		sh := make([][]byte, total)
		avail, dataBytes, seenAny := 0, 0, false
		for i := 0; i < total; i++ {
			r := rs[i]
			if r == nil {
				continue
			}
			if r.pos+frameHdrSize > len(r.b) {
				rs[i] = nil
				continue
			}
			fh := r.b[r.pos : r.pos+frameHdrSize]
			r.pos += frameHdrSize
			seenAny = true
			idx := binary.BigEndian.Uint64(fh[0:8])
			db := int(binary.BigEndian.Uint32(fh[8:12]))
			pl := int(binary.BigEndian.Uint32(fh[12:16]))
			if db < 1 || pl < 1 || idx != si {
				rs[i] = nil
				continue
			}
			if r.pos+pl > len(r.b) {
				rs[i] = nil
				continue
			}
			payload := r.b[r.pos : r.pos+pl]
			r.pos += pl
			hh := sha256.Sum256(payload)
			if !bytes.Equal(hh[:], fh[16:48]) {
				rs[i] = nil
				continue
			}
			if dataBytes == 0 {
				dataBytes = db
			}
			sh[i] = append([]byte(nil), payload...)
			avail++
		}
		if !seenAny {
			return decoded{out: out}
		}
		if avail < d {
			return decoded{out: out, err: true}
		}
		if err := enc.ReconstructData(sh); err != nil {
			return decoded{out: out, err: true}
		}
		var buf []byte
		for i := 0; i < d; i++ {
			buf = append(buf, sh[i]...)
		}
		if dataBytes < len(buf) {
			buf = buf[:dataBytes]
		}
		out = append(out, buf...)
	}
}

// ---- execution -------------------------------------------------------------------------

type runner struct {
	ctx context.Context
	env *ev.Env
	o   *ev.Outcome
	c   Case
	db  database.Database
	ps  partstore.PartStore
	io  *shardIO
}

type readResult struct {
	data []byte
	err  error
}

func (r *runner) read(id partstore.PartId, mode string, buf int) readResult {
	var res readResult
	if buf < 1 {
		buf = 32 * 1024
	}
	do := func(ctx context.Context, tx database.Tx) error {
		rc, err := r.ps.GetPart(ctx, tx, id)
		if err != nil {
			res.err = fmt.Errorf("GetPart: %w", err)
			return nil
		}
		b := make([]byte, buf)
		var out bytes.Buffer
		for {
			n, err := rc.Read(b)
			out.Write(b[:n])
			if err == io.EOF {
				break
			}
			if err != nil {
				res.err = fmt.Errorf("Read after %d bytes: %w", out.Len(), err)
				break
			}
			if out.Len() > 64<<20 {
				res.err = errors.New("runaway reader")
				break
			}
		}
		if cerr := rc.Close(); cerr != nil && res.err == nil {
			res.err = fmt.Errorf("Close: %w", cerr)
		}
		res.data = out.Bytes()
		return nil
	}
	switch mode {
	case "commit":
		if err := database.WithTx(r.ctx, r.db, &sql.TxOptions{ReadOnly: true}, do); err != nil && res.err == nil {
			res.err = fmt.Errorf("read transaction commit: %w", err)
		}
	case "rollback":
		tx, err := r.db.BeginTx(r.ctx, &sql.TxOptions{ReadOnly: true})
		if err != nil {
			res.err = err
			return res
		}
		_ = do(database.ContextWithTx(r.ctx, tx), tx)
		_ = tx.Rollback(r.ctx)
	default:
		_ = do(r.ctx, nil)
	}
	return res
}

func (r *runner) put(id partstore.PartId, data []byte) error {
	return database.WithTx(r.ctx, r.db, &sql.TxOptions{}, func(ctx context.Context, tx database.Tx) error {
		return r.ps.PutPart(ctx, tx, id, bytes.NewReader(data))
	})
}

type applied struct {
	kinds    map[int][]string // shard -> labels of effective faults
	missing  map[int]bool     // shards whose only fault is "missing"
	labels   []string
	dbFlips  []Fault // flip:databytes faults (for the KF-C17-1 matcher)
	hasStale bool
}

func (a *applied) faulty() int { return len(a.kinds) }

// applySet tampers with the stored shards of id. orig are the untampered shard bytes.
func (r *runner) applySet(id partstore.PartId, faults []Fault, orig, stale, foreign [][]byte, allowed func(shard int) bool) *applied {
	total := r.c.D + r.c.P
	a := &applied{kinds: map[int][]string{}, missing: map[int]bool{}}
	cur := make([][]byte, total)
	removed := make([]bool, total)
	for i := range cur {
		cur[i] = orig[i]
	}
	for _, f := range faults {
		i := mod(f.Shard, total)
		if allowed != nil && !allowed(i) {
			continue
		}
		if removed[i] {
			continue
		}
		var st, fo []byte
		if stale != nil {
			st = stale[i]
		}
		if foreign != nil {
			fo = foreign[i]
		}
		// positions always refer to the untampered layout; a second fault on the same shard
		// is applied to the already tampered bytes only for flips that still fit
		base := cur[i]
		if !bytes.Equal(base, orig[i]) && f.Kind != "missing" {
			// keep it simple and deterministic: one byte-level fault per shard, "missing" may override
			continue
		}
		out, rm, label, noop := applyFault(f, base, st, fo, orig[mod(i+1+mod(f.Off, total-1), total)])
		if noop {
			continue
		}
		if rm {
			removed[i] = true
			a.kinds[i] = []string{"missing"}
			continue
		}
		cur[i] = out
		a.kinds[i] = append(a.kinds[i], label)
		if label == "flip:databytes" {
			a.dbFlips = append(a.dbFlips, f)
		}
		if label == "stale" || label == "foreign" {
			a.hasStale = true
		}
	}
	for i := 0; i < total; i++ {
		switch {
		case removed[i]:
			r.io.remove(i, id)
			a.missing[i] = true
		case !bytes.Equal(cur[i], orig[i]):
			r.io.set(i, id, cur[i])
		}
	}
	shardsSorted := make([]int, 0, len(a.kinds))
	for i := range a.kinds {
		shardsSorted = append(shardsSorted, i)
	}
	sort.Ints(shardsSorted)
	for _, i := range shardsSorted {
		a.labels = append(a.labels, a.kinds[i]...)
	}
	return a
}

func sizeClass(n, d int) string {
	sd := d * stripe
	switch {
	case n == 0:
		return "0"
	case n == 1:
		return "1"
	case n < sd-1:
		return "<stripe"
	case n <= sd+1:
		return "stripe+-1"
	case n%sd <= 1 || n%sd == sd-1:
		return "k*stripe+-1"
	default:
		return "multi-stripe"
	}
}

// classify the observed result against the expectation; returns false when the case must stop.
func (r *runner) judge(si int, a *applied, res readResult, want []byte, tampered [][]byte, orig [][]byte, phase string) (ok bool, known bool) {
	o := r.o
	o.Sub++
	nF := a.faulty()
	P := r.c.P
	exact := res.err == nil && bytes.Equal(res.data, want)
	if exact {
		o.Class(phase + ":ok-original")
		return true, false
	}
	if res.err != nil && nF > P {
		o.Class(phase + ":failed-as-allowed")
		if !bytes.HasPrefix(want, res.data) {
			o.Class(phase + ":failed-after-wrong-bytes")
		}
		return true, false
	}
	// here: (nF <= P and not exact) or (nF > P and other bytes with clean EOF)
	td := trustingDecode(r.c.D, r.c.P, tampered)
	same := (res.err != nil && td.err) || (res.err == nil && !td.err && bytes.Equal(res.data, td.out))
	// "cause" check of a matcher: with the suspected faults undone (und), a decoder that trusts
	// consistent shards meets the expectation; for > parity faults it is enough that the undone
	// faults changed the outcome (another mechanism may then still apply to what is left).
	satisfied := func(shards [][]byte, faultsLeft int) bool {
		t := trustingDecode(r.c.D, r.c.P, shards)
		if !t.err && bytes.Equal(t.out, want) {
			return true
		}
		if faultsLeft <= P && nF <= P {
			return false
		}
		if t.err {
			return true
		}
		sameAsObserved := res.err == nil && bytes.Equal(t.out, res.data)
		return nF > P && !sameAsObserved
	}
	if same {
		// KF-C17-1: dataBytes of the first readable shard's frame header is trusted (not authenticated)
		if len(a.dbFlips) > 0 && r.env.Known("c17.frameDataBytesTrusted") {
			und := make([][]byte, len(tampered))
			left := nF
			for i := range tampered {
				und[i] = tampered[i]
			}
			for i, ks := range a.kinds {
				if len(ks) == 1 && ks[0] == "flip:databytes" {
					und[i] = orig[i]
					left--
				}
			}
			if satisfied(und, left) {
				o.KnownHits = append(o.KnownHits, "KF-C17-1")
				o.Class(phase + ":known-databytes")
				return true, true
			}
		}
		// KF-C17-2: stale / foreign shards are internally consistent and accepted as valid
		if a.hasStale && r.env.Known("c17.staleShardAccepted") {
			und := make([][]byte, len(tampered))
			for i := range tampered {
				und[i] = tampered[i]
			}
			for i, ks := range a.kinds {
				for _, k := range ks {
					if k == "stale" || k == "foreign" {
						und[i] = nil
					}
				}
			}
			if satisfied(und, nF) {
				o.KnownHits = append(o.KnownHits, "KF-C17-2")
				o.Class(phase + ":known-stale")
				return true, true
			}
		}
		// KF-C17-4: a shard with trailing bytes (>= one frame header) after its last frame makes the
		// read fail with "insufficient shards" after every original byte was delivered
		if nF <= P && res.err != nil && bytes.Equal(res.data, want) && r.env.Known("c17.trailingBytesFailRead") {
			und := make([][]byte, len(tampered))
			hasTrail := false
			for i := range tampered {
				und[i] = tampered[i]
			}
			for i, ks := range a.kinds {
				if len(ks) == 1 && (ks[0] == "junk" || ks[0] == "dupframe") {
					und[i] = orig[i]
					hasTrail = true
				}
			}
			if hasTrail && satisfied(und, nF) {
				o.KnownHits = append(o.KnownHits, "KF-C17-4")
				o.Class(phase + ":known-trailing-bytes")
				return true, true
			}
		}
		// KF-C17-3: end of part = "no shard has another frame": every shard is missing, unusable at open
		// (bad shard header) or ends at the same frame edge -> clean EOF
		// combination of the mechanisms above in one fault set (e.g. a stale shard plus a shard with
		// trailing bytes): undo every fault of a kind whose finding is enabled; what is left must
		// meet the expectation under the trusting decoder.
		{
			und := make([][]byte, len(tampered))
			for i := range tampered {
				und[i] = tampered[i]
			}
			left := nF
			var hits []string
			add := func(h string) {
				for _, x := range hits {
					if x == h {
						return
					}
				}
				hits = append(hits, h)
			}
			for i, ks := range a.kinds {
				if len(ks) != 1 {
					continue
				}
				switch {
				case ks[0] == "flip:databytes" && r.env.Known("c17.frameDataBytesTrusted"):
					und[i] = orig[i]
					left--
					add("KF-C17-1")
				case (ks[0] == "stale" || ks[0] == "foreign") && r.env.Known("c17.staleShardAccepted"):
					und[i] = nil
					add("KF-C17-2")
				case (ks[0] == "junk" || ks[0] == "dupframe") && r.env.Known("c17.trailingBytesFailRead"):
					und[i] = orig[i]
					add("KF-C17-4")
				}
			}
			if len(hits) >= 2 && satisfied(und, left) {
				o.KnownHits = append(o.KnownHits, hits...)
				o.Class(phase + ":known-combination")
				return true, true
			}
		}
		if nF > P && res.err == nil && r.env.Known("c17.commonTruncationCleanEOF") {
			// the decoder that trusts consistent shards ends cleanly only through that rule; shards
			// with other faults were merely dropped earlier. Require a shard that ends early / is
			// absent or unusable, and a result that is a proper prefix ending on a stripe boundary.
			endsEarly := false
			for _, ks := range a.kinds {
				for _, k := range ks {
					if k == "missing" || strings.HasPrefix(k, "trunc:") || k == "flip:shardhdr" || k == "othershard" {
						endsEarly = true
					}
				}
			}
			if endsEarly && len(res.data) < len(want) && bytes.HasPrefix(want, res.data) && len(res.data)%(r.c.D*stripe) == 0 {
				o.KnownHits = append(o.KnownHits, "KF-C17-3")
				o.Class(phase + ":known-common-truncation")
				return true, true
			}
		}
	}
	desc := fmt.Sprintf("set %d (%s) d=%d p=%d base=%s body=%d bytes, %d faulty shards %v", si, phase, r.c.D, r.c.P, r.c.Base, len(want), nF, a.labels)
	if nF <= P {
		if res.err != nil {
			o.Failf("%s: read must return the original but failed: %v", desc, res.err)
		} else {
			o.Failf("%s: read must return the original but returned %d bytes with clean EOF (first difference at %d)", desc, len(res.data), firstDiff(res.data, want))
		}
	} else {
		o.Failf("%s: more than parity faults: read returned %d other bytes with a clean EOF (first difference at %d) instead of failing", desc, len(res.data), firstDiff(res.data, want))
	}
	return false, false
}

// emptyFrameShard: valid shard header followed by exactly as many frame headers as the
// original shard has frames, each announcing a payload of length 0 and carrying no payload.
func emptyFrameShard(b, orig []byte) bool {
	nf := len(frameOffsets(orig))
	if nf == 0 || len(b) != shardHdrSize+nf*frameHdrSize || !bytes.Equal(b[:shardHdrSize], orig[:shardHdrSize]) {
		return false
	}
	for k := 0; k < nf; k++ {
		fh := b[shardHdrSize+k*frameHdrSize:]
		if binary.BigEndian.Uint64(fh[0:8]) != uint64(k) || binary.BigEndian.Uint32(fh[12:16]) != 0 {
			return false
		}
	}
	return true
}

func firstDiff(a, b []byte) int {
	n := min(len(a), len(b))
	for i := 0; i < n; i++ {
		if a[i] != b[i] {
			return i
		}
	}
	return n
}

func run(env *ev.Env, c Case) (o ev.Outcome) {
	if c.Scan != nil {
		return runScan(env, c)
	}
	if c.D < 1 || c.P < 1 || c.D > 4 || c.P > 3 {
		o.Discard = true
		return
	}
	dir := env.TempDir()
	defer os.RemoveAll(dir)
	ctx := context.Background()
	db, err := stacks.OpenDB(dir)
	if err != nil {
		o.Failf("open db: %v", err)
		return
	}
	defer db.Close()
	base := c.Base
	if base != "fs" {
		base = "mem"
	}
	b := stacks.NewBuilder(dir, db, stacks.Options{})
	ps, err := b.Build(fmt.Sprintf("ec%d+%d>%s", c.D, c.P, base), "default")
	if err != nil {
		o.Failf("build: %v", err)
		return
	}
	defer b.Release()
	if err := ps.Start(ctx); err != nil {
		o.Failf("start: %v", err)
		return
	}
	defer ps.Stop(ctx)
	total := c.D + c.P
	r := &runner{ctx: ctx, env: env, o: &o, c: c, db: db, ps: ps, io: &shardIO{b: b, base: base, n: total}}
	o.Class(fmt.Sprintf("geom:%d+%d", c.D, c.P))
	o.Class("base:" + base)

	want := c.Body.Bytes()
	o.Class("size:" + sizeClass(len(want), c.D))
	id, id2 := pid(0), pid(1)

	// sources of stale and foreign shards, produced by the real PutPart
	staleBody := c.Stale
	staleBody.Len = len(want)
	staleData := staleBody.Bytes()
	var stale, foreign [][]byte
	if !bytes.Equal(staleData, want) {
		if err := r.put(id, staleData); err != nil {
			o.Failf("PutPart(stale content): %v", err)
			return
		}
		stale = r.io.all(id)
	}
	if err := r.put(id2, c.Foreign.Bytes()); err != nil {
		o.Failf("PutPart(foreign part): %v", err)
		return
	}
	foreign = r.io.all(id2)

	for si, set := range c.Sets {
		// fresh, complete set of shards
		if err := r.put(id, want); err != nil {
			o.Failf("set %d: PutPart: %v", si, err)
			return
		}
		orig := r.io.all(id)
		for i, s := range orig {
			if s == nil {
				o.Failf("set %d: shard %d missing right after PutPart", si, i)
				return
			}
		}
		a := r.applySet(id, set.Faults, orig, stale, foreign, nil)
		nF := a.faulty()
		tampered := r.io.all(id)
		switch {
		case nF == 0:
			o.Class("faults:0")
		case nF < c.P:
			o.Class("faults:<parity")
		case nF == c.P:
			o.Class("faults:=parity")
		case nF == c.P+1:
			o.Class("faults:parity+1")
		default:
			o.Class("faults:>parity+1")
		}
		nonMissing := false
		for _, l := range a.labels {
			o.Class("fault:" + l)
			if l != "missing" {
				nonMissing = true
			}
		}
		if (nF == c.P || nF == c.P+1) && nonMissing {
			o.NonTrivial = true
		}
		mode := set.Mode
		o.Class("mode:" + mode)
		res := r.read(id, mode, set.Buf)
		ok, known := r.judge(si, a, res, want, tampered, orig, "read")
		if !ok {
			return
		}
		if known || nF > c.P || res.err != nil || mode == "rollback" {
			continue
		}
		// ---- healing: the read succeeded with <= parity faults -------------------
		after := r.io.all(id)
		stillFaulty := map[int]bool{} // shards with non-"missing" faults: the property promises no repair for them
		for i := range a.kinds {
			if !a.missing[i] {
				stillFaulty[i] = true
			}
		}
		for i := range a.missing {
			o.Sub++
			if after[i] == nil {
				o.Failf("set %d d=%d p=%d base=%s mode=%s: read succeeded but missing shard %d was not restored by healing (faults %v)", si, c.D, c.P, base, mode, i, a.labels)
				return
			}
			if bytes.Equal(after[i], orig[i]) {
				o.Class("heal:restored-identical")
			} else {
				o.Class("heal:restored-different-bytes")
				// KF-C17-5: a healed *parity* shard consists of frames with empty payload
				// (ReconstructData does not rebuild parity shards), i.e. it is present but useless.
				if i >= c.D && emptyFrameShard(after[i], orig[i]) && env.Known("c17.healedParityShardEmpty") {
					o.KnownHits = append(o.KnownHits, "KF-C17-5")
					o.Class("heal:known-empty-parity-shard")
					stillFaulty[i] = true
					a.kinds[i] = []string{"healed-empty-parity"}
				}
			}
		}
		if len(a.missing) > 0 {
			o.Class("heal:checked")
		}
		for i := range stillFaulty {
			if bytes.Equal(after[i], orig[i]) {
				o.Class("heal:also-repaired-corrupt-shard")
			}
		}
		// second fault set on shards that are healthy or were healed; together with the
		// unrepaired faulty shards it stays within parity, so the read must succeed again.
		budget := c.P - len(stillFaulty)
		if budget <= 0 || len(set.Second) == 0 {
			continue
		}
		var second []Fault
		used := map[int]bool{}
		for _, f := range set.Second {
			i := mod(f.Shard, total)
			if stillFaulty[i] || used[i] || len(used) >= budget {
				continue
			}
			used[i] = true
			second = append(second, f)
		}
		if len(second) == 0 {
			continue
		}
		// the healed shards may legitimately differ in bytes from the originals: tamper relative to what is stored now
		a2 := r.applySet(id, second, after, nil, nil, func(i int) bool { return !stillFaulty[i] })
		if a2.faulty() == 0 {
			continue
		}
		orig2 := append([][]byte(nil), after...)
		for i := range stillFaulty {
			a2.kinds[i] = a.kinds[i]
			a2.labels = append(a2.labels, a.kinds[i]...)
			orig2[i] = orig[i]
		}
		a2.hasStale = a.hasStale
		a2.dbFlips = a.dbFlips
		tampered2 := r.io.all(id)
		res2 := r.read(id, "nil", 0)
		o.Class("second:applied")
		reliesOnHealed := false
		for i := range a.missing {
			if !used[i] {
				reliesOnHealed = true
			}
		}
		if reliesOnHealed && len(a.missing) > 0 && a2.faulty() == c.P {
			o.Class("second:forces-use-of-healed-shard")
		}
		if ok, _ := r.judge(si, a2, res2, want, tampered2, orig2, "after-heal"); !ok {
			return
		}
	}
	return
}

// ---- generation -------------------------------------------------------------------------

var truncWhere = []string{"edge", "edge", "framehdr", "payload", "shardhdr", "zero"}
var flipWhere = []string{"shardhdr", "stripe", "databytes", "payloadlen", "hash", "payload", "payload"}

func genFault(t *rapid.T, total int, kinds []string) Fault {
	f := Fault{Shard: rapid.IntRange(0, total-1).Draw(t, "shard"), Kind: rapid.SampledFrom(kinds).Draw(t, "fkind")}
	switch f.Kind {
	case "trunc":
		f.Where = rapid.SampledFrom(truncWhere).Draw(t, "twhere")
	case "flip":
		f.Where = rapid.SampledFrom(flipWhere).Draw(t, "fwhere")
	}
	if f.Kind != "missing" && f.Kind != "stale" && f.Kind != "foreign" {
		f.Frame = rapid.IntRange(0, 7).Draw(t, "frame")
		f.Off = rapid.IntRange(0, 1100).Draw(t, "off")
		f.Bit = rapid.IntRange(0, 7).Draw(t, "bit")
	}
	return f
}

var allKinds = []string{"missing", "missing", "trunc", "trunc", "flip", "flip", "flip", "stale", "foreign", "othershard", "junk", "dupframe"}
var detectableKinds = []string{"missing", "missing", "trunc", "flip", "othershard"}

func genSet(t *rapid.T, d, p int) Set {
	total := d + p
	var s Set
	// number of distinct faulty shards: mostly parity and parity+1
	var n int
	switch rapid.IntRange(0, 9).Draw(t, "nClass") {
	case 0:
		n = rapid.IntRange(0, total).Draw(t, "nAny")
	case 1, 2:
		n = max(p-1, 1)
	case 3, 4, 5, 6:
		n = p
	default:
		n = p + 1
	}
	n = min(n, total)
	perm := rapid.Permutation(seq(total)).Draw(t, "perm")
	kinds := allKinds
	if rapid.IntRange(0, 3).Draw(t, "plainKinds") == 0 {
		// a quarter of the sets use only faults that every reader detects (search behind the known findings)
		kinds = detectableKinds
	}
	for i := 0; i < n; i++ {
		f := genFault(t, total, kinds)
		f.Shard = perm[i]
		s.Faults = append(s.Faults, f)
	}
	s.Mode = rapid.SampledFrom([]string{"nil", "nil", "commit", "rollback"}).Draw(t, "mode")
	s.Buf = rapid.SampledFrom([]int{0, 0, 1, 100, 1024, 4096}).Draw(t, "buf")
	// follow-up set: up to parity detectable faults, preferably on shards that were not faulty before
	m := rapid.IntRange(1, p).Draw(t, "nSecond")
	for i := 0; i < m; i++ {
		f := genFault(t, total, detectableKinds)
		if f.Kind == "flip" {
			f.Where = rapid.SampledFrom([]string{"payload", "hash", "stripe", "shardhdr"}).Draw(t, "fwhere2")
		}
		f.Shard = perm[(n+i)%total]
		s.Second = append(s.Second, f)
	}
	return s
}

func seq(n int) []int {
	s := make([]int, n)
	for i := range s {
		s[i] = i
	}
	return s
}

func genSize(t *rapid.T, d int, maxStripes int) int {
	sd := d * stripe
	switch rapid.IntRange(0, 9).Draw(t, "szClass") {
	case 0:
		return 0
	case 1:
		return 1
	case 2:
		return rapid.IntRange(2, sd-2).Draw(t, "sub")
	case 3:
		return rapid.IntRange(1, maxStripes*sd).Draw(t, "any")
	case 4:
		return stripe + rapid.IntRange(-1, 1).Draw(t, "shardDelta")
	default:
		k := rapid.IntRange(1, maxStripes).Draw(t, "k")
		return k*sd + rapid.IntRange(-1, 1).Draw(t, "delta")
	}
}

func genCase(t *rapid.T, env *ev.Env) Case {
	c := Case{D: rapid.IntRange(1, 3).Draw(t, "d"), P: rapid.IntRange(1, 2).Draw(t, "p")}
	c.Base = rapid.SampledFrom([]string{"mem", "mem", "fs"}).Draw(t, "base")
	if rapid.IntRange(0, 5).Draw(t, "scan") == 3 {
		c.Scan = genScan(t, c.D, c.P)
		return c
	}
	maxStripes := 4
	nSets := 10
	if env.Thorough() {
		maxStripes = 9
		nSets = 16
	}
	n := genSize(t, c.D, maxStripes)
	c.Body = gen.BodySpec{Kind: gen.BodyKind().Draw(t, "kind"), Len: n, Seed: uint64(rapid.IntRange(0, 20).Draw(t, "seed"))}
	c.Stale = gen.BodySpec{Kind: "rand", Len: n, Seed: c.Body.Seed + 100}
	fl := n
	if rapid.IntRange(0, 2).Draw(t, "foreignLen") == 0 {
		fl = genSize(t, c.D, maxStripes)
	}
	c.Foreign = gen.BodySpec{Kind: "rand", Len: fl, Seed: c.Body.Seed + 200}
	k := rapid.IntRange(3, nSets).Draw(t, "nSets")
	for i := 0; i < k; i++ {
		c.Sets = append(c.Sets, genSet(t, c.D, c.P))
	}
	return c
}

// ---- enumeration (directed): all subsets of shards x a catalogue of fault kinds ------------

type catEntry struct {
	name string
	f    Fault
}

var catalogue = []catEntry{
	{"missing", Fault{Kind: "missing"}},
	{"trunc-zero", Fault{Kind: "trunc", Where: "zero"}},
	{"trunc-shardhdr", Fault{Kind: "trunc", Where: "shardhdr", Off: 9}},
	{"trunc-edge0", Fault{Kind: "trunc", Where: "edge", Frame: 0}},
	{"trunc-edge-last", Fault{Kind: "trunc", Where: "edge", Frame: -1}},
	{"trunc-framehdr", Fault{Kind: "trunc", Where: "framehdr", Frame: -1, Off: 20}},
	{"trunc-payload", Fault{Kind: "trunc", Where: "payload", Frame: -1, Off: 500}},
	{"flip-shardhdr", Fault{Kind: "flip", Where: "shardhdr", Off: 10, Bit: 0}},
	{"flip-stripe", Fault{Kind: "flip", Where: "stripe", Frame: 0, Off: 7, Bit: 0}},
	{"flip-databytes", Fault{Kind: "flip", Where: "databytes", Frame: -1, Off: 3, Bit: 2}},
	{"flip-payloadlen", Fault{Kind: "flip", Where: "payloadlen", Frame: 0, Off: 3, Bit: 0}},
	{"flip-hash", Fault{Kind: "flip", Where: "hash", Frame: 0, Off: 31, Bit: 7}},
	{"flip-payload", Fault{Kind: "flip", Where: "payload", Frame: -1, Off: 0, Bit: 0}},
	{"stale", Fault{Kind: "stale"}},
	{"foreign", Fault{Kind: "foreign"}},
	{"othershard", Fault{Kind: "othershard"}},
	{"junk", Fault{Kind: "junk", Off: 30}},
	{"junk-long", Fault{Kind: "junk", Off: 70}},
	{"dupframe", Fault{Kind: "dupframe", Frame: -1}},
}

func subsets(total, maxSize int) [][]int {
	var out [][]int
	for m := 1; m < 1<<total; m++ {
		var s []int
		for i := 0; i < total; i++ {
			if m&(1<<i) != 0 {
				s = append(s, i)
			}
		}
		if len(s) <= maxSize {
			out = append(out, s)
		}
	}
	return out
}

func directed(env *ev.Env) []Case {
	type geom struct{ d, p int }
	geoms := []geom{{1, 1}, {2, 1}}
	sizesOf := func(d int) []int { return []int{0, 1, d*stripe - 1, d*stripe + 1, 2 * d * stripe} }
	if env.Thorough() {
		geoms = []geom{{1, 1}, {2, 1}, {3, 1}, {1, 2}, {2, 2}, {3, 2}}
		sizesOf = func(d int) []int {
			return []int{0, 1, stripe, d*stripe - 1, d * stripe, d*stripe + 1, 2*d*stripe - 1, 2 * d * stripe, 2*d*stripe + 1, 3*d*stripe + 17}
		}
	}
	var cs []Case
	for _, g := range geoms {
		total := g.d + g.p
		for _, n := range sizesOf(g.d) {
			for _, base := range []string{"mem", "fs"} {
				if base == "fs" && !env.Thorough() && n != g.d*stripe+1 {
					continue
				}
				c := Case{D: g.d, P: g.p, Base: base,
					Body:    gen.BodySpec{Kind: "rand", Len: n, Seed: 1},
					Stale:   gen.BodySpec{Kind: "rand", Len: n, Seed: 101},
					Foreign: gen.BodySpec{Kind: "rand", Len: n, Seed: 201}}
				modes := []string{"nil", "commit"}
				k := 0
				for _, sub := range subsets(total, g.p+1) {
					for _, ce := range catalogue {
						// same kind on every shard of the subset
						var s Set
						for _, sh := range sub {
							f := ce.f
							f.Shard = sh
							s.Faults = append(s.Faults, f)
						}
						s.Mode = modes[k%2]
						k++
						// follow-up: knock out as many other shards as the budget allows
						for j := 0; j < total; j++ {
							s.Second = append(s.Second, Fault{Shard: (sub[len(sub)-1] + 1 + j) % total, Kind: "missing"})
						}
						c.Sets = append(c.Sets, s)
						// mixed: first shard of the subset missing, the others of this kind
						if len(sub) >= 2 && ce.name != "missing" {
							var m Set
							for x, sh := range sub {
								f := ce.f
								if x == 0 {
									f = Fault{Kind: "missing"}
								}
								f.Shard = sh
								m.Faults = append(m.Faults, f)
							}
							m.Mode = modes[k%2]
							m.Second = s.Second
							c.Sets = append(c.Sets, m)
						}
					}
				}
				cs = append(cs, c)
			}
		}
	}
	return cs
}

func TestC17(t *testing.T) {
	ev.Main(t, ev.Spec[Case]{
		ID:    "C17",
		Level: "fault_enumeration",
		Rule: "a case = geometry (data 1-3, parity 1-2, stripe 1024) x base store (in-memory / filesystem) x body (sizes 0, 1, around shard and stripe boundaries) x 3-16 fault sets; " +
			"it is non-trivial when a fault set has exactly parity or parity+1 faulty shards and contains a fault kind other than 'missing'; distinct = distinct case JSON. " +
			"The directed part enumerates every subset of shards of size <= parity+1 x a 19-entry fault catalogue (plus 'one missing + rest of that kind') for the small geometries",
		Assumptions: []string{
			"shard bytes are produced by the real PutPart; stale and foreign shards come from real PutParts of other content / another part id",
			"flips in the payloadLen field are limited to values < 64 MiB (the reader allocates payloadLen bytes); larger values are a memory-exhaustion concern outside this property",
			"healing is demanded only for shards that were missing, after a fully consumed read with a nil transaction or a committed one",
			"the known-finding matchers use a harness reimplementation of a decoder that trusts every internally consistent shard; it is never used to accept a result outside the three named mechanisms",
		},
		Gen:      genCase,
		Run:      run,
		Directed: directed,
	})
}

// FuzzC17 mutates the stored bytes of the shards of a 2+1 part byte-wise (thorough tier).
// The oracle is the same: <= parity tampered shards => original; more => original or failure.
func FuzzC17(f *testing.F) {
	f.Add(uint16(2049), uint8(0), uint16(20), uint8(1), uint8(1), uint16(70), uint8(0xff))
	f.Add(uint16(1), uint8(2), uint16(23), uint8(4), uint8(0), uint16(0), uint8(0))
	f.Add(uint16(4096), uint8(1), uint16(15+8+3), uint8(0x10), uint8(2), uint16(15+48), uint8(1))
	// one store for the whole campaign (opening a database per input would dominate the run time)
	dir := f.TempDir()
	ctx := context.Background()
	db, err := stacks.OpenDB(dir)
	if err != nil {
		f.Fatal(err)
	}
	f.Cleanup(func() { db.Close() })
	b := stacks.NewBuilder(dir, db, stacks.Options{})
	ps, err := b.Build("ec2+1>mem", "default")
	if err != nil {
		f.Fatal(err)
	}
	if err := ps.Start(ctx); err != nil {
		f.Fatal(err)
	}
	f.Cleanup(func() { ps.Stop(ctx) })
	env := &ev.Env{Property: "C17", Tier: "thorough"}
	f.Fuzz(func(t *testing.T, size uint16, s1 uint8, off1 uint16, x1 uint8, s2 uint8, off2 uint16, x2 uint8) {
		n := int(size) % 6200
		c := Case{D: 2, P: 1, Base: "mem", Body: gen.BodySpec{Kind: "rand", Len: n, Seed: 5}}
		var fs []Fault
		add := func(s uint8, off uint16, x uint8) {
			if x != 0 {
				fs = append(fs, Fault{Shard: int(s), Kind: "rawxor", Off: int(off), Bit: int(x)})
			}
		}
		add(s1, off1, x1)
		add(s2, off2, x2)
		c.Sets = []Set{{Faults: fs, Mode: "nil"}}
		var o ev.Outcome
		r := &runner{ctx: ctx, env: env, o: &o, c: c, db: db, ps: ps, io: &shardIO{b: b, base: "mem", n: 3}}
		runRaw(r)
		if o.Violation != "" {
			t.Fatal(o.Violation)
		}
	})
}

// knownOpen reports whether known-findings.json lists an open C17 finding with this matcher
// (the fuzz target has no ev.Main around it).
func knownOpen(matcher string) bool {
	root := os.Getenv("VERIF_ROOT")
	if root == "" {
		root = "/verif"
	}
	b, err := os.ReadFile(filepath.Join(root, "known-findings.json"))
	if err != nil {
		return false
	}
	var ff struct {
		Findings []struct {
			Property, Status, Matcher string
		} `json:"findings"`
	}
	if json.Unmarshal(b, &ff) != nil {
		return false
	}
	for _, f := range ff.Findings {
		if f.Property == "C17" && f.Status == "open" && f.Matcher == matcher {
			return true
		}
	}
	return false
}

// runRaw is the fuzz target's run(): "rawxor" faults xor one byte at an absolute offset of a shard.
func runRaw(r *runner) {
	o, c := r.o, r.c
	total := c.D + c.P
	want := c.Body.Bytes()
	id := pid(0)
	if err := r.ps.PutPart(r.ctx, nil, id, bytes.NewReader(want)); err != nil {
		o.Failf("PutPart: %v", err)
		return
	}
	orig := r.io.all(id)
	touched := map[int]bool{}
	for _, f := range c.Sets[0].Faults {
		i := mod(f.Shard, total)
		raw, _ := r.io.get(i, id)
		if len(raw) == 0 {
			continue
		}
		pos := mod(f.Off, len(raw))
		// keep the payloadLen allocation bound of the main check
		raw[pos] ^= byte(f.Bit)
		r.io.set(i, id, raw)
		if !bytes.Equal(raw, orig[i]) {
			touched[i] = true
		} else {
			delete(touched, i)
		}
	}
	for i := range touched {
		// bound allocations: skip inputs that enlarge a payloadLen field beyond 64 MiB
		raw, _ := r.io.get(i, id)
		for _, off := range frameOffsets(orig[i]) {
			if off+16 <= len(raw) && binary.BigEndian.Uint32(raw[off+12:off+16]) >= 1<<maxFlipLenBits {
				return
			}
		}
	}
	res := r.read(id, "nil", 0)
	exact := res.err == nil && bytes.Equal(res.data, want)
	if exact {
		return
	}
	if len(touched) > c.P && res.err != nil {
		return
	}
	// D15 / KF-C17-1: a changed dataBytes field explains the result
	td := trustingDecode(c.D, c.P, r.io.all(id))
	if res.err == nil && !td.err && bytes.Equal(td.out, res.data) {
		// undo only the dataBytes fields of the tampered shards: if a decoder that trusts consistent
		// shards then meets the expectation, the changed dataBytes value is what explains the result
		und := r.io.all(id)
		changedDB := false
		for i := range touched {
			raw := append([]byte(nil), und[i]...)
			for _, off := range frameOffsets(orig[i]) {
				if off+12 <= len(raw) && !bytes.Equal(raw[off+8:off+12], orig[i][off+8:off+12]) {
					copy(raw[off+8:off+12], orig[i][off+8:off+12])
					changedDB = true
				}
			}
			und[i] = raw
		}
		if changedDB && knownOpen("c17.frameDataBytesTrusted") {
			t := trustingDecode(c.D, c.P, und)
			if (!t.err && bytes.Equal(t.out, want)) || (len(touched) > c.P && t.err) {
				return // known finding KF-C17-1 (frame-header dataBytes trusted)
			}
		}
	}
	o.Failf("fuzz: d=%d p=%d body=%d bytes, %d tampered shards: got %d bytes err=%v", c.D, c.P, len(want), len(touched), len(res.data), res.err)
}
