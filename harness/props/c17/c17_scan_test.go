package c17

// Heal scan: "healing restores the missing shards" also through the background scan, which discovers parts by
// listing the shard stores (GetPartIds) and reads each of them (heal-on-read). The sub-case builds several
// parts, removes up to parity-many shards of each (different stores per part), optionally leaves a single
// shard of an undecodable part behind, runs one or two complete scan passes through hook H7
// (VerifHealScanOnce) and checks every shard of every healable part against the bytes PutPart wrote
// (seeded defect S-C17-4: listings of equal length are skipped when the id sets are united).

import (
	"bytes"
	"context"
	"fmt"
	"os"

	"github.com/jdillenkofer/pithos/internal/storage/metadatapart/partstore/middlewares/erasurecoding"
	"github.com/jdillenkofer/pithos/verifharness/ev"
	"github.com/jdillenkofer/pithos/verifharness/gen"
	"github.com/jdillenkofer/pithos/verifharness/stacks"
	"pgregory.net/rapid"
)

// Scan is the sub-case "several damaged parts, then complete heal-scan passes".
type Scan struct {
	Lens []int   `json:"lens"` // one part per entry
	Lost [][]int `json:"lost"` // per part: shard indexes whose stored shard is removed (taken modulo d+p, deduplicated)
	// Leftover: shard stores that additionally hold the only remaining shard of a part that cannot be decoded any more
	Leftover []int `json:"leftover,omitempty"`
	Passes   int   `json:"passes"` // complete scan passes (1 or 2)
}

func genScan(t *rapid.T, d, p int) *Scan {
	total := d + p
	s := &Scan{Passes: rapid.SampledFrom([]int{1, 1, 1, 2}).Draw(t, "scanPasses")}
	n := rapid.IntRange(2, 4).Draw(t, "scanParts")
	// the interesting states have listings of equal length but different content: by default part i loses
	// its shard on store i (mod total); a third of the parts lose a drawn set instead
	for i := 0; i < n; i++ {
		s.Lens = append(s.Lens, rapid.SampledFrom([]int{1, 100, 1025, 5000}).Draw(t, "scanLen"))
		lost := []int{i % total}
		switch rapid.IntRange(0, 5).Draw(t, "scanLostKind") {
		case 0:
			lost = nil
		case 1:
			lost = rapid.SliceOfNDistinct(rapid.IntRange(0, total-1), 1, min(p, total), func(x int) int { return x }).Draw(t, "scanLost")
		case 2:
			if p+1 <= total {
				lost = rapid.SliceOfNDistinct(rapid.IntRange(0, total-1), p+1, p+1, func(x int) int { return x }).Draw(t, "scanLostTooMany")
			}
		}
		s.Lost = append(s.Lost, lost)
	}
	if rapid.IntRange(0, 2).Draw(t, "scanLeftover") == 0 {
		s.Leftover = []int{rapid.IntRange(0, total-1).Draw(t, "scanLeftoverStore")}
	}
	return s
}

func runScan(env *ev.Env, c Case) (o ev.Outcome) {
	sc := c.Scan
	if c.D < 1 || c.P < 1 || c.D > 4 || c.P > 3 || len(sc.Lens) == 0 || len(sc.Lens) > 6 || len(sc.Lost) != len(sc.Lens) || sc.Passes < 1 || sc.Passes > 3 {
		o.Discard = true
		return
	}
	dir := env.TempDir()
	defer os.RemoveAll(dir)
	ctx := context.Background()
	db, err := stacks.OpenDB(dir)
	if err != nil {
		o.Failf("open db: %v", err)
		return
	}
	defer db.Close()
	base := c.Base
	if base != "fs" {
		base = "mem"
	}
	b := stacks.NewBuilder(dir, db, stacks.Options{})
	ps, err := b.Build(fmt.Sprintf("ec%d+%d>%s", c.D, c.P, base), "default")
	if err != nil {
		o.Failf("build: %v", err)
		return
	}
	defer b.Release()
	if err := ps.Start(ctx); err != nil {
		o.Failf("start: %v", err)
		return
	}
	defer ps.Stop(ctx)
	total := c.D + c.P
	r := &runner{ctx: ctx, env: env, o: &o, c: c, db: db, ps: ps, io: &shardIO{b: b, base: base, n: total}}
	o.Class("scan")
	o.Class(fmt.Sprintf("geom:%d+%d", c.D, c.P))
	o.Class("base:" + base)

	type part struct {
		orig [][]byte
		lost map[int]bool
	}
	parts := make([]part, len(sc.Lens))
	for i, n := range sc.Lens {
		data := gen.BodySpec{Kind: "rand", Len: n, Seed: uint64(i + 1)}.Bytes()
		if err := r.put(pid(i), data); err != nil {
			o.Failf("scan: PutPart(part %d): %v", i, err)
			return
		}
		parts[i].orig = r.io.all(pid(i))
		parts[i].lost = map[int]bool{}
		for _, s := range sc.Lost[i] {
			parts[i].lost[mod(s, total)] = true
		}
	}
	// leftover: a part of which a single shard survives
	if len(sc.Leftover) > 0 && total >= 2 && c.D >= 1 {
		lid := pid(9)
		if err := r.put(lid, gen.BodySpec{Kind: "rand", Len: 300, Seed: 99}.Bytes()); err != nil {
			o.Failf("scan: PutPart(leftover): %v", err)
			return
		}
		keep := mod(sc.Leftover[0], total)
		if total-1 > c.P { // otherwise one missing... the part must be undecodable: fewer than d shards left
			for s := 0; s < total; s++ {
				if s != keep {
					r.io.remove(s, lid)
				}
			}
			o.Class("scan:leftover-shard-of-undecodable-part")
		} else {
			for s := 0; s < total; s++ {
				r.io.remove(s, lid)
			}
		}
	}
	healable, equalLenDifferentSets := 0, false
	for i := range parts {
		for s := range parts[i].lost {
			r.io.remove(s, pid(i))
		}
		if n := len(parts[i].lost); n >= 1 && n <= c.P {
			healable++
		}
	}
	// classify the listing shape the union has to cope with
	listing := make([]map[int]bool, total)
	for s := 0; s < total; s++ {
		listing[s] = map[int]bool{}
		for i := range parts {
			if !parts[i].lost[s] {
				listing[s][i] = true
			}
		}
	}
	for s := 1; s < total; s++ {
		if len(listing[s]) == len(listing[0]) {
			for i := range listing[s] {
				if !listing[0][i] {
					equalLenDifferentSets = true
				}
			}
		}
	}
	if equalLenDifferentSets {
		o.Class("scan:stores-list-different-id-sets-of-equal-size")
	}
	o.NonTrivial = healable >= 2
	for pass := 0; pass < sc.Passes; pass++ {
		if !erasurecoding.VerifHealScanOnce(ctx, ps) {
			o.Failf("harness: the built store is not an erasure-coding part store (%T)", ps)
			return
		}
	}
	for i := range parts {
		n := len(parts[i].lost)
		if n < 1 || n > c.P {
			continue
		}
		o.Sub++
		now := r.io.all(pid(i))
		for s := 0; s < total; s++ {
			if now[s] == nil {
				o.Failf("heal scan (%d pass(es), %d+%d, %d parts, lost per part %v, leftover %v): part %d lost %d shard(s) (<= parity) and its shard %d is still missing after the scan", sc.Passes, c.D, c.P, len(parts), sc.Lost, sc.Leftover, i, n, s)
				return
			}
			if !bytes.Equal(now[s], parts[i].orig[s]) {
				o.Failf("heal scan: shard %d of part %d differs from what PutPart wrote (%d bytes now, %d originally)", s, i, len(now[s]), len(parts[i].orig[s]))
				return
			}
		}
	}
	// every healable or intact part still reads back exactly
	for i := range parts {
		if len(parts[i].lost) > c.P {
			continue
		}
		res := r.read(pid(i), "nil", 0)
		o.Sub++
		want := gen.BodySpec{Kind: "rand", Len: sc.Lens[i], Seed: uint64(i + 1)}.Bytes()
		if res.err != nil || !bytes.Equal(res.data, want) {
			o.Failf("heal scan: part %d does not read back after the scan: err=%v, %d of %d bytes", i, res.err, len(res.data), len(want))
			return
		}
	}
	return
}
