// Package c23 checks C23: after every successful operation through the
// replication storage that names no explicit version id, each secondary
// exposes the same buckets, keys, object contents, content types, metadata and
// tags as the primary.
//
// One primary and two secondaries on different part-store stacks are wrapped
// by replication.NewStorage. Generated programs (no explicit version ids) go
// through the replication storage; after every mutating step the observable
// state of every secondary (walked through its own public API) is compared
// with the primary's, restricted to what the property lists.
package c23

import (
	"context"
	"encoding/json"
	"fmt"
	"os"
	"path/filepath"
	"strings"
	"testing"

	"github.com/jdillenkofer/pithos/internal/storage"
	"github.com/jdillenkofer/pithos/internal/storage/replication"
	"github.com/jdillenkofer/pithos/verifharness/dump"
	"github.com/jdillenkofer/pithos/verifharness/ev"
	"github.com/jdillenkofer/pithos/verifharness/gen"
	"github.com/jdillenkofer/pithos/verifharness/prog"
	"github.com/jdillenkofer/pithos/verifharness/run"
	"github.com/jdillenkofer/pithos/verifharness/stacks"
	"pgregory.net/rapid"
)

type Case struct {
	Primary     string    `json:"primary"`
	Secondaries [2]string `json:"secondaries"`
	Ops         []prog.Op `json:"ops"` // kind "reopen" = the replication wrapper is rebuilt over the same storages (process restart)
}

var names = run.Names{Buckets: []string{"bucket-a", "bucket.b"}, Keys: []string{"a", "a/b", "é %_"}}

const (
	matcherRestart = "c23.uploadMapLostOnRestart"
	kfRestart      = "KF-C23-1"
)

func sp(s string) *string { return &s }

func genCase(t *rapid.T, env *ev.Env) Case {
	var c Case
	c.Primary = rapid.SampledFrom([]string{"P1", "P2", "N1"}).Draw(t, "primary")
	c.Secondaries[0] = rapid.SampledFrom([]string{"P2", "P1", "P3"}).Draw(t, "sec0")
	c.Secondaries[1] = rapid.SampledFrom([]string{"N1", "P3", "P1", "P2"}).Draw(t, "sec1")
	w := map[string]int{
		prog.OpCreateBucket: 2, prog.OpDeleteBucket: 2, prog.OpSetVersioning: 3,
		prog.OpPut: 10, prog.OpCopy: 7, prog.OpAppend: 4,
		prog.OpMpuSeq: 5, prog.OpMpuCreate: 1, prog.OpMpuPart: 2, prog.OpMpuPartCopy: 2, prog.OpMpuComplete: 2, prog.OpMpuAbort: 1,
		prog.OpDelete: 5, prog.OpDeleteObjects: 2, prog.OpPutTags: 4, prog.OpDeleteTags: 2, prog.OpTransition: 3,
		prog.OpHead: 1, prog.OpGet: 1, prog.OpList: 1,
	}
	// half of the programs contain restarts of the replication layer
	restarts := rapid.Bool().Draw(t, "restarts")
	if restarts {
		w[prog.OpReopen] = 2
	}
	cfg := prog.GenConfig{
		Buckets: 2, Keys: 3, MinOps: 5, MaxOps: 30, Weights: w,
		Classes:    []string{"STANDARD", "GLACIER", "STANDARD_IA"},
		Conditions: true, Meta: true, Tags: true, Supplied: true, Versions: false, Manifests: true, CkTypes: true, SrcConds: true,
		Boundaries: []int{1024}, MaxBody: 5000,
		Prelude: []prog.Op{
			{Kind: prog.OpCreateBucket, B: 0}, {Kind: prog.OpCreateBucket, B: 1},
			{Kind: prog.OpPut, B: 0, K: 0, Body: &gen.BodySpec{Kind: "rand", Len: 700, Seed: 31}, ContentType: sp("text/plain"), Tags: map[string]string{"k": "v"}, Meta: &prog.Meta{CacheControl: sp("no-cache"), User: map[string]string{"a": "1"}}},
			{Kind: prog.OpPut, B: 1, K: 1, Body: &gen.BodySpec{Kind: "text", Len: 2000, Seed: 32}, Class: sp("GLACIER")},
		},
	}
	ops := cfg.Gen(t)
	for i := range ops {
		op := ops[i]
		if i >= len(cfg.Prelude) {
			// prefer sources that exist
			if (op.Kind == prog.OpCopy || op.Kind == prog.OpMpuPartCopy) && rapid.IntRange(0, 2).Draw(t, "preludeSrc") > 0 {
				op.SK = op.SB % 2
			}
			// restarts in the middle of a multipart upload
			if restarts && (op.Kind == prog.OpMpuPart || op.Kind == prog.OpMpuPartCopy || op.Kind == prog.OpMpuComplete) && rapid.IntRange(0, 5).Draw(t, "restartInUpload") == 0 {
				c.Ops = append(c.Ops, prog.Op{Kind: prog.OpReopen})
			}
		}
		c.Ops = append(c.Ops, op)
	}
	return c
}

// ---- restricted view -----------------------------------------------------------------------

type rObj struct {
	Key  string  `json:"key"`
	Err  string  `json:"err,omitempty"`
	Size int64   `json:"size"`
	SHA  string  `json:"sha"`
	CT   *string `json:"ct"`
	Meta string  `json:"meta"`
	Tags string  `json:"tags"`
}
type rVer struct {
	Key    string `json:"key"`
	Latest bool   `json:"latest"`
	Marker bool   `json:"marker"`
	Err    string `json:"err,omitempty"`
	Size   int64  `json:"size"`
	SHA    string `json:"sha"`
	CT     string `json:"ct"`
	Meta   string `json:"meta"`
	Tags   string `json:"tags"`
}
type rBucket struct {
	Name       string `json:"name"`
	Versioning string `json:"versioning"`
	Objects    []rObj `json:"objects"`
	Versions   []rVer `json:"versions"`
}

// restrict keeps what the property lists: buckets, keys, contents, content types, metadata, tags
// (plus versioning state, version counts and delete-marker positions). ETags, checksums, storage
// classes, version ids and pending uploads are left out.
func restrict(d *dump.Dump) []rBucket {
	var out []rBucket
	for _, b := range d.Buckets {
		rb := rBucket{Name: b.Name, Versioning: b.Versioning}
		for _, o := range b.Objects {
			rb.Objects = append(rb.Objects, rObj{Key: o.Key, Err: o.Err, Size: o.Size, SHA: o.BodySHA, CT: o.ContentType, Meta: o.Meta, Tags: o.Tags})
		}
		for _, v := range b.Versions {
			rb.Versions = append(rb.Versions, rVer{Key: v.Key, Latest: v.Latest, Marker: v.Marker, Err: v.Err, Size: v.Size, SHA: v.BodySHA, CT: v.CT, Meta: v.Meta, Tags: v.Tags})
		}
		out = append(out, rb)
	}
	return out
}

func js(v any) string { b, _ := json.Marshal(v); return string(b) }

func diffRestricted(p, s []rBucket) []string {
	if js(p) == js(s) {
		return nil
	}
	var out []string
	pm, sm := map[string]rBucket{}, map[string]rBucket{}
	for _, b := range p {
		pm[b.Name] = b
	}
	for _, b := range s {
		sm[b.Name] = b
	}
	for _, b := range p {
		sb, ok := sm[b.Name]
		if !ok {
			out = append(out, fmt.Sprintf("bucket %q missing on the secondary", b.Name))
			continue
		}
		if b.Versioning != sb.Versioning {
			out = append(out, fmt.Sprintf("bucket %q: versioning %q, secondary %q", b.Name, b.Versioning, sb.Versioning))
		}
		if js(b.Objects) != js(sb.Objects) {
			out = append(out, fmt.Sprintf("bucket %q: objects %s, secondary %s", b.Name, js(b.Objects), js(sb.Objects)))
		}
		if js(b.Versions) != js(sb.Versions) {
			out = append(out, fmt.Sprintf("bucket %q: versions %s, secondary %s", b.Name, js(b.Versions), js(sb.Versions)))
		}
	}
	for _, b := range s {
		if _, ok := pm[b.Name]; !ok {
			out = append(out, fmt.Sprintf("bucket %q only on the secondary", b.Name))
		}
	}
	if len(out) == 0 {
		out = append(out, "bucket order differs")
	}
	return out
}

// unjudged counts differences in fields the property does not list (reported, not judged).
func unjudged(p, s *dump.Dump, o *ev.Outcome) {
	if len(p.Buckets) != len(s.Buckets) {
		return
	}
	for i := range p.Buckets {
		pb, sb := p.Buckets[i], s.Buckets[i]
		if len(pb.Objects) == len(sb.Objects) {
			for j := range pb.Objects {
				x, y := pb.Objects[j], sb.Objects[j]
				if x.ETag != y.ETag {
					o.Count("unjudged_diff:etag", 1)
				}
				if x.Class != y.Class {
					o.Count("unjudged_diff:class", 1)
				}
				if js(x.Checksums) != js(y.Checksums) {
					o.Count("unjudged_diff:checksums", 1)
				}
			}
		}
		if js(pb.Uploads) != js(sb.Uploads) {
			o.Count("unjudged_diff:pending_uploads", 1)
			if os.Getenv("C23_DEBUG") != "" {
				fmt.Fprintf(os.Stderr, "PENDING-UPLOADS-DIFF primary=%s secondary=%s\n", js(pb.Uploads), js(sb.Uploads))
			}
		}
	}
}

// ---- run --------------------------------------------------------------------------------------

func stepRecover(sess *run.Session, op prog.Op) (sr run.StepResult, panicked string) {
	defer func() {
		if r := recover(); r != nil {
			panicked = fmt.Sprint(r)
		}
	}()
	return sess.Step(op), ""
}

func runCase(env *ev.Env, c Case) (o ev.Outcome) {
	dir := env.TempDir()
	defer os.RemoveAll(dir)
	ctx := context.Background()
	var insts []*stacks.Instance
	defer func() {
		for _, i := range insts {
			i.Close()
		}
	}()
	open := func(name, stack string) *stacks.Instance {
		inst, err := stacks.Open(filepath.Join(dir, name), stacks.LayoutFor(stack), stacks.Options{})
		if err != nil {
			o.Failf("harness: open %s (%s): %v", name, stack, err)
			return nil
		}
		insts = append(insts, inst)
		return inst
	}
	prim := open("primary", c.Primary)
	if prim == nil {
		return
	}
	var secs []*stacks.Instance
	for i, s := range c.Secondaries {
		inst := open(fmt.Sprintf("secondary%d", i), s)
		if inst == nil {
			return
		}
		secs = append(secs, inst)
	}
	build := func() storage.Storage {
		rs, err := replication.NewStorage(prim.Storage, secs[0].Storage, secs[1].Storage)
		if err != nil {
			o.Failf("harness: replication.NewStorage: %v", err)
			return nil
		}
		return rs
	}
	// the underlying storages are started by stacks.Open; the replication storage's Start/Stop would start them again
	rs := build()
	if rs == nil {
		return
	}
	side := prog.NewStorageSide(rs)
	sess := run.NewSession(names, side)
	o.Class("primary:" + c.Primary)
	o.Class("secondaries:" + c.Secondaries[0] + "+" + c.Secondaries[1])
	dopt := dump.Options{Versions: true}

	compare := func(i int, what string) (diffs []string) {
		dp, err := dump.Of(ctx, prim.Storage, dopt)
		if err != nil {
			return []string{"harness: dump primary: " + err.Error()}
		}
		rp := restrict(dp)
		for si, s := range secs {
			ds, err := dump.Of(ctx, s.Storage, dopt)
			o.Sub++
			if err != nil {
				diffs = append(diffs, fmt.Sprintf("secondary %d (%s): state walk failed: %v", si, c.Secondaries[si], err))
				continue
			}
			for _, d := range diffRestricted(rp, restrict(ds)) {
				diffs = append(diffs, fmt.Sprintf("secondary %d (%s): %s", si, c.Secondaries[si], d))
			}
			if len(diffs) == 0 {
				unjudged(dp, ds, &o)
			}
		}
		return diffs
	}

	restartsSeen := 0
	uploadEpoch := map[string]int{} // primary upload id -> number of restarts before it was created
	var multipartOrCopy, condOrTag bool
	for i, op := range c.Ops {
		if op.Kind == prog.OpReopen {
			if rs = build(); rs == nil {
				return
			}
			side.S = rs
			restartsSeen++
			o.Class("restart")
			continue
		}
		sr, panicked := stepRecover(sess, op)
		cc := sess.Resolve(op, 0)
		what := fmt.Sprintf("%s %s/%s", op.Kind, cc.Bucket, cc.Key)
		if panicked != "" {
			o.Class("panic:" + op.Kind)
			// a panic is not a successful operation; what the property constrains is the state it leaves
			// behind, which every later successful operation exposes
			diffs := compare(i, what)
			stale := false
			switch op.Kind {
			case prog.OpMpuPart, prog.OpMpuPartCopy, prog.OpMpuComplete, prog.OpMpuAbort:
				if ep, ok := uploadEpoch[cc.UploadID]; ok && ep < restartsSeen {
					stale = true
				}
			}
			// KF-C23-1: the primary->secondary upload id map lives in memory only; after a restart a pending
			// upload's UploadPart/UploadPartCopy/Complete/Abort succeeds on the primary and then indexes an empty slice.
			if env.Known(matcherRestart) && stale && strings.Contains(panicked, "index out of range") {
				o.KnownHits = append(o.KnownHits, kfRestart)
				o.Excluded = true
				return
			}
			if len(diffs) > 0 {
				o.Failf("step %d (%s) panicked inside the replication storage (%s) and left the replicas diverged (visible after any later successful operation): %s", i, what, panicked, strings.Join(diffs, "; "))
			} else {
				o.Failf("step %d (%s) panicked inside the replication storage: %s", i, what, panicked)
			}
			return
		}
		g := sr.Got[0]
		if os.Getenv("C23_DEBUG") != "" {
			fmt.Fprintf(os.Stderr, "STEP %d %s -> %q %s\n", i, js(op), g.Err, g.ErrText)
		}
		if g.Err == "" {
			o.Count("ok:"+op.Kind, 1)
		} else {
			o.Count("fail:"+op.Kind+":"+g.Err, 1)
		}
		if op.Kind == prog.OpMpuCreate && g.Err == "" {
			uploadEpoch[g.UploadID] = restartsSeen
		}
		if g.Err == "" {
			switch op.Kind {
			case prog.OpMpuComplete, prog.OpCopy, prog.OpMpuPartCopy:
				multipartOrCopy = true
			case prog.OpPutTags, prog.OpDeleteTags:
				condOrTag = true
			}
			if op.IfNoneMatchStar || op.IfMatch != "" || op.SrcCond != "" {
				condOrTag = true
			}
			for _, e := range op.Entries {
				if e.IfMatch != "" {
					condOrTag = true
				}
			}
		}
		if !op.IsMutation() {
			continue
		}
		if g.Err != "" {
			// a failed operation is not judged by the property at this point; divergence it may have caused is
			// caught after the next successful operation. Record it for the class histogram.
			if d := compare(i, what); len(d) > 0 {
				o.Class("diverged-after-failed-op:" + op.Kind)
			}
			continue
		}
		if diffs := compare(i, what); len(diffs) > 0 {
			o.Failf("step %d (%s, successful): %s", i, what, strings.Join(diffs, "; "))
			return
		}
	}
	o.NonTrivial = multipartOrCopy && condOrTag
	return
}

func directed(env *ev.Env) []Case {
	b := func(n int, seed uint64) *gen.BodySpec { return &gen.BodySpec{Kind: "rand", Len: n, Seed: seed} }
	return []Case{
		// multipart upload spanning a restart of the replication layer
		{Primary: "P1", Secondaries: [2]string{"P2", "P1"}, Ops: []prog.Op{
			{Kind: prog.OpCreateBucket, B: 0},
			{Kind: prog.OpMpuCreate, B: 0, K: 0},
			{Kind: prog.OpMpuPart, Upload: prog.LastUpload, PartNo: 1, Body: b(100, 1)},
			{Kind: prog.OpReopen},
			{Kind: prog.OpMpuComplete, Upload: prog.LastUpload},
			{Kind: prog.OpPut, B: 0, K: 1, Body: b(10, 2)},
		}},
		// copy with REPLACE directives, tagging, conditional delete
		{Primary: "P2", Secondaries: [2]string{"P1", "N1"}, Ops: []prog.Op{
			{Kind: prog.OpCreateBucket, B: 0}, {Kind: prog.OpCreateBucket, B: 1},
			{Kind: prog.OpPut, B: 0, K: 0, Body: b(3000, 1), ContentType: sp("text/plain"), Tags: map[string]string{"k": "v"}, Meta: &prog.Meta{CacheControl: sp("no-cache")}, Class: sp("GLACIER")},
			{Kind: prog.OpCopy, B: 1, K: 1, SB: 0, SK: 0, ReplaceMeta: true, Meta: &prog.Meta{ContentLanguage: sp("en")}, ContentType: sp("x/y"), ReplaceTags: true, Tags: map[string]string{"env": "prod"}},
			{Kind: prog.OpPutTags, B: 1, K: 1, Tags: map[string]string{"a b": "x=y&z"}},
			{Kind: prog.OpDelete, B: 0, K: 0, IfMatch: "cur"},
		}},
	}
}

func TestC23(t *testing.T) {
	ev.Main(t, ev.Spec[Case]{
		ID:    "C23",
		Level: "exploration",
		Rule: "programs of 5-30 generated ops (no explicit version ids) over 2 buckets x 3 keys through replication.NewStorage(primary, secondary0, secondary1) on drawn, different part-store stacks; half of the programs also rebuild the replication layer (restart) at generated points; " +
			"after every successful mutating op each secondary's state is compared with the primary's. Non-trivial = at least one successful multipart complete, CopyObject or UploadPartCopy and at least one successful conditional op (If-Match/If-None-Match/copy-source condition) or tagging op. Distinct = distinct case JSON",
		Assumptions: []string{
			"state is observed through each storage's public API (dump walker); compared fields: buckets, versioning state, keys, contents, content types, metadata, tags, version counts and delete-marker positions; ETags, checksums, storage classes, version ids and pending uploads are reported but not judged",
			"the replication storage is built by its public constructor over already-started storages; SQLite only",
		},
		Gen:      genCase,
		Run:      runCase,
		Directed: directed,
	})
}
