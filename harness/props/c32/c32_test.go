// Package c32 checks property C32: the client IP and scheme exposed to the
// authorizer differ from the TCP peer's only when forwarded headers are trusted
// and the peer lies inside a configured trusted-proxy CIDR, or no CIDR list was
// configured at all; a configured but unusable CIDR list never causes every
// peer to be trusted.
//
// Every case builds the real request path: settings (optionally through
// settings.LoadSettings from command-line flags / environment, exactly as
// cmd/pithos.go does) -> lua.NewLuaAuthorizerWithOptions -> server.SetupServer
// -> one httptest request with a chosen RemoteAddr / TLS state / forwarding
// headers. The Lua script reports what it sees (clientIP, scheme, remoteIP and
// the results of the clientIPInCIDR / isScheme helpers) by raising an error
// whose text a harness-side authorizer wrapper records.
package c32

import (
	"context"
	"crypto/tls"
	"fmt"
	"net"
	"net/http"
	"net/http/httptest"
	"net/netip"
	"os"
	"strings"
	"testing"

	"github.com/jdillenkofer/pithos/internal/http/server"
	"github.com/jdillenkofer/pithos/internal/http/server/authorization"
	luaauth "github.com/jdillenkofer/pithos/internal/http/server/authorization/lua"
	"github.com/jdillenkofer/pithos/internal/settings"
	"github.com/jdillenkofer/pithos/internal/storage"
	"github.com/jdillenkofer/pithos/verifharness/ev"
	"pgregory.net/rapid"
)

// Header is one request header (name as written by the sender, value).
type Header struct {
	Name  string `json:"name"`
	Value string `json:"value"`
	// Raw: put the name into the header map as written (not canonicalised).
	Raw bool `json:"raw,omitempty"`
}

// Case is one configuration + one request.
type Case struct {
	// Route: how the configuration reaches the authorizer.
	//   direct : lua.Options filled by the harness
	//   flag   : settings.LoadSettings(["-trustForwardedHeaders=..", "-trustedProxyCIDRs=a,b"])
	//   env    : settings.LoadSettings(nil) with PITHOS_TRUST_FORWARDED_HEADERS / PITHOS_TRUSTED_PROXY_CIDRS
	Route string `json:"route"`
	Trust bool   `json:"trust"`
	// Configured: a CIDR list was given at all (false = nil slice / flag and env absent).
	Configured bool     `json:"configured"`
	CIDRs      []string `json:"cidrs"`
	Peer       string   `json:"peer"` // http.Request.RemoteAddr
	TLS        bool     `json:"tls"`
	Headers    []Header `json:"headers"`
	Method     string   `json:"method"`
	Path       string   `json:"path"`
}

// ---- independent address / prefix reading ---------------------------------------

// peerAddr parses a RemoteAddr the way a reader of the property would: "ip:port",
// "[ip6]:port" or a bare ip. zone = the address carried a zone (pithos cannot
// represent it; nil and the zone-less address are both accepted then).
func peerAddr(remote string) (a netip.Addr, zone bool, ok bool) {
	if ap, err := netip.ParseAddrPort(remote); err == nil {
		a = ap.Addr()
	} else if host, _, err := net.SplitHostPort(remote); err == nil {
		// non-numeric / out-of-range port: the host part is still the peer
		x, err := netip.ParseAddr(host)
		if err != nil {
			return netip.Addr{}, false, false
		}
		a = x
	} else if x, err := netip.ParseAddr(remote); err == nil {
		a = x
	} else {
		return netip.Addr{}, false, false
	}
	if a.Zone() != "" {
		return a.WithZone("").Unmap(), true, true
	}
	return a.Unmap(), false, true
}

// validPrefix: the entry is a usable CIDR.
func validPrefix(s string) (netip.Prefix, bool) {
	p, err := netip.ParsePrefix(s)
	if err != nil {
		return netip.Prefix{}, false
	}
	return p, true
}

// contains: permissive reading — the peer is inside the prefix if it is inside
// under any of the usual readings of IPv4-mapped addresses.
func contains(p netip.Prefix, a netip.Addr) bool {
	if p.Contains(a) || p.Contains(a.Unmap()) {
		return true
	}
	if a.Is4() {
		if p.Contains(netip.AddrFrom16(a.As16())) {
			return true
		}
	}
	if p.Addr().Is4In6() && p.Bits() >= 96 {
		q := netip.PrefixFrom(p.Addr().Unmap(), p.Bits()-96)
		if q.Contains(a.Unmap()) {
			return true
		}
	}
	return false
}

// ---- the reporting script ---------------------------------------------------------

const marker = "C32REPORT"

func script(peerHostPrefix string, peerScheme string) string {
	// the dry run at construction passes an empty request: answer without raising
	return `
function authorizeRequest(request)
  local h = request.httpRequest
  if h == nil or h.method == nil or h.method == "" then return false end
  local inpeer = "n/a"
  if "` + peerHostPrefix + `" ~= "" then inpeer = tostring(h:clientIPInCIDR("` + peerHostPrefix + `")) end
  error("` + marker + `|" .. tostring(h.clientIP) .. "|" .. tostring(h.scheme) .. "|" .. tostring(h.remoteIP) .. "|" ..
        inpeer .. "|" .. tostring(h:isScheme("` + peerScheme + `")) .. "|")
end
`
}

type report struct {
	calls     int
	clientIP  string // "nil" when absent
	scheme    string
	remoteIP  string
	inPeer    string
	isPeerSch string
	raw       string
}

// recorder wraps the real Lua authorizer and records what the script reported.
type recorder struct {
	inner *luaauth.LuaAuthorizer
	rep   report
}

func (r *recorder) AuthorizeRequest(ctx context.Context, req *authorization.Request) (bool, error) {
	ok, err := r.inner.AuthorizeRequest(ctx, req)
	r.rep.calls++
	if err != nil {
		msg := err.Error()
		if i := strings.Index(msg, marker+"|"); i >= 0 {
			f := strings.Split(msg[i:], "|")
			if len(f) >= 6 {
				r.rep.clientIP, r.rep.scheme, r.rep.remoteIP, r.rep.inPeer, r.rep.isPeerSch = f[1], f[2], f[3], f[4], f[5]
				r.rep.raw = msg[i:]
				return false, nil
			}
		}
		r.rep.raw = "unparsed: " + msg
		return false, nil
	}
	r.rep.raw = fmt.Sprintf("no report (result %v)", ok)
	return false, nil
}

// stubStorage: C32 requests are denied by the authorizer before any storage
// call; any call is a harness error (nil embedded interface -> panic -> reported).
type stubStorage struct{ storage.Storage }

const (
	envTrust = "PITHOS_TRUST_FORWARDED_HEADERS"
	envCIDRs = "PITHOS_TRUSTED_PROXY_CIDRS"
)

// buildOptions produces lua.Options the way the chosen route does, and reports
// the list the route actually delivered (for the mechanism matcher).
func buildOptions(c Case) (luaauth.Options, error) {
	os.Unsetenv(envTrust)
	os.Unsetenv(envCIDRs)
	switch c.Route {
	case "direct":
		var l []string
		if c.Configured {
			l = append([]string{}, c.CIDRs...)
		}
		return luaauth.Options{TrustForwardedHeaders: c.Trust, TrustedProxyCIDRs: l}, nil
	case "flag":
		args := []string{fmt.Sprintf("-trustForwardedHeaders=%v", c.Trust)}
		if c.Configured {
			args = append(args, "-trustedProxyCIDRs="+strings.Join(c.CIDRs, ","))
		}
		s, err := settings.LoadSettings(args)
		if err != nil {
			return luaauth.Options{}, err
		}
		return luaauth.Options{TrustForwardedHeaders: s.TrustForwardedHeaders(), TrustedProxyCIDRs: s.TrustedProxyCIDRs()}, nil
	case "env":
		if c.Trust {
			os.Setenv(envTrust, "true")
		} else {
			os.Setenv(envTrust, "false")
		}
		if c.Configured {
			os.Setenv(envCIDRs, strings.Join(c.CIDRs, ","))
		}
		defer os.Unsetenv(envTrust)
		defer os.Unsetenv(envCIDRs)
		s, err := settings.LoadSettings(nil)
		if err != nil {
			return luaauth.Options{}, err
		}
		return luaauth.Options{TrustForwardedHeaders: s.TrustForwardedHeaders(), TrustedProxyCIDRs: s.TrustedProxyCIDRs()}, nil
	}
	return luaauth.Options{}, fmt.Errorf("unknown route %q", c.Route)
}

// usableEntries: what a reader of the configuration considers "the list": the
// comma-separated routes drop empty / whitespace-only items and trim the rest.
func listEntries(c Case) []string {
	if !c.Configured {
		return nil
	}
	var out []string
	for _, e := range c.CIDRs {
		if c.Route != "direct" {
			e = strings.TrimSpace(e)
		}
		if e == "" && c.Route != "direct" {
			continue
		}
		out = append(out, e)
	}
	return out
}

func run(env *ev.Env, c Case) (o ev.Outcome) {
	opts, err := buildOptions(c)
	if err != nil {
		o.Failf("building the configuration failed: %v", err)
		return
	}
	peer, zone, peerOK := peerAddr(c.Peer)
	peerScheme := "http"
	if c.TLS {
		peerScheme = "https"
	}
	hostPrefix := ""
	if peerOK {
		hostPrefix = netip.PrefixFrom(peer, peer.BitLen()).String()
	}
	la, err := luaauth.NewLuaAuthorizerWithOptions(script(hostPrefix, peerScheme), opts)
	if err != nil {
		o.Failf("harness: reporting script rejected: %v", err)
		return
	}
	rec := &recorder{inner: la}
	h := server.SetupServer(nil, "eu-central-1", "localhost", "s3-website.localhost", rec, stubStorage{})
	req := httptest.NewRequest(c.Method, "http://localhost"+c.Path, nil)
	req.RemoteAddr = c.Peer
	if c.TLS {
		req.TLS = &tls.ConnectionState{}
	}
	hasFwd := false
	for _, hd := range c.Headers {
		if hd.Raw {
			req.Header[hd.Name] = append(req.Header[hd.Name], hd.Value)
		} else {
			req.Header.Add(hd.Name, hd.Value)
		}
		switch strings.ToLower(hd.Name) {
		case "x-forwarded-for", "x-forwarded-proto", "cf-connecting-ip":
			hasFwd = true
		}
	}
	w := httptest.NewRecorder()
	h.ServeHTTP(w, req)
	o.Sub++
	if rec.rep.calls != 1 || !strings.HasPrefix(rec.rep.raw, marker) {
		o.Failf("harness: expected exactly one reporting authorizer call, got %d (%s), status %d", rec.rep.calls, rec.rep.raw, w.Code)
		return
	}

	// ---- classify the configuration ------------------------------------------------
	entries := listEntries(c)
	nValid, nBad := 0, 0
	inSome := false
	for _, e := range entries {
		if p, ok := validPrefix(e); ok {
			nValid++
			if peerOK && contains(p, peer) {
				inSome = true
			}
		} else {
			nBad++
		}
	}
	listClass := "none"
	switch {
	case !c.Configured:
		listClass = "unconfigured"
	case len(entries) == 0:
		listClass = "empty"
	case nBad == 0:
		listClass = "valid"
	case nValid == 0:
		listClass = "all-malformed"
	default:
		listClass = "mixed"
	}
	o.Class("route:" + c.Route)
	o.Class("list:" + listClass)
	o.Class(fmt.Sprintf("trust:%v", c.Trust))
	if c.Trust && nValid > 0 && peerOK {
		if inSome {
			o.Class("boundary:peer-inside-a-valid-cidr")
		} else {
			o.Class("boundary:peer-outside-all-valid-cidrs")
		}
	}
	switch {
	case !peerOK:
		o.Class("peer:unparseable")
	case zone:
		o.Class("peer:zoned")
	case peer.Is4():
		if strings.Contains(c.Peer, "ffff") {
			o.Class("peer:v4mapped")
		} else {
			o.Class("peer:v4")
		}
	default:
		o.Class("peer:v6")
	}

	// ---- oracle -----------------------------------------------------------------------
	// may the values differ from the peer's?
	listConfigured := len(entries) > 0
	allowed := c.Trust && peerOK && (!listConfigured || inSome)

	ipSame := false
	switch {
	case rec.rep.clientIP == "nil":
		// "unknown" is the peer's own value only when pithos cannot represent the peer
		ipSame = !peerOK || zone
	default:
		if got, err := netip.ParseAddr(rec.rep.clientIP); err == nil && peerOK {
			ipSame = got.Unmap() == peer
		}
	}
	schemeSame := rec.rep.scheme == peerScheme
	// helper views must agree with the fields they are derived from
	helperIPSame := rec.rep.inPeer == "n/a" || rec.rep.inPeer == "true" || (rec.rep.clientIP == "nil" && (!peerOK || zone))
	helperSchemeSame := rec.rep.isPeerSch == "true"

	differs := !ipSame || !schemeSame || !helperIPSame || !helperSchemeSame
	if differs {
		o.Class("observed:differs-from-peer")
	} else {
		o.Class("observed:same-as-peer")
	}
	if hasFwd && allowed {
		o.Class("fwd:present+trusted-config")
	}
	if hasFwd && !allowed {
		o.Class("fwd:present+untrusted")
	}
	if differs && !allowed {
		desc := fmt.Sprintf("route=%s trust=%v configured=%v entries=%q (valid %d, malformed %d, peer inside a valid one: %v) peer=%q tls=%v headers=%v: script saw clientIP=%s scheme=%s remoteIP=%s clientIPInCIDR(peer)=%s isScheme(peer)=%s",
			c.Route, c.Trust, c.Configured, entries, nValid, nBad, inSome, c.Peer, c.TLS, c.Headers, rec.rep.clientIP, rec.rep.scheme, rec.rep.remoteIP, rec.rep.inPeer, rec.rep.isPeerSch)
		switch {
		// KF-C32-1 (DESIGN D9): every entry of a configured list is malformed ->
		// parseTrustedProxyCIDRs returns an empty slice -> isTrustedProxy trusts everyone.
		case c.Trust && peerOK && listConfigured && nValid == 0 && env.Known("c32.allMalformedTrustsAll"):
			o.KnownHits = append(o.KnownHits, "KF-C32-1")
		// KF-C32-2: a list given with -trustedProxyCIDRs is dropped by the settings
		// merge (the environment layer's nil slice overwrites it) -> no list -> trust everyone.
		case c.Trust && peerOK && c.Route == "flag" && listConfigured && len(opts.TrustedProxyCIDRs) == 0 && env.Known("c32.flagListDroppedByMerge"):
			o.KnownHits = append(o.KnownHits, "KF-C32-2")
		default:
			o.Failf("forwarded values honoured for an untrusted peer: %s", desc)
			return
		}
	}
	// non-trivial: forwarded headers present and the peer is outside every valid
	// CIDR of a configured list (or the list has malformed entries).
	o.NonTrivial = hasFwd && c.Trust && listConfigured && (!inSome || nBad > 0)
	return
}

// ---- generator ----------------------------------------------------------------------

var validCIDRs = []string{"10.0.0.0/8", "192.168.0.0/16", "127.0.0.1/32", "127.0.0.0/8", "0.0.0.0/0", "::/0", "::1/128", "fd00::/8",
	"2001:db8::/32", "203.0.113.0/24", "10.1.2.3/32", "172.16.0.0/12", "::ffff:10.0.0.0/104", "10.1.2.3/8", "0.0.0.0/32", "fe80::/10"}

var malformedCIDRs = []string{"10.0.0.0", "10.0.0.0/33", "10.0.0/8", "garbage", "10.0.0.0/8x", "/8", "::/129", "256.0.0.0/8",
	"10.0.0.0-10.0.0.255", "10.0.0.0/ 8", "localhost/8", "*", "10.0.0.0/", "10.0.0.0//8", "::1", "0.0.0.0/-1", "10.0.0.0\\8", "true", "0/0", "all"}

var peers = []string{"10.1.2.3:4711", "10.200.0.9:80", "192.168.1.5:1234", "127.0.0.1:55555", "203.0.113.9:443", "198.51.100.77:9000", "8.8.8.8:53",
	"172.16.5.5:1", "172.32.0.1:65535", "[::1]:8080", "[fd00::17]:9000", "[2001:db8::5]:443", "[2a00:1450::1]:443", "[::ffff:10.1.2.3]:4711",
	"[::ffff:203.0.113.9]:80", "[fe80::1%eth0]:1234", "10.1.2.3", "::1", "203.0.113.9", "0.0.0.0:0", "[::]:1"}

var badPeers = []string{"", "@", "unix", "/var/run/pithos.sock", "10.1.2.3:", "[::1]", "10.1.2.3:http", "999.1.1.1:80", "10.1.2:80", "pipe"}

var fwdIPs = []string{"1.2.3.4", "10.9.9.9", "127.0.0.1", "::1", "2001:db8::dead", "203.0.113.200", "::ffff:1.2.3.4"}

func genHeaders(t *rapid.T) []Header {
	var hs []Header
	used := map[string]bool{}
	add := func(name, value string) {
		k := strings.ToLower(name)
		if used[k] {
			return
		}
		used[k] = true
		h := Header{Name: name, Value: value}
		if name != http.CanonicalHeaderKey(name) {
			h.Raw = rapid.Bool().Draw(t, "raw")
		}
		hs = append(hs, h)
	}
	nameOf := func(base string) string {
		switch rapid.IntRange(0, 3).Draw(t, "case") {
		case 0:
			return strings.ToLower(base)
		case 1:
			return strings.ToUpper(base)
		default:
			return base
		}
	}
	ipList := func() string {
		n := rapid.IntRange(1, 3).Draw(t, "n")
		var parts []string
		for i := 0; i < n; i++ {
			p := rapid.SampledFrom(fwdIPs).Draw(t, "ip")
			if rapid.IntRange(0, 9).Draw(t, "g") == 0 {
				p = rapid.SampledFrom([]string{"unknown", "", "1.2.3", "1.2.3.4:80", "[::1]", "_hidden"}).Draw(t, "garb")
			}
			parts = append(parts, p)
		}
		sep := rapid.SampledFrom([]string{",", ", ", " , "}).Draw(t, "sep")
		s := strings.Join(parts, sep)
		if rapid.IntRange(0, 5).Draw(t, "pad") == 0 {
			s = " " + s + " "
		}
		return s
	}
	if rapid.IntRange(0, 9).Draw(t, "xff") < 8 {
		add(nameOf("X-Forwarded-For"), ipList())
	}
	if rapid.IntRange(0, 9).Draw(t, "xfp") < 6 {
		add(nameOf("X-Forwarded-Proto"), rapid.SampledFrom([]string{"https", "http", "HTTPS", "https,http", " https ", "wss", "", "http, https", "Https"}).Draw(t, "proto"))
	}
	if rapid.IntRange(0, 9).Draw(t, "cf") < 3 {
		add(nameOf("CF-Connecting-IP"), rapid.SampledFrom(append([]string{"garbage", " 9.9.9.9 "}, fwdIPs...)).Draw(t, "cfip"))
	}
	if rapid.IntRange(0, 9).Draw(t, "fw") < 2 {
		add("Forwarded", rapid.SampledFrom([]string{"for=1.2.3.4;proto=https", "for=\"[2001:db8::1]\";proto=https;by=203.0.113.43", "garbage"}).Draw(t, "fwd"))
	}
	if rapid.IntRange(0, 9).Draw(t, "real") < 2 {
		add("X-Real-IP", rapid.SampledFrom(fwdIPs).Draw(t, "realip"))
	}
	return hs
}

func genCase(t *rapid.T, env *ev.Env) Case {
	c := Case{}
	c.Route = rapid.SampledFrom([]string{"direct", "direct", "env", "flag"}).Draw(t, "route")
	c.Trust = rapid.IntRange(0, 9).Draw(t, "trust") < 8
	if rapid.IntRange(0, 9).Draw(t, "badpeer") == 0 {
		c.Peer = rapid.SampledFrom(badPeers).Draw(t, "peer")
	} else {
		c.Peer = rapid.SampledFrom(peers).Draw(t, "peer")
	}
	c.TLS = rapid.Bool().Draw(t, "tls")
	// configuration classes. "all-malformed" is the trigger class of KF-C32-1 and
	// gets a fixed share (~12%); every other class avoids it by construction.
	switch k := rapid.IntRange(0, 16).Draw(t, "listKind"); {
	case k == 0:
		c.Configured = false
	case k == 1:
		c.Configured = true
		c.CIDRs = []string{}
	case k <= 3: // all malformed
		c.Configured = true
		c.CIDRs = rapid.SliceOfN(rapid.SampledFrom(malformedCIDRs), 1, 3).Draw(t, "bad")
	case k <= 9: // valid only
		c.Configured = true
		c.CIDRs = rapid.SliceOfN(rapid.SampledFrom(validCIDRs), 1, 3).Draw(t, "ok")
		if a, _, ok := peerAddr(c.Peer); ok && rapid.IntRange(0, 4).Draw(t, "peerCidr") == 0 {
			c.CIDRs = append(c.CIDRs, netip.PrefixFrom(a, a.BitLen()).String())
		}
	default: // mixed
		c.Configured = true
		ok := rapid.SliceOfN(rapid.SampledFrom(validCIDRs), 1, 2).Draw(t, "ok")
		bad := rapid.SliceOfN(rapid.SampledFrom(malformedCIDRs), 1, 2).Draw(t, "bad")
		if rapid.Bool().Draw(t, "badFirst") {
			c.CIDRs = append(bad, ok...)
		} else {
			c.CIDRs = append(ok, bad...)
		}
	}
	if c.Configured && c.Route != "direct" && rapid.IntRange(0, 5).Draw(t, "ws") == 0 && len(c.CIDRs) > 0 {
		// whitespace / empty items as an operator might type them in a comma list
		i := rapid.IntRange(0, len(c.CIDRs)-1).Draw(t, "wsi")
		c.CIDRs[i] = " " + c.CIDRs[i] + " "
		if rapid.Bool().Draw(t, "emptyItem") {
			c.CIDRs = append(c.CIDRs, "")
		}
	}
	c.Headers = genHeaders(t)
	rq := rapid.SampledFrom([][2]string{{"GET", "/"}, {"GET", "/bucket"}, {"PUT", "/bucket/key"}, {"HEAD", "/bucket/a/b"}, {"DELETE", "/bucket/key"}, {"POST", "/bucket/key?uploads"}}).Draw(t, "req")
	c.Method, c.Path = rq[0], rq[1]
	return c
}

// directed: the documented shapes, one per class, so every run contains them.
func directed(env *ev.Env) []Case {
	xff := []Header{{Name: "X-Forwarded-For", Value: "1.2.3.4"}, {Name: "X-Forwarded-Proto", Value: "https"}}
	mk := func(route string, trust, conf bool, cidrs []string, peer string) Case {
		return Case{Route: route, Trust: trust, Configured: conf, CIDRs: cidrs, Peer: peer, Headers: xff, Method: "GET", Path: "/"}
	}
	var cs []Case
	for _, route := range []string{"direct", "env", "flag"} {
		cs = append(cs,
			mk(route, true, false, nil, "203.0.113.9:443"),
			mk(route, false, false, nil, "203.0.113.9:443"),
			mk(route, true, true, []string{"10.0.0.0/8"}, "10.1.2.3:4711"),
			mk(route, true, true, []string{"10.0.0.0/8"}, "[::ffff:10.1.2.3]:4711"),
			mk(route, false, true, []string{"10.0.0.0/8"}, "10.1.2.3:4711"),
			mk(route, true, true, []string{"garbage", "10.0.0.0/8"}, "203.0.113.9:443"),
			mk(route, true, true, []string{"10.0.0.0"}, "203.0.113.9:443"),
			mk(route, true, true, []string{"10.0.0.0/8"}, "203.0.113.9:443"),
			mk(route, true, true, []string{"::1/128"}, "[::1]:8080"),
			mk(route, true, true, []string{"::1/128"}, "127.0.0.1:8080"),
		)
	}
	return cs
}

func TestC32(t *testing.T) {
	// self-check of the pools: every "valid" entry is accepted and every
	// "malformed" entry rejected by both the stdlib parsers, so the classification
	// of a generated list never depends on a parser quirk.
	for _, s := range validCIDRs {
		_, _, e1 := net.ParseCIDR(s)
		_, e2 := netip.ParsePrefix(s)
		if e1 != nil || e2 != nil {
			t.Fatalf("pool: %q is not unambiguously valid (%v / %v)", s, e1, e2)
		}
	}
	for _, s := range malformedCIDRs {
		_, _, e1 := net.ParseCIDR(strings.TrimSpace(s))
		_, e2 := netip.ParsePrefix(strings.TrimSpace(s))
		if e1 == nil || e2 == nil {
			t.Fatalf("pool: %q is not unambiguously malformed (%v / %v)", s, e1, e2)
		}
	}
	for _, s := range badPeers {
		if _, _, ok := peerAddr(s); ok {
			if s != "10.1.2.3:" && s != "10.1.2.3:http" {
				t.Fatalf("pool: bad peer %q parses", s)
			}
		}
	}
	ev.Main(t, ev.Spec[Case]{
		ID:    "C32",
		Level: "exploration",
		Rule: "a case is one (configuration route, TrustForwardedHeaders, CIDR list, peer RemoteAddr, TLS state, header set, request); non-trivial when forwarding " +
			"headers (X-Forwarded-For / X-Forwarded-Proto / CF-Connecting-IP) are present, forwarding is enabled, a CIDR list is configured and the peer is outside every valid entry " +
			"or the list contains malformed entries; distinct = distinct case JSON",
		Assumptions: []string{
			"net/netip is the independent reader of addresses and prefixes; IPv4-mapped IPv6 peers are read permissively (inside a prefix if any mapping is)",
			"the configuration is delivered either directly as lua.Options or through settings.LoadSettings (flags / environment) glued exactly as cmd/pithos.go does",
			"RemoteAddr and TLS state of an in-process httptest request stand for the TCP peer; no real sockets",
		},
		Gen:      genCase,
		Run:      run,
		Directed: directed,
	})
}
