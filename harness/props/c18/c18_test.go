// Package c18 checks property C18: the outbox part store is consistent with its
// committed history under any interleaving of committed put/delete
// transactions, flush-worker steps of two worker identities, lost leases and
// worker crashes; once the workers are idle the inner store holds exactly the
// committed parts.
//
// The interleaving is data ([]Step): two outbox part store instances over the
// same database, outbox id and inner store are the two worker identities;
// neither is Started, the harness steps claim / replay / finalize / release
// through the build-tagged hooks in outbox/verif_export.go. Lease expiry is a
// harness UPDATE of claim_until.
package c18

import (
	"bytes"
	"context"
	"database/sql"
	"errors"
	"fmt"
	"io"
	"os"
	"sort"
	"testing"
	"time"

	"github.com/prometheus/client_golang/prometheus"

	"github.com/jdillenkofer/pithos/internal/storage/database"
	repositoryFactory "github.com/jdillenkofer/pithos/internal/storage/database/repository"
	partOutboxEntry "github.com/jdillenkofer/pithos/internal/storage/database/repository/partoutboxentry"
	"github.com/jdillenkofer/pithos/internal/storage/metadatapart/partstore"
	outboxPartStore "github.com/jdillenkofer/pithos/internal/storage/metadatapart/partstore/outbox"
	"github.com/jdillenkofer/pithos/verifharness/ev"
	"github.com/jdillenkofer/pithos/verifharness/stacks"
	"pgregory.net/rapid"
)

const mStale = "c18.staleWorkerReplaysAfterLostLease"

// Step is one schedule step.
//
//	put / del     a transaction through the outbox store on part Id; Commit=false rolls it back
//	claim / replay / finalize / release   worker W (0|1) performs that step of its pipeline
//	expire        every lease is set to the past (harness UPDATE of claim_until)
//	crash         worker W dies: its in-memory state is gone, its claim stays in the
//	              table; a fresh instance (new claim owner) takes its slot
//	open          open a GetPart reader on part Id (Tx: inside a harness-held read transaction)
//	read / close  on reader R (index modulo the number of readers opened so far)
//	drain         leases expire and every worker that is not in the middle of an entry runs maybeProcessOutboxEntries
//	listflush     GetPartIds through worker 1-W's instance while worker W (if idle) runs maybeProcessOutboxEntries
//	              at the moment the inner store has produced its listing
type Step struct {
	Op     string `json:"op"`
	Id     int    `json:"id,omitempty"`
	Commit bool   `json:"commit,omitempty"`
	W      int    `json:"w,omitempty"`
	Tx     bool   `json:"tx,omitempty"`
	R      int    `json:"r,omitempty"`
	N      int    `json:"n,omitempty"`
}

// Case is one inner store, one set of part contents and one schedule.
type Case struct {
	Inner string `json:"inner"` // fs | sql
	Lens  []int  `json:"lens"`  // content length per part id (content is bound to the id)
	Steps []Step `json:"steps"`
	// DrainFirst: in the epilogue the idle workers drain the outbox before the
	// workers that are in the middle of an entry finish it (else after).
	DrainFirst bool `json:"drain_first"`
	// AllowLoss=false: the schedule contains no expire / crash / drain step and the
	// epilogue lets busy workers finish before it drains, so no lease is ever lost.
	AllowLoss bool `json:"allow_loss"`
}

func content(i, n int) []byte {
	out := make([]byte, n)
	s := uint64(i)*0x9e3779b97f4a7c15 + 12345
	for j := range out {
		s ^= s << 13
		s ^= s >> 7
		s ^= s << 17
		out[j] = byte(s)
	}
	return append([]byte(fmt.Sprintf("part%d:", i)), out...)
}

func partID(i int) partstore.PartId {
	b := make([]byte, 16)
	b[0] = 1
	b[15] = byte(i + 1)
	id, err := partstore.NewPartIdFromBytes(b)
	if err != nil {
		panic(err)
	}
	return *id
}

func pidStr(i int) string {
	id := partID(i)
	return id.String()
}

type worker struct {
	store    partstore.PartStore
	w        *outboxPartStore.VerifWorker
	entry    *partOutboxEntry.Entity
	replayed bool
}

type reader struct {
	id     int
	rc     io.ReadCloser
	tx     *database.TxController
	want   []byte
	got    []byte
	eof    bool
	closed bool
	// entryID is the pending outbox entry that was the latest for the id when the
	// reader was opened ("" = the reader came from the inner store)
	pending bool
}

type harness struct {
	o       *ev.Outcome
	env     *ev.Env
	c       Case
	db      database.Database
	inner   partstore.PartStore
	ip      *interposer
	repo    partOutboxEntry.Repository
	workers [2]*worker
	txFree  bool
	bodies  [][]byte
	// model: latest committed op per id
	present []bool
	// known-finding bookkeeping
	staleOn      []bool // a worker replayed an entry of this id after it had lost the entry
	nonTrivial   bool
	leaseLostMid bool
}

var errRollback = errors.New("harness: roll back")

// interposer wraps the inner store of both outbox instances: the harness can run
// something (a worker pass) at the moment the inner store has produced its part
// listing, i.e. in the middle of an outbox GetPartIds (which merges the outbox
// table and the inner listing non-atomically).
type interposer struct {
	partstore.PartStore
	afterList func()
}

func (i *interposer) Capabilities() partstore.Capabilities {
	return partstore.CapabilitiesOf(i.PartStore)
}

func (i *interposer) GetPartIds(ctx context.Context, tx database.Tx) ([]partstore.PartId, error) {
	ids, err := i.PartStore.GetPartIds(ctx, tx)
	if f := i.afterList; f != nil {
		i.afterList = nil
		f()
	}
	return ids, err
}

func (h *harness) write(commit bool, fn func(ctx context.Context, tx database.Tx) error) error {
	err := database.WithTx(context.Background(), h.db, &sql.TxOptions{}, func(ctx context.Context, tx database.Tx) error {
		if err := fn(ctx, tx); err != nil {
			return err
		}
		if !commit {
			return errRollback
		}
		return nil
	})
	if !commit && errors.Is(err, errRollback) {
		return nil
	}
	return err
}

func (h *harness) newWorker() (*worker, error) {
	ps, err := outboxPartStore.New(h.db, "outbox-verif", h.inner, h.repo, prometheus.NewRegistry(), time.Hour)
	if err != nil {
		return nil, err
	}
	w, err := outboxPartStore.VerifWorkerOf(ps)
	if err != nil {
		return nil, err
	}
	return &worker{store: ps, w: w}, nil
}

// entryOwner returns (exists, owner) of an outbox entry.
func (h *harness) entryOwner(id string) (bool, string, error) {
	var exists bool
	var owner sql.NullString
	err := database.WithTx(context.Background(), h.db, &sql.TxOptions{ReadOnly: true}, func(ctx context.Context, tx database.Tx) error {
		row := tx.SqlTx().QueryRowContext(ctx, "SELECT claim_owner FROM part_outbox_entries WHERE id = ?", id)
		if err := row.Scan(&owner); err != nil {
			if errors.Is(err, sql.ErrNoRows) {
				return nil
			}
			return err
		}
		exists = true
		return nil
	})
	return exists, owner.String, err
}

func (h *harness) pending() (int, error) {
	var n int
	err := database.WithTx(context.Background(), h.db, &sql.TxOptions{ReadOnly: true}, func(ctx context.Context, tx database.Tx) error {
		return tx.SqlTx().QueryRowContext(ctx, "SELECT COUNT(*) FROM part_outbox_entries").Scan(&n)
	})
	return n, err
}

func (h *harness) expire() error {
	return h.write(true, func(ctx context.Context, tx database.Tx) error {
		_, err := tx.SqlTx().ExecContext(ctx, "UPDATE part_outbox_entries SET claim_until = ? WHERE claim_until IS NOT NULL", time.Unix(1000, 0).UTC())
		return err
	})
}

// tolerated reports whether a discrepancy on part id is explained by the known
// finding (a worker replayed an entry of that id after losing it).
func (h *harness) tolerated(id int) bool {
	if h.staleOn[id] && h.env.Known(mStale) {
		if !h.o.Excluded {
			h.o.KnownHits = append(h.o.KnownHits, "KF-C18-1")
			h.o.Excluded = true
		}
		return true
	}
	return false
}

func (h *harness) openReader(store partstore.PartStore, id int, withTx bool) (*reader, error) {
	ctx := context.Background()
	r := &reader{id: id}
	var tx database.Tx
	if withTx {
		t, err := h.db.BeginTx(ctx, &sql.TxOptions{ReadOnly: true})
		if err != nil {
			return nil, err
		}
		r.tx = t
		tx = t
		ctx = database.ContextWithTx(ctx, t)
	}
	rc, err := store.GetPart(ctx, tx, partID(id))
	if err != nil {
		if r.tx != nil {
			r.tx.Rollback(ctx)
		}
		return nil, err
	}
	r.rc = rc
	return r, nil
}

func (r *reader) close() {
	if r.closed {
		return
	}
	r.closed = true
	r.rc.Close()
	if r.tx != nil {
		r.tx.Rollback(context.Background())
	}
}

// checkAPI compares GetPart / GetPartIds of the outbox store with the model.
// It returns false when the case must stop (violation or tolerated divergence).
func (h *harness) checkAPI(when string) bool {
	o := h.o
	modes := []bool{true}
	if h.txFree {
		modes = append(modes, false)
	}
	for id := range h.present {
		for _, withTx := range modes {
			o.Sub++
			r, err := h.openReader(h.workers[id%2].store, id, withTx)
			if err != nil {
				if errors.Is(err, partstore.ErrPartNotFound) {
					if h.present[id] {
						if h.tolerated(id) {
							return false
						}
						o.Failf("%s: GetPart(part%d, tx=%v) = not found, but the latest committed operation is a put", when, id, withTx)
						return false
					}
					continue
				}
				o.Failf("%s: GetPart(part%d, tx=%v) failed: %v", when, id, withTx, err)
				return false
			}
			b, rerr := io.ReadAll(r.rc)
			r.close()
			if rerr != nil {
				o.Failf("%s: reading part%d (tx=%v) failed: %v", when, id, withTx, rerr)
				return false
			}
			if !h.present[id] {
				if h.tolerated(id) {
					return false
				}
				o.Failf("%s: GetPart(part%d, tx=%v) returns %d bytes, but the latest committed operation is a delete (or nothing was ever committed)", when, id, withTx, len(b))
				return false
			}
			if !bytes.Equal(b, h.bodies[id]) {
				if h.tolerated(id) {
					return false
				}
				o.Failf("%s: GetPart(part%d, tx=%v) returns %d bytes that differ from the %d committed bytes", when, id, withTx, len(b), len(h.bodies[id]))
				return false
			}
		}
	}
	return h.checkList(when, h.workers[0].store)
}

// checkList: GetPartIds through store = ids whose latest committed op is a put.
func (h *harness) checkList(when string, store partstore.PartStore) bool {
	o := h.o
	var ids []partstore.PartId
	err := database.WithTx(context.Background(), h.db, &sql.TxOptions{ReadOnly: true}, func(ctx context.Context, tx database.Tx) error {
		var err error
		ids, err = store.GetPartIds(ctx, tx)
		return err
	})
	o.Sub++
	if err != nil {
		o.Failf("%s: GetPartIds failed: %v", when, err)
		return false
	}
	got := map[string]bool{}
	for _, id := range ids {
		got[id.String()] = true
	}
	for i := range h.present {
		pid := partID(i)
		if got[pid.String()] != h.present[i] {
			if h.tolerated(i) {
				return false
			}
			o.Failf("%s: GetPartIds lists part%d = %v, but the latest committed operation says present = %v", when, i, got[pid.String()], h.present[i])
			return false
		}
		delete(got, pid.String())
	}
	if len(got) > 0 {
		o.Failf("%s: GetPartIds lists %d unknown ids", when, len(got))
		return false
	}
	return true
}

// checkIdle: no entry is left; the inner store must hold exactly the committed parts.
func (h *harness) checkIdle() bool {
	o := h.o
	n, err := h.pending()
	if err != nil {
		o.Failf("harness: count entries: %v", err)
		return false
	}
	if n != 0 {
		o.Failf("after the final drain %d outbox entries are still pending although every lease had expired and both workers ran", n)
		return false
	}
	for id := range h.present {
		o.Sub++
		r, err := h.openReader(h.inner, id, !h.txFree)
		if err != nil {
			if errors.Is(err, partstore.ErrPartNotFound) {
				if h.present[id] {
					if h.tolerated(id) {
						return false
					}
					o.Failf("idle: the inner store does not have part%d although its latest committed operation is a put", id)
					return false
				}
				continue
			}
			o.Failf("idle: inner GetPart(part%d) failed: %v", id, err)
			return false
		}
		b, rerr := io.ReadAll(r.rc)
		r.close()
		if rerr != nil {
			o.Failf("idle: reading inner part%d failed: %v", id, rerr)
			return false
		}
		if !h.present[id] {
			if h.tolerated(id) {
				return false
			}
			o.Failf("idle: the inner store holds part%d (%d bytes) although its latest committed operation is a delete", id, len(b))
			return false
		}
		if !bytes.Equal(b, h.bodies[id]) {
			if h.tolerated(id) {
				return false
			}
			o.Failf("idle: the inner store holds %d bytes for part%d, the committed content has %d bytes", len(b), id, len(h.bodies[id]))
			return false
		}
	}
	var ids []partstore.PartId
	err = database.WithTx(context.Background(), h.db, &sql.TxOptions{ReadOnly: true}, func(ctx context.Context, tx database.Tx) error {
		var err error
		ids, err = h.inner.GetPartIds(ctx, tx)
		return err
	})
	if err != nil {
		o.Failf("idle: inner GetPartIds failed: %v", err)
		return false
	}
	want := 0
	for _, p := range h.present {
		if p {
			want++
		}
	}
	if len(ids) != want {
		for i := range h.present {
			if h.tolerated(i) {
				return false
			}
		}
		o.Failf("idle: the inner store lists %d parts, the committed state has %d", len(ids), want)
		return false
	}
	return true
}

// replay performs worker w's replay step; it mirrors the error path of the real loop (release on error).
func (h *harness) replay(wi int, when string) bool {
	w := h.workers[wi]
	e := w.entry
	exists, owner, err := h.entryOwner(e.Id.String())
	if err != nil {
		h.o.Failf("harness: %v", err)
		return false
	}
	lost := !exists || owner != w.w.ClaimOwner()
	idx := -1
	for i := range h.present {
		if pidStr(i) == e.PartId.String() {
			idx = i
		}
	}
	if lost {
		h.leaseLostMid = true
		h.o.Class("replay:after-lost-lease")
		if idx >= 0 && !exists {
			// the entry was finalized by the other worker: whatever this replay does to
			// the inner store is no longer backed by a pending entry
			h.staleOn[idx] = true
			h.o.Class("replay:of-finalized-entry")
		}
	}
	ctx := context.Background()
	if e.Operation == partOutboxEntry.PutPartOperation {
		err = w.w.ReplayPut(ctx, e)
	} else {
		err = w.w.ReplayDelete(ctx, e)
	}
	if err != nil {
		h.o.Class("replay:error")
		if !lost {
			h.o.Failf("%s: replay of a claimed %s entry failed although the worker still owns it: %v", when, e.Operation, err)
			return false
		}
		_, _ = w.w.Release(ctx, e)
		w.entry, w.replayed = nil, false
		return true
	}
	w.replayed = true
	return true
}

func (h *harness) finalize(wi int, when string) bool {
	w := h.workers[wi]
	exists, owner, err := h.entryOwner(w.entry.Id.String())
	if err != nil {
		h.o.Failf("harness: %v", err)
		return false
	}
	owned := exists && owner == w.w.ClaimOwner()
	deleted, err := w.w.Finalize(context.Background(), w.entry)
	if err != nil {
		h.o.Failf("%s: finalize failed: %v", when, err)
		return false
	}
	h.o.Sub++
	if deleted != owned {
		h.o.Failf("%s: finalize reported deleted=%v for an entry that %s (exists=%v owner=%q, worker=%q)", when, deleted, map[bool]string{true: "the worker still owned", false: "the worker no longer owned"}[owned], exists, owner, w.w.ClaimOwner())
		return false
	}
	if !owned {
		h.leaseLostMid = true
		h.o.Class("finalize:after-lost-lease")
	}
	w.entry, w.replayed = nil, false
	return true
}

func (h *harness) drain(when string) bool {
	if err := h.expire(); err != nil {
		h.o.Failf("harness: expire: %v", err)
		return false
	}
	for round := 0; round < 3; round++ {
		for _, w := range h.workers {
			if w.entry == nil {
				w.w.ProcessAvailable(context.Background())
			}
		}
		n, err := h.pending()
		if err != nil {
			h.o.Failf("harness: %v", err)
			return false
		}
		if n == 0 {
			break
		}
	}
	return true
}

func runCase(env *ev.Env, c Case) (o ev.Outcome) {
	nid := len(c.Lens)
	if nid == 0 || nid > 3 || (c.Inner != "fs" && c.Inner != "sql") {
		o.Discard = true
		return
	}
	dir := env.TempDir()
	defer os.RemoveAll(dir)
	db, err := stacks.OpenDB(dir)
	if err != nil {
		o.Failf("harness: open db: %v", err)
		return
	}
	defer db.Close()
	b := stacks.NewBuilder(dir, db, stacks.Options{})
	inner, err := b.Build(c.Inner, "default")
	if err == nil {
		err = inner.Start(context.Background())
	}
	if err != nil {
		o.Failf("harness: inner store: %v", err)
		return
	}
	defer inner.Stop(context.Background())
	repo, err := repositoryFactory.NewPartOutboxEntryRepository(db)
	if err != nil {
		o.Failf("harness: repository: %v", err)
		return
	}
	ip := &interposer{PartStore: inner}
	h := &harness{o: &o, env: env, c: c, db: db, inner: ip, ip: ip, repo: repo, txFree: c.Inner == "fs",
		present: make([]bool, nid), staleOn: make([]bool, nid)}
	for i, n := range c.Lens {
		h.bodies = append(h.bodies, content(i, n))
	}
	for i := range h.workers {
		if h.workers[i], err = h.newWorker(); err != nil {
			o.Failf("harness: outbox store: %v", err)
			return
		}
	}
	o.Class("inner:" + c.Inner)
	var readers []*reader
	defer func() {
		for _, r := range readers {
			r.close()
		}
	}()
	ctx := context.Background()
	readerMidStreamAtFinalize := false
	listDuringFlush := 0

	checkReader := func(r *reader, when string) bool {
		o.Sub++
		if !bytes.HasPrefix(r.want, r.got) || (r.eof && len(r.got) != len(r.want)) {
			if h.tolerated(r.id) {
				return false
			}
			o.Failf("%s: a reader of part%d opened earlier delivered %d bytes (eof=%v) that are not the %d bytes committed when it was opened", when, r.id, len(r.got), r.eof, len(r.want))
			return false
		}
		return true
	}
	readN := func(r *reader, n int, when string) bool {
		if r.closed || r.eof {
			return true
		}
		buf := make([]byte, max(1, n))
		m, err := r.rc.Read(buf)
		r.got = append(r.got, buf[:m]...)
		if err == io.EOF {
			r.eof = true
		} else if err != nil {
			if h.tolerated(r.id) {
				return false
			}
			o.Failf("%s: a reader of part%d failed after %d bytes: %v", when, r.id, len(r.got), err)
			return false
		}
		return checkReader(r, when)
	}

	for si, s := range c.Steps {
		id := ((s.Id % nid) + nid) % nid
		wi := ((s.W % 2) + 2) % 2
		w := h.workers[wi]
		when := fmt.Sprintf("step %d (%s)", si, s.Op)
		o.Class("step:" + s.Op)
		switch s.Op {
		case "put":
			err := h.write(s.Commit, func(ctx context.Context, tx database.Tx) error {
				return h.workers[si%2].store.PutPart(ctx, tx, partID(id), bytes.NewReader(h.bodies[id]))
			})
			if err != nil {
				o.Failf("%s: PutPart failed: %v", when, err)
				return
			}
			if s.Commit {
				h.present[id] = true
			}
		case "del":
			err := h.write(s.Commit, func(ctx context.Context, tx database.Tx) error {
				return h.workers[si%2].store.DeletePart(ctx, tx, partID(id))
			})
			if err != nil {
				o.Failf("%s: DeletePart failed: %v", when, err)
				return
			}
			if s.Commit {
				h.present[id] = false
			}
		case "claim":
			if w.entry != nil {
				continue
			}
			// state of the head entry before the claim: a claim may only succeed on an
			// entry that is unclaimed or whose lease has expired
			var headOwner sql.NullString
			var headUntil sql.NullTime
			headExists := false
			_ = database.WithTx(ctx, db, &sql.TxOptions{ReadOnly: true}, func(ctx context.Context, tx database.Tx) error {
				err := tx.SqlTx().QueryRowContext(ctx, "SELECT claim_owner, claim_until FROM part_outbox_entries ORDER BY id ASC LIMIT 1").Scan(&headOwner, &headUntil)
				headExists = err == nil
				return nil
			})
			e, claimed, err := w.w.Claim(ctx)
			if err != nil {
				o.Failf("%s: claim failed: %v", when, err)
				return
			}
			o.Sub++
			if claimed && headExists && headOwner.Valid && headUntil.Valid && headUntil.Time.After(time.Now()) {
				o.Failf("%s: worker %d claimed an entry that %q holds with a lease valid until %s (two owners at once)", when, wi, headOwner.String, headUntil.Time.Format(time.RFC3339))
				return
			}
			if !claimed && headExists && (!headOwner.Valid || !headUntil.Valid || headUntil.Time.Before(time.Now())) {
				o.Failf("%s: worker %d could not claim the head entry although it is unclaimed or its lease expired", when, wi)
				return
			}
			if claimed {
				// at most one owner: the other worker must not hold an unexpired claim on the same entry
				w.entry, w.replayed = e, false
				o.Class("claim:won")
			}
		case "replay":
			if w.entry == nil || w.replayed {
				continue
			}
			if !h.replay(wi, when) {
				return
			}
		case "finalize":
			if w.entry == nil || !w.replayed {
				continue
			}
			for _, r := range readers {
				if !r.closed && !r.eof && r.pending && pidStr(r.id) == w.entry.PartId.String() {
					readerMidStreamAtFinalize = true
				}
			}
			if !h.finalize(wi, when) {
				return
			}
		case "release":
			if w.entry == nil {
				continue
			}
			if _, err := w.w.Release(ctx, w.entry); err != nil {
				o.Failf("%s: release failed: %v", when, err)
				return
			}
			w.entry, w.replayed = nil, false
		case "expire":
			held := false
			for _, x := range h.workers {
				if x.entry != nil {
					held = true
				}
			}
			if err := h.expire(); err != nil {
				o.Failf("harness: expire: %v", err)
				return
			}
			if held {
				o.Class("expire:while-claimed")
			}
		case "crash":
			nw, err := h.newWorker()
			if err != nil {
				o.Failf("harness: %v", err)
				return
			}
			if w.entry != nil {
				o.Class("crash:holding-entry")
			}
			h.workers[wi] = nw
		case "open":
			withTx := s.Tx || !h.txFree
			r, err := h.openReader(h.workers[si%2].store, id, withTx)
			o.Sub++
			if err != nil {
				if errors.Is(err, partstore.ErrPartNotFound) {
					if h.present[id] {
						if h.tolerated(id) {
							return
						}
						o.Failf("%s: GetPart(part%d) = not found, but the latest committed operation is a put", when, id)
						return
					}
					continue
				}
				o.Failf("%s: GetPart(part%d) failed: %v", when, id, err)
				return
			}
			readers = append(readers, r)
			if !h.present[id] {
				if h.tolerated(id) {
					return
				}
				o.Failf("%s: GetPart(part%d) succeeded, but the latest committed operation is a delete (or nothing)", when, id)
				return
			}
			r.want = h.bodies[id]
			var np int
			_ = database.WithTx(ctx, db, &sql.TxOptions{ReadOnly: true}, func(ctx context.Context, tx database.Tx) error {
				return tx.SqlTx().QueryRowContext(ctx, "SELECT COUNT(*) FROM part_outbox_entries WHERE part_id = ?", pidStr(id)).Scan(&np)
			})
			r.pending = np > 0
		case "read":
			if len(readers) == 0 {
				continue
			}
			if !readN(readers[s.R%len(readers)], s.N, when) {
				return
			}
		case "close":
			if len(readers) == 0 {
				continue
			}
			readers[s.R%len(readers)].close()
		case "drain":
			if !h.drain(when) {
				return
			}
		case "listflush":
			// GetPartIds through one instance while the other runs a real worker pass right after
			// the inner store produced its listing (flush concurrent with a listing)
			w := h.workers[s.W%2]
			if w.entry != nil {
				continue
			}
			fired := false
			h.ip.afterList = func() {
				fired = true
				w.w.ProcessAvailable(ctx)
			}
			ok := h.checkList(when, h.workers[1-s.W%2].store)
			h.ip.afterList = nil
			if !ok {
				return
			}
			if fired {
				listDuringFlush++
			}
		default:
			o.Discard = true
			return
		}
		if !c.AllowLoss && (s.Op == "expire" || s.Op == "crash" || s.Op == "drain") {
			o.Discard = true // inconsistent case (hand-edited)
			return
		}
		if !h.checkAPI("after " + when) {
			return
		}
	}

	// ---- epilogue: everybody finishes, then the system must be idle and exact ----
	if c.DrainFirst && c.AllowLoss {
		if !h.drain("epilogue drain") || !h.checkAPI("after epilogue drain") {
			return
		}
	}
	for wi, w := range h.workers {
		if w.entry == nil {
			continue
		}
		when := fmt.Sprintf("epilogue (worker %d finishes its entry)", wi)
		if !w.replayed {
			if !h.replay(wi, when) || !h.checkAPI("after "+when+" replay") {
				return
			}
		}
		if w.entry != nil {
			if !h.finalize(wi, when) || !h.checkAPI("after "+when+" finalize") {
				return
			}
		}
	}
	if !h.drain("final drain") || !h.checkAPI("after the final drain") {
		return
	}
	for _, r := range readers {
		for i := 0; i < 1<<16 && !r.closed && !r.eof; i++ {
			if !readN(r, 1<<16, "epilogue read") {
				return
			}
		}
		r.close()
	}
	if !h.checkIdle() {
		return
	}
	if h.leaseLostMid {
		o.Class("lease-lost-mid-entry")
	}
	if listDuringFlush > 0 {
		o.Class("listing-concurrent-with-worker-pass")
	}
	if readerMidStreamAtFinalize {
		o.Class("reader-mid-stream-at-finalize")
	}
	o.NonTrivial = h.leaseLostMid || readerMidStreamAtFinalize
	return
}

// ---- generator --------------------------------------------------------------------------

func genCase(t *rapid.T, env *ev.Env) Case {
	var c Case
	c.Inner = rapid.SampledFrom([]string{"fs", "sql", "fs"}).Draw(t, "inner")
	nid := rapid.IntRange(1, 3).Draw(t, "nids")
	maxLen := 3000
	if env.Thorough() {
		maxLen = 300000
	}
	for i := 0; i < nid; i++ {
		c.Lens = append(c.Lens, rapid.SampledFrom([]int{100, maxLen, 1, 0}).Draw(t, "len"))
	}
	// partition: half of the cases never expire a lease nor crash a worker (no lease
	// can be lost), so the search continues behind the known lost-lease finding
	allowLoss := rapid.Bool().Draw(t, "allowLeaseLoss")
	// The next step is drawn with weights that depend on a rough simulation of the
	// pipeline (queue length, who holds the head entry, whether the lease expired),
	// so that most steps are enabled; the run skips steps that are not.
	q, owner, expired := 0, -1, false
	var hold, rep [2]bool
	openReaders, pendingPut := 0, false
	nsteps := rapid.IntRange(4, 40).Draw(t, "nsteps")
	for len(c.Steps) < nsteps {
		type cand struct {
			s Step
			w int
		}
		var cs []cand
		add := func(w int, s Step) {
			if w > 0 {
				cs = append(cs, cand{s, w})
			}
		}
		wq := 3
		if q == 0 {
			wq = 7
		}
		add(wq, Step{Op: "put"})
		add(2, Step{Op: "del"})
		for w := 0; w < 2; w++ {
			switch {
			case !hold[w] && q > 0 && (owner == -1 || expired):
				add(5, Step{Op: "claim", W: w})
			case !hold[w]:
				add(1, Step{Op: "claim", W: w})
			case !rep[w]:
				add(5, Step{Op: "replay", W: w})
				add(1, Step{Op: "release", W: w})
			default:
				add(4, Step{Op: "finalize", W: w})
				add(1, Step{Op: "release", W: w})
			}
			if hold[w] && allowLoss {
				add(1, Step{Op: "crash", W: w})
			}
		}
		if allowLoss {
			if owner != -1 && !expired {
				add(4, Step{Op: "expire"})
			}
			add(1, Step{Op: "drain"})
		}
		if q > 0 {
			for w := 0; w < 2; w++ {
				if !hold[w] && (owner == -1 || expired) {
					add(2, Step{Op: "listflush", W: w})
				}
			}
		}
		if pendingPut {
			add(3, Step{Op: "open"})
		} else {
			add(1, Step{Op: "open"})
		}
		if openReaders > 0 {
			add(3, Step{Op: "read"})
			add(1, Step{Op: "close"})
		}
		total := 0
		for _, x := range cs {
			total += x.w
		}
		pick := rapid.IntRange(0, total-1).Draw(t, "pick")
		var s Step
		for _, x := range cs {
			if pick < x.w {
				s = x.s
				break
			}
			pick -= x.w
		}
		switch s.Op {
		case "put", "del":
			s.Id = rapid.IntRange(0, nid-1).Draw(t, "id")
			s.Commit = rapid.IntRange(0, 6).Draw(t, "commit") != 0
			if s.Commit {
				q++
				pendingPut = s.Op == "put"
			}
		case "claim":
			if q > 0 && (owner == -1 || expired) {
				hold[s.W], rep[s.W], owner, expired = true, false, s.W, false
			}
		case "replay":
			rep[s.W] = true
			if owner != s.W {
				hold[s.W] = false // most likely fails: the entry is gone
			}
		case "finalize":
			if owner == s.W {
				q, owner, pendingPut = max(0, q-1), -1, false
			}
			hold[s.W], rep[s.W] = false, false
		case "release":
			if owner == s.W {
				owner = -1
			}
			hold[s.W], rep[s.W] = false, false
		case "crash":
			hold[s.W], rep[s.W] = false, false
		case "expire":
			expired = true
		case "drain":
			if !hold[0] || !hold[1] {
				q, owner, pendingPut = 0, -1, false
			}
		case "listflush":
			q, owner, pendingPut = 0, -1, false
		case "open":
			s.Id = rapid.IntRange(0, nid-1).Draw(t, "id")
			s.Tx = rapid.Bool().Draw(t, "tx")
			openReaders++
		case "read":
			s.R = rapid.IntRange(0, 3).Draw(t, "r")
			s.N = rapid.SampledFrom([]int{50, 1, 4000}).Draw(t, "n")
		case "close":
			s.R = rapid.IntRange(0, 3).Draw(t, "r")
		}
		c.Steps = append(c.Steps, s)
	}
	c.DrainFirst = rapid.Bool().Draw(t, "drainFirst")
	c.AllowLoss = allowLoss
	return c
}

func directed(env *ev.Env) []Case {
	return []Case{
		// plain pipeline: put, flush step by step, delete, flush
		{Inner: "fs", Lens: []int{100}, Steps: []Step{{Op: "put", Commit: true}, {Op: "claim"}, {Op: "replay"}, {Op: "finalize"}, {Op: "del", Commit: true}, {Op: "claim", W: 1}, {Op: "replay", W: 1}, {Op: "finalize", W: 1}}},
		// lease lost between replay and finalize, taken over by the other worker (idempotent re-replay)
		{Inner: "sql", Lens: []int{3000}, AllowLoss: true, Steps: []Step{{Op: "put", Commit: true}, {Op: "claim"}, {Op: "replay"}, {Op: "expire"}, {Op: "claim", W: 1}, {Op: "replay", W: 1}, {Op: "finalize"}, {Op: "finalize", W: 1}}},
		// reader mid-stream while its entry is flushed and finalized
		{Inner: "fs", Lens: []int{3000}, Steps: []Step{{Op: "put", Commit: true}, {Op: "open", Tx: false}, {Op: "read", N: 10}, {Op: "claim"}, {Op: "replay"}, {Op: "finalize"}, {Op: "read", N: 100}, {Op: "put", Commit: true}, {Op: "read", N: 100}}},
	}
}

func TestC18(t *testing.T) {
	ev.Main(t, ev.Spec[Case]{
		ID:    "C18",
		Level: "exploration",
		Rule: "schedules of 4-40 steps over 1-3 part ids (content bound to the id) and two outbox worker identities sharing one database, outbox id and inner store (fs = tx-free replay, sql = transactional replay): committed and rolled-back put/delete, claim/replay/finalize/release per worker, lease expiry, worker crash+restart, readers (open with/without tx, read, close), drain; " +
			"after every step GetPart (tx and tx-free) and GetPartIds are compared with the latest committed operation per id, and after the final drain the inner store must equal the committed state; half of the cases contain no lease loss by construction; " +
			"non-trivial = a worker replayed or finalized an entry after losing its lease, or a reader of a pending entry was mid-stream when that entry was finalized; distinct = distinct case JSON",
		Assumptions: []string{
			"SQLite only (snapshot isolation per transaction): the statement-level-isolation fallback from outbox chunks to the inner store mid-read is not reachable",
			"worker steps are driven through build-tagged thin wrappers (outbox/verif_export.go); the instances are never Started, so no timer-driven worker or heartbeat runs",
			"part content is bound to the part id (pithos never rewrites an id with different bytes)",
		},
		Gen:      genCase,
		Run:      runCase,
		Directed: directed,
	})
}

var _ = sort.Strings
