package c29

import (
	"bytes"
	"crypto/sha256"
	"encoding/hex"
	"fmt"
	"sort"
	"strings"
	"testing"
	"time"

	"github.com/jdillenkofer/pithos/verifharness/ev"
	"github.com/jdillenkofer/pithos/verifharness/gen"
	"github.com/jdillenkofer/pithos/verifharness/sigreq"
	"pgregory.net/rapid"
)

// Case: one request description; signed at run time with the current clock.
type Case struct {
	Req sigreq.Req `json:"req"`
}

func accepted(q sigreq.Req, res sigreq.Result) bool {
	return res.ParseErr == nil && res.Panic == nil && res.Reached && res.Authenticated && res.Status == 200 &&
		res.KeyID == sigreq.Creds[q.Cred%len(sigreq.Creds)].ID
}

func describe(res sigreq.Result) string {
	return fmt.Sprintf("status=%d reached=%v authenticated=%v key=%q parseErr=%v panic=%v", res.Status, res.Reached, res.Authenticated, res.KeyID, res.ParseErr, res.Panic)
}

// ---- diagnosis of a rejection: which canonicalisation rule differs from the SDK's? ----------

// canonical request (as logged by the SDK signer) split into its parts.
type canon struct {
	method, uri, query string
	headers            []string
	signed, payload    string
}

func parseCanon(s string) (c canon, ok bool) {
	lines := strings.Split(s, "\n")
	if len(lines) < 7 {
		return c, false
	}
	c.method, c.uri, c.query = lines[0], lines[1], lines[2]
	n := len(lines)
	c.payload, c.signed = lines[n-1], lines[n-2]
	// lines[3 : n-3] are header lines, lines[n-3] is the empty line
	c.headers = append([]string(nil), lines[3:n-3]...)
	return c, lines[n-3] == ""
}

func (c canon) String() string {
	return c.method + "\n" + c.uri + "\n" + c.query + "\n" + strings.Join(c.headers, "\n") + "\n\n" + c.signed + "\n" + c.payload
}

// resign replaces the request signature by one over a different canonical
// request (header authentication only): if pithos accepts that, the changed
// canonicalisation rule is exactly what pithos applies.
func resign(w *sigreq.Wire, s *sigreq.Signed, c canon) *sigreq.Wire {
	sts := strings.Split(s.StringToSign, "\n")
	sts[len(sts)-1] = sha256hex(c.String())
	sig := sigreq.SignString(s.SigningKey, strings.Join(sts, "\n"))
	m := w.Clone()
	if a := m.Header.Get("Authorization"); a != "" {
		i := strings.LastIndex(a, "Signature=")
		m.Header.Set("Authorization", a[:i+len("Signature=")]+sig)
	} else {
		m.RawQuery = strings.Replace(m.RawQuery, "X-Amz-Signature="+s.SeedSignature, "X-Amz-Signature="+sig, 1)
	}
	return m
}

// headerValuesUncollapsed rebuilds the canonical header lines from the header
// values as they are on the wire with outer whitespace trimmed but inner runs
// of spaces kept (pithos' rule), values of one name joined by ",".
func headerValuesUncollapsed(c canon, w *sigreq.Wire) (canon, bool) {
	changed := false
	out := c
	out.headers = nil
	for _, line := range c.headers {
		name, val, _ := strings.Cut(line, ":")
		if name != "host" && name != "content-length" {
			var vs []string
			for k, vals := range w.Header {
				if strings.ToLower(k) == name {
					vs = vals
				}
			}
			if vs != nil {
				tr := make([]string, len(vs))
				for i, v := range vs {
					tr[i] = strings.TrimSpace(v)
				}
				nv := strings.TrimSpace(strings.Join(tr, ","))
				if nv != val {
					changed = true
					val = nv
				}
			}
		}
		out.headers = append(out.headers, name+":"+val)
	}
	return out, changed
}

// querySortedEncoded re-sorts the canonical query by (encoded name, encoded value).
func querySortedEncoded(c canon) (canon, bool) {
	if c.query == "" {
		return c, false
	}
	pairs := strings.Split(c.query, "&")
	sorted := append([]string(nil), pairs...)
	sort.SliceStable(sorted, func(i, j int) bool {
		ki, vi, _ := strings.Cut(sorted[i], "=")
		kj, vj, _ := strings.Cut(sorted[j], "=")
		if ki != kj {
			return ki < kj
		}
		return vi < vj
	})
	out := c
	out.query = strings.Join(sorted, "&")
	return out, out.query != c.query
}

func run(env *ev.Env, c Case) (o ev.Outcome) {
	q := c.Req
	for _, f := range sigreq.Features(q) {
		o.Class(f)
	}
	o.NonTrivial = sigreq.Interesting(q)
	w, s, err := sigreq.Build(q, time.Now())
	if err != nil {
		o.Failf("harness could not build the request: %v", err)
		return
	}
	res := sigreq.Serve(q.Region, w)
	o.Sub++
	if accepted(q, res) {
		o.Class("result:accepted")
		// a request that is authenticated must also hand the handler the signed payload
		if res.BodyErr != nil {
			o.Failf("authenticated, but reading the body failed: %v (mode %s)", res.BodyErr, q.Mode)
			return
		}
		if !bytes.Equal(res.Body, s.Payload) {
			o.Failf("authenticated, but the handler read %d bytes that differ from the %d byte payload (mode %s)", len(res.Body), len(s.Payload), q.Mode)
		}
		return
	}
	o.Class("result:rejected")
	// rejected: try to attribute the rejection to a known canonicalisation difference
	cn, ok := parseCanon(s.CanonicalString)
	if ok {
		// candidate rule differences; the smallest subset whose application makes pithos accept is the explanation
		type rule struct {
			name  string
			apply func(canon) (canon, bool)
		}
		rules := []rule{
			{"ws", func(c canon) (canon, bool) { return headerValuesUncollapsed(c, w) }},
			{"qsort", querySortedEncoded},
		}
		var explained []string
		for mask := 1; mask < 1<<len(rules) && explained == nil; mask++ {
			for _, m := range []int{1, 2, 3} { // singletons first
				if m != mask {
					continue
				}
				cur, names, applicable := cn, []string(nil), true
				for i, r := range rules {
					if m&(1<<i) == 0 {
						continue
					}
					c2, ch := r.apply(cur)
					if !ch {
						applicable = false
						break
					}
					cur, names = c2, append(names, r.name)
				}
				if applicable && accepted(q, sigreq.Serve(q.Region, resign(w, s, cur))) {
					explained = names
				}
			}
		}
		if explained != nil {
			all := true
			for _, h := range explained {
				switch h {
				case "ws":
					o.Class("rejected:header-inner-whitespace")
					if env.Known("c29.headerInnerWhitespace") {
						o.KnownHits = append(o.KnownHits, "KF-C29-1")
					} else {
						all = false
					}
				case "qsort":
					o.Class("rejected:query-sort-order")
					if env.Known("c29.querySortEncoded") {
						o.KnownHits = append(o.KnownHits, "KF-C29-2")
					} else {
						all = false
					}
				}
			}
			if all {
				return
			}
			o.Failf("SDK-signed request rejected (%s); cause %v: pithos accepts the same request when the signature is computed over a canonical request built with its own rule. SDK canonical request:\n%s", describe(res), explained, s.CanonicalString)
			return
		}
	}
	o.Failf("SDK-signed request rejected: %s\nmode=%s wire=%s %s?%s\nSDK canonical request:\n%s", describe(res), q.Mode, w.Method, w.Path, w.RawQuery, s.CanonicalString)
	return
}

func genCase(t *rapid.T, env *ev.Env) Case {
	o := sigreq.GenOpts{}
	if env.Thorough() {
		o.MaxBody = 200000
	}
	return Case{Req: sigreq.GenReq(t, o)}
}

func base(mode, method, key string) sigreq.Req {
	r := sigreq.Req{Method: method, Bucket: "bucket", Key: key, Host: "localhost:9000", Region: "us-east-1", Mode: mode, ShaHeader: true,
		Body: gen.BodySpec{Kind: "text", Len: 0}, Expires: 900, Chunks: []int{7, 64}, Trailer: "crc32c", Framing: "sdk"}
	if method == "PUT" {
		r.Body.Len = 100
	}
	return r
}

// directed: every single reserved/odd character as a key, in every mode, plus a few fixed shapes.
func directed(env *ev.Env) []Case {
	var cs []Case
	for _, mode := range []string{sigreq.ModeHash, sigreq.ModeUnsigned, sigreq.ModePresign} {
		for ch := 0x01; ch < 0x80; ch++ {
			cs = append(cs, Case{Req: base(mode, "GET", "k"+string(rune(ch))+"z")})
		}
		for _, k := range []string{"é", "日本語/😀", ".", "..", "a/../b", "a/./b", "a//b", "/lead", "trail/", "%41", "%2F", "a%zz", "%", "a+b c"} {
			cs = append(cs, Case{Req: base(mode, "GET", k)})
		}
	}
	for _, mode := range []string{sigreq.ModeStream, sigreq.ModeStreamTrailer, sigreq.ModeUnsignedTrailer} {
		for _, alg := range []string{"crc32", "crc32c", "crc64nvme", "sha1", "sha256"} {
			for _, fr := range []string{"sdk", "doc"} {
				r := base(mode, "PUT", "chunk object.txt")
				r.Trailer, r.Framing = alg, fr
				cs = append(cs, Case{Req: r})
				r.Body.Len = 0
				cs = append(cs, Case{Req: r})
			}
		}
	}
	return cs
}

func TestC29(t *testing.T) {
	if err := sigreq.SelfTest(); err != nil {
		t.Fatal(err)
	}
	ev.Main(t, ev.Spec[Case]{
		ID:    "C29",
		Level: "exploration",
		Rule: "a case is one request description (method, bucket, key, query pairs, headers, host, region, credential, payload mode, body, chunking) signed at run time; " +
			"non-trivial when the key, a query name/value or a header value contains a reserved, whitespace or non-ASCII character; distinct = distinct case JSON",
		Assumptions: []string{
			"aws-sdk-go-v2 v4 signer (SignHTTP / PresignHTTP, DisableURIPathEscaping as the S3 client sets it) and smithy-go httpbinding path escaping are the reference client",
			"the aws-chunked chunk/trailer signatures are produced by a harness implementation of the documented scheme, self-tested against the published AWS example vectors",
			"requests are serialised to HTTP/1.1 bytes and parsed with net/http.ReadRequest, as a Go server would",
		},
		Gen:      genCase,
		Run:      run,
		Directed: directed,
	})
}

func sha256hex(s string) string {
	h := sha256.Sum256([]byte(s))
	return hex.EncodeToString(h[:])
}
