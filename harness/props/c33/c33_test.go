// Package c33 checks property C33: a request sent virtual-hosted style (bucket
// in the Host header) acts on exactly the same bucket and key as the same
// request sent path style, and requests to the website endpoint or custom
// domains never change state.
//
// Per case a fresh real storage is filled with a small fixture. Part 1 (pairs):
// each generated request (bucket x key x percent-encoding x operation shape) is
// sent twice through two fresh SetupServer handlers over the same recording
// storage — once path-style, once virtual-hosted. The storage underneath is
// "frozen": reads reach the real storage, mutating methods are recorded and
// answered with a canned success, so both requests of a pair see the same
// state. The recorded storage calls (method + every argument, bodies by digest)
// and the authorizer's view (operation, bucket, key, copy source) must be
// identical. Part 2 (website): arbitrary requests addressed to
// <bucket>.<website endpoint> and to custom domains run against the unfrozen
// storage; the full observable state (objects, versions, uploads, bucket
// configurations) must be unchanged afterwards.
package c33

import (
	"bytes"
	"context"
	"fmt"
	"io"
	"net/http"
	"net/http/httptest"
	"net/url"
	"os"
	"strings"
	"testing"
	"time"

	"github.com/jdillenkofer/pithos/internal/http/server"
	"github.com/jdillenkofer/pithos/internal/http/server/authorization"
	"github.com/jdillenkofer/pithos/internal/storage"
	"github.com/jdillenkofer/pithos/verifharness/dump"
	"github.com/jdillenkofer/pithos/verifharness/ev"
	"github.com/jdillenkofer/pithos/verifharness/recstore"
	"github.com/jdillenkofer/pithos/verifharness/stacks"
	"pgregory.net/rapid"
)

// Pair is one request that is sent with both addressings.
type Pair struct {
	Bucket int    `json:"bucket"` // 0,1 fixture buckets; 2 = missing bucket
	Key    string `json:"key"`    // "" = bucket-level request
	Enc    string `json:"enc"`    // min | all | slash | lower
	Op     string `json:"op"`
	Port   string `json:"port,omitempty"` // appended to the Host header (":9000")
	Origin bool   `json:"origin,omitempty"`
	// HostCase: letter case of the endpoint part of the virtual-hosted Host header: "" (as configured) |
	// "upper" | "mixed". Host names are case-insensitive, pithos compares them as written: such a request is
	// either treated as virtual-hosted (then it must equal the path-style request) or as some other domain
	// (then it must not change state).
	HostCase string `json:"hostCase,omitempty"`
}

// mutating: storage calls that change state.
var mutating = map[string]bool{"CreateBucket": true, "DeleteBucket": true, "PutBucketVersioningConfiguration": true, "PutBucketWebsiteConfiguration": true,
	"DeleteBucketWebsiteConfiguration": true, "PutBucketCORSConfiguration": true, "DeleteBucketCORSConfiguration": true, "PutBucketLifecycleConfiguration": true,
	"DeleteBucketLifecycleConfiguration": true, "PutBucketNotificationConfiguration": true, "PutObjectTagging": true, "DeleteObjectTagging": true, "PutObject": true,
	"CopyObject": true, "AppendObject": true, "DeleteObject": true, "DeleteObjects": true, "TransitionObjectStorageClass": true, "CreateMultipartUpload": true,
	"UploadPart": true, "UploadPartCopy": true, "CompleteMultipartUpload": true, "AbortMultipartUpload": true}

func recase(host, how string) string {
	switch how {
	case "upper":
		return strings.ToUpper(host)
	case "mixed":
		b := []byte(host)
		for i := range b {
			if i%2 == 0 && b[i] >= 'a' && b[i] <= 'z' {
				b[i] -= 'a' - 'A'
			}
		}
		return string(b)
	}
	return host
}

// WebReq is one request to the website endpoint / a custom domain.
type WebReq struct {
	HostKind string `json:"host"` // site = <bucket>.<website endpoint>, custom = Host is the bucket name, unknown = some other domain
	Bucket   int    `json:"bucket"`
	Port     string `json:"port,omitempty"`
	Method   string `json:"method"`
	Path     string `json:"path"` // escaped request path, starts with "/"
	Query    string `json:"query,omitempty"`
	Copy     bool   `json:"copy,omitempty"` // x-amz-copy-source header
	Body     string `json:"body,omitempty"`
}

type Case struct {
	Endpoints int      `json:"endpoints"` // index into endpointConfigs
	Buckets   []string `json:"buckets"`   // two fixture bucket names
	Keys      []string `json:"keys"`      // fixture keys (bucket 0 and 1)
	Versioned bool     `json:"versioned"`
	Pairs     []Pair   `json:"pairs"`
	Web       []WebReq `json:"web"`
}

var endpointConfigs = [][2]string{
	{"s3.localhost", "s3-website.localhost"},    // disjoint (what pithos' own tests use)
	{"localhost", "s3-website.localhost"},       // the defaults of internal/settings
	{"s3.example.com", "web.s3.example.com"},    // website domain below the API domain
	{"api.example.org", "sites.example.net"},    // unrelated domains
}

// ---- operation shapes ----------------------------------------------------------------

type opShape struct {
	method string
	query  string
	hdr    map[string]string
	body   string
	object bool // object-level (needs a key)
}

const taggingXML = `<Tagging><TagSet><Tag><Key>k</Key><Value>v</Value></Tag></TagSet></Tagging>`
const versioningXML = `<VersioningConfiguration><Status>Enabled</Status></VersioningConfiguration>`
const corsXML = `<CORSConfiguration><CORSRule><AllowedOrigin>*</AllowedOrigin><AllowedMethod>GET</AllowedMethod></CORSRule></CORSConfiguration>`
const websiteXML = `<WebsiteConfiguration><IndexDocument><Suffix>index.html</Suffix></IndexDocument></WebsiteConfiguration>`
const lifecycleXML = `<LifecycleConfiguration><Rule><ID>r</ID><Status>Enabled</Status><Filter><Prefix>tmp/</Prefix></Filter><Expiration><Days>1</Days></Expiration></Rule></LifecycleConfiguration>`
const completeXML = `<CompleteMultipartUpload><Part><PartNumber>1</PartNumber><ETag>"x"</ETag></Part></CompleteMultipartUpload>`

// COPYSRC / UPLOAD / DELKEYS are placeholders resolved per case.
var ops = map[string]opShape{
	"get":              {method: "GET", object: true},
	"head":             {method: "HEAD", object: true},
	"put":              {method: "PUT", body: "payload-1", object: true, hdr: map[string]string{"Content-Type": "text/plain", "x-amz-meta-a": "b"}},
	"put-cond":         {method: "PUT", body: "payload-2", object: true, hdr: map[string]string{"If-None-Match": "*"}},
	"put-tagged":       {method: "PUT", body: "p", object: true, hdr: map[string]string{"x-amz-tagging": "a=1&b=2", "x-amz-storage-class": "GLACIER"}},
	"delete":           {method: "DELETE", object: true},
	"get-range":        {method: "GET", object: true, hdr: map[string]string{"Range": "bytes=0-2"}},
	"get-version":      {method: "GET", query: "versionId=null", object: true},
	"head-version":     {method: "HEAD", query: "versionId=null", object: true},
	"delete-version":   {method: "DELETE", query: "versionId=null", object: true},
	"get-tagging":      {method: "GET", query: "tagging", object: true},
	"put-tagging":      {method: "PUT", query: "tagging", body: taggingXML, object: true},
	"delete-tagging":   {method: "DELETE", query: "tagging", object: true},
	"append":           {method: "PUT", query: "append", body: "more", object: true, hdr: map[string]string{"x-amz-write-offset-bytes": "6"}},
	"create-mpu":       {method: "POST", query: "uploads", object: true},
	"upload-part":      {method: "PUT", query: "partNumber=2&uploadId=UPLOAD", body: "part-two", object: true},
	"upload-part-copy": {method: "PUT", query: "partNumber=3&uploadId=UPLOAD", object: true, hdr: map[string]string{"x-amz-copy-source": "COPYSRC", "x-amz-copy-source-range": "bytes=0-1"}},
	"complete":         {method: "POST", query: "uploadId=UPLOAD", body: completeXML, object: true},
	"abort":            {method: "DELETE", query: "uploadId=UPLOAD", object: true},
	"list-parts":       {method: "GET", query: "uploadId=UPLOAD&max-parts=5", object: true},
	"copy":             {method: "PUT", object: true, hdr: map[string]string{"x-amz-copy-source": "COPYSRC", "x-amz-metadata-directive": "REPLACE", "x-amz-meta-n": "1"}},
	"options":          {method: "OPTIONS", object: true},
	"post-plain":       {method: "POST", object: true, body: "x"},

	"list":             {method: "GET"},
	"list-v2":          {method: "GET", query: "list-type=2&prefix=d&delimiter=%2F&max-keys=2"},
	"list-versions":    {method: "GET", query: "versions&max-keys=3"},
	"list-uploads":     {method: "GET", query: "uploads"},
	"get-cors":         {method: "GET", query: "cors"},
	"get-website":      {method: "GET", query: "website"},
	"get-lifecycle":    {method: "GET", query: "lifecycle"},
	"get-versioning":   {method: "GET", query: "versioning"},
	"get-notification": {method: "GET", query: "notification"},
	"put-cors":         {method: "PUT", query: "cors", body: corsXML},
	"put-versioning":   {method: "PUT", query: "versioning", body: versioningXML},
	"put-website":      {method: "PUT", query: "website", body: websiteXML},
	"put-lifecycle":    {method: "PUT", query: "lifecycle", body: lifecycleXML},
	"delete-cors":      {method: "DELETE", query: "cors"},
	"delete-website":   {method: "DELETE", query: "website"},
	"delete-lifecycle": {method: "DELETE", query: "lifecycle"},
	"create-bucket":    {method: "PUT"},
	"delete-bucket":    {method: "DELETE"},
	"head-bucket":      {method: "HEAD"},
	"multi-delete":     {method: "POST", query: "delete", body: "DELKEYS"},
	"options-bucket":   {method: "OPTIONS"},
}

var objectOps, bucketOps []string

func init() {
	for k, v := range ops {
		if v.object {
			objectOps = append(objectOps, k)
		} else {
			bucketOps = append(bucketOps, k)
		}
	}
	sortStrings(objectOps)
	sortStrings(bucketOps)
}

func sortStrings(s []string) {
	for i := 1; i < len(s); i++ {
		for j := i; j > 0 && s[j] < s[j-1]; j-- {
			s[j], s[j-1] = s[j-1], s[j]
		}
	}
}

// ---- frozen storage --------------------------------------------------------------------

// frozen answers mutating calls with a canned success (after checking that the
// bucket exists) so that state never changes; reads go to the real storage.
type frozen struct {
	storage.Storage
	on bool
}

func (f *frozen) bucketOK(ctx context.Context, b storage.BucketName) error {
	_, err := f.Storage.HeadBucket(ctx, b)
	return err
}

func (f *frozen) CreateBucket(ctx context.Context, b storage.BucketName) error {
	if !f.on {
		return f.Storage.CreateBucket(ctx, b)
	}
	if f.bucketOK(ctx, b) == nil {
		return storage.ErrBucketAlreadyExists
	}
	return nil
}
func (f *frozen) DeleteBucket(ctx context.Context, b storage.BucketName) error {
	if !f.on {
		return f.Storage.DeleteBucket(ctx, b)
	}
	return f.bucketOK(ctx, b)
}
func (f *frozen) PutBucketVersioningConfiguration(ctx context.Context, b storage.BucketName, c *storage.BucketVersioningConfiguration) error {
	if !f.on {
		return f.Storage.PutBucketVersioningConfiguration(ctx, b, c)
	}
	return f.bucketOK(ctx, b)
}
func (f *frozen) PutBucketWebsiteConfiguration(ctx context.Context, b storage.BucketName, c *storage.WebsiteConfiguration) error {
	if !f.on {
		return f.Storage.PutBucketWebsiteConfiguration(ctx, b, c)
	}
	return f.bucketOK(ctx, b)
}
func (f *frozen) DeleteBucketWebsiteConfiguration(ctx context.Context, b storage.BucketName) error {
	if !f.on {
		return f.Storage.DeleteBucketWebsiteConfiguration(ctx, b)
	}
	return f.bucketOK(ctx, b)
}
func (f *frozen) PutBucketCORSConfiguration(ctx context.Context, b storage.BucketName, c *storage.BucketCORSConfiguration) error {
	if !f.on {
		return f.Storage.PutBucketCORSConfiguration(ctx, b, c)
	}
	return f.bucketOK(ctx, b)
}
func (f *frozen) DeleteBucketCORSConfiguration(ctx context.Context, b storage.BucketName) error {
	if !f.on {
		return f.Storage.DeleteBucketCORSConfiguration(ctx, b)
	}
	return f.bucketOK(ctx, b)
}
func (f *frozen) PutBucketLifecycleConfiguration(ctx context.Context, b storage.BucketName, c *storage.BucketLifecycleConfiguration) error {
	if !f.on {
		return f.Storage.PutBucketLifecycleConfiguration(ctx, b, c)
	}
	return f.bucketOK(ctx, b)
}
func (f *frozen) DeleteBucketLifecycleConfiguration(ctx context.Context, b storage.BucketName) error {
	if !f.on {
		return f.Storage.DeleteBucketLifecycleConfiguration(ctx, b)
	}
	return f.bucketOK(ctx, b)
}
func (f *frozen) PutBucketNotificationConfiguration(ctx context.Context, b storage.BucketName, c *storage.BucketNotificationConfiguration) error {
	if !f.on {
		return f.Storage.PutBucketNotificationConfiguration(ctx, b, c)
	}
	return f.bucketOK(ctx, b)
}
func (f *frozen) PutObjectTagging(ctx context.Context, b storage.BucketName, k storage.ObjectKey, t map[string]string, o *storage.ObjectTaggingOptions) error {
	if !f.on {
		return f.Storage.PutObjectTagging(ctx, b, k, t, o)
	}
	return f.bucketOK(ctx, b)
}
func (f *frozen) DeleteObjectTagging(ctx context.Context, b storage.BucketName, k storage.ObjectKey, o *storage.ObjectTaggingOptions) error {
	if !f.on {
		return f.Storage.DeleteObjectTagging(ctx, b, k, o)
	}
	return f.bucketOK(ctx, b)
}
func (f *frozen) PutObject(ctx context.Context, b storage.BucketName, k storage.ObjectKey, ct *string, data io.Reader, ci *storage.ChecksumInput, o *storage.PutObjectOptions) (*storage.PutObjectResult, error) {
	if !f.on {
		return f.Storage.PutObject(ctx, b, k, ct, data, ci, o)
	}
	if err := f.bucketOK(ctx, b); err != nil {
		return nil, err
	}
	e := "\"00000000000000000000000000000000\""
	return &storage.PutObjectResult{ETag: &e}, nil
}
func (f *frozen) CopyObject(ctx context.Context, sb storage.BucketName, sk storage.ObjectKey, db storage.BucketName, dk storage.ObjectKey, o *storage.CopyObjectOptions) (*storage.CopyObjectResult, error) {
	if !f.on {
		return f.Storage.CopyObject(ctx, sb, sk, db, dk, o)
	}
	if err := f.bucketOK(ctx, db); err != nil {
		return nil, err
	}
	return &storage.CopyObjectResult{ETag: "\"0\"", LastModified: time.Unix(0, 0)}, nil
}
func (f *frozen) AppendObject(ctx context.Context, b storage.BucketName, k storage.ObjectKey, data io.Reader, ci *storage.ChecksumInput, o *storage.AppendObjectOptions) (*storage.AppendObjectResult, error) {
	if !f.on {
		return f.Storage.AppendObject(ctx, b, k, data, ci, o)
	}
	if err := f.bucketOK(ctx, b); err != nil {
		return nil, err
	}
	return &storage.AppendObjectResult{ETag: "\"0\"", Size: 1}, nil
}
func (f *frozen) DeleteObject(ctx context.Context, b storage.BucketName, k storage.ObjectKey, o *storage.DeleteObjectOptions) (*storage.DeleteObjectResult, error) {
	if !f.on {
		return f.Storage.DeleteObject(ctx, b, k, o)
	}
	if err := f.bucketOK(ctx, b); err != nil {
		return nil, err
	}
	return &storage.DeleteObjectResult{}, nil
}
func (f *frozen) DeleteObjects(ctx context.Context, b storage.BucketName, e []storage.DeleteObjectsInputEntry) (*storage.DeleteObjectsResult, error) {
	if !f.on {
		return f.Storage.DeleteObjects(ctx, b, e)
	}
	if err := f.bucketOK(ctx, b); err != nil {
		return nil, err
	}
	return &storage.DeleteObjectsResult{}, nil
}
func (f *frozen) TransitionObjectStorageClass(ctx context.Context, b storage.BucketName, k storage.ObjectKey, c string, o *storage.TransitionObjectStorageClassOptions) error {
	if !f.on {
		return f.Storage.TransitionObjectStorageClass(ctx, b, k, c, o)
	}
	return f.bucketOK(ctx, b)
}
func (f *frozen) CreateMultipartUpload(ctx context.Context, b storage.BucketName, k storage.ObjectKey, ct *string, cst *string, o *storage.CreateMultipartUploadOptions) (*storage.InitiateMultipartUploadResult, error) {
	if !f.on {
		return f.Storage.CreateMultipartUpload(ctx, b, k, ct, cst, o)
	}
	if err := f.bucketOK(ctx, b); err != nil {
		return nil, err
	}
	return &storage.InitiateMultipartUploadResult{UploadId: storage.MustNewUploadId("FROZENUPLOAD")}, nil
}
func (f *frozen) UploadPart(ctx context.Context, b storage.BucketName, k storage.ObjectKey, u storage.UploadId, n int32, data io.Reader, ci *storage.ChecksumInput) (*storage.UploadPartResult, error) {
	if !f.on {
		return f.Storage.UploadPart(ctx, b, k, u, n, data, ci)
	}
	if err := f.bucketOK(ctx, b); err != nil {
		return nil, err
	}
	return &storage.UploadPartResult{ETag: "\"0\""}, nil
}
func (f *frozen) UploadPartCopy(ctx context.Context, sb storage.BucketName, sk storage.ObjectKey, db storage.BucketName, dk storage.ObjectKey, u storage.UploadId, n int32, o *storage.UploadPartCopyOptions) (*storage.UploadPartCopyResult, error) {
	if !f.on {
		return f.Storage.UploadPartCopy(ctx, sb, sk, db, dk, u, n, o)
	}
	if err := f.bucketOK(ctx, db); err != nil {
		return nil, err
	}
	return &storage.UploadPartCopyResult{ETag: "\"0\"", LastModified: time.Unix(0, 0)}, nil
}
func (f *frozen) CompleteMultipartUpload(ctx context.Context, b storage.BucketName, k storage.ObjectKey, u storage.UploadId, ci *storage.ChecksumInput, o *storage.CompleteMultipartUploadOptions) (*storage.CompleteMultipartUploadResult, error) {
	if !f.on {
		return f.Storage.CompleteMultipartUpload(ctx, b, k, u, ci, o)
	}
	if err := f.bucketOK(ctx, b); err != nil {
		return nil, err
	}
	return &storage.CompleteMultipartUploadResult{ETag: "\"0-1\""}, nil
}
func (f *frozen) AbortMultipartUpload(ctx context.Context, b storage.BucketName, k storage.ObjectKey, u storage.UploadId) error {
	if !f.on {
		return f.Storage.AbortMultipartUpload(ctx, b, k, u)
	}
	return f.bucketOK(ctx, b)
}

// ---- authorizer ----------------------------------------------------------------------------

type authView struct {
	views []string
}

func deref(s *string) string {
	if s == nil {
		return "<nil>"
	}
	return fmt.Sprintf("%q", *s)
}

func (a *authView) AuthorizeRequest(ctx context.Context, r *authorization.Request) (bool, error) {
	a.views = append(a.views, fmt.Sprintf("%s bucket=%s key=%s srcBucket=%s srcKey=%s", r.Operation, deref(r.Bucket), deref(r.Key), deref(r.SourceBucket), deref(r.SourceKey)))
	return true, nil
}

// ---- helpers -----------------------------------------------------------------------------------

func encodeKey(key, enc string) string {
	switch enc {
	case "all", "lower", "slash":
		var b strings.Builder
		for i := 0; i < len(key); i++ {
			c := key[i]
			if c == '/' && enc != "slash" {
				b.WriteByte('/')
				continue
			}
			if enc == "lower" {
				fmt.Fprintf(&b, "%%%02x", c)
			} else {
				fmt.Fprintf(&b, "%%%02X", c)
			}
		}
		return b.String()
	}
	// minimal: what a URL library produces
	return (&url.URL{Path: "/" + key}).EscapedPath()[1:]
}

type world struct {
	inst    *stacks.Instance
	fr      *frozen
	rec     *recstore.Recorder
	api     string
	web     string
	upload  string
	buckets []string
	keys    []string
}

func (w *world) serve(host, target, method string, hdr map[string]string, body string) (int, []recstore.Call, []string, string) {
	av := &authView{}
	h := server.SetupServer(nil, "eu-central-1", w.api, w.web, av, w.rec)
	var rd io.Reader
	if body != "" {
		rd = strings.NewReader(body)
	}
	req := httptest.NewRequest(method, "http://"+host+target, rd)
	req.Host = host
	for k, v := range hdr {
		req.Header.Set(k, v)
	}
	out := httptest.NewRecorder()
	w.rec.Reset()
	h.ServeHTTP(out, req)
	calls := w.rec.Take()
	return out.Code, calls, av.views, out.Body.String()
}

func sigs(calls []recstore.Call) []string {
	var s []string
	for _, c := range calls {
		s = append(s, c.Sig())
	}
	return s
}

func cfgDump(ctx context.Context, st storage.Storage, buckets []string) string {
	var b strings.Builder
	for _, name := range buckets {
		bn, err := storage.NewBucketName(name)
		if err != nil {
			continue
		}
		cors, e1 := st.GetBucketCORSConfiguration(ctx, bn)
		web, e2 := st.GetBucketWebsiteConfiguration(ctx, bn)
		lc, e3 := st.GetBucketLifecycleConfiguration(ctx, bn)
		nc, e4 := st.GetBucketNotificationConfiguration(ctx, bn)
		fmt.Fprintf(&b, "%s cors=%s/%v web=%s/%v lc=%s/%v nc=%s/%v\n", name, recstore.Canon(cors), e1, recstore.Canon(web), e2, recstore.Canon(lc), e3, recstore.Canon(nc), e4)
	}
	return b.String()
}

func keyClass(k string) []string {
	var cl []string
	if k == "" {
		return []string{"key:bucket-level"}
	}
	if strings.HasSuffix(k, "/") {
		cl = append(cl, "key:trailing-slash")
	}
	if strings.HasPrefix(k, "/") {
		cl = append(cl, "key:leading-slash")
	}
	if strings.Contains(k, "//") {
		cl = append(cl, "key:double-slash")
	}
	if strings.ContainsAny(k, "%+?#&= ;") {
		cl = append(cl, "key:reserved-char")
	}
	for _, r := range k {
		if r > 127 {
			cl = append(cl, "key:non-ascii")
			break
		}
	}
	if len(cl) == 0 {
		cl = append(cl, "key:plain")
	}
	return cl
}

func run(env *ev.Env, c Case) (o ev.Outcome) {
	ctx := context.Background()
	if len(c.Buckets) != 2 || c.Endpoints < 0 || c.Endpoints >= len(endpointConfigs) {
		o.Failf("harness: malformed case")
		return
	}
	dir := env.TempDir()
	defer os.RemoveAll(dir)
	inst, err := stacks.Open(dir, stacks.LayoutFor("P2"), stacks.Options{})
	if err != nil {
		o.Failf("harness: open: %v", err)
		return
	}
	defer inst.Close()
	w := &world{inst: inst, api: endpointConfigs[c.Endpoints][0], web: endpointConfigs[c.Endpoints][1], buckets: c.Buckets, keys: c.Keys}
	w.fr = &frozen{Storage: inst.Storage}
	w.rec = recstore.New(w.fr)
	o.Class(fmt.Sprintf("endpoints:%s|%s", w.api, w.web))

	// ---- fixture ------------------------------------------------------------------------
	st := inst.Storage
	for i, name := range c.Buckets {
		bn, err := storage.NewBucketName(name)
		if err != nil {
			o.Failf("harness: bucket name %q: %v", name, err)
			return
		}
		if err := st.CreateBucket(ctx, bn); err != nil {
			o.Failf("harness: create bucket: %v", err)
			return
		}
		if c.Versioned && i == 0 {
			en := storage.BucketVersioningStatus("Enabled")
			if err := st.PutBucketVersioningConfiguration(ctx, bn, &storage.BucketVersioningConfiguration{Status: &en}); err != nil {
				o.Failf("harness: versioning: %v", err)
				return
			}
		}
		for j, k := range c.Keys {
			ok, err := storage.NewObjectKey(k)
			if err != nil {
				continue
			}
			if _, err := st.PutObject(ctx, bn, ok, nil, strings.NewReader(fmt.Sprintf("data-%d-%d", i, j)), nil, nil); err != nil {
				o.Failf("harness: fixture put %q: %v", k, err)
				return
			}
		}
		idx := "index.html"
		_ = st.PutBucketWebsiteConfiguration(ctx, bn, &storage.WebsiteConfiguration{IndexDocumentSuffix: idx})
		_ = st.PutBucketCORSConfiguration(ctx, bn, &storage.BucketCORSConfiguration{Rules: []storage.CORSRule{{AllowedOrigins: []string{"*"}, AllowedMethods: []string{"GET", "PUT", "DELETE"}}}})
	}
	if len(c.Keys) > 0 {
		bn, _ := storage.NewBucketName(c.Buckets[0])
		if ok, err := storage.NewObjectKey(c.Keys[0]); err == nil {
			if up, err := st.CreateMultipartUpload(ctx, bn, ok, nil, nil, nil); err == nil {
				w.upload = up.UploadId.String()
				_, _ = st.UploadPart(ctx, bn, ok, up.UploadId, 1, strings.NewReader("part-one"), nil)
			}
		}
	}
	if w.upload == "" {
		w.upload = "01ARZ3NDEKTSV4RRFFQ69G5FAV"
	}
	names := append(append([]string{}, c.Buckets...), "missing-bucket")

	// ---- part 1: pairs ------------------------------------------------------------------------
	w.fr.on = true
	nontrivial := false
	for pi, p := range c.Pairs {
		shape, ok := ops[p.Op]
		if !ok || p.Bucket < 0 || p.Bucket > 2 {
			o.Failf("harness: malformed pair %d", pi)
			return
		}
		key := p.Key
		if !shape.object {
			key = ""
		} else if key == "" {
			continue
		}
		bucket := names[p.Bucket]
		q := strings.ReplaceAll(shape.query, "UPLOAD", w.upload)
		hdr := map[string]string{}
		for k, v := range shape.hdr {
			if v == "COPYSRC" {
				src := "k"
				if len(c.Keys) > 0 {
					src = c.Keys[len(c.Keys)-1]
				}
				v = "/" + c.Buckets[0] + "/" + encodeKey(src, "min")
			}
			hdr[k] = v
		}
		if p.Origin {
			hdr["Origin"] = "http://app.example"
		}
		body := shape.body
		if body == "DELKEYS" {
			var b bytes.Buffer
			b.WriteString("<Delete>")
			for _, k := range c.Keys {
				fmt.Fprintf(&b, "<Object><Key>%s</Key></Object>", xmlEscape(k))
			}
			b.WriteString("</Delete>")
			body = b.String()
		}
		enc := encodeKey(key, p.Enc)
		pathStyle := "/" + bucket
		vhost := "/"
		if shape.object {
			pathStyle += "/" + enc
			vhost += enc
		}
		if q != "" {
			pathStyle += "?" + q
			vhost += "?" + q
		}
		// the request line must survive parsing identically; skip inputs net/http refuses
		if _, err := url.ParseRequestURI(pathStyle); err != nil {
			continue
		}
		if _, err := url.ParseRequestURI(vhost); err != nil {
			continue
		}
		s1, c1, a1, _ := w.serve(w.api+p.Port, pathStyle, shape.method, hdr, body)
		s2, c2, a2, _ := w.serve(bucket+"."+recase(w.api, p.HostCase)+p.Port, vhost, shape.method, hdr, body)
		o.Sub++
		if p.HostCase != "" && recase(w.api, p.HostCase) != w.api {
			o.Class("pair:endpoint-in-other-letter-case")
			nontrivial = true
			same := strings.Join(sigs(c1), "\n") == strings.Join(sigs(c2), "\n") && strings.Join(a1, "\n") == strings.Join(a2, "\n")
			mutates := ""
			for _, cl := range c2 {
				if mutating[cl.Method] {
					mutates = cl.Method
				}
			}
			if !same && mutates != "" {
				o.Failf("pair %d (%s %s key %q): Host %q (endpoint in another letter case) is neither handled like the path-style request nor refused without a state change: it reached %s.\n path-style %s%s -> status %d\n  storage:\n   %s\n virtual-hosted %s -> status %d\n  storage:\n   %s",
					pi, p.Op, bucket, key, bucket+"."+recase(w.api, p.HostCase)+p.Port, mutates, w.api+p.Port, pathStyle, s1, strings.Join(sigs(c1), "\n   "), vhost, s2, strings.Join(sigs(c2), "\n   "))
				return
			}
			continue
		}
		o.Class("op:" + p.Op)
		o.Class("enc:" + p.Enc)
		for _, cl := range keyClass(key) {
			o.Class(cl)
		}
		if strings.HasSuffix(key, "/") || strings.HasPrefix(key, "/") || strings.Contains(key, "//") || p.Enc != "min" || strings.ContainsAny(key, "%+?#") {
			nontrivial = true
		}
		if len(c1) > 0 {
			o.Class("pair:reached-storage")
		}
		g1, g2 := strings.Join(sigs(c1), "\n"), strings.Join(sigs(c2), "\n")
		v1, v2 := strings.Join(a1, "\n"), strings.Join(a2, "\n")
		if g1 != g2 || v1 != v2 {
			// KF-C33-1 (DESIGN D10): the virtual-host rewrite trims the trailing "/" of the
			// whole path, so a key ending in "/" loses it (a key "/" or "d//" loses one "/").
			if shape.object && strings.HasSuffix(key, "/") && env.Known("c33.vhostTrimsTrailingSlash") {
				o.KnownHits = append(o.KnownHits, "KF-C33-1")
				o.Class("known:KF-C33-1")
				continue
			}
			// KF-C33-3: the rewrite changes URL.Path but leaves URL.RawPath stale, so the
			// raw encoding of a virtual-hosted request is lost before routing: a key with an
			// empty or dot segment that is hidden by percent-encoding ("a%2F%2Fb", "%2E") reaches the
			// storage path-style but is "cleaned" (3xx redirect, no storage call) virtual-hosted.
			if shape.object && p.Enc != "min" && hasOddSegment(key) && onlyCORSLookups(c2) && len(a2) == 0 && s2/100 == 3 && env.Known("c33.vhostDropsRawPath") {
				o.KnownHits = append(o.KnownHits, "KF-C33-3")
				o.Class("known:KF-C33-3")
				continue
			}
			o.Failf("pair %d (%s %s key %q enc %s): path-style and virtual-hosted requests differ at the storage / authorizer.\n path-style %s%s -> status %d\n  authorizer: %s\n  storage:\n   %s\n virtual-hosted %s%s -> status %d\n  authorizer: %s\n  storage:\n   %s",
				pi, p.Op, bucket, key, p.Enc, w.api+p.Port, pathStyle, s1, v1, strings.ReplaceAll(g1, "\n", "\n   "), bucket+"."+w.api+p.Port, vhost, s2, v2, strings.ReplaceAll(g2, "\n", "\n   "))
			return
		}
		if s1 != s2 {
			o.Class("pair:status-differs-with-equal-calls")
		}
	}
	w.fr.on = false

	// ---- part 2: website endpoint / custom domains never change state -----------------------------
	if len(c.Web) > 0 {
		before, err := dump.Of(ctx, st, dump.Options{Versions: true})
		if err != nil {
			o.Failf("harness: dump: %v", err)
			return
		}
		cfgBefore := cfgDump(ctx, st, c.Buckets)
		for wi, r := range c.Web {
			if r.Bucket < 0 || r.Bucket > 2 {
				continue
			}
			bucket := names[r.Bucket]
			var host string
			switch r.HostKind {
			case "site":
				host = bucket + "." + w.web
			case "custom":
				host = bucket
			default:
				host = "www.unrelated.example"
			}
			target := r.Path
			if r.Query != "" {
				target += "?" + strings.ReplaceAll(r.Query, "UPLOAD", w.upload)
			}
			if _, err := url.ParseRequestURI(target); err != nil {
				continue
			}
			hdr := map[string]string{}
			if r.Copy && len(c.Keys) > 0 {
				hdr["x-amz-copy-source"] = "/" + c.Buckets[0] + "/" + encodeKey(c.Keys[0], "min")
			}
			status, calls, _, _ := w.serve(host+r.Port, target, r.Method, hdr, r.Body)
			o.Sub++
			o.Class("web:" + r.HostKind + ":" + r.Method)
			o.Class(fmt.Sprintf("web:status-%dxx", status/100))
			mut := ""
			for _, cl := range calls {
				if recstore.Mutating(cl.Method) {
					mut = cl.Sig() + " err=" + cl.Err
					break
				}
			}
			if mut == "" {
				continue
			}
			o.Class("web:mutating-call-recorded")
			after, err := dump.Of(ctx, st, dump.Options{Versions: true})
			if err != nil {
				o.Failf("harness: dump: %v", err)
				return
			}
			cfgAfter := cfgDump(ctx, st, c.Buckets)
			diff := dump.Diff(before, after)
			if diff == nil && cfgAfter == cfgBefore {
				continue // the call failed: no state change
			}
			// KF-C33-2: host routing tests the API suffix first; when the website domain
			// lies below the API domain (the default settings) <bucket>.<website domain>
			// is served by the read-write API as virtual-hosted bucket "<bucket>.<label>".
			if r.HostKind == "site" && strings.HasSuffix(w.web, "."+w.api) && env.Known("c33.websiteHostShadowedByAPI") {
				o.KnownHits = append(o.KnownHits, "KF-C33-2")
				o.Excluded = true
				return
			}
			o.Failf("web request %d changed state: %s %s%s -> status %d; storage call %s; state diff %v cfg before %q after %q", wi, r.Method, host+r.Port, target, status, mut, diff, cfgBefore, cfgAfter)
			return
		}
	}
	o.NonTrivial = nontrivial
	return
}

// hasOddSegment: the key has an empty, "." or ".." path segment (what net/http's
// path cleaning rewrites).
func hasOddSegment(key string) bool {
	for _, seg := range strings.Split("/"+key, "/")[1:] {
		if seg == "" || seg == "." || seg == ".." {
			if seg == "" && strings.HasSuffix(key, "/") && !strings.Contains(strings.TrimSuffix(key, "/"), "//") && !strings.HasPrefix(key, "/") {
				continue // only the trailing slash
			}
			return true
		}
	}
	return false
}

func onlyCORSLookups(calls []recstore.Call) bool {
	for _, c := range calls {
		if c.Method != "GetBucketCORSConfiguration" {
			return false
		}
	}
	return true
}

func xmlEscape(s string) string {
	var b bytes.Buffer
	for _, r := range s {
		switch r {
		case '<':
			b.WriteString("&lt;")
		case '>':
			b.WriteString("&gt;")
		case '&':
			b.WriteString("&amp;")
		default:
			b.WriteRune(r)
		}
	}
	return b.String()
}

// ---- generator -----------------------------------------------------------------------------------

var keyPool = []string{"k", "dir/", "dir/sub/", "dir/sub/file.txt", "a//b", "a//", "/lead", "a b", "é", "%41", "100%", "x+y", "a?b", "a#b", "~tilde", "dot.", "a%2Fb",
	"a\\b", "*", "a&b=c", ";semi", "a:b", "@", "trailing-space ", "ünï/cödé/", "index.html", "d/index.html", "/", "d/e/f/g/", "%", "a%zz", "%2f", "-", "_", "a/b/c"}

var bucketPool = []string{"abc", "my-bucket", "my.bucket", "a.b.c", "bucket-0", "0bucket", "data.v1.prod", "xyz", "www.site.example", "logs", "a-b.c-d", "s3x", "localhost-data"}

func genKey(t *rapid.T, label string) string {
	if rapid.IntRange(0, 9).Draw(t, label+"pool") < 7 {
		return rapid.SampledFrom(keyPool).Draw(t, label)
	}
	parts := rapid.SliceOfN(rapid.SampledFrom([]string{"a", "b", "/", "//", " ", "%", "é", ".", "+", "x1", "%2F", "?", "#"}), 1, 5).Draw(t, label+"parts")
	return strings.Join(parts, "")
}

func genCase(t *rapid.T, env *ev.Env) Case {
	c := Case{}
	c.Endpoints = rapid.IntRange(0, len(endpointConfigs)-1).Draw(t, "endpoints")
	b0 := rapid.SampledFrom(bucketPool).Draw(t, "b0")
	b1 := rapid.SampledFrom(bucketPool).Draw(t, "b1")
	web := endpointConfigs[c.Endpoints][1]
	api := endpointConfigs[c.Endpoints][0]
	if strings.HasSuffix(web, "."+api) && rapid.IntRange(0, 3).Draw(t, "shadow") > 0 {
		// a valid bucket name that makes "<b0>.<website domain>" also the API's
		// virtual-hosted name of an existing bucket
		b1 = b0 + "." + strings.TrimSuffix(web, "."+api)
	}
	if b1 == b0 {
		b1 = b0 + "-2"
	}
	c.Buckets = []string{b0, b1}
	c.Versioned = rapid.Bool().Draw(t, "versioned")
	nk := rapid.IntRange(1, 4).Draw(t, "nkeys")
	seen := map[string]bool{}
	for i := 0; i < nk; i++ {
		k := genKey(t, "fk")
		if !seen[k] && k != "" {
			seen[k] = true
			c.Keys = append(c.Keys, k)
		}
	}
	np := rapid.IntRange(4, 12).Draw(t, "npairs")
	for i := 0; i < np; i++ {
		p := Pair{}
		p.Bucket = rapid.SampledFrom([]int{0, 0, 0, 1, 2}).Draw(t, "pb")
		if rapid.IntRange(0, 9).Draw(t, "lvl") < 7 {
			p.Op = rapid.SampledFrom(objectOps).Draw(t, "oop")
			if rapid.IntRange(0, 9).Draw(t, "fixtureKey") < 6 {
				p.Key = rapid.SampledFrom(c.Keys).Draw(t, "pk")
			} else {
				p.Key = genKey(t, "pk")
			}
			p.Enc = rapid.SampledFrom([]string{"min", "min", "all", "slash", "lower"}).Draw(t, "enc")
		} else {
			p.Op = rapid.SampledFrom(bucketOps).Draw(t, "bop")
			p.Enc = "min"
		}
		p.Port = rapid.SampledFrom([]string{"", "", ":9000", ":80"}).Draw(t, "port")
		p.Origin = rapid.IntRange(0, 5).Draw(t, "origin") == 3
		if rapid.IntRange(0, 5).Draw(t, "hostCase") == 2 {
			p.HostCase = rapid.SampledFrom([]string{"upper", "mixed"}).Draw(t, "hostCaseKind")
		}
		c.Pairs = append(c.Pairs, p)
	}
	nw := rapid.IntRange(0, 5).Draw(t, "nweb")
	for i := 0; i < nw; i++ {
		r := WebReq{}
		r.HostKind = rapid.SampledFrom([]string{"site", "site", "site", "custom", "unknown"}).Draw(t, "hk")
		r.Bucket = rapid.SampledFrom([]int{0, 0, 1, 2}).Draw(t, "wb")
		r.Port = rapid.SampledFrom([]string{"", ":8080"}).Draw(t, "wport")
		r.Method = rapid.SampledFrom([]string{"PUT", "DELETE", "POST", "GET", "HEAD", "PATCH", "OPTIONS"}).Draw(t, "wm")
		k := rapid.SampledFrom(append([]string{"", "new-key", "dir/"}, c.Keys...)).Draw(t, "wk")
		r.Path = "/" + encodeKey(k, "min")
		r.Query = rapid.SampledFrom([]string{"", "", "tagging", "uploads", "delete", "cors", "versioning", "website", "append", "uploadId=UPLOAD", "partNumber=1&uploadId=UPLOAD", "lifecycle", "versionId=null"}).Draw(t, "wq")
		r.Copy = rapid.IntRange(0, 5).Draw(t, "wcopy") == 2
		switch r.Query {
		case "tagging":
			r.Body = taggingXML
		case "cors":
			r.Body = corsXML
		case "versioning":
			r.Body = versioningXML
		case "website":
			r.Body = websiteXML
		case "lifecycle":
			r.Body = lifecycleXML
		case "delete":
			r.Body = "<Delete><Object><Key>" + xmlEscape(k) + "</Key></Object></Delete>"
		default:
			if r.Method == "PUT" || r.Method == "POST" {
				r.Body = "web-body"
			}
		}
		c.Web = append(c.Web, r)
	}
	return c
}

func directed(env *ev.Env) []Case {
	var cs []Case
	for e := range endpointConfigs {
		c := Case{Endpoints: e, Buckets: []string{"my.bucket", "abc"}, Keys: []string{"dir/", "k", "a b/é"}, Versioned: e%2 == 0}
		for _, k := range []string{"k", "a b/é", "dir/", "dir/new/"} {
			for _, op := range []string{"get", "put", "delete", "copy", "put-tagging"} {
				c.Pairs = append(c.Pairs, Pair{Bucket: 0, Key: k, Enc: "min", Op: op})
			}
		}
		for _, op := range bucketOps {
			c.Pairs = append(c.Pairs, Pair{Bucket: 0, Op: op, Enc: "min"})
		}
		for _, m := range []string{"PUT", "DELETE", "POST", "GET"} {
			c.Web = append(c.Web, WebReq{HostKind: "site", Bucket: 0, Method: m, Path: "/k", Body: "x"}, WebReq{HostKind: "custom", Bucket: 0, Method: m, Path: "/k", Body: "x"})
		}
		cs = append(cs, c)
	}
	return cs
}

func TestC33(t *testing.T) {
	for _, b := range bucketPool {
		if _, err := storage.NewBucketName(b); err != nil {
			t.Fatalf("pool: %q is not a valid bucket name: %v", b, err)
		}
	}
	ev.Main(t, ev.Spec[Case]{
		ID:    "C33",
		Level: "exploration",
		Rule: "a case is one endpoint configuration + fixture (2 buckets, 1-4 keys, optional versioning) + 4-12 request pairs (bucket x key x percent-encoding x operation shape, each sent path-style and virtual-hosted) + 0-5 website / custom-domain requests; " +
			"non-trivial when some pair's key has '/' at an end, contains '//', a reserved character (% + ? #) or is sent with a non-minimal percent-encoding; distinct = distinct case JSON",
		Assumptions: []string{
			"during the pair phase mutating storage methods are intercepted (recorded, canned success if the bucket exists) so both requests of a pair see the same state; what is compared is what the storage layer and the authorizer receive",
			"website / custom-domain requests run against the real storage; state = dump.Of (objects, versions, uploads, versioning) + CORS / website / lifecycle / notification configurations read through the storage API",
			"in-process httptest requests (Host header set explicitly); no sockets, no SigV4",
		},
		Gen:      genCase,
		Run:      run,
		Directed: directed,
	})
}

var _ = http.MethodGet
