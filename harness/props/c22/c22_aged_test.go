package c22

// Aged entries: the backoff bound of C22 ("exponential backoff bounded by the configured limits") quantifies
// over failure sequences of any length; with unlimited retries (MaxAttempts <= 0, the default) an entry can
// have failed dozens of times. Waiting through such a sequence is not possible in a test, so the harness
// ages one committed entry (UPDATE attempts) and lets the real dispatcher handle one more failure:
// the delay it hands to ReleaseClaim must be min(MinBackoff*2^(k-1), MaxBackoff) for the k-th failure, for
// every k (seeded defect S-C22-2: integer-shift overflow from k = 35 on with the default 1 s / 300 s).

import (
	"context"
	"database/sql"
	"fmt"
	"os"
	"strings"
	"time"

	"github.com/jdillenkofer/pithos/internal/storage"
	"github.com/jdillenkofer/pithos/internal/storage/database"
	"github.com/jdillenkofer/pithos/internal/storage/notification"
	"github.com/jdillenkofer/pithos/verifharness/ev"
	"github.com/jdillenkofer/pithos/verifharness/stacks"
	"github.com/prometheus/client_golang/prometheus"
	"pgregory.net/rapid"
)

// Aged is the sub-case "one entry that already failed Failed times fails once more".
type Aged struct {
	Failed       int `json:"failed"`       // failures recorded before the observed one (the observed one is number Failed+1)
	MinBackoffMs int `json:"minBackoffMs"` // 1000/300000 are pithos' defaults
	MaxBackoffMs int `json:"maxBackoffMs"`
	// MaxAttempts: 0 = unlimited (default); otherwise above Failed+1 so the entry is released, not dead-lettered
	MaxAttempts int `json:"maxAttempts"`
}

func genAged(t *rapid.T) *Aged {
	a := &Aged{}
	// boundaries of int64-nanosecond shifts for the usual minima plus a uniform draw
	a.Failed = rapid.OneOf(rapid.IntRange(0, 200), rapid.SampledFrom([]int{0, 1, 8, 9, 30, 33, 34, 35, 43, 44, 45, 53, 54, 55, 62, 63, 64, 65, 127, 128, 1000})).Draw(t, "agedFailed")
	mm := rapid.SampledFrom([][2]int{{1000, 300000}, {1000, 300000}, {1, 16}, {1, 1000}, {250, 60000}, {1, 3600000}, {7, 7}}).Draw(t, "agedBackoff")
	a.MinBackoffMs, a.MaxBackoffMs = mm[0], mm[1]
	if rapid.IntRange(0, 3).Draw(t, "agedLimited") == 0 {
		a.MaxAttempts = a.Failed + 1 + rapid.IntRange(1, 3).Draw(t, "agedHeadroom")
	}
	return a
}

func wantBackoff(min, max time.Duration, k int) time.Duration {
	d := min
	for i := 1; i < k; i++ {
		d *= 2
		if d >= max || d <= 0 {
			return max
		}
	}
	if d > max {
		return max
	}
	return d
}

func runAged(env *ev.Env, c Case) (o ev.Outcome) {
	a := c.Aged
	if a.Failed < 0 || a.Failed > 100000 || a.MinBackoffMs < 1 || a.MaxBackoffMs < a.MinBackoffMs || (a.MaxAttempts != 0 && a.MaxAttempts <= a.Failed+1) {
		o.Failf("harness: aged case outside the generated domain")
		return
	}
	stack := c.Stack
	if stack == "" {
		stack = "P2"
	}
	dir := env.TempDir()
	defer os.RemoveAll(dir)
	ctx := context.Background()
	inst, err := stacks.Open(dir, stacks.LayoutFor(stack), stacks.Options{})
	if err != nil {
		o.Failf("harness: open %s: %v", stack, err)
		return
	}
	defer inst.Close()
	rp := &repo{Repository: notification.NewSQLRepository(), releases: map[string][]time.Time{}, dead: map[string]int{}, deleted: map[string]int{}}
	pb := &publisher{plan: map[string]int{}, count: map[string]int{}}
	min, max := time.Duration(a.MinBackoffMs)*time.Millisecond, time.Duration(a.MaxBackoffMs)*time.Millisecond
	mw, err := notification.NewStorageMiddleware(inst.Storage, inst.DB, rp, pb, "verif", time.Minute,
		notification.DispatcherConfig{MaxAttempts: a.MaxAttempts, MinBackoff: min, MaxBackoff: max, Concurrency: 1, BatchSize: 1}, prometheus.NewRegistry())
	if err != nil {
		o.Failf("harness: NewStorageMiddleware: %v", err)
		return
	}
	b, k := storage.MustNewBucketName("bucket-a"), storage.MustNewObjectKey("a/b")
	if err := mw.CreateBucket(ctx, b); err != nil {
		o.Failf("harness: CreateBucket: %v", err)
		return
	}
	cfg := Config{Rules: []Rule{{Kind: "queue", Dest: 1, Events: []string{"s3:ObjectCreated:*"}}}}
	if err := mw.PutBucketNotificationConfiguration(ctx, b, toStorageConfig(cfg)); err != nil {
		o.Failf("harness: PutBucketNotificationConfiguration: %v", err)
		return
	}
	if _, err := mw.PutObject(ctx, b, k, nil, strings.NewReader("x"), nil, nil); err != nil {
		o.Failf("harness: PutObject: %v", err)
		return
	}
	rows, err := readRows(ctx, inst.DB)
	if err != nil || len(rows) != 1 {
		o.Failf("harness: expected one outbox row after the put, have %d (%v)", len(rows), err)
		return
	}
	var id string
	for id = range rows {
	}
	err = database.WithTx(ctx, inst.DB, &sql.TxOptions{}, func(ctx context.Context, tx database.Tx) error {
		_, err := tx.SqlTx().ExecContext(ctx, "UPDATE notification_outbox_entries SET attempts = $1 WHERE id = $2", a.Failed, id)
		return err
	})
	if err != nil {
		o.Failf("harness: ageing the entry: %v", err)
		return
	}
	pb.plan[id] = 1 // the observed attempt fails; a repeat would succeed (and show up as a second publish)
	e, claimed, err := mw.VerifClaim(ctx)
	if err != nil || !claimed {
		o.Failf("harness: the aged entry is not claimable (claimed=%v err=%v)", claimed, err)
		return
	}
	before := time.Now()
	mw.VerifDispatchEntry(ctx, e)
	after := time.Now()
	kth := a.Failed + 1
	o.Sub++
	o.NonTrivial = true
	o.Class("aged-entry")
	switch {
	case kth >= 35:
		o.Class("aged:35-or-more-failures")
	case kth >= 10:
		o.Class("aged:10-34-failures")
	default:
		o.Class("aged:under-10-failures")
	}
	rel := rp.releases[id]
	if rp.dead[id] > 0 || len(rel) != 1 {
		o.Failf("aged entry (failure %d, MaxAttempts %d): expected exactly one release with backoff, have %d releases, dead-lettered %d times, deleted %d times", kth, a.MaxAttempts, len(rel), rp.dead[id], rp.deleted[id])
		return
	}
	want := wantBackoff(min, max, kth)
	lo, hi := rel[0].Sub(after), rel[0].Sub(before)
	// the dispatcher reads the clock somewhere between before and after: delay ∈ [rel-after, rel-before]
	if hi < want || lo > want {
		o.Failf("aged entry: backoff after failure %d (MinBackoff %s, MaxBackoff %s, MaxAttempts %d) is between %s and %s, want min(MinBackoff*2^%d, MaxBackoff) = %s", kth, min, max, a.MaxAttempts, lo, hi, kth-1, want)
		return
	}
	rows, err = readRows(ctx, inst.DB)
	if err != nil {
		o.Failf("harness: %v", err)
		return
	}
	r, ok := rows[id]
	if !ok || r.Dead || r.Claimed || r.Attempts != kth || !r.Next.Equal(rel[0]) {
		o.Failf("aged entry after failure %d: row present=%v dead=%v claimed=%v attempts=%d next_attempt_at=%s (released with %s)", kth, ok, r.Dead, r.Claimed, r.Attempts, r.Next.UTC().Format(time.RFC3339Nano), rel[0].UTC().Format(time.RFC3339Nano))
		return
	}
	// a second round right away must not touch it (its next_attempt_at is in the future)
	if want > 50*time.Millisecond {
		mw.VerifDispatchAvailable(ctx)
		if n := pb.count[id]; n != 1 {
			o.Failf("aged entry after failure %d: published %d times within one backoff period of %s", kth, n, want)
			return
		}
	}
	_ = fmt.Sprint
	return
}
