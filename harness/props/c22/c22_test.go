// Package c22 checks C22: a notification outbox entry exists for a matching
// rule if and only if the object mutation that produced it committed; every
// such entry is delivered at least once, or dead-lettered after the configured
// number of failed attempts, with exponential backoff bounded by the
// configured limits.
//
// Setup: notification.NewStorageMiddleware over a real metadatapart storage and
// the SAME database (the documented atomic configuration), the real
// SQLRepository behind a recording / fault-injecting double, a scripted
// Publisher double, dispatcher rounds driven through the verif-tagged hook
// (VerifDispatchAvailable, or VerifClaim + VerifDispatchEntry).
//
// Faults: (1) the mutation fails semantically (generator: stale/if-none-match
// conditions, bad digests, bad manifests, missing bucket / key / source);
// (2) Repository.Save fails at the j-th insert of the mutation, enumerated
// j = 1, 2, ... per mutation, before or after the real insert ran;
// (3) the publisher fails the first K attempts of an entry, K cycling through
// 0..MaxAttempts.
package c22

import (
	"context"
	"database/sql"
	"encoding/json"
	"errors"
	"fmt"
	"net/url"
	"os"
	"sort"
	"strings"
	"sync"
	"testing"
	"time"

	"github.com/oklog/ulid/v2"
	"github.com/prometheus/client_golang/prometheus"

	"github.com/jdillenkofer/pithos/internal/storage"
	"github.com/jdillenkofer/pithos/internal/storage/database"
	"github.com/jdillenkofer/pithos/internal/storage/notification"
	"github.com/jdillenkofer/pithos/verifharness/dump"
	"github.com/jdillenkofer/pithos/verifharness/ev"
	"github.com/jdillenkofer/pithos/verifharness/gen"
	"github.com/jdillenkofer/pithos/verifharness/prog"
	"github.com/jdillenkofer/pithos/verifharness/run"
	"github.com/jdillenkofer/pithos/verifharness/stacks"
	"pgregory.net/rapid"
)

// ---- case ------------------------------------------------------------------------------------------

type Rule struct {
	Kind   string   `json:"kind"` // topic | queue | fn
	Dest   int      `json:"dest"` // index into dests
	Events []string `json:"events"`
	Prefix *string  `json:"prefix,omitempty"`
	Suffix *string  `json:"suffix,omitempty"`
}

type Config struct {
	Rules       []Rule `json:"rules,omitempty"`
	EventBridge bool   `json:"eventBridge,omitempty"`
}

// CfgChange puts a notification configuration on bucket B right before op index At.
type CfgChange struct {
	At  int    `json:"at"`
	B   int    `json:"b"`
	Cfg Config `json:"cfg"`
}

type Case struct {
	Stack string      `json:"stack"`
	Ops   []prog.Op   `json:"ops"` // kind "flush" = one dispatcher round at this point
	Cfgs  []CfgChange `json:"cfgs,omitempty"`
	// LC: indices of delete / transition ops that are issued the way the lifecycle reconciler issues them
	// (storage.WithNotificationEventOverride).
	LC []int `json:"lc,omitempty"`

	MaxAttempts  int `json:"maxAttempts"`
	MinBackoffMs int `json:"minBackoffMs"`
	MaxBackoffMs int `json:"maxBackoffMs"`
	Batch        int `json:"batch"`
	Conc         int `json:"conc"`

	// Fails[s % len]: number of leading publish attempts that fail for the s-th committed entry
	// (>= MaxAttempts: the entry must end dead-lettered).
	Fails []int `json:"fails,omitempty"`
	// SaveCap: Save-fault positions enumerated per wrapped mutation (1..SaveCap; 0 = none).
	SaveCap int `json:"saveCap,omitempty"`
	// SaveAfter: the failing Save performs the real insert first and then reports an error.
	SaveAfter bool `json:"saveAfter,omitempty"`
	// Stepped: dispatch with claim + dispatchEntry per entry instead of dispatchAvailable.
	Stepped bool `json:"stepped,omitempty"`
	// Aged: instead of a program, one entry that already failed many times fails once more (c22_aged_test.go).
	Aged *Aged `json:"aged,omitempty"`
}

var names = run.Names{
	Buckets: []string{"bucket-a", "bucket.b", "ghost"},
	Keys:    []string{"a/b", "logs/x.txt", "é %_.txt"},
}

var dests = []string{
	"arn:aws:sns:eu-central-1:000000000000:t1",
	"arn:aws:sqs:eu-central-1:000000000000:q1",
	"arn:aws:lambda:eu-central-1:000000000000:function:f1",
}

var eventPool = []string{
	"s3:ObjectCreated:*", "s3:ObjectCreated:Put", "s3:ObjectCreated:Copy", "s3:ObjectCreated:CompleteMultipartUpload", "s3:ObjectCreated:Post",
	"s3:ObjectRemoved:*", "s3:ObjectRemoved:Delete", "s3:ObjectRemoved:DeleteMarkerCreated",
	"s3:ObjectTagging:*", "s3:ObjectTagging:Put", "s3:ObjectTagging:Delete",
	"s3:LifecycleExpiration:*", "s3:LifecycleExpiration:Delete", "s3:LifecycleExpiration:DeleteMarkerCreated",
	"s3:LifecycleTransition", "s3:ObjectRestore:*",
}

// wildcards is the oracle's own table of what an S3 event-type wildcard covers
// (AWS "Supported event types"), independent of the string matching in RuleMatches.
var wildcards = map[string][]string{
	"s3:ObjectCreated:*":       {"s3:ObjectCreated:Put", "s3:ObjectCreated:Post", "s3:ObjectCreated:Copy", "s3:ObjectCreated:CompleteMultipartUpload"},
	"s3:ObjectRemoved:*":       {"s3:ObjectRemoved:Delete", "s3:ObjectRemoved:DeleteMarkerCreated"},
	"s3:ObjectTagging:*":       {"s3:ObjectTagging:Put", "s3:ObjectTagging:Delete"},
	"s3:LifecycleExpiration:*": {"s3:LifecycleExpiration:Delete", "s3:LifecycleExpiration:DeleteMarkerCreated"},
	"s3:ObjectRestore:*":       {"s3:ObjectRestore:Post", "s3:ObjectRestore:Completed", "s3:ObjectRestore:Delete"},
}

var (
	prefixPool = []string{"a", "a/", "logs/", "log", "A", "", "é"}
	suffixPool = []string{".txt", "b", "TXT", "", "_.txt"}
)

func sp(s string) *string { return &s }

func genRule(t *rapid.T) Rule {
	r := Rule{
		Kind: rapid.SampledFrom([]string{"topic", "queue", "fn"}).Draw(t, "ruleKind"),
		Dest: rapid.IntRange(0, len(dests)-1).Draw(t, "dest"),
	}
	n := rapid.IntRange(1, 3).Draw(t, "nEvents")
	for i := 0; i < n; i++ {
		// two thirds of the draws are wildcards over the three families the generated ops produce
		if rapid.IntRange(0, 2).Draw(t, "wild") > 0 {
			r.Events = append(r.Events, rapid.SampledFrom([]string{"s3:ObjectCreated:*", "s3:ObjectRemoved:*", "s3:ObjectTagging:*"}).Draw(t, "wev"))
		} else {
			r.Events = append(r.Events, rapid.SampledFrom(eventPool).Draw(t, "ev"))
		}
	}
	switch rapid.IntRange(0, 4).Draw(t, "filter") {
	case 0:
		r.Prefix = sp(rapid.SampledFrom(prefixPool).Draw(t, "prefix"))
	case 1:
		r.Suffix = sp(rapid.SampledFrom(suffixPool).Draw(t, "suffix"))
	case 2:
		r.Prefix = sp(rapid.SampledFrom(prefixPool).Draw(t, "prefix"))
		r.Suffix = sp(rapid.SampledFrom(suffixPool).Draw(t, "suffix"))
	}
	return r
}

func genConfig(t *rapid.T) Config {
	var c Config
	n := rapid.IntRange(0, 3).Draw(t, "nRules")
	for i := 0; i < n; i++ {
		c.Rules = append(c.Rules, genRule(t))
	}
	c.EventBridge = rapid.IntRange(0, 4).Draw(t, "eventBridge") == 0
	return c
}

func genCase(t *rapid.T, env *ev.Env) Case {
	var c Case
	c.Stack = rapid.SampledFrom([]string{"P2", "P1"}).Draw(t, "stack")
	if rapid.IntRange(0, 5).Draw(t, "aged") == 4 {
		c.Aged = genAged(t)
		return c
	}
	maxOps := 16
	if env.Thorough() {
		maxOps = 30
	}
	cfg := prog.GenConfig{
		Buckets: 2, Keys: 3, MinOps: 4, MaxOps: maxOps,
		Weights: map[string]int{
			prog.OpPut: 12, prog.OpCopy: 5, prog.OpMpuSeq: 3, prog.OpDelete: 5, prog.OpDeleteObjects: 3,
			prog.OpPutTags: 5, prog.OpDeleteTags: 2, prog.OpTransition: 2, prog.OpSetVersioning: 4,
			prog.OpCreateBucket: 1, prog.OpFlush: 5,
		},
		Classes:    []string{"STANDARD", "GLACIER"},
		Conditions: true, Tags: true, Supplied: true, Versions: true, Manifests: true,
		MaxBody: 2000,
		Prelude: []prog.Op{{Kind: prog.OpCreateBucket, B: 0}, {Kind: prog.OpCreateBucket, B: 1}},
	}
	// the first ops after the bucket creation (index 2.., i.e. after the initial configurations are set):
	// optionally a versioning state for bucket 0, then two puts so that later copies / tagging / deletes find objects
	switch rapid.IntRange(0, 3).Draw(t, "preVersioning") {
	case 1, 2:
		cfg.Prelude = append(cfg.Prelude, prog.Op{Kind: prog.OpSetVersioning, B: 0, Status: "Enabled"})
	case 3:
		cfg.Prelude = append(cfg.Prelude, prog.Op{Kind: prog.OpSetVersioning, B: 0, Status: "Suspended"})
	}
	cfg.Prelude = append(cfg.Prelude,
		prog.Op{Kind: prog.OpPut, B: 0, K: rapid.IntRange(0, 2).Draw(t, "preKey0"), Body: &gen.BodySpec{Kind: "rand", Len: 5, Seed: 1}},
		prog.Op{Kind: prog.OpPut, B: 1, K: rapid.IntRange(0, 2).Draw(t, "preKey1"), Body: &gen.BodySpec{Kind: "rand", Len: 1024, Seed: 0}})
	c.Ops = cfg.Gen(t)
	// a fifth of the plain deletes are followed by a delete of the then-current version of the same key
	// (in a versioned bucket: the permanent delete of the delete marker just created)
	var ops []prog.Op
	for _, op := range c.Ops {
		ops = append(ops, op)
		if op.Kind == prog.OpDelete && op.Ver == "" && rapid.IntRange(0, 4).Draw(t, "thenDeleteCurrent") == 2 {
			ops = append(ops, prog.Op{Kind: prog.OpDelete, B: op.B, K: op.K, Ver: "cur"})
		}
	}
	c.Ops = ops
	for i := range c.Ops {
		// entries of one multi-delete depend on each other when they name the same key (the oracle treats the
		// later ones as don't-cares): keep such requests, but only in a quarter of the multi-deletes
		if c.Ops[i].Kind == prog.OpDeleteObjects && rapid.IntRange(0, 3).Draw(t, "allowRepeatedKeys") != 1 {
			seen := map[int]bool{}
			var es []prog.DelSpec
			for _, e := range c.Ops[i].Entries {
				if !seen[e.K] {
					seen[e.K] = true
					es = append(es, e)
				}
			}
			c.Ops[i].Entries = es
		}
	}
	for i := range c.Ops {
		// version references mostly name versions that do not exist; keep a third of them
		switch c.Ops[i].Kind {
		case prog.OpPutTags, prog.OpDeleteTags, prog.OpTransition:
			if c.Ops[i].Ver != "" && rapid.IntRange(0, 2).Draw(t, "keepVer") > 0 {
				c.Ops[i].Ver = ""
			}
		case prog.OpCopy:
			if c.Ops[i].SrcVer != "" && rapid.IntRange(0, 2).Draw(t, "keepSrcVer") > 0 {
				c.Ops[i].SrcVer = ""
			}
		}
	}
	for i := range c.Ops {
		// a twelfth of the ops address the bucket the prelude does not create (missing-bucket failures)
		if i >= 2 && rapid.IntRange(0, 11).Draw(t, "ghost") == 5 {
			c.Ops[i].B = 2
		}
	}
	for i, op := range c.Ops {
		if (op.Kind == prog.OpDelete || op.Kind == prog.OpTransition) && rapid.IntRange(0, 2).Draw(t, "lc") == 0 {
			c.LC = append(c.LC, i)
		}
	}
	// initial configurations right after the prelude, then a few changes in mid-program
	for b := 0; b < 2; b++ {
		if rapid.IntRange(0, 5).Draw(t, "initialCfg") > 0 {
			cc := genConfig(t)
			if len(cc.Rules) == 0 {
				cc.Rules = append(cc.Rules, genRule(t))
			}
			c.Cfgs = append(c.Cfgs, CfgChange{At: 2, B: b, Cfg: cc})
		}
	}
	for i, n := 0, rapid.IntRange(0, 2).Draw(t, "nCfgChanges"); i < n; i++ {
		c.Cfgs = append(c.Cfgs, CfgChange{At: rapid.IntRange(3, len(c.Ops)).Draw(t, "cfgAt"), B: rapid.SampledFrom([]int{0, 0, 0, 1, 1, 1, 2}).Draw(t, "cfgB"), Cfg: genConfig(t)})
	}
	c.MaxAttempts = rapid.IntRange(1, 4).Draw(t, "maxAttempts")
	c.MinBackoffMs = rapid.SampledFrom([]int{1, 2, 4, 8, 16}).Draw(t, "minBackoff")
	c.MaxBackoffMs = c.MinBackoffMs * rapid.SampledFrom([]int{1, 2, 4, 16}).Draw(t, "maxBackoffFactor")
	if c.MaxBackoffMs > 16 {
		c.MaxBackoffMs = 16
	}
	c.Batch = rapid.IntRange(1, 4).Draw(t, "batch")
	c.Conc = rapid.IntRange(1, 3).Draw(t, "conc")
	// the publisher script cycles through every failure-sequence length 0..MaxAttempts, starting at a drawn offset
	rot := rapid.IntRange(0, c.MaxAttempts).Draw(t, "failRot")
	for i := 0; i <= c.MaxAttempts; i++ {
		c.Fails = append(c.Fails, (rot+i)%(c.MaxAttempts+1))
	}
	if rapid.IntRange(0, 5).Draw(t, "noPublishFaults") == 0 {
		c.Fails = []int{0}
	}
	switch rapid.IntRange(0, 3).Draw(t, "saveFaults") {
	case 0:
		c.SaveCap = 0
	default:
		c.SaveCap = rapid.IntRange(1, 3).Draw(t, "saveCap")
		if env.Thorough() {
			c.SaveCap = 16
		}
	}
	c.SaveAfter = rapid.Bool().Draw(t, "saveAfter")
	c.Stepped = rapid.IntRange(0, 2).Draw(t, "stepped") == 0
	return c
}

// ---- oracle: which rows must a committed event produce -------------------------------------------------

type wantEvent struct {
	Name, Bucket, Key string
	// AltName: the event name pithos is known to use instead (KF-C22-1: the permanent delete of a version that
	// is a delete marker is reported as "...DeleteMarkerCreated"); consulted only when the matcher is enabled.
	AltName string
	// Repeat: an earlier entry of the same multi-delete request names the same key.
	Repeat bool
	// Optional: the successful call changed nothing (delete of an absent key / version). The
	// property speaks of mutations; whether a no-op produces an event is a don't-care.
	Optional bool
}

// eventMatches is the oracle's rule semantics: exact event name or a documented
// wildcard family; prefix and suffix are exact, case-sensitive comparisons on the key.
func eventMatches(r Rule, name, key string) (ok bool, why string) {
	hit, viaWildcard := false, false
	for _, e := range r.Events {
		if e == name {
			hit = true
		}
		for _, n := range wildcards[e] {
			if n == name {
				hit, viaWildcard = true, true
			}
		}
	}
	if !hit {
		return false, "event"
	}
	if r.Prefix != nil && !strings.HasPrefix(key, *r.Prefix) {
		return false, "filter"
	}
	if r.Suffix != nil && !strings.HasSuffix(key, *r.Suffix) {
		return false, "filter"
	}
	if viaWildcard {
		return true, "wildcard"
	}
	return true, "exact"
}

// ruleSetDistinguishes: the configuration produces different rows for the two event names.
func ruleSetDistinguishes(cfg Config, a, b, key string) bool {
	if cfg.EventBridge {
		return true
	}
	for _, r := range cfg.Rules {
		x, _ := eventMatches(r, a, key)
		y, _ := eventMatches(r, b, key)
		if x != y {
			return true
		}
	}
	return false
}

func rowKey(dest, event, bucket, key string) string {
	return dest + " | " + event + " | " + bucket + "/" + key
}

func toStorageConfig(c Config) *storage.BucketNotificationConfiguration {
	out := &storage.BucketNotificationConfiguration{EventBridgeEnabled: c.EventBridge}
	for i, r := range c.Rules {
		id := fmt.Sprintf("rule-%d", i)
		sr := storage.NotificationConfigurationRule{ID: &id, DestinationARN: dests[r.Dest%len(dests)], Events: append([]string(nil), r.Events...)}
		if r.Prefix != nil {
			sr.FilterRules = append(sr.FilterRules, storage.NotificationFilterRule{Name: "prefix", Value: *r.Prefix})
		}
		if r.Suffix != nil {
			sr.FilterRules = append(sr.FilterRules, storage.NotificationFilterRule{Name: "suffix", Value: *r.Suffix})
		}
		switch r.Kind {
		case "topic":
			sr.DestinationType = storage.NotificationDestinationTopic
			out.TopicConfigurations = append(out.TopicConfigurations, sr)
		case "queue":
			sr.DestinationType = storage.NotificationDestinationQueue
			out.QueueConfigurations = append(out.QueueConfigurations, sr)
		default:
			sr.DestinationType = storage.NotificationDestinationCloudFunction
			out.CloudFunctionConfigurations = append(out.CloudFunctionConfigurations, sr)
		}
	}
	return out
}

// ---- test doubles ------------------------------------------------------------------------------------

var errScripted = errors.New("verif: scripted publish failure")
var errSave = errors.New("verif: injected outbox insert failure")

type pubRec struct {
	id          string
	start, end  time.Time
	fail        bool
	dest, event string
}

// publisher accepts the synchronous s3:TestEvent of PutBucketNotificationConfiguration and applies
// the failure script to real (claimed) entries only.
type publisher struct {
	mu    sync.Mutex
	plan  map[string]int // id -> number of leading failures
	count map[string]int
	recs  []pubRec
	tests int
	odd   []string
}

func (p *publisher) Validate(ctx context.Context, arn string, destination notification.Destination) error {
	return nil
}

func (p *publisher) Publish(ctx context.Context, e *notification.OutboxEntry) error {
	start := time.Now()
	p.mu.Lock()
	defer p.mu.Unlock()
	if e.ID == nil {
		if e.EventName == notification.EventTestEvent {
			p.tests++
		} else {
			p.odd = append(p.odd, "entry without id: "+e.EventName+" -> "+e.DestinationARN)
		}
		return nil
	}
	id := e.ID.String()
	k, known := p.plan[id]
	n := p.count[id]
	p.count[id]++
	fail := known && n < k
	p.recs = append(p.recs, pubRec{id: id, start: start, end: time.Now(), fail: fail, dest: e.DestinationARN, event: e.EventName})
	if fail {
		return errScripted
	}
	return nil
}

// repo forwards to the real SQLRepository; Save can be armed to fail at its j-th call, and the
// arguments of ReleaseClaim / DeadLetter / DeleteByClaimOwner are recorded.
type repo struct {
	notification.Repository
	mu        sync.Mutex
	failAt    int
	saveAfter bool
	saves     int
	fired     bool
	savedIDs  []string
	releases  map[string][]time.Time
	dead      map[string]int
	deleted   map[string]int
}

func (r *repo) arm(j int, after bool) {
	r.mu.Lock()
	r.failAt, r.saveAfter, r.saves, r.fired, r.savedIDs = j, after, 0, false, nil
	r.mu.Unlock()
}

func (r *repo) disarm() (fired bool, ids []string) {
	r.mu.Lock()
	defer r.mu.Unlock()
	fired, ids = r.fired, r.savedIDs
	r.failAt, r.saves, r.fired, r.savedIDs = 0, 0, false, nil
	return
}

func (r *repo) Save(ctx context.Context, tx *sql.Tx, outboxID string, entry *notification.OutboxEntry) error {
	r.mu.Lock()
	r.saves++
	hit := r.failAt > 0 && r.saves == r.failAt
	after := r.saveAfter
	if hit {
		r.fired = true
	}
	r.mu.Unlock()
	if hit && !after {
		return errSave
	}
	err := r.Repository.Save(ctx, tx, outboxID, entry)
	if err == nil && entry.ID != nil {
		r.mu.Lock()
		if r.failAt > 0 {
			r.savedIDs = append(r.savedIDs, entry.ID.String())
		}
		r.mu.Unlock()
	}
	if hit {
		return errSave
	}
	return err
}

func (r *repo) ReleaseClaim(ctx context.Context, tx *sql.Tx, outboxID string, id ulid.ULID, owner string, nextAttemptAt time.Time, now time.Time, lastError string) (bool, error) {
	ok, err := r.Repository.ReleaseClaim(ctx, tx, outboxID, id, owner, nextAttemptAt, now, lastError)
	if ok && err == nil {
		r.mu.Lock()
		r.releases[id.String()] = append(r.releases[id.String()], nextAttemptAt)
		r.mu.Unlock()
	}
	return ok, err
}

func (r *repo) DeadLetter(ctx context.Context, tx *sql.Tx, outboxID string, id ulid.ULID, owner string, now time.Time, lastError string) (bool, error) {
	ok, err := r.Repository.DeadLetter(ctx, tx, outboxID, id, owner, now, lastError)
	if ok && err == nil {
		r.mu.Lock()
		r.dead[id.String()]++
		r.mu.Unlock()
	}
	return ok, err
}

func (r *repo) DeleteByClaimOwner(ctx context.Context, tx *sql.Tx, outboxID string, id ulid.ULID, owner string) (bool, error) {
	ok, err := r.Repository.DeleteByClaimOwner(ctx, tx, outboxID, id, owner)
	if ok && err == nil {
		r.mu.Lock()
		r.deleted[id.String()]++
		r.mu.Unlock()
	}
	return ok, err
}

// ---- outbox rows ------------------------------------------------------------------------------------

type row struct {
	ID, Dest, Event, Format string
	Bucket, Key             string
	PayloadEvent            string
	Attempts                int
	Next                    time.Time
	Claimed, Dead, LastErr  bool
	OutboxID                string
}

func readRows(ctx context.Context, db database.Database) (map[string]row, error) {
	out := map[string]row{}
	err := database.WithTx(ctx, db, &sql.TxOptions{ReadOnly: true}, func(ctx context.Context, tx database.Tx) error {
		rs, err := tx.SqlTx().QueryContext(ctx, "SELECT id, outbox_id, destination_arn, event_name, payload_format, payload, attempts, next_attempt_at, claim_owner, dead_lettered_at, last_error FROM notification_outbox_entries ORDER BY id")
		if err != nil {
			return err
		}
		defer rs.Close()
		for rs.Next() {
			var r row
			var payload []byte
			var owner, lastErr sql.NullString
			var dead sql.NullTime
			if err := rs.Scan(&r.ID, &r.OutboxID, &r.Dest, &r.Event, &r.Format, &payload, &r.Attempts, &r.Next, &owner, &dead, &lastErr); err != nil {
				return err
			}
			r.Claimed, r.Dead, r.LastErr = owner.Valid, dead.Valid, lastErr.Valid
			r.Bucket, r.Key, r.PayloadEvent = parsePayload(r.Format, payload)
			out[r.ID] = r
		}
		return rs.Err()
	})
	return out, err
}

func parsePayload(format string, payload []byte) (bucket, key, event string) {
	type obj struct {
		Key string `json:"key"`
	}
	type bkt struct {
		Name string `json:"name"`
	}
	if format == string(notification.PayloadFormatEventBridge) {
		var p struct {
			DetailType string `json:"detail-type"`
			Detail     struct {
				Bucket bkt `json:"bucket"`
				Object obj `json:"object"`
			} `json:"detail"`
		}
		if json.Unmarshal(payload, &p) != nil {
			return "?", "?", "?"
		}
		return p.Detail.Bucket.Name, p.Detail.Object.Key, p.DetailType
	}
	var p struct {
		Records []struct {
			EventName string `json:"eventName"`
			S3        struct {
				Bucket bkt `json:"bucket"`
				Object obj `json:"object"`
			} `json:"s3"`
		} `json:"Records"`
	}
	if json.Unmarshal(payload, &p) != nil || len(p.Records) != 1 {
		return "?", "?", "?"
	}
	return p.Records[0].S3.Bucket.Name, p.Records[0].S3.Object.Key, "s3:" + p.Records[0].EventName
}

// ---- the side that executes ops through the middleware ------------------------------------------------------

var wrapped = map[string]bool{
	prog.OpPut: true, prog.OpCopy: true, prog.OpMpuComplete: true, prog.OpDelete: true, prog.OpDeleteObjects: true,
	prog.OpPutTags: true, prog.OpDeleteTags: true, prog.OpTransition: true,
}

type entryState struct {
	row         row
	seq, plan   int
	fails, succ int
	lastNext    time.Time // next_attempt_at handed to the release after the last failure
	dead        bool
}

const matcherMarkerVersion = "c22.deleteOfMarkerVersionNamedMarkerCreated"

type harness struct {
	env   *ev.Env
	c     Case
	o     *ev.Outcome
	ctx   context.Context
	inst  *stacks.Instance
	mw    *notification.StorageMiddleware
	repo  *repo
	pub   *publisher
	side  *prog.StorageSide
	cfg   map[string]Config // oracle's view of the bucket configurations
	st    map[string]*entryState
	ghost map[string]bool // ids inserted by a Save inside a transaction that had to roll back
	seq   int
	recAt int // publisher records analysed so far

	// per step
	lc       bool
	want     []wantEvent
	isWrap   bool
	cur      *dump.Dump
	curIDs   []string
	semFail  bool
	saveHits int
	pubFails int
}

func (h *harness) versioned(bucket string) bool {
	vc, err := h.inst.Storage.GetBucketVersioningConfiguration(h.ctx, storage.MustNewBucketName(bucket))
	return err == nil && vc != nil && vc.Status != nil && (string(*vc.Status) == "Enabled" || string(*vc.Status) == "Suspended")
}

// absent: the key (or the named version of it) does not exist before the call.
func (h *harness) absent(bucket, key string, ver *string) bool {
	var opts *storage.HeadObjectOptions
	if ver != nil {
		opts = &storage.HeadObjectOptions{VersionID: ver}
	}
	_, err := h.inst.Storage.HeadObject(h.ctx, storage.MustNewBucketName(bucket), storage.MustNewObjectKey(key), opts)
	k := prog.Classify(err)
	return k == prog.ENoSuchKey || k == prog.ENoSuchBucket
}

// isMarkerVersion: the named version exists and is a delete marker.
func (h *harness) isMarkerVersion(bucket, key string, ver *string) bool {
	_, err := h.inst.Storage.HeadObject(h.ctx, storage.MustNewBucketName(bucket), storage.MustNewObjectKey(key), &storage.HeadObjectOptions{VersionID: ver})
	return prog.Classify(err) == prog.EVersionDM
}

func (h *harness) snapshot() (*dump.Dump, []string, error) {
	var ids []string
	d, err := dump.Of(h.ctx, h.inst.Storage, dump.Options{Versions: true, RawIDs: &ids})
	return d, ids, err
}

func (h *harness) Do(c prog.Concrete) prog.Result {
	h.want, h.isWrap = nil, wrapped[c.Kind]
	if !h.isWrap {
		return h.side.Do(c)
	}
	// pre-state probes for deletes (event name and no-op detection), taken from the inner storage
	versioned := false
	var noop, markerVer []bool
	switch c.Kind {
	case prog.OpDelete:
		versioned = h.versioned(c.Bucket)
		noop = []bool{(c.VersionID != nil || !versioned) && h.absent(c.Bucket, c.Key, c.VersionID)}
		markerVer = []bool{c.VersionID != nil && h.isMarkerVersion(c.Bucket, c.Key, c.VersionID)}
	case prog.OpDeleteObjects:
		versioned = h.versioned(c.Bucket)
		for _, e := range c.Entries {
			noop = append(noop, (e.VersionID != nil || !versioned) && h.absent(c.Bucket, e.Key, e.VersionID))
			markerVer = append(markerVer, e.VersionID != nil && h.isMarkerVersion(c.Bucket, e.Key, e.VersionID))
		}
	}
	h.side.Ctx = h.ctx
	if h.lc {
		switch c.Kind {
		case prog.OpDelete:
			h.side.Ctx = storage.WithNotificationEventOverride(h.ctx, "s3:LifecycleExpiration:Delete")
		case prog.OpTransition:
			h.side.Ctx = storage.WithNotificationEventOverride(h.ctx, "s3:LifecycleTransition")
		}
	}
	defer func() { h.side.Ctx = h.ctx }()

	// fault position "Repository.Save fails": enumerate j = 1..SaveCap; an attempt whose fault does not
	// fire (the op makes fewer than j inserts) is the real execution.
	for j := 1; j <= h.c.SaveCap && !h.o.Failed(); j++ {
		if h.cur == nil {
			d, ids, err := h.snapshot()
			if err != nil {
				h.o.Failf("harness: dump before %s: %v", c.Kind, err)
				break
			}
			h.cur, h.curIDs = d, ids
		}
		before, err := readRows(h.ctx, h.inst.DB)
		if err != nil {
			h.o.Failf("harness: read outbox rows: %v", err)
			break
		}
		h.repo.arm(j, h.c.SaveAfter)
		r := h.side.Do(c)
		fired, ids := h.repo.disarm()
		if !fired {
			h.cur = nil
			h.finish(c, r, versioned, noop, markerVer)
			return r
		}
		h.saveHits++
		h.o.Sub++
		h.o.Class(fmt.Sprintf("savefault:%s:insert#%d", c.Kind, j))
		if h.c.SaveAfter {
			h.o.Class("savefault-after-insert")
		} else {
			h.o.Class("savefault-before-insert")
		}
		for _, id := range ids {
			h.ghost[id] = true
		}
		if r.Err == "" {
			h.o.Failf("%s %s/%s reported success although outbox insert #%d of its transaction failed", c.Kind, c.Bucket, c.Key, j)
			return r
		}
		d, rawIDs, err := h.snapshot()
		if err != nil {
			h.o.Failf("after %s %s/%s with a failed outbox insert #%d the state cannot be read: %v", c.Kind, c.Bucket, c.Key, j, err)
			return r
		}
		if diffs := dump.Diff(h.cur, d); len(diffs) > 0 {
			h.o.Failf("%s %s/%s failed at outbox insert #%d (%s) but the object state changed (first = before): %s", c.Kind, c.Bucket, c.Key, j, r.ErrText, strings.Join(diffs, "; "))
			return r
		}
		if strings.Join(rawIDs, ",") != strings.Join(h.curIDs, ",") {
			h.o.Failf("%s %s/%s failed at outbox insert #%d but the version ids changed: %v -> %v", c.Kind, c.Bucket, c.Key, j, h.curIDs, rawIDs)
			return r
		}
		after, err := readRows(h.ctx, h.inst.DB)
		if err != nil {
			h.o.Failf("harness: read outbox rows: %v", err)
			return r
		}
		if d := diffRowSets(before, after); d != "" {
			h.o.Failf("%s %s/%s failed at outbox insert #%d but the outbox rows changed: %s", c.Kind, c.Bucket, c.Key, j, d)
			return r
		}
	}
	r := h.side.Do(c)
	h.cur = nil
	h.finish(c, r, versioned, noop, markerVer)
	return r
}

func diffRowSets(a, b map[string]row) string {
	var d []string
	for id, x := range a {
		y, ok := b[id]
		if !ok {
			d = append(d, "row "+id+" vanished ("+rowKey(x.Dest, x.Event, x.Bucket, x.Key)+")")
		} else if x.Attempts != y.Attempts || !x.Next.Equal(y.Next) || x.Dead != y.Dead || x.Claimed != y.Claimed {
			d = append(d, "row "+id+" changed")
		}
	}
	for id, y := range b {
		if _, ok := a[id]; !ok {
			d = append(d, "new row "+id+" ("+rowKey(y.Dest, y.Event, y.Bucket, y.Key)+")")
		}
	}
	sort.Strings(d)
	return strings.Join(d, "; ")
}

// finish derives the events the executed call must have produced.
func (h *harness) finish(c prog.Concrete, r prog.Result, versioned bool, noop, markerVer []bool) {
	if r.Err != "" {
		h.semFail = true
		h.o.Class("mutation-failed:" + c.Kind + ":" + r.Err)
		return
	}
	add := func(name, key string, optional bool) {
		h.want = append(h.want, wantEvent{Name: name, Bucket: c.Bucket, Key: key, Optional: optional})
	}
	removed := func(marker bool) string {
		switch {
		case h.lc && c.Kind == prog.OpDelete && marker:
			return "s3:LifecycleExpiration:DeleteMarkerCreated"
		case h.lc && c.Kind == prog.OpDelete:
			return "s3:LifecycleExpiration:Delete"
		case marker:
			return "s3:ObjectRemoved:DeleteMarkerCreated"
		}
		return "s3:ObjectRemoved:Delete"
	}
	// the named version is itself a delete marker: deleting it permanently creates no marker
	alt := func(isMarkerVersion bool) {
		if isMarkerVersion {
			h.o.Class("permanent-delete-of-a-delete-marker-version")
			h.want[len(h.want)-1].AltName = removed(true)
		}
	}
	switch c.Kind {
	case prog.OpPut:
		add("s3:ObjectCreated:Put", c.Key, false)
	case prog.OpCopy:
		add("s3:ObjectCreated:Copy", c.Key, false)
	case prog.OpMpuComplete:
		add("s3:ObjectCreated:CompleteMultipartUpload", c.Key, false)
	case prog.OpPutTags:
		add("s3:ObjectTagging:Put", c.Key, false)
	case prog.OpDeleteTags:
		add("s3:ObjectTagging:Delete", c.Key, false)
	case prog.OpTransition:
		if h.lc {
			add("s3:LifecycleTransition", c.Key, false)
		}
	case prog.OpDelete:
		marker := c.VersionID == nil && versioned
		if marker != r.DeleteMarker {
			h.o.Count("delete_marker_flag_differs_from_versioning_probe", 1)
		}
		add(removed(marker), c.Key, noop[0])
		alt(markerVer[0])
	case prog.OpDeleteObjects:
		seen := map[string]bool{}
		for i, e := range r.Entries {
			if i >= len(c.Entries) {
				break
			}
			repeat := seen[c.Entries[i].Key]
			seen[c.Entries[i].Key] = true
			if !e.Deleted {
				continue
			}
			marker := c.Entries[i].VersionID == nil && versioned
			add(removed(marker), e.Key, noop[i])
			if repeat {
				h.want[len(h.want)-1].Repeat = true
				continue
			}
			alt(markerVer[i])
		}
	}
}

// checkNewRows compares the rows that appeared during a step with the oracle.
func (h *harness) checkNewRows(step int, what string, rows map[string]row) {
	var fresh []row
	for id, r := range rows {
		if _, ok := h.st[id]; !ok {
			fresh = append(fresh, r)
		}
	}
	sort.Slice(fresh, func(i, j int) bool { return fresh[i].ID < fresh[j].ID })
	got := map[string]int{}
	for _, r := range fresh {
		if h.ghost[r.ID] {
			h.o.Failf("step %d (%s): outbox row %s was inserted by a transaction that failed, yet it is committed", step, what, r.ID)
			return
		}
		if r.OutboxID != h.mw.VerifOutboxID() {
			h.o.Failf("step %d (%s): outbox row %s under foreign outbox id %q", step, what, r.ID, r.OutboxID)
			return
		}
		if r.PayloadEvent != r.Event {
			h.o.Failf("step %d (%s): row %s has event_name %s but its payload says %s", step, what, r.ID, r.Event, r.PayloadEvent)
			return
		}
		if r.Attempts != 0 || r.Dead || r.Claimed {
			h.o.Failf("step %d (%s): new row %s is not fresh (attempts=%d dead=%v claimed=%v)", step, what, r.ID, r.Attempts, r.Dead, r.Claimed)
			return
		}
		k := r.Key
		if u, err := url.QueryUnescape(k); err == nil && u != k {
			// S3 URL-encodes keys in event payloads; accept both spellings
			match := false
			for _, w := range h.want {
				if w.Key == u {
					match = true
				}
			}
			for _, w := range h.want {
				if w.Key == k {
					match = false
				}
			}
			if match {
				k = u
			}
		}
		got[rowKey(r.Dest, r.Event, r.Bucket, k)]++
	}
	// expectations: every event has a list of acceptable row groups (exactly one of them must have been produced)
	type group map[string]int
	groupFor := func(w wantEvent, name string, classes bool) group {
		g := group{}
		cfg := h.cfg[w.Bucket]
		matches := 0
		for _, r := range cfg.Rules {
			ok, why := eventMatches(r, name, w.Key)
			if ok {
				g[rowKey(dests[r.Dest%len(dests)], name, w.Bucket, w.Key)]++
				matches++
			}
			if classes {
				if ok {
					h.o.Class("rule-match:" + why)
				} else {
					h.o.Class("rule-reject:" + why)
				}
			}
		}
		if cfg.EventBridge {
			g[rowKey("eventbridge:"+w.Bucket, name, w.Bucket, w.Key)]++
		}
		if classes {
			if cfg.EventBridge {
				h.o.Class("eventbridge-entry")
			}
			if matches > 1 {
				h.o.Class("event-matched-several-rules")
			}
			if len(cfg.Rules) == 0 && !cfg.EventBridge {
				h.o.Class("event-on-bucket-without-configuration")
			}
			h.o.Class("event:" + name)
		}
		return g
	}
	var alts [][]group
	var altKinds []string
	for _, w := range h.want {
		if w.Repeat {
			// a later entry of one multi-delete request that names a key an earlier entry already named: its
			// effect depends on what the earlier entry did (don't-care: nothing, or either removal event)
			other := "s3:ObjectRemoved:Delete"
			if w.Name == other {
				other = "s3:ObjectRemoved:DeleteMarkerCreated"
			}
			alts = append(alts, []group{{}, groupFor(w, w.Name, false), groupFor(w, other, false)})
			altKinds = append(altKinds, "repeat")
			h.o.Class("multi-delete-entry-repeats-a-key")
			continue
		}
		if w.AltName != "" && h.env.Known(matcherMarkerVersion) {
			// known finding KF-C22-1: judge the step under the name pithos is known to use
			if ruleSetDistinguishes(h.cfg[w.Bucket], w.Name, w.AltName, w.Key) {
				h.o.KnownHits = append(h.o.KnownHits, "KF-C22-1")
			}
			w.Name = w.AltName
		}
		g := groupFor(w, w.Name, true)
		if w.Optional && len(g) > 0 {
			alts = append(alts, []group{{}, g})
			altKinds = append(altKinds, "noop")
		} else if !w.Optional {
			alts = append(alts, []group{g})
			altKinds = append(altKinds, "required")
		}
	}
	h.o.Sub++
	choice := make([]int, len(alts))
	matched := false
	for {
		sum := group{}
		for i, c := range choice {
			for k, n := range alts[i][c] {
				sum[k] += n
			}
		}
		matched = len(sum) == len(got)
		for k, n := range sum {
			if got[k] != n {
				matched = false
			}
		}
		if matched {
			break
		}
		i := 0
		for ; i < len(choice); i++ {
			choice[i]++
			if choice[i] < len(alts[i]) {
				break
			}
			choice[i] = 0
		}
		if i == len(choice) {
			break
		}
	}
	if !matched {
		required := group{}
		open := 0
		for i, a := range alts {
			if altKinds[i] == "required" {
				for k, n := range a[0] {
					required[k] += n
				}
			} else {
				open++
			}
		}
		for k, n := range required {
			if got[k] < n {
				h.o.Failf("step %d (%s): committed mutation without its outbox row: expected %d x [%s], found %d; new rows %v, required %v (+%d don't-care events)", step, what, n, k, got[k], got, required, open)
				return
			}
		}
		h.o.Failf("step %d (%s): outbox rows without a committed mutation x matching rule: new rows %v, required %v (+%d don't-care events)", step, what, got, required, open)
		return
	}
	for i, c := range choice {
		switch altKinds[i] {
		case "noop":
			if c == 0 {
				h.o.Count("dontcare:no-op-delete:no-event", 1)
			} else {
				h.o.Count("dontcare:no-op-delete:event-emitted", 1)
			}
		case "repeat":
			h.o.Count(fmt.Sprintf("dontcare:repeated-key-in-multi-delete:alternative-%d", c), 1)
		}
	}
	// register the new committed entries and give each its publisher script
	h.pub.mu.Lock()
	for _, r := range fresh {
		plan := 0
		if len(h.c.Fails) > 0 {
			plan = h.c.Fails[h.seq%len(h.c.Fails)]
		}
		if plan < 0 {
			plan = 0
		}
		h.st[r.ID] = &entryState{row: r, seq: h.seq, plan: plan}
		h.pub.plan[r.ID] = plan
		h.seq++
	}
	h.pub.mu.Unlock()
}

// checkPendingIntact: a step that is not a dispatcher round must leave every unresolved entry in place.
func (h *harness) checkPendingIntact(step int, what string, rows map[string]row) {
	for id, s := range h.st {
		if s.dead || s.succ > 0 {
			continue
		}
		r, ok := rows[id]
		if !ok {
			h.o.Failf("step %d (%s): outbox row %s [%s] disappeared without having been published", step, what, id, rowKey(s.row.Dest, s.row.Event, s.row.Bucket, s.row.Key))
			return
		}
		if r.Attempts != s.fails || r.Dead {
			h.o.Failf("step %d (%s): outbox row %s changed outside a dispatcher round (attempts %d, %d publish failures, dead=%v)", step, what, id, r.Attempts, s.fails, r.Dead)
			return
		}
	}
}

func (h *harness) backoff(k int) time.Duration {
	d := time.Duration(h.c.MinBackoffMs) * time.Millisecond
	max := time.Duration(h.c.MaxBackoffMs) * time.Millisecond
	for i := 1; i < k; i++ {
		d *= 2
		if d >= max {
			return max
		}
	}
	if d > max {
		d = max
	}
	return d
}

// analyse judges the publisher calls recorded since the last analysis; stepEnd is the moment the
// dispatch step that made them returned.
func (h *harness) analyse(step int, stepEnd time.Time) {
	h.pub.mu.Lock()
	recs := append([]pubRec(nil), h.pub.recs[h.recAt:]...)
	h.recAt = len(h.pub.recs)
	odd := append([]string(nil), h.pub.odd...)
	h.pub.mu.Unlock()
	if len(odd) > 0 {
		h.o.Failf("step %d: publisher received %v", step, odd)
		return
	}
	h.repo.mu.Lock()
	releases := map[string][]time.Time{}
	for k, v := range h.repo.releases {
		releases[k] = append([]time.Time(nil), v...)
	}
	deadCalls := map[string]int{}
	for k, v := range h.repo.dead {
		deadCalls[k] = v
	}
	h.repo.mu.Unlock()

	sort.SliceStable(recs, func(i, j int) bool { return recs[i].start.Before(recs[j].start) })
	for _, p := range recs {
		h.o.Sub++
		s, ok := h.st[p.id]
		if !ok {
			if h.ghost[p.id] {
				h.o.Failf("step %d: entry %s (%s -> %s) was published although the transaction that inserted it failed", step, p.id, p.event, p.dest)
			} else {
				h.o.Failf("step %d: entry %s (%s -> %s) was published but is not a committed outbox row", step, p.id, p.event, p.dest)
			}
			return
		}
		what := rowKey(s.row.Dest, s.row.Event, s.row.Bucket, s.row.Key)
		if p.dest != s.row.Dest || p.event != s.row.Event {
			h.o.Failf("step %d: entry %s was enqueued as [%s] but published as %s -> %s", step, p.id, what, p.event, p.dest)
			return
		}
		if s.dead {
			h.o.Failf("step %d: entry %s [%s] was published again after it had been dead-lettered", step, p.id, what)
			return
		}
		if s.fails > 0 && s.succ == 0 && p.start.Round(0).Before(s.lastNext.Round(0)) {
			h.o.Failf("step %d: entry %s [%s] was retried at %s, before its next_attempt_at %s (after failure %d)", step, p.id, what, p.start.UTC().Format(time.RFC3339Nano), s.lastNext.UTC().Format(time.RFC3339Nano), s.fails)
			return
		}
		if !p.fail {
			s.succ++
			if s.succ == 1 {
				if s.fails > 0 {
					h.o.Class("delivered-after-retries")
				} else {
					h.o.Class("delivered-first-attempt")
				}
			}
			continue
		}
		s.fails++
		h.pubFails++
		k := s.fails
		if k > h.c.MaxAttempts {
			h.o.Failf("step %d: entry %s [%s]: publish attempt %d failed, MaxAttempts is %d: it should have been dead-lettered earlier", step, p.id, what, k, h.c.MaxAttempts)
			return
		}
		if k == h.c.MaxAttempts {
			if deadCalls[p.id] == 0 {
				h.o.Failf("step %d: entry %s [%s] failed %d times (MaxAttempts %d) but was not dead-lettered", step, p.id, what, k, h.c.MaxAttempts)
				return
			}
			if len(releases[p.id]) > k-1 {
				h.o.Failf("step %d: entry %s [%s] was released for another retry after its %d-th failure (MaxAttempts %d)", step, p.id, what, k, h.c.MaxAttempts)
				return
			}
			s.dead = true
			h.o.Class(fmt.Sprintf("dead-lettered-after:%d", k))
			continue
		}
		if len(releases[p.id]) < k && deadCalls[p.id] > 0 {
			h.o.Failf("step %d: entry %s [%s] was dead-lettered after %d failed attempts, MaxAttempts is %d", step, p.id, what, k, h.c.MaxAttempts)
			return
		}
		if len(releases[p.id]) < k {
			h.o.Failf("step %d: entry %s [%s]: failure %d was followed by neither a release nor a dead-letter", step, p.id, what, k)
			return
		}
		next := releases[p.id][k-1]
		s.lastNext = next
		want := h.backoff(k)
		obs := next.Round(0).Sub(p.end.Round(0))
		slack := stepEnd.Sub(p.end)
		if want == time.Duration(h.c.MaxBackoffMs)*time.Millisecond && time.Duration(h.c.MinBackoffMs)*time.Millisecond<<(k-1) > want {
			h.o.Class("backoff-capped-by-max")
		}
		h.o.Class(fmt.Sprintf("backoff-after-failure:%d", k))
		if obs < want {
			h.o.Failf("step %d: entry %s [%s]: backoff after failure %d is %s, below min(MinBackoff*2^%d, MaxBackoff) = %s", step, p.id, what, k, obs, k-1, want)
			return
		}
		if obs > want+slack {
			h.o.Failf("step %d: entry %s [%s]: backoff after failure %d is %s, above min(MinBackoff*2^%d, MaxBackoff) = %s plus the %s the dispatch step took after the failure", step, p.id, what, k, obs, k-1, want, slack)
			return
		}
	}
	// rows after the round
	rows, err := readRows(h.ctx, h.inst.DB)
	if err != nil {
		h.o.Failf("harness: read outbox rows: %v", err)
		return
	}
	for id, r := range rows {
		if _, ok := h.st[id]; !ok {
			h.o.Failf("step %d: a dispatcher round created outbox row %s [%s]", step, id, rowKey(r.Dest, r.Event, r.Bucket, r.Key))
			return
		}
	}
	for id, s := range h.st {
		r, present := rows[id]
		what := rowKey(s.row.Dest, s.row.Event, s.row.Bucket, s.row.Key)
		switch {
		case s.dead:
			if !present || !r.Dead {
				h.o.Failf("step %d: entry %s [%s] failed MaxAttempts=%d times but its row is not marked dead-lettered (present=%v)", step, id, what, h.c.MaxAttempts, present)
				return
			}
		case s.succ > 0:
			if present {
				h.o.Count("row_still_present_after_successful_publish", 1)
			}
		default:
			if !present {
				h.o.Failf("step %d: entry %s [%s] disappeared although no publish of it succeeded (%d failures)", step, id, what, s.fails)
				return
			}
			if r.Dead {
				h.o.Failf("step %d: entry %s [%s] is dead-lettered after %d failed attempts, MaxAttempts is %d", step, id, what, s.fails, h.c.MaxAttempts)
				return
			}
			if s.fails > 0 && !r.Next.Equal(s.lastNext) {
				h.o.Failf("step %d: entry %s [%s]: row next_attempt_at %s differs from the released value %s", step, id, what, r.Next.UTC().Format(time.RFC3339Nano), s.lastNext.UTC().Format(time.RFC3339Nano))
				return
			}
		}
	}
}

// dispatch runs one dispatcher round and judges it.
func (h *harness) dispatch(step int) {
	if h.c.Stepped {
		h.o.Class("round:stepped")
		for n := 0; n < 10000; n++ {
			e, claimed, err := h.mw.VerifClaim(h.ctx)
			if err != nil {
				h.o.Failf("step %d: claim failed: %v", step, err)
				return
			}
			if e == nil || !claimed {
				return
			}
			h.mw.VerifDispatchEntry(h.ctx, e)
			h.analyse(step, time.Now())
			if h.o.Failed() {
				return
			}
		}
		h.o.Failf("step %d: a dispatcher round did not end after 10000 claims", step)
		return
	}
	h.o.Class("round:dispatchAvailable")
	h.mw.VerifDispatchAvailable(h.ctx)
	h.analyse(step, time.Now())
}

// ---- run -------------------------------------------------------------------------------------------

func runCase(env *ev.Env, c Case) (o ev.Outcome) {
	if c.Aged != nil {
		return runAged(env, c)
	}
	dir := env.TempDir()
	defer os.RemoveAll(dir)
	ctx := context.Background()
	if c.MaxAttempts < 1 || c.MaxAttempts > 8 || c.MinBackoffMs < 1 || c.MaxBackoffMs < c.MinBackoffMs || c.MaxBackoffMs > 1000 {
		o.Failf("harness: case outside the generated domain")
		return
	}
	inst, err := stacks.Open(dir, stacks.LayoutFor(c.Stack), stacks.Options{})
	if err != nil {
		o.Failf("harness: open %s: %v", c.Stack, err)
		return
	}
	defer inst.Close()
	rp := &repo{Repository: notification.NewSQLRepository(), releases: map[string][]time.Time{}, dead: map[string]int{}, deleted: map[string]int{}}
	pb := &publisher{plan: map[string]int{}, count: map[string]int{}}
	dcfg := notification.DispatcherConfig{
		MaxAttempts: c.MaxAttempts,
		MinBackoff:  time.Duration(c.MinBackoffMs) * time.Millisecond,
		MaxBackoff:  time.Duration(c.MaxBackoffMs) * time.Millisecond,
		Concurrency: c.Conc, BatchSize: c.Batch,
	}
	// same database.Database as the storage: the documented atomic configuration. The dispatcher
	// goroutine is not started; rounds are run through the hook.
	mw, err := notification.NewStorageMiddleware(inst.Storage, inst.DB, rp, pb, "verif", time.Minute, dcfg, prometheus.NewRegistry())
	if err != nil {
		o.Failf("harness: NewStorageMiddleware: %v", err)
		return
	}
	h := &harness{env: env, c: c, o: &o, ctx: ctx, inst: inst, mw: mw, repo: rp, pub: pb, side: prog.NewStorageSide(mw),
		cfg: map[string]Config{}, st: map[string]*entryState{}, ghost: map[string]bool{}}
	sess := run.NewSession(names, h)
	lc := map[int]bool{}
	for _, i := range c.LC {
		lc[i] = true
	}
	o.Class("stack:" + c.Stack)
	o.Class(fmt.Sprintf("maxAttempts:%d", c.MaxAttempts))

	applyCfgs := func(at int) {
		for _, cc := range c.Cfgs {
			if cc.At != at {
				continue
			}
			b := names.Buckets[((cc.B%len(names.Buckets))+len(names.Buckets))%len(names.Buckets)]
			testsBefore := pb.tests
			err := mw.PutBucketNotificationConfiguration(ctx, storage.MustNewBucketName(b), toStorageConfig(cc.Cfg))
			switch prog.Classify(err) {
			case "":
				if _, had := h.cfg[b]; had && at > 2 {
					o.Class("configuration-replaced-in-mid-program")
				}
				h.cfg[b] = cc.Cfg
				o.Count("test_events_published", pb.tests-testsBefore)
			case prog.ENoSuchBucket:
				o.Class("configuration-on-missing-bucket")
			default:
				o.Failf("harness: PutBucketNotificationConfiguration(%s): %v", b, err)
			}
		}
	}

	for i, op := range c.Ops {
		applyCfgs(i)
		if o.Failed() {
			return
		}
		if op.Kind == prog.OpFlush {
			h.dispatch(i)
			if o.Failed() {
				return
			}
			continue
		}
		h.lc = lc[i] && (op.Kind == prog.OpDelete || op.Kind == prog.OpTransition)
		if h.lc {
			o.Class("lifecycle-tagged:" + op.Kind)
		}
		sr := sess.Step(op)
		if o.Failed() {
			return
		}
		if !op.IsMutation() {
			continue
		}
		if !h.isWrap {
			h.cur = nil // bucket / upload / versioning changes
		}
		rows, err := readRows(ctx, inst.DB)
		if err != nil {
			o.Failf("harness: read outbox rows: %v", err)
			return
		}
		what := fmt.Sprintf("%s %s/%s -> %q", op.Kind, sr.Concrete.Bucket, sr.Concrete.Key, sr.Got[0].Err)
		h.checkPendingIntact(i, what, rows)
		if o.Failed() {
			return
		}
		h.checkNewRows(i, what, rows)
		if o.Failed() {
			return
		}
	}
	applyCfgs(len(c.Ops))

	// bounded liveness: after quiescence every entry is claimable once all next_attempt_at have passed, so
	// MaxAttempts rounds (each preceded by "sleep at least until the latest next_attempt_at") resolve everything.
	for round := 0; ; round++ {
		rows, err := readRows(ctx, inst.DB)
		if err != nil {
			o.Failf("harness: read outbox rows: %v", err)
			return
		}
		var latest time.Time
		pending := 0
		for _, r := range rows {
			if r.Dead {
				continue
			}
			pending++
			if r.Next.After(latest) {
				latest = r.Next
			}
		}
		if pending == 0 {
			break
		}
		if round > c.MaxAttempts+1 {
			o.Failf("after %d dispatcher rounds at quiescence %d entries are still neither delivered nor dead-lettered", round, pending)
			return
		}
		if d := time.Until(latest); d > 0 {
			if d > 5*time.Second {
				o.Failf("an entry has next_attempt_at %s in the future; MaxBackoff is %d ms", d, c.MaxBackoffMs)
				return
			}
			time.Sleep(d + time.Millisecond)
		}
		h.dispatch(len(c.Ops) + round)
		if o.Failed() {
			return
		}
	}
	entries, dead, delivered := 0, 0, 0
	for id, s := range h.st {
		entries++
		o.Sub++
		what := rowKey(s.row.Dest, s.row.Event, s.row.Bucket, s.row.Key)
		switch {
		case s.succ > 0:
			delivered++
			if s.fails != s.plan && s.plan < c.MaxAttempts {
				o.Failf("harness: entry %s [%s] was delivered after %d failures, script says %d", id, what, s.fails, s.plan)
				return
			}
		case s.dead:
			dead++
			if s.fails != c.MaxAttempts {
				o.Failf("entry %s [%s] was dead-lettered after %d failed attempts, MaxAttempts is %d", id, what, s.fails, c.MaxAttempts)
				return
			}
		default:
			o.Failf("entry %s [%s] was neither delivered nor dead-lettered (%d failed attempts)", id, what, s.fails)
			return
		}
	}
	for id := range h.ghost {
		if pb.count[id] > 0 {
			o.Failf("entry %s of a failed transaction was published", id)
			return
		}
	}
	switch {
	case entries == 0:
		o.Class("entries:0")
	case entries <= 3:
		o.Class("entries:1-3")
	default:
		o.Class("entries:4+")
	}
	o.Count("entries_committed", entries)
	o.Count("entries_delivered", delivered)
	o.Count("entries_dead_lettered", dead)
	o.Count("publish_failures", h.pubFails)
	o.Count("save_faults_fired", h.saveHits)
	o.NonTrivial = entries > 0 && (h.saveHits > 0 || h.pubFails > 0 || h.semFail)
	return
}

// ---- directed cases ---------------------------------------------------------------------------------

func directed(env *ev.Env) []Case {
	b := func(n int, seed uint64) *gen.BodySpec { return &gen.BodySpec{Kind: "rand", Len: n, Seed: seed} }
	all := Rule{Kind: "queue", Dest: 1, Events: []string{"s3:ObjectCreated:*", "s3:ObjectRemoved:*", "s3:ObjectTagging:*"}}
	pre := []prog.Op{{Kind: prog.OpCreateBucket, B: 0}, {Kind: prog.OpCreateBucket, B: 1}}
	return []Case{
		// every entry fails MaxAttempts times: backoff 4, 8, 8 (capped), then dead-letter
		{Stack: "P1", MaxAttempts: 4, MinBackoffMs: 4, MaxBackoffMs: 8, Batch: 1, Conc: 1, Fails: []int{4}, Ops: append(append([]prog.Op{}, pre...),
			prog.Op{Kind: prog.OpPut, B: 0, K: 0, Body: b(10, 1)},
			prog.Op{Kind: prog.OpFlush},
			prog.Op{Kind: prog.OpDelete, B: 0, K: 0},
		), Cfgs: []CfgChange{{At: 2, B: 0, Cfg: Config{Rules: []Rule{all}}}}},
		// two rules + EventBridge match the same event: three inserts per mutation, each of them failed once (after the insert ran)
		{Stack: "P2", MaxAttempts: 2, MinBackoffMs: 1, MaxBackoffMs: 16, Batch: 3, Conc: 2, Fails: []int{0, 1, 2}, SaveCap: 4, SaveAfter: true, Ops: append(append([]prog.Op{}, pre...),
			prog.Op{Kind: prog.OpPut, B: 0, K: 1, Body: b(100, 2)},
			prog.Op{Kind: prog.OpSetVersioning, B: 0, Status: "Enabled"},
			prog.Op{Kind: prog.OpPut, B: 0, K: 1, Body: b(50, 3)},
			prog.Op{Kind: prog.OpDeleteObjects, B: 0, Entries: []prog.DelSpec{{K: 1}, {K: 0}}},
			prog.Op{Kind: prog.OpFlush},
			prog.Op{Kind: prog.OpPutTags, B: 0, K: 1, Tags: map[string]string{"k": "v"}, Ver: "ref:0"},
		), Cfgs: []CfgChange{{At: 2, B: 0, Cfg: Config{EventBridge: true, Rules: []Rule{all, {Kind: "topic", Dest: 0, Events: []string{"s3:ObjectCreated:Put", "s3:ObjectRemoved:DeleteMarkerCreated"}, Prefix: sp("logs/"), Suffix: sp(".txt")}}}}}},
		// stepped dispatch, lifecycle-tagged delete, configuration replaced in mid-program
		{Stack: "P2", MaxAttempts: 3, MinBackoffMs: 2, MaxBackoffMs: 4, Batch: 2, Conc: 1, Fails: []int{2, 3, 0}, SaveCap: 2, Stepped: true, LC: []int{4}, Ops: append(append([]prog.Op{}, pre...),
			prog.Op{Kind: prog.OpPut, B: 1, K: 1, Body: b(1, 1)},
			prog.Op{Kind: prog.OpCopy, B: 1, K: 2, SB: 1, SK: 1},
			prog.Op{Kind: prog.OpDelete, B: 1, K: 1},
			prog.Op{Kind: prog.OpFlush},
			prog.Op{Kind: prog.OpPut, B: 1, K: 1, Body: b(1, 1), IfNoneMatchStar: true},
			prog.Op{Kind: prog.OpPut, B: 1, K: 1, Body: b(2, 1), IfNoneMatchStar: true},
			prog.Op{Kind: prog.OpPut, B: 2, K: 1, Body: b(2, 1)},
		), Cfgs: []CfgChange{
			{At: 2, B: 1, Cfg: Config{Rules: []Rule{{Kind: "fn", Dest: 2, Events: []string{"s3:ObjectCreated:*", "s3:LifecycleExpiration:*"}}}}},
			{At: 6, B: 1, Cfg: Config{Rules: []Rule{{Kind: "fn", Dest: 2, Events: []string{"s3:ObjectCreated:Copy"}}}}},
		}},
	}
}

func TestC22(t *testing.T) {
	ev.Main(t, ev.Spec[Case]{
		ID:    "C22",
		Level: "fault_enumeration",
		Rule: "programs of 4-16 (thorough: 4-30) generated ops over 3 buckets (one not created by the prelude) x 4 keys through notification.NewStorageMiddleware over a real metadatapart storage and the same database " +
			"(puts, copies, multipart sequences, deletes, multi-deletes, tagging, transitions, versioning changes, lifecycle-tagged deletes/transitions, conditions, supplied checksums, manifests, version references), " +
			"bucket notification configurations with 0-3 rules (event wildcards and exact names, prefix/suffix filters, EventBridge flag) set after the prelude and replaced in mid-program, dispatcher rounds at generated points; " +
			"three fault positions per mutation: semantic failure (generator), Repository.Save failing at insert #1..#SaveCap of the mutation (enumerated; before or after the real insert), " +
			"publisher failing the first K attempts of an entry with K cycling through 0..MaxAttempts (MaxAttempts 1-4, backoff 1-16 ms). " +
			"Non-trivial = at least one outbox entry was committed (a rule matched) and at least one fault occurred (a wrapped mutation failed semantically, a Save fault fired, or a publish attempt failed). Distinct = distinct case JSON",
		Assumptions: []string{
			"the middleware shares the storage's database.Database (documented atomic configuration); the best-effort 'different database' mode is out of scope",
			"the dispatcher goroutine is not started; rounds are the real dispatchAvailable (or claim + dispatchEntry) run through the verif-tagged hook; claim lease 1 min, never expires inside a case",
			"a successful delete of an absent key / version is a don't-care (0 or all matching rows accepted; counted as dontcare:*)",
			"backoff bounds use the wall clock: lower bound next_attempt_at - (time the publisher returned the failure) >= min(MinBackoff*2^(k-1), MaxBackoff); upper bound that + the time the dispatch step ran after the failure",
			"AppendObject is not wrapped by the middleware and is not generated; SQLite only",
		},
		Gen:      genCase,
		Run:      runCase,
		Directed: directed,
	})
}
