package c24

// Cross-storage copies vs. a writer on the source: a same-storage copy is one transaction and sees one
// generation of its source. The middleware's cross-storage path reads the source in two steps (HeadObject,
// then GetObject); C24 says a cross-storage copy produces the same result as a same-storage copy, so under a
// source overwrite scheduled between the two steps it must either fail cleanly or deliver bytes, content
// type, user metadata and tags of ONE generation (seeded defect S-C24-2 removes the If-Match guard of the
// GetObject). The harness owns the schedule: the source storage is wrapped and runs the interfering
// operation when the middleware's HeadObject on the source returns.

import (
	"bytes"
	"context"
	"errors"
	"fmt"
	"io"
	"os"
	"path/filepath"
	"strings"

	"github.com/jdillenkofer/pithos/internal/storage"
	"github.com/jdillenkofer/pithos/internal/storage/middlewares/conditional"
	"github.com/jdillenkofer/pithos/verifharness/ev"
	"github.com/jdillenkofer/pithos/verifharness/prog"
	"github.com/jdillenkofer/pithos/verifharness/stacks"
	"pgregory.net/rapid"
)

// Race is the sub-case "cross-storage copy with a writer on the source between head and get".
type Race struct {
	Via        string `json:"via"`        // copy | partcopy
	Versioning string `json:"versioning"` // "" | Enabled | Suspended (source bucket)
	Interferer string `json:"interferer"` // overwrite | delete | retag | none
	Len1       int    `json:"len1"`
	Len2       int    `json:"len2"`
	SameLen    bool   `json:"sameLen,omitempty"` // generation 2 has the length of generation 1
	ReplaceMD  bool   `json:"replaceMeta,omitempty"`
	Cond       string `json:"cond,omitempty"` // "" | im-cur : copy-source If-Match on the generation-1 ETag
	SrcStack   string `json:"srcStack"`
	DstStack   string `json:"dstStack"`
}

func genRace(t *rapid.T) *Race {
	r := &Race{
		Via:        rapid.SampledFrom([]string{"copy", "copy", "partcopy"}).Draw(t, "raceVia"),
		Versioning: rapid.SampledFrom([]string{"", "", "Enabled", "Suspended"}).Draw(t, "raceVersioning"),
		Interferer: rapid.SampledFrom([]string{"overwrite", "overwrite", "overwrite", "delete", "retag", "none"}).Draw(t, "raceInterferer"),
		Len1:       rapid.SampledFrom([]int{1, 700, 3000}).Draw(t, "raceLen1"),
		Len2:       rapid.SampledFrom([]int{1, 5, 700, 2048}).Draw(t, "raceLen2"),
		SameLen:    rapid.Bool().Draw(t, "raceSameLen"),
		ReplaceMD:  rapid.IntRange(0, 3).Draw(t, "raceReplace") == 0,
		Cond:       rapid.SampledFrom([]string{"", "", "im-cur"}).Draw(t, "raceCond"),
		SrcStack:   rapid.SampledFrom([]string{"P1", "P2"}).Draw(t, "raceSrcStack"),
		DstStack:   rapid.SampledFrom([]string{"P1", "P2"}).Draw(t, "raceDstStack"),
	}
	return r
}

// interposed runs hook once, right after the first HeadObject of key in bucket returned.
type interposed struct {
	storage.Storage
	bucket, key string
	hook        func()
	heads       int
}

func (s *interposed) HeadObject(ctx context.Context, b storage.BucketName, k storage.ObjectKey, o *storage.HeadObjectOptions) (*storage.Object, error) {
	obj, err := s.Storage.HeadObject(ctx, b, k, o)
	if b.String() == s.bucket && k.String() == s.key {
		s.heads++
		if h := s.hook; h != nil {
			s.hook = nil
			h()
		}
	}
	return obj, err
}

type generation struct {
	body []byte
	ct   string
	tags map[string]string
	user map[string]string
}

func raceBody(n int, seed byte) []byte {
	b := make([]byte, n)
	for i := range b {
		b[i] = seed + byte(i*7)
	}
	return b
}

func runRace(env *ev.Env, c Case) (o ev.Outcome) {
	r := c.Race
	dir := env.TempDir()
	defer os.RemoveAll(dir)
	ctx := context.Background()
	srcInst, err := stacks.Open(filepath.Join(dir, "src"), stacks.LayoutFor(r.SrcStack), stacks.Options{})
	if err != nil {
		o.Failf("harness: open src: %v", err)
		return
	}
	defer srcInst.Close()
	dstInst, err := stacks.Open(filepath.Join(dir, "dst"), stacks.LayoutFor(r.DstStack), stacks.Options{})
	if err != nil {
		o.Failf("harness: open dst: %v", err)
		return
	}
	defer dstInst.Close()
	sb, db := storage.MustNewBucketName("race-src"), storage.MustNewBucketName("race-dst")
	sk, dk := storage.MustNewObjectKey("k"), storage.MustNewObjectKey("copy")
	ip := &interposed{Storage: srcInst.Storage, bucket: sb.String(), key: sk.String()}
	mw, err := conditional.NewStorageMiddleware(map[string]storage.Storage{sb.String(): ip}, dstInst.Storage)
	if err != nil {
		o.Failf("harness: middleware: %v", err)
		return
	}
	len2 := r.Len2
	if r.SameLen {
		len2 = r.Len1
	}
	g1 := generation{body: raceBody(r.Len1, 1), ct: "text/plain", tags: map[string]string{"gen": "1", "only1": "x"}, user: map[string]string{"gen": "1"}}
	g2 := generation{body: raceBody(len2, 101), ct: "application/json", tags: map[string]string{"gen": "2"}, user: map[string]string{"gen": "2", "only2": "y"}}
	put := func(g generation) (*storage.PutObjectResult, error) {
		return mw.PutObject(ctx, sb, sk, &g.ct, bytes.NewReader(g.body), nil, &storage.PutObjectOptions{Tags: g.tags, Metadata: &storage.ObjectMetadata{UserMetadata: g.user}})
	}
	for _, b := range []storage.BucketName{sb, db} {
		if err := mw.CreateBucket(ctx, b); err != nil {
			o.Failf("harness: CreateBucket(%s): %v", b, err)
			return
		}
	}
	if r.Versioning != "" {
		st := storage.BucketVersioningStatus(r.Versioning)
		if err := mw.PutBucketVersioningConfiguration(ctx, sb, &storage.BucketVersioningConfiguration{Status: &st}); err != nil {
			o.Failf("harness: versioning: %v", err)
			return
		}
	}
	res1, err := put(g1)
	if err != nil {
		o.Failf("harness: put generation 1: %v", err)
		return
	}
	var ierr error
	ip.hook = func() {
		switch r.Interferer {
		case "overwrite":
			_, ierr = put(g2)
		case "delete":
			_, ierr = mw.DeleteObject(ctx, sb, sk, nil)
		case "retag":
			ierr = mw.PutObjectTagging(ctx, sb, sk, g2.tags, nil)
		}
	}
	ip.heads = 0
	var srcConds storage.CopySourceConditions
	_ = srcConds
	o.Class("race:" + r.Via + ":" + r.Interferer + ":versioning=" + r.Versioning)
	o.NonTrivial = r.Interferer != "none"
	o.Sub++
	var copyErr error
	var uploadID *storage.UploadId
	switch r.Via {
	case "copy":
		opts := &storage.CopyObjectOptions{}
		if r.ReplaceMD {
			ct := "x/replaced"
			opts.ReplaceMetadata, opts.ContentType, opts.Metadata = true, &ct, &storage.ObjectMetadata{UserMetadata: map[string]string{"replaced": "1"}}
			opts.ReplaceTags, opts.Tags = true, map[string]string{"replaced": "1"}
		}
		if r.Cond == "im-cur" {
			opts.CopySourceConditions.IfMatch = res1.ETag
		}
		_, copyErr = mw.CopyObject(ctx, sb, sk, db, dk, opts)
	default:
		up, err := mw.CreateMultipartUpload(ctx, db, dk, nil, nil, nil)
		if err != nil {
			o.Failf("harness: CreateMultipartUpload: %v", err)
			return
		}
		uploadID = &up.UploadId
		popts := &storage.UploadPartCopyOptions{}
		if r.Cond == "im-cur" {
			popts.CopySourceConditions.IfMatch = res1.ETag
		}
		_, copyErr = mw.UploadPartCopy(ctx, sb, sk, db, dk, up.UploadId, 1, popts)
		if copyErr == nil {
			_, err = mw.CompleteMultipartUpload(ctx, db, dk, up.UploadId, nil, nil)
			if err != nil {
				o.Failf("harness: CompleteMultipartUpload after a successful UploadPartCopy: %v", err)
				return
			}
		}
	}
	if ierr != nil {
		o.Failf("harness: interfering %s failed: %v", r.Interferer, ierr)
		return
	}
	if ip.heads == 0 {
		// the middleware did not read the source through HeadObject: the schedule point does not exist (any more)
		o.Class("race:no-head-on-source")
	} else if r.Interferer != "none" {
		o.Class("race:interferer-ran-between-head-and-get")
	}
	// ---- oracle ------------------------------------------------------------------------------------
	dst, rcs, gerr := dstInst.Storage.GetObject(ctx, db, dk, nil, nil)
	if copyErr != nil {
		o.Class("race:copy-failed:" + prog.Classify(copyErr))
		if gerr == nil {
			for _, rc := range rcs {
				rc.Close()
			}
			if r.Via == "copy" {
				o.Failf("cross-storage CopyObject failed (%v) with a %s of the source between its head and its get, but the destination object exists (%d bytes)", copyErr, r.Interferer, dst.Size)
			}
		}
		_ = uploadID
		return
	}
	if gerr != nil {
		o.Failf("cross-storage %s succeeded but the destination cannot be read: %v", r.Via, gerr)
		return
	}
	var got bytes.Buffer
	for _, rc := range rcs {
		_, err := io.Copy(&got, rc)
		rc.Close()
		if err != nil {
			o.Failf("harness: reading the destination: %v", err)
			return
		}
	}
	tags, err := dstInst.Storage.GetObjectTagging(ctx, db, dk, nil)
	if err != nil {
		o.Failf("harness: GetObjectTagging(dst): %v", err)
		return
	}
	o.Class("race:copy-succeeded")
	matches := func(g generation, tagsOf map[string]string) []string {
		var d []string
		if !bytes.Equal(got.Bytes(), g.body) {
			d = append(d, "bytes")
		}
		if r.Via == "copy" && !r.ReplaceMD {
			if dst.ContentType == nil || *dst.ContentType != g.ct {
				d = append(d, fmt.Sprintf("content type %v", deref(dst.ContentType)))
			}
			if prog.TagsString(dst.Metadata.UserMetadata) != prog.TagsString(g.user) {
				d = append(d, "user metadata "+prog.TagsString(dst.Metadata.UserMetadata))
			}
			if prog.TagsString(tags) != prog.TagsString(tagsOf) {
				d = append(d, "tags "+prog.TagsString(tags))
			}
		}
		return d
	}
	d1 := matches(g1, g1.tags)
	var d2 []string
	switch r.Interferer {
	case "overwrite":
		d2 = matches(g2, g2.tags)
	case "retag":
		d2 = matches(g1, g2.tags) // generation "1 with the new tag set"
	default:
		d2 = []string{"n/a"}
	}
	if len(d1) != 0 && len(d2) != 0 {
		o.Failf("cross-storage %s (source versioning %q, %s of the source between the middleware's head and get, replaceMeta=%v cond=%q) produced an object no same-storage copy can produce: it differs from generation 1 in [%s] and from generation 2 in [%s] (%d bytes; generation 1 has %d, generation 2 has %d)",
			r.Via, r.Versioning, r.Interferer, r.ReplaceMD, r.Cond, strings.Join(d1, "; "), strings.Join(d2, "; "), got.Len(), len(g1.body), len(g2.body))
		return
	}
	if r.Cond == "im-cur" && r.Interferer == "overwrite" && len(d1) != 0 {
		// copy-source If-Match named generation 1's ETag; a copy of generation 2 violated the condition
		if !bytes.Equal(g1.body, g2.body) {
			o.Failf("cross-storage %s with x-amz-copy-source-if-match on generation 1's ETag copied generation 2", r.Via)
			return
		}
	}
	_ = errors.Is
	return
}

func deref(s *string) string {
	if s == nil {
		return "<nil>"
	}
	return *s
}
