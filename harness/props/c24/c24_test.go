// Package c24 checks C24: with the conditional (bucket-routing) middleware every
// operation on a bucket reads and mutates only the storage configured for that
// bucket (or the default), bucket listings combine all storages without
// duplicates, and cross-storage copies produce the same result as a
// same-storage copy.
//
// Oracle: a twin. The same generated program is applied through the middleware
// (over three plain storages: default, A, B) and to one plain storage T that
// holds all buckets. After every step (a) the two call results must agree,
// (b) for each of the three backing storages X, dump(X) must equal dump(T)
// restricted to the buckets routed to X (so nothing leaks into, or is missing
// from, a storage), (c) ListBuckets through the middleware must be the sorted
// duplicate-free list of T's buckets. In T every copy is a same-storage copy,
// so (a)+(b) also state "a cross-storage copy equals a same-storage copy".
package c24

import (
	"context"
	"fmt"
	"os"
	"path/filepath"
	"sort"
	"strings"
	"testing"

	"github.com/jdillenkofer/pithos/internal/storage"
	"github.com/jdillenkofer/pithos/internal/storage/middlewares/conditional"
	"github.com/jdillenkofer/pithos/verifharness/dump"
	"github.com/jdillenkofer/pithos/verifharness/ev"
	"github.com/jdillenkofer/pithos/verifharness/gen"
	"github.com/jdillenkofer/pithos/verifharness/prog"
	"github.com/jdillenkofer/pithos/verifharness/run"
	"github.com/jdillenkofer/pithos/verifharness/stacks"
	"pgregory.net/rapid"
)

// Case: three backing storages (0 = default, 1 = A, 2 = B) and a route per bucket of the universe.
type Case struct {
	Stacks [3]string `json:"stacks"`
	// Route[i] is the storage of bucket i: 0 = not in the map (default storage), 1 = A, 2 = B.
	Route []int     `json:"route"`
	Ops   []prog.Op `json:"ops"`
	// Race: instead of a program, one cross-storage copy with a writer on the source (c24_race_test.go).
	Race *Race `json:"race,omitempty"`
}

var names = run.Names{Buckets: []string{"bucket-a", "bucket.b", "bucket-c", "bucket-d"}, Keys: []string{"a", "é %_/b"}}

const (
	matcherDup  = "c24.listBucketsDuplicates"
	kfDup       = "KF-C24-1"
	matcherCopy = "c24.crossCopyDropsMetadata"
	kfCopy      = "KF-C24-2"
	matcherSfx  = "c24.crossPartCopySuffixOfEmptySource"
	kfSfx       = "KF-C24-3"
)

func genCase(t *rapid.T, env *ev.Env) Case {
	var c Case
	if rapid.IntRange(0, 5).Draw(t, "race") == 3 {
		c.Race = genRace(t)
		return c
	}
	for i := range c.Stacks {
		c.Stacks[i] = rapid.SampledFrom([]string{"P1", "P2"}).Draw(t, "stack")
	}
	// routes: frequent shapes first (two buckets on A; A and B and default all used)
	c.Route = rapid.SampledFrom([][]int{
		{1, 1, 2, 0}, {1, 2, 0, 0}, {1, 1, 0, 0}, {1, 2, 2, 1}, {0, 1, 2, 1}, {1, 1, 1, 1}, {2, 0, 0, 0}, {0, 0, 0, 0},
	}).Draw(t, "route")
	cfg := prog.GenConfig{
		Buckets: 4, Keys: 2, MinOps: 4, MaxOps: 22,
		Weights: map[string]int{
			prog.OpCreateBucket: 2, prog.OpDeleteBucket: 2, prog.OpSetVersioning: 2,
			prog.OpPut: 10, prog.OpCopy: 12, prog.OpAppend: 2, prog.OpMpuSeq: 4, prog.OpMpuPartCopy: 4, prog.OpMpuComplete: 1, prog.OpMpuAbort: 1,
			prog.OpDelete: 3, prog.OpDeleteObjects: 1, prog.OpPutTags: 2, prog.OpDeleteTags: 1, prog.OpTransition: 1,
			prog.OpHead: 2, prog.OpGet: 3, prog.OpList: 1,
		},
		Classes:    []string{"STANDARD", "GLACIER"},
		Conditions: true, Meta: true, Tags: true, Versions: true, SrcConds: true,
		MaxBody: 3000,
		Prelude: []prog.Op{
			{Kind: prog.OpCreateBucket, B: 0}, {Kind: prog.OpCreateBucket, B: 1}, {Kind: prog.OpCreateBucket, B: 2}, {Kind: prog.OpCreateBucket, B: 3},
			{Kind: prog.OpPut, B: 0, K: 0, Body: &gen.BodySpec{Kind: "rand", Len: 700, Seed: 21}, ContentType: sp("text/plain"), Tags: map[string]string{"k": "v"}, Meta: &prog.Meta{CacheControl: sp("no-cache"), User: map[string]string{"a": "1"}}},
			{Kind: prog.OpPut, B: 1, K: 1, Body: &gen.BodySpec{Kind: "text", Len: 1500, Seed: 22}},
			{Kind: prog.OpPut, B: 2, K: 0, Body: &gen.BodySpec{Kind: "zero", Len: 2048, Seed: 23}, Class: sp("GLACIER"), Meta: &prog.Meta{ContentDisposition: sp("inline"), User: map[string]string{"x1": "with space"}}},
			{Kind: prog.OpMpuCreate, B: 3, K: 1, ContentType: sp("x/y"), Tags: map[string]string{"env": "prod"}},
			{Kind: prog.OpMpuPart, Upload: prog.LastUpload, PartNo: 1, Body: &gen.BodySpec{Kind: "rand", Len: 1024, Seed: 24}},
			{Kind: prog.OpMpuPart, Upload: prog.LastUpload, PartNo: 2, Body: &gen.BodySpec{Kind: "rand", Len: 5, Seed: 25}},
			{Kind: prog.OpMpuComplete, Upload: prog.LastUpload},
		},
	}
	ops := cfg.Gen(t)
	for i := range ops {
		op := &ops[i]
		// explicit version references fail most of the time in unversioned buckets: keep a third
		if (op.Ver != "" || op.SrcVer != "") && rapid.IntRange(0, 2).Draw(t, "keepVer") > 0 {
			op.Ver, op.SrcVer = "", ""
		}
		for j := range op.Entries {
			if op.Entries[j].Ver != "" && rapid.IntRange(0, 2).Draw(t, "keepDelVer") > 0 {
				op.Entries[j].Ver = ""
			}
		}
		if i < len(cfg.Prelude) {
			continue
		}
		// half of the uploaded parts become UploadPartCopy
		if op.Kind == prog.OpMpuPart && rapid.Bool().Draw(t, "partAsCopy") {
			op.Kind, op.Body, op.Supplied = prog.OpMpuPartCopy, nil, ""
			op.SB = rapid.IntRange(0, 3).Draw(t, "pcSB")
			op.SK = rapid.IntRange(0, 1).Draw(t, "pcSK")
			if rapid.Bool().Draw(t, "pcRanged") {
				op.Range = &[2]int64{int64(rapid.SampledFrom([]int{0, 1, 512}).Draw(t, "pcStart")), int64(rapid.SampledFrom([]int{513, 700, 1024}).Draw(t, "pcEnd"))}
			}
		}
		// sources that the prelude populated (bucket i -> key preludeKey[i]) are preferred
		if (op.Kind == prog.OpCopy || op.Kind == prog.OpMpuPartCopy) && rapid.IntRange(0, 2).Draw(t, "preludeSrc") > 0 {
			op.SK = []int{0, 1, 0, 1}[op.SB%4]
		}
	}
	c.Ops = ops
	return c
}

func sp(s string) *string { return &s }

// ---- comparison of the two sides ---------------------------------------------------------

func blankObj(v *prog.ObjView, etag, meta bool) prog.ObjView {
	o := *v
	o.Version, o.LastMod = "", 0
	if etag {
		o.ETag, o.Checksums, o.CkType = "", nil, ""
	}
	if meta {
		o.Meta, o.Tags, o.Class = prog.Meta{}, nil, ""
	}
	return o
}

// cmpResults lists the differences between the middleware's answer and the twin's.
func cmpResults(kind string, a, b prog.Result, skipETag, skipMeta bool) []string {
	var d []string
	if a.Err != b.Err {
		return []string{fmt.Sprintf("error kind %q (%s), twin %q (%s)", a.Err, a.ErrText, b.Err, b.ErrText)}
	}
	if a.Err != "" {
		return nil
	}
	if !skipETag && a.ETag != b.ETag {
		d = append(d, fmt.Sprintf("returned ETag %s, twin %s", a.ETag, b.ETag))
	}
	if prog.NormVersion(a.Version) != prog.NormVersion(b.Version) && kind != prog.OpMpuPart && kind != prog.OpMpuPartCopy {
		d = append(d, fmt.Sprintf("returned version form %s, twin %s", prog.NormVersion(a.Version), prog.NormVersion(b.Version)))
	}
	if a.DeleteMarker != b.DeleteMarker {
		d = append(d, fmt.Sprintf("delete-marker flag %v, twin %v", a.DeleteMarker, b.DeleteMarker))
	}
	if kind == prog.OpAppend && a.Size != b.Size {
		d = append(d, fmt.Sprintf("size %d, twin %d", a.Size, b.Size))
	}
	if (a.Obj == nil) != (b.Obj == nil) {
		d = append(d, "object returned by one side only")
	} else if a.Obj != nil {
		x, y := blankObj(a.Obj, skipETag, skipMeta), blankObj(b.Obj, skipETag, skipMeta)
		for _, m := range prog.CompareObj(kind, y, x) {
			d = append(d, m+" [expected = twin]")
		}
		for _, m := range prog.CompareObj(kind, x, y) {
			if strings.Contains(m, "checksum") {
				d = append(d, m+" [expected = middleware]")
			}
		}
	}
	if strings.Join(a.Keys, "\x00") != strings.Join(b.Keys, "\x00") {
		d = append(d, fmt.Sprintf("keys %q, twin %q", a.Keys, b.Keys))
	}
	if len(a.Entries) != len(b.Entries) {
		d = append(d, fmt.Sprintf("%d delete entries, twin %d", len(a.Entries), len(b.Entries)))
	} else {
		for i := range a.Entries {
			x, y := a.Entries[i], b.Entries[i]
			if x.Key != y.Key || x.Deleted != y.Deleted || x.ErrCode != y.ErrCode || x.DeleteMarker != y.DeleteMarker {
				d = append(d, fmt.Sprintf("delete entry %d = %+v, twin %+v", i, x, y))
			}
		}
	}
	return d
}

// normalise blanks, in a dump, the fields that are legitimately incomparable for tainted keys.
func normalise(d *dump.Dump, etagTaint, metaTaint map[string]bool) {
	for bi := range d.Buckets {
		b := &d.Buckets[bi]
		for oi := range b.Objects {
			o := &b.Objects[oi]
			k := b.Name + "\x00" + o.Key
			if etagTaint[k] {
				o.ETag, o.Checksums = "", nil
			}
			if metaTaint[k] {
				o.Meta, o.Tags, o.Class = "", "", ""
			}
		}
		for vi := range b.Versions {
			v := &b.Versions[vi]
			k := b.Name + "\x00" + v.Key
			if etagTaint[k] {
				v.ETag = ""
			}
			if metaTaint[k] {
				v.Meta, v.Tags, v.Class = "", "", ""
			}
		}
	}
}

func filter(d *dump.Dump, keep func(bucket string) bool) *dump.Dump {
	out := &dump.Dump{}
	for _, b := range d.Buckets {
		if keep(b.Name) {
			out.Buckets = append(out.Buckets, b)
		}
	}
	return out
}

// rangedGet reads a range of an object directly (used to justify an InvalidRange answer).
func rangedGet(st storage.Storage, bucket, key string, ver *string, r [2]int64) ([]byte, error) {
	var br storage.ByteRange
	if r[0] < 0 {
		e := r[1]
		br = storage.ByteRange{End: &e}
	} else {
		s, e := r[0], r[1]
		br = storage.ByteRange{Start: &s, End: &e}
	}
	var opts *storage.GetObjectOptions
	if ver != nil {
		opts = &storage.GetObjectOptions{VersionID: ver}
	}
	_, readers, err := st.GetObject(context.Background(), storage.MustNewBucketName(bucket), storage.MustNewObjectKey(key), []storage.ByteRange{br}, opts)
	if err != nil {
		return nil, err
	}
	return prog.ReadAll(readers)
}

func bucketNames(bs []storage.Bucket) []string {
	var out []string
	for _, b := range bs {
		out = append(out, b.Name.String())
	}
	return out
}

// ---- run -------------------------------------------------------------------------------------

func runCase(env *ev.Env, c Case) (o ev.Outcome) {
	if c.Race != nil {
		return runRace(env, c)
	}
	dir := env.TempDir()
	defer os.RemoveAll(dir)
	ctx := context.Background()
	var insts []*stacks.Instance
	defer func() {
		for _, i := range insts {
			i.Close()
		}
	}()
	open := func(name, stack string) *stacks.Instance {
		inst, err := stacks.Open(filepath.Join(dir, name), stacks.LayoutFor(stack), stacks.Options{})
		if err != nil {
			o.Failf("harness: open %s (%s): %v", name, stack, err)
			return nil
		}
		insts = append(insts, inst)
		return inst
	}
	var phys [3]*stacks.Instance
	for i, n := range []string{"default", "A", "B"} {
		if phys[i] = open(n, c.Stacks[i]); phys[i] == nil {
			return
		}
	}
	twin := open("twin", "P1")
	if twin == nil {
		return
	}
	route := func(bucket string) int {
		for i, n := range names.Buckets {
			if n == bucket && i < len(c.Route) {
				return c.Route[i]
			}
		}
		return 0
	}
	m := map[string]storage.Storage{}
	entriesPerStorage := map[int]int{}
	for i, n := range names.Buckets {
		if i < len(c.Route) && c.Route[i] != 0 {
			m[n] = phys[c.Route[i]].Storage
			entriesPerStorage[c.Route[i]]++
		}
	}
	// the backing storages are already started (stacks.Open); the middleware's own Start/Stop would start
	// a storage once per map entry, so it is not used here.
	mw, err := conditional.NewStorageMiddleware(m, phys[0].Storage)
	if err != nil {
		o.Failf("harness: middleware: %v", err)
		return
	}
	sess := run.NewSession(names, prog.NewStorageSide(mw), prog.NewStorageSide(twin.Storage))
	shared := false
	for _, n := range entriesPerStorage {
		if n >= 2 {
			shared = true
		}
	}
	o.Class(fmt.Sprintf("route:%v", c.Route))
	if shared {
		o.Class("two-buckets-share-a-mapped-storage")
		o.NonTrivial = true
	}
	etagTaint, metaTaint := map[string]bool{}, map[string]bool{}
	bk := func(b, k string) string { return b + "\x00" + k }
	dopt := dump.Options{Versions: true}

	checkState := func(i int, what string) (stop bool) {
		dT, err := dump.Of(ctx, twin.Storage, dopt)
		if err != nil {
			o.Failf("harness: dump twin: %v", err)
			return true
		}
		normalise(dT, etagTaint, metaTaint)
		for x := 0; x < 3; x++ {
			dX, err := dump.Of(ctx, phys[x].Storage, dopt)
			if err != nil {
				o.Failf("step %d: dump of backing storage %d failed: %v", i, x, err)
				return true
			}
			normalise(dX, etagTaint, metaTaint)
			want := filter(dT, func(b string) bool { return route(b) == x })
			o.Sub++
			if diffs := dump.Diff(want, dX); len(diffs) > 0 {
				o.Failf("step %d (%s): backing storage %d (%s) differs from the twin restricted to its buckets (first = expected): %s", i, what, x, []string{"default", "A", "B"}[x], strings.Join(diffs, "; "))
				return true
			}
		}
		// ListBuckets through the middleware: sorted union without duplicates
		bs, err := mw.ListBuckets(ctx)
		if err != nil {
			o.Failf("step %d: ListBuckets through the middleware failed: %v", i, err)
			return true
		}
		got := bucketNames(bs)
		var want []string
		for _, b := range dT.Buckets {
			want = append(want, b.Name)
		}
		o.Sub++
		if strings.Join(got, "\x00") != strings.Join(want, "\x00") {
			// KF-C24-1: ListBuckets asks each map *entry's* storage, so a storage that serves n mapped buckets
			// contributes each of its buckets n times.
			if env.Known(matcherDup) && sort.StringsAreSorted(got) {
				var exp []string
				for _, b := range want {
					n := 1
					if r := route(b); r != 0 {
						n = entriesPerStorage[r]
					}
					for j := 0; j < n; j++ {
						exp = append(exp, b)
					}
				}
				if strings.Join(got, "\x00") == strings.Join(exp, "\x00") {
					o.KnownHits = append(o.KnownHits, kfDup)
					return false
				}
			}
			o.Failf("step %d (%s): ListBuckets through the middleware = %q, expected the sorted duplicate-free union %q", i, what, got, want)
			return true
		}
		return false
	}

	for i, op := range c.Ops {
		// ETag-dependent conditions on a key whose ETag is legitimately incomparable between the two sides
		// (destination of a cross-storage copy of a multipart-style source) would be decided differently by
		// design: such conditions are dropped from the op (counted), the op itself still runs.
		{
			pc := sess.Resolve(op, 0)
			if strings.HasPrefix(op.SrcCond, "im-") || strings.HasPrefix(op.SrcCond, "inm-") {
				if etagTaint[pc.SrcBucket+"\x00"+pc.SrcKey] {
					op.SrcCond = ""
					o.Count("etag_condition_dropped_on_tainted_key", 1)
				}
			}
			if (op.IfMatch == "cur" || op.IfMatch == "stale") && etagTaint[pc.Bucket+"\x00"+pc.Key] {
				op.IfMatch = ""
				o.Count("etag_condition_dropped_on_tainted_key", 1)
			}
			if len(op.Entries) > 0 {
				es := append([]prog.DelSpec(nil), op.Entries...)
				for j := range es {
					if es[j].IfMatch != "" && j < len(pc.Entries) && etagTaint[pc.Bucket+"\x00"+pc.Entries[j].Key] {
						es[j].IfMatch = ""
						o.Count("etag_condition_dropped_on_tainted_key", 1)
					}
				}
				op.Entries = es
			}
		}
		sr := sess.Step(op)
		cc := sr.Concrete
		a, b := sr.Got[0], sr.Got[1]
		o.Sub++
		dst := bk(cc.Bucket, cc.Key)
		src := bk(cc.SrcBucket, cc.SrcKey)
		cross := (op.Kind == prog.OpCopy || op.Kind == prog.OpMpuPartCopy) && route(cc.SrcBucket) != route(cc.Bucket)
		if op.Kind == prog.OpCopy || op.Kind == prog.OpMpuPartCopy {
			cl := "same-storage"
			if cross {
				cl = "cross-storage"
			}
			res := "ok"
			if a.Err != "" {
				res = "fail:" + a.Err
			}
			o.Class(op.Kind + ":" + cl + ":" + res)
			if cross && a.Err == "" {
				o.NonTrivial = true
			}
		}
		if a.Err == "" {
			o.Count("ok:"+op.Kind, 1)
		} else {
			o.Count("fail:"+op.Kind, 1)
		}
		// taint bookkeeping (before comparing this step)
		multipartSrc := false
		if op.Kind == prog.OpCopy && b.Err == "" {
			// a copy of a multipart-style source keeps a multipart ETag only inside one storage
			if cross {
				r := prog.NewStorageSide(twin.Storage).Do(prog.Concrete{Op: prog.Op{Kind: prog.OpHead}, Bucket: cc.SrcBucket, Key: cc.SrcKey, VersionID: sess.Resolve(op, 1).SrcVersionID})
				if r.Obj != nil && strings.Contains(r.Obj.ETag, "-") {
					multipartSrc = true
				}
			}
			if multipartSrc || etagTaint[src] {
				etagTaint[dst] = true
			}
			if metaTaint[src] {
				metaTaint[dst] = true
			}
		}
		if (op.Kind == prog.OpAppend || op.Kind == prog.OpMpuPartCopy) && etagTaint[map[bool]string{true: src, false: dst}[op.Kind == prog.OpMpuPartCopy]] {
			// appending to (or part-copying from) an object whose part structure differs between the sides
			etagTaint[dst] = true
		}
		skipETag := etagTaint[dst] && (op.Kind == prog.OpCopy || op.Kind == prog.OpAppend || op.Kind == prog.OpHead || op.Kind == prog.OpGet || op.Kind == prog.OpMpuComplete)
		skipMeta := metaTaint[dst]
		diffs := cmpResults(op.Kind, a, b, skipETag, skipMeta)
		// KF-C24-3: UploadPartCopy of a suffix range ("last n bytes") of an empty source succeeds inside one storage
		// (an empty part) but fails with InvalidRange across storages (the source is read through GetObject).
		if len(diffs) > 0 && cross && op.Kind == prog.OpMpuPartCopy && a.Err == prog.EInvalidRange && b.Err == "" && op.Range != nil && op.Range[0] < 0 && env.Known(matcherSfx) {
			r := prog.NewStorageSide(twin.Storage).Do(prog.Concrete{Op: prog.Op{Kind: prog.OpHead}, Bucket: cc.SrcBucket, Key: cc.SrcKey, VersionID: sess.Resolve(op, 1).SrcVersionID})
			if r.Obj != nil && r.Obj.Size == 0 {
				o.KnownHits = append(o.KnownHits, kfSfx)
				o.Excluded = true
				return
			}
		}
		// Don't-care: error precedence when two independent faults apply to a cross-storage UploadPartCopy at once
		// (the upload does not exist AND the source range is unsatisfiable): the middleware reads the source first
		// (InvalidRange), a single storage looks the upload up first (NoSuchKey). Both refuse, nothing changes.
		if len(diffs) > 0 && cross && op.Kind == prog.OpMpuPartCopy && a.Err == prog.EInvalidRange && b.Err == prog.ENoSuchKey && op.Range != nil {
			tc := sess.Resolve(op, 1)
			_, rangeErr := rangedGet(twin.Storage, tc.SrcBucket, tc.SrcKey, tc.SrcVersionID, *op.Range)
			uidT, e1 := storage.NewUploadId(tc.UploadID)
			uidM, e2 := storage.NewUploadId(cc.UploadID)
			unknown := false
			if e1 == nil && e2 == nil {
				_, lt := twin.Storage.ListParts(ctx, storage.MustNewBucketName(tc.Bucket), storage.MustNewObjectKey(tc.Key), uidT, storage.ListPartsOptions{MaxParts: 1})
				_, lm := mw.ListParts(ctx, storage.MustNewBucketName(cc.Bucket), storage.MustNewObjectKey(cc.Key), uidM, storage.ListPartsOptions{MaxParts: 1})
				unknown = lt != nil && lm != nil
			}
			if unknown && prog.Classify(rangeErr) == prog.EInvalidRange {
				o.Count("dontcare:error_precedence_unknown_upload_vs_invalid_range", 1)
				diffs = nil
			}
		}
		if len(diffs) > 0 {
			o.Failf("step %d (%s %s/%s src %s/%s cross=%v): middleware vs twin: %s", i, op.Kind, cc.Bucket, cc.Key, cc.SrcBucket, cc.SrcKey, cross, strings.Join(diffs, "; "))
			return
		}
		if op.Kind == prog.OpMpuComplete && a.Err == "" {
			// uploads may contain parts copied from tainted sources; the completed ETag is built from part ETags (md5 of bytes): comparable
		}
		if !op.IsMutation() {
			continue
		}
		// KF-C24-2: a successful cross-storage CopyObject is executed as PutObject(..., nil, nil): metadata, tags
		// and storage class of the destination are dropped (directives and request values ignored).
		if cross && op.Kind == prog.OpCopy && a.Err == "" && env.Known(matcherCopy) {
			h := prog.Concrete{Op: prog.Op{Kind: prog.OpHead}, Bucket: cc.Bucket, Key: cc.Key}
			ra, rb := prog.NewStorageSide(mw).Do(h), prog.NewStorageSide(twin.Storage).Do(h)
			if ra.Obj != nil && rb.Obj != nil {
				full := cmpResults(prog.OpHead, ra, rb, etagTaint[dst], false)
				rest := cmpResults(prog.OpHead, ra, rb, etagTaint[dst], true)
				dropped := ra.Obj.Meta.String() == (prog.Meta{}).String() && len(ra.Obj.Tags) == 0 && ra.Obj.Class == "STANDARD"
				if len(full) > 0 && len(rest) == 0 && dropped {
					o.KnownHits = append(o.KnownHits, kfCopy)
					metaTaint[dst] = true
				}
			}
		}
		if checkState(i, fmt.Sprintf("%s %s/%s", op.Kind, cc.Bucket, cc.Key)) {
			return
		}
	}
	// the middleware's own view (all listing APIs routed) equals the twin
	dM, err := dump.Of(ctx, mw, dopt)
	if err != nil {
		o.Failf("dump through the middleware failed: %v", err)
		return
	}
	dT, err := dump.Of(ctx, twin.Storage, dopt)
	if err != nil {
		o.Failf("harness: dump twin: %v", err)
		return
	}
	normalise(dM, etagTaint, metaTaint)
	normalise(dT, etagTaint, metaTaint)
	o.Sub++
	if diffs := dump.Diff(dT, dM); len(diffs) > 0 {
		o.Failf("final: observable state through the middleware differs from the twin (first = twin): %s", strings.Join(diffs, "; "))
	}
	return
}

func directed(env *ev.Env) []Case {
	b := func(n int, seed uint64) *gen.BodySpec { return &gen.BodySpec{Kind: "rand", Len: n, Seed: seed} }
	return []Case{
		// KF-C24-1: two buckets mapped to A
		{Stacks: [3]string{"P1", "P1", "P1"}, Route: []int{1, 1, 0, 0}, Ops: []prog.Op{{Kind: prog.OpCreateBucket, B: 0}}},
		// KF-C24-2: cross-storage copy of an object with metadata, tags
		{Stacks: [3]string{"P1", "P2", "P1"}, Route: []int{1, 2, 0, 0}, Ops: []prog.Op{
			{Kind: prog.OpCreateBucket, B: 0}, {Kind: prog.OpCreateBucket, B: 1},
			{Kind: prog.OpPut, B: 0, K: 0, Body: b(100, 1), ContentType: sp("text/plain"), Tags: map[string]string{"k": "v"}, Meta: &prog.Meta{CacheControl: sp("no-cache")}},
			{Kind: prog.OpCopy, B: 1, K: 1, SB: 0, SK: 0},
			{Kind: prog.OpGet, B: 1, K: 1},
		}},
		// KF-C24-3: cross-storage UploadPartCopy of a suffix range of an empty source
		{Stacks: [3]string{"P1", "P2", "P1"}, Route: []int{1, 2, 0, 0}, Ops: []prog.Op{
			{Kind: prog.OpCreateBucket, B: 0}, {Kind: prog.OpCreateBucket, B: 1},
			{Kind: prog.OpPut, B: 0, K: 0, Body: b(0, 1)},
			{Kind: prog.OpMpuCreate, B: 1, K: 1},
			{Kind: prog.OpMpuPartCopy, Upload: prog.LastUpload, PartNo: 1, SB: 0, SK: 0, Range: &[2]int64{-1, 1}},
		}},
		// cross-storage UploadPartCopy
		{Stacks: [3]string{"P1", "P2", "P1"}, Route: []int{1, 2, 0, 0}, Ops: []prog.Op{
			{Kind: prog.OpCreateBucket, B: 0}, {Kind: prog.OpCreateBucket, B: 1},
			{Kind: prog.OpPut, B: 0, K: 0, Body: b(3000, 1)},
			{Kind: prog.OpMpuCreate, B: 1, K: 1},
			{Kind: prog.OpMpuPartCopy, Upload: prog.LastUpload, PartNo: 1, SB: 0, SK: 0, Range: &[2]int64{0, 1024}},
			{Kind: prog.OpMpuPartCopy, Upload: prog.LastUpload, PartNo: 2, SB: 0, SK: 0},
			{Kind: prog.OpMpuComplete, Upload: prog.LastUpload},
			{Kind: prog.OpGet, B: 1, K: 1},
		}},
	}
}

func TestC24(t *testing.T) {
	ev.Main(t, ev.Spec[Case]{
		ID:    "C24",
		Level: "exploration",
		Rule: "programs of 4-22 generated ops (after a 11-op prelude that populates every bucket, one object by multipart upload) over 4 buckets x 2 keys through the conditional middleware over three plain storages (default, A, B; drawn sql/filesystem stacks) with a drawn bucket->storage map, " +
			"and the same program on one plain twin storage; after every step results, per-backing-storage state and ListBuckets are compared. Non-trivial = a CopyObject/UploadPartCopy crossed storages successfully, or two buckets of the map share one storage. Distinct = distinct case JSON",
		Assumptions: []string{
			"a plain metadatapart storage holding all buckets is the specification of each routed bucket (and of a same-storage copy)",
			"the middleware is built with its public constructor over already-started storages; its Start/Stop fan-out is not exercised; SQLite only",
		},
		Gen:      genCase,
		Run:      runCase,
		Directed: directed,
	})
}
