package c09

import (
	"context"
	"database/sql"
	"fmt"
	"os"
	"sort"
	"strings"
	"testing"
	"time"

	"github.com/jdillenkofer/pithos/internal/storage/database"
	"github.com/jdillenkofer/pithos/internal/storage/metadatapart"
	"github.com/jdillenkofer/pithos/internal/storage/metadatapart/partstore"
	"github.com/jdillenkofer/pithos/verifharness/ev"
	"github.com/jdillenkofer/pithos/verifharness/inject"
	"github.com/jdillenkofer/pithos/verifharness/prog"
	"github.com/jdillenkofer/pithos/verifharness/run"
	"github.com/jdillenkofer/pithos/verifharness/stacks"
	"pgregory.net/rapid"
)

var names = run.Names{Buckets: []string{"gc-a", "gc-b"}, Keys: []string{"k", "dir/k2", "K"}}

// Disturb describes an injected disturbance for the op at the same index.
type Disturb struct {
	Kind string `json:"kind,omitempty"` // "", "fault", "crash"
	Site string `json:"site,omitempty"`
	N    int    `json:"n,omitempty"`
}

type Case struct {
	Stack   string    `json:"stack"`
	Ops     []prog.Op `json:"ops"`
	Disturb []Disturb `json:"disturb"` // parallel to Ops
}

var faultSites = []string{"sql:exec", "sql:commit:before", "ps:%s:put:after", "ps:%s:put:precommit", "ps:%s:delete:precommit", "ps:%s:put:mid"}
var crashSites = []string{"sql:exec", "sql:commit:before", "sql:commit:after", "ps:%s:put:after", "ps:%s:put:precommit", "ps:%s:put:aftercommit", "ps:%s:delete:precommit", "ps:%s:delete:aftercommit"}

func genCfg(stack string) prog.GenConfig {
	cfg := prog.GenConfig{
		Buckets: 2, Keys: 3, MinOps: 6, MaxOps: 30,
		Weights: map[string]int{
			prog.OpPut: 10, prog.OpCopy: 4, prog.OpAppend: 2, prog.OpMpuSeq: 4, prog.OpMpuCreate: 2, prog.OpMpuPart: 4, prog.OpMpuPartCopy: 2,
			prog.OpMpuAbort: 3, prog.OpMpuComplete: 2, prog.OpDelete: 6, prog.OpDeleteObjects: 1, prog.OpSetVersioning: 1, prog.OpTransition: 2, prog.OpGC: 1,
		},
		Versions: true, Conditions: true, Supplied: true, Manifests: true, HotKey: true, Boundaries: stacks.Boundaries(stack), MaxBody: 4000,
	}
	if stack == "N1" || stack == "N2" {
		cfg.Classes = []string{"STANDARD", "GLACIER", "STANDARD_IA"}
	}
	return cfg
}

func genCase(t *rapid.T, env *ev.Env) Case {
	stacksList := []string{"P2", "N1", "P1", "N2", "P3", "N1", "P8", "N2", "P12", "P4"}
	stack := stacksList[(rapid.IntRange(0, 63).Draw(t, "stackHi")*64+rapid.IntRange(0, 63).Draw(t, "stackLo")*37)%len(stacksList)]
	c := Case{Stack: stack, Ops: genCfg(stack).Gen(t)}
	c.Disturb = make([]Disturb, len(c.Ops))
	withDisturb := rapid.IntRange(0, 2).Draw(t, "disturbed") > 0
	for i := range c.Ops {
		if !withDisturb || !c.Ops[i].IsMutation() || i < 2 {
			continue
		}
		switch rapid.IntRange(0, 9).Draw(t, "disturbKind") {
		case 0, 1:
			c.Disturb[i] = Disturb{Kind: "fault", Site: rapid.SampledFrom(faultSites).Draw(t, "fsite"), N: rapid.IntRange(1, 5).Draw(t, "fn")}
		case 2, 3:
			c.Disturb[i] = Disturb{Kind: "crash", Site: rapid.SampledFrom(crashSites).Draw(t, "csite"), N: rapid.IntRange(1, 3).Draw(t, "cn")}
		case 4:
			// a leftover of some earlier interrupted write: a part with a fresh id that nothing references
			c.Disturb[i] = Disturb{Kind: "orphan", N: rapid.IntRange(0, 3).Draw(t, "ostore")}
			if stack == "P8" && rapid.Bool().Draw(t, "opartial") {
				// erasure-coded store: the leftover of a multi-store delete that was interrupted after the first
				// shard store (the part's shard in shard store 0 is gone, the others are still there)
				c.Disturb[i].Kind = "orphan-partial"
			}
		}
	}
	return c
}

func storeNames(layout stacks.Layout) []string {
	out := []string{"default"}
	for n := range layout.Extra {
		out = append(out, n)
	}
	sort.Strings(out)
	return out
}

func runCase(env *ev.Env, c Case) (o ev.Outcome) {
	o.Class("stack:" + c.Stack)
	dir := env.TempDir()
	defer os.RemoveAll(dir)
	layout := stacks.LayoutFor(c.Stack)
	opts := stacks.Options{Inject: true, GCGrace: 20 * time.Millisecond}
	inst, err := stacks.Open(dir, layout, opts)
	if err != nil {
		o.Failf("harness: open: %v", err)
		return
	}
	defer func() {
		if inst != nil {
			inst.Close()
		}
	}()
	side := prog.NewStorageSide(inst.Storage)
	sess := run.NewSession(names, side)
	sess.Model.PromoteByRowCreation = true
	stores := storeNames(layout)
	faults, crashes, aborted, overwrites, orphans := 0, 0, 0, 0, 0
	for i, op := range c.Ops {
		d := Disturb{}
		if i < len(c.Disturb) {
			d = c.Disturb[i]
		}
		switch {
		case op.Kind == prog.OpGC:
			_ = metadatapart.VerifRunGCOnce(inst.Storage)
		case !op.IsMutation():
		case d.Kind == "":
			sr := sess.Step(op)
			if sr.Expect.Err == "" && len(sr.Got) > 0 && sr.Got[0].Err == "" {
				switch op.Kind {
				case prog.OpMpuAbort:
					aborted++
				case prog.OpPut, prog.OpCopy, prog.OpMpuComplete, prog.OpDelete:
					overwrites++
				}
			}
		case d.Kind == "orphan" || d.Kind == "orphan-partial":
			sess.Step(op)
			st := metadatapart.VerifNamedStores(inst.Storage)[stores[d.N%len(stores)]]
			id, _ := partstore.NewRandomPartId()
			db := metadatapart.VerifDatabase(inst.Storage)
			err := database.WithTx(context.Background(), db, &sql.TxOptions{}, func(ctx context.Context, tx database.Tx) error {
				return st.PutPart(ctx, tx, *id, strings.NewReader("orphaned part content"))
			})
			if err == nil && d.Kind == "orphan-partial" {
				if s0 := inst.Builder.Bases[stores[d.N%len(stores)]+".s0"]; s0 != nil {
					err = database.WithTx(context.Background(), db, &sql.TxOptions{}, func(ctx context.Context, tx database.Tx) error {
						return s0.DeletePart(ctx, tx, *id)
					})
					o.Class("planted-partial-orphan-on-erasure-coded-store")
				}
			}
			if err != nil {
				o.Failf("harness: planting an orphan part failed: %v", err)
				return
			}
			orphans++
		default:
			site := d.Site
			if strings.Contains(site, "%s") {
				site = fmt.Sprintf(site, stores[d.N%len(stores)])
			}
			target := inject.Site{Name: site, N: d.N}
			if d.Kind == "fault" {
				inject.C.Arm(&target, false)
				side.Do(sess.Resolve(op, 0))
				_, fired, _ := inject.C.Disarm()
				if fired {
					faults++
				}
				continue
			}
			crashed := func() (crashed bool) {
				defer func() {
					if r := recover(); r != nil {
						inject.C.Disarm()
						if _, ok := r.(inject.CrashSentinel); ok {
							crashed = true
							return
						}
						panic(r)
					}
				}()
				inject.C.Arm(&target, true)
				side.Do(sess.Resolve(op, 0))
				inject.C.Disarm()
				return false
			}()
			if crashed {
				crashes++
				inst.Kill()
				inst, err = stacks.Open(dir, layout, opts)
				if err != nil {
					inst = nil
					if strings.Contains(err.Error(), "database is locked") {
						o.Discard = true // artefact of simulating the kill in-process
						return
					}
					o.Failf("restart after crash at %s failed: %v", target, err)
					return
				}
				side.S = inst.Storage
			}
		}
	}
	// quiescence: past the grace window, then GC runs
	if n := unreferencedNow(inst, stores); n > 0 {
		o.NonTrivial = true
		o.Count("unreferenced_before_gc", n)
	}
	time.Sleep(30 * time.Millisecond)
	for r := 0; r < 2; r++ {
		if err := metadatapart.VerifRunGCOnce(inst.Storage); err != nil {
			o.Failf("GC run %d failed: %v", r, err)
			return
		}
	}
	o.Count("injected_faults_fired", faults)
	o.Count("crashes", crashes)
	o.Count("planted_orphans", orphans)
	o.Count("aborted_uploads", aborted)
	if crashes > 0 {
		o.Class("with-crash")
	}
	if faults > 0 {
		o.Class("with-fault")
	}
	// oracle
	if msg := converged(inst, layout, stores); msg != "" {
		o.Failf("after quiescence and two GC runs: %s", msg)
	}
	return
}

func referenced(inst *stacks.Instance) (map[string]int, error) {
	ms := metadatapart.VerifMetadataStore(inst.Storage)
	db := metadatapart.VerifDatabase(inst.Storage)
	out := map[string]int{}
	err := database.WithTx(context.Background(), db, &sql.TxOptions{ReadOnly: true}, func(ctx context.Context, tx database.Tx) error {
		live, err := ms.GetInUsePartIdCounts(ctx, tx.SqlTx())
		if err != nil {
			return err
		}
		for id, n := range live {
			out[id.String()] = int(n)
		}
		return nil
	})
	return out, err
}

func storedIDs(inst *stacks.Instance, name string) (map[string]bool, error) {
	stores := metadatapart.VerifNamedStores(inst.Storage)
	db := metadatapart.VerifDatabase(inst.Storage)
	out := map[string]bool{}
	err := database.WithTx(context.Background(), db, &sql.TxOptions{ReadOnly: true}, func(ctx context.Context, tx database.Tx) error {
		ids, err := stores[name].GetPartIds(ctx, tx)
		if err != nil {
			return err
		}
		for _, id := range ids {
			out[id.String()] = true
		}
		return nil
	})
	return out, err
}

func unreferencedNow(inst *stacks.Instance, stores []string) int {
	ref, err := referenced(inst)
	if err != nil {
		return 0
	}
	n := 0
	for _, s := range stores {
		ids, err := storedIDs(inst, s)
		if err != nil {
			continue
		}
		for id := range ids {
			if ref[id] == 0 {
				n++
			}
		}
	}
	for _, dir := range inst.Builder.BaseDirs {
		n += len(strayFiles(dir))
	}
	return n
}

func strayFiles(dir string) []string {
	var out []string
	entries, err := os.ReadDir(dir)
	if err != nil {
		return nil
	}
	for _, e := range entries {
		if e.IsDir() {
			continue
		}
		n := e.Name()
		if strings.HasSuffix(n, ".tmp") || strings.Contains(n, ".txbackup.") {
			out = append(out, n)
		}
	}
	return out
}

// converged checks: stored part ids == referenced ids (every store), registry rows
// and ref counts match, dedup index within referenced, no stray files.
func converged(inst *stacks.Instance, layout stacks.Layout, stores []string) string {
	ref, err := referenced(inst)
	if err != nil {
		return "cannot read referenced part ids: " + err.Error()
	}
	all := map[string]bool{}
	for _, s := range stores {
		ids, err := storedIDs(inst, s)
		if err != nil {
			return fmt.Sprintf("GetPartIds(%s): %v", s, err)
		}
		for id := range ids {
			all[id] = true
			if ref[id] == 0 {
				return fmt.Sprintf("store %q still holds unreferenced part %s", s, id)
			}
		}
	}
	for id := range ref {
		if !all[id] {
			return fmt.Sprintf("referenced part %s is in no store", id)
		}
	}
	// erasure-coded stores: look into every shard store as well (a shard of an unreferenced part that the
	// composite store's own listing does not show is still unreclaimed content)
	if inst.Builder != nil {
		var shardStores []string
		for name := range inst.Builder.Bases {
			if i := strings.LastIndex(name, ".s"); i > 0 && len(name) > i+2 && strings.Trim(name[i+2:], "0123456789") == "" {
				shardStores = append(shardStores, name)
			}
		}
		sort.Strings(shardStores)
		db := metadatapart.VerifDatabase(inst.Storage)
		for _, name := range shardStores {
			var ids []partstore.PartId
			err := database.WithTx(context.Background(), db, &sql.TxOptions{ReadOnly: true}, func(ctx context.Context, tx database.Tx) error {
				var err error
				ids, err = inst.Builder.Bases[name].GetPartIds(ctx, tx)
				return err
			})
			if err != nil {
				return fmt.Sprintf("GetPartIds(shard store %s): %v", name, err)
			}
			for _, id := range ids {
				if ref[id.String()] == 0 {
					return fmt.Sprintf("shard store %q still holds a shard of unreferenced part %s", name, id.String())
				}
			}
		}
	}
	db := metadatapart.VerifDatabase(inst.Storage)
	var msg string
	err = database.WithTx(context.Background(), db, &sql.TxOptions{ReadOnly: true}, func(ctx context.Context, tx database.Tx) error {
		rows, err := tx.SqlTx().QueryContext(ctx, "SELECT part_id, ref_count FROM part_registry")
		if err != nil {
			return err
		}
		defer rows.Close()
		seen := map[string]bool{}
		for rows.Next() {
			var id string
			var n int
			if err := rows.Scan(&id, &n); err != nil {
				return err
			}
			seen[id] = true
			if ref[id] != n {
				msg = fmt.Sprintf("registry row %s has ref_count %d, metadata references it %d times", id, n, ref[id])
				return nil
			}
		}
		for id := range ref {
			if !seen[id] {
				msg = fmt.Sprintf("referenced part %s has no registry row", id)
				return nil
			}
		}
		rows2, err := tx.SqlTx().QueryContext(ctx, "SELECT part_id FROM part_dedup_index")
		if err != nil {
			return err
		}
		defer rows2.Close()
		for rows2.Next() {
			var id string
			if err := rows2.Scan(&id); err != nil {
				return err
			}
			if ref[id] == 0 {
				msg = fmt.Sprintf("dedup index names unreferenced part %s", id)
				return nil
			}
		}
		return nil
	})
	if err != nil {
		return "registry check: " + err.Error()
	}
	if msg != "" {
		return msg
	}
	for name, dir := range inst.Builder.BaseDirs {
		if s := strayFiles(dir); len(s) > 0 {
			return fmt.Sprintf("part directory of %q contains stray files %v", name, s)
		}
	}
	return ""
}

func TestC09(t *testing.T) {
	ev.Main(t, ev.Spec[Case]{
		ID:    "C09",
		Level: "exploration",
		Rule: "programs of 6-30 ops (puts, overwrites, copies and part copies sharing parts, dedup-identical bodies, multipart with aborts, deletes, transitions, semantically failing ops) on stacks P1,P2,P3,P4,P8,P12,N1,N2; two thirds of the programs additionally run ~30% of their mutations with an injected fault or a process kill (followed by restart) at a drawn site; then quiescence (sleep past the 20 ms grace window) and two GC runs; " +
			"oracle per configured store: GetPartIds == ids referenced by objects and pending uploads, registry rows/ref counts match, dedup index within the referenced set, no *.tmp / *.txbackup.* files; non-trivial = before the final GC runs >=1 unreferenced part id or stray file existed; distinct = distinct case JSON",
		Assumptions: []string{"bounded 'eventually': quiescence + two explicit GC passes", "outbox stacks excluded (their parts are pending by design until the worker drains)"},
		Gen:         genCase,
		Run:         runCase,
	})
}
