// Package c36 checks property C36: a multi-range / streaming GetObject on a
// DB-backed part store keeps its read transaction open until the last of its
// readers is closed and releases it exactly once, whatever the order of
// Read / Close / repeated Close over the readers.
//
// The schedule (which reader is read how far, closed when, closed again) is
// part of the Case, so every failure replays exactly.
package c36

import (
	"bytes"
	"context"
	"database/sql"
	"errors"
	"fmt"
	"io"
	"os"
	"strings"
	"sync"
	"testing"

	"github.com/jdillenkofer/pithos/internal/storage"
	"github.com/jdillenkofer/pithos/internal/storage/database"
	"github.com/jdillenkofer/pithos/internal/storage/metadatapart/partstore"
	"github.com/jdillenkofer/pithos/verifharness/ev"
	"github.com/jdillenkofer/pithos/verifharness/gen"
	"github.com/jdillenkofer/pithos/verifharness/stacks"
	"pgregory.net/rapid"
)

// Range is one requested byte range. Kind: "abs" = [A,B) (B may exceed the
// size: clamped), "from" = [A,size), "suffix" = last A bytes.
type Range struct {
	Kind string `json:"kind"`
	A    int64  `json:"a"`
	B    int64  `json:"b,omitempty"`
}

// Step is one schedule step. Op: "read" (one Read call with an N-byte buffer),
// "drain" (read to EOF), "close". R is the reader index modulo the reader count.
type Step struct {
	Op string `json:"op"`
	R  int    `json:"r"`
	N  int    `json:"n,omitempty"`
}

// Case is one object, one GetObject request and one schedule.
type Case struct {
	Stack  string         `json:"stack"` // P1 | P5 | P13
	Build  string         `json:"build"` // put | mpu | append
	Parts  []gen.BodySpec `json:"parts"` // 1..3 parts, each >= 1 byte
	Ranges []Range        `json:"ranges"`
	Steps  []Step         `json:"steps"`
	// Epilogue: readers still open after the schedule are drained, verified and
	// closed in this order ("asc" | "desc").
	Epilogue string `json:"epilogue"`
	// PostDouble: after everything was closed, close every reader once more.
	PostDouble bool `json:"post_double"`
	// CloseFault: the readers of the base part store report an error from Close (after closing). Reads and
	// Closes of the range readers may then fail with that error; the transaction clauses stay as they are:
	// held while a reader was never closed, released once every reader was closed (seeded defect S-C36-3).
	CloseFault bool `json:"close_fault,omitempty"`
}

var errCloseFault = errors.New("verif: close fault")

type closeFaultStore struct{ partstore.PartStore }

func (s closeFaultStore) Capabilities() partstore.Capabilities {
	return partstore.CapabilitiesOf(s.PartStore)
}

func (s closeFaultStore) GetPart(ctx context.Context, tx database.Tx, id partstore.PartId) (io.ReadCloser, error) {
	rc, err := s.PartStore.GetPart(ctx, tx, id)
	if err != nil {
		return nil, err
	}
	return closeFaultReader{rc}, nil
}

type closeFaultReader struct{ io.ReadCloser }

func (r closeFaultReader) Close() error {
	r.ReadCloser.Close()
	return errCloseFault
}

func isCloseFault(err error) bool {
	return err != nil && strings.Contains(err.Error(), errCloseFault.Error())
}

// ---- recording database wrapper -------------------------------------------------

type markKey struct{}

type txRec struct {
	tx       *sql.Tx
	readOnly bool
}

type recorder struct {
	mu  sync.Mutex
	txs []txRec
}

// recDB forwards everything to the real database and remembers the raw *sql.Tx
// of every transaction begun under a context that carries a recorder (only the
// harness's own GetObject call does; the GC goroutine's contexts do not).
type recDB struct {
	database.Database
}

func (d *recDB) BeginTx(ctx context.Context, opts *sql.TxOptions) (*database.TxController, error) {
	tx, err := d.Database.BeginTx(ctx, opts)
	if err == nil {
		if rec, ok := ctx.Value(markKey{}).(*recorder); ok && rec != nil {
			rec.mu.Lock()
			rec.txs = append(rec.txs, txRec{tx: tx.SqlTx(), readOnly: opts != nil && opts.ReadOnly})
			rec.mu.Unlock()
		}
	}
	return tx, err
}

func (d *recDB) UnwrapDatabase() database.Database { return d.Database }

// probe reports whether the transaction is finalised (sql.ErrTxDone on use).
func probe(tx *sql.Tx) (finalised bool, err error) {
	var one int
	err = tx.QueryRowContext(context.Background(), "SELECT 1").Scan(&one)
	if err == nil {
		return false, nil
	}
	if errors.Is(err, sql.ErrTxDone) {
		return true, nil
	}
	return false, err
}

func isTxDone(err error) bool {
	return err != nil && (errors.Is(err, sql.ErrTxDone) || strings.Contains(err.Error(), "transaction has already been committed or rolled back"))
}

// ---- expected slices -------------------------------------------------------------

// slice returns the expected bytes of a range, ok=false if unsatisfiable.
func slice(data []byte, r Range) ([]byte, bool) {
	size := int64(len(data))
	switch r.Kind {
	case "abs":
		b := min(r.B, size)
		if r.A < 0 || r.A >= b {
			return nil, false
		}
		return data[r.A:b], true
	case "from":
		if r.A < 0 || r.A >= size {
			return nil, false
		}
		return data[r.A:], true
	case "suffix":
		if r.A <= 0 {
			return nil, false
		}
		n := min(r.A, size)
		if n == 0 {
			return nil, false
		}
		return data[size-n:], true
	}
	return nil, false
}

func toByteRange(r Range) storage.ByteRange {
	a, b := r.A, r.B
	switch r.Kind {
	case "abs":
		return storage.ByteRange{Start: &a, End: &b}
	case "from":
		return storage.ByteRange{Start: &a}
	default:
		return storage.ByteRange{End: &a}
	}
}

// ---- generator -------------------------------------------------------------------

func genCase(t *rapid.T, env *ev.Env) Case {
	var c Case
	c.Stack = rapid.SampledFrom([]string{"P1", "P1", "P1", "P1", "P1", "P1", "P5", "P5", "P13"}).Draw(t, "stack")
	c.CloseFault = rapid.IntRange(0, 5).Draw(t, "closeFault") == 2
	nparts := rapid.SampledFrom([]int{1, 2, 2, 3, 3}).Draw(t, "nparts")
	if nparts == 1 {
		c.Build = "put"
	} else {
		c.Build = rapid.SampledFrom([]string{"mpu", "mpu", "append"}).Draw(t, "build")
	}
	maxLen := 300
	if env.Thorough() {
		maxLen = 70000
	}
	var bounds []int64 // part edges
	var size int64
	for i := 0; i < nparts; i++ {
		l := rapid.SampledFrom([]int{17, 64, 8, 100, 3, maxLen, 1, 2}).Draw(t, "plen")
		c.Parts = append(c.Parts, gen.BodySpec{Kind: "rand", Len: l, Seed: uint64(i + 1 + 10*rapid.IntRange(0, 3).Draw(t, "pseed"))})
		size += int64(l)
		bounds = append(bounds, size)
	}
	pos := func(label string) int64 {
		// positions cluster on part edges +-1 and on 0 / size
		switch rapid.IntRange(0, 3).Draw(t, label+"k") {
		case 0:
			return rapid.Int64Range(0, size-1).Draw(t, label)
		case 1:
			return 0
		default:
			b := rapid.SampledFrom(bounds).Draw(t, label+"b") + rapid.Int64Range(-2, 1).Draw(t, label+"d")
			return max(0, min(b, size+2))
		}
	}
	nr := rapid.SampledFrom([]int{0, 1, 2, 2, 2, 3, 3, 4, 4}).Draw(t, "nranges")
	invalid := rapid.IntRange(0, 19).Draw(t, "invalidRange") == 0
	for i := 0; i < nr; i++ {
		var r Range
		switch rapid.IntRange(0, 5).Draw(t, "rkind") {
		case 0:
			r = Range{Kind: "from", A: min(pos("from"), size-1)}
		case 1:
			r = Range{Kind: "suffix", A: rapid.Int64Range(1, size+3).Draw(t, "suffix")}
		default:
			a := min(pos("a"), size-1)
			b := max(pos("b"), a+1)
			if rapid.IntRange(0, 7).Draw(t, "beyond") == 0 {
				b = size + rapid.Int64Range(0, 5).Draw(t, "over")
			}
			r = Range{Kind: "abs", A: a, B: b}
		}
		c.Ranges = append(c.Ranges, r)
	}
	if invalid && nr > 0 {
		// one unsatisfiable member: GetObject must fail and release the transaction at once
		c.Ranges[rapid.IntRange(0, nr-1).Draw(t, "invIdx")] = Range{Kind: "from", A: size + rapid.Int64Range(0, 3).Draw(t, "invOff")}
	}
	readers := max(1, nr)
	allowDouble := rapid.Bool().Draw(t, "allowDouble")
	stepGen := rapid.Custom(func(t *rapid.T) Step {
		r := rapid.IntRange(0, readers-1).Draw(t, "r")
		switch rapid.IntRange(0, 9).Draw(t, "op") {
		case 0, 1, 2, 3:
			return Step{Op: "read", R: r, N: rapid.SampledFrom([]int{7, 1, 16, 3, 64, 2, 512, 100000}).Draw(t, "n")}
		case 4:
			return Step{Op: "drain", R: r}
		default:
			return Step{Op: "close", R: r}
		}
	})
	steps := rapid.SliceOfN(stepGen, 0, 14).Draw(t, "steps")
	closed := make([]bool, readers)
	nclosed := 0
	for _, s := range steps {
		if s.Op != "close" && closed[s.R] && nclosed < readers && rapid.IntRange(0, 9).Draw(t, "keepDeadRead") != 0 {
			// mostly redirect reads of an already closed reader to the next open one
			for closed[s.R] {
				s.R = (s.R + 1) % readers
			}
		}
		if s.Op == "close" {
			if closed[s.R] && !allowDouble && nclosed < readers {
				// partition without the known trigger (repeated Close while a sibling was
				// never closed): drop the step
				continue
			}
			if !closed[s.R] {
				closed[s.R] = true
				nclosed++
			}
		}
		c.Steps = append(c.Steps, s)
	}
	c.Epilogue = rapid.SampledFrom([]string{"asc", "desc"}).Draw(t, "epilogue")
	c.PostDouble = rapid.Bool().Draw(t, "postDouble")
	return c
}

// ---- run ---------------------------------------------------------------------------

type rstate struct {
	want   []byte
	off    int
	closes int
	eof    bool
	broken bool // a Read failed (only reachable through a tolerated known finding)
}

func runCase(env *ev.Env, c Case) (o ev.Outcome) {
	if len(c.Parts) == 0 || len(c.Parts) > 3 {
		o.Discard = true
		return
	}
	dir := env.TempDir()
	defer os.RemoveAll(dir)
	rawDB, err := stacks.OpenDB(dir)
	if err != nil {
		o.Failf("harness: open db: %v", err)
		return
	}
	db := &recDB{Database: rawDB}
	sopts := stacks.Options{}
	if c.CloseFault {
		sopts.WrapBase = func(name string, ps partstore.PartStore) partstore.PartStore { return closeFaultStore{ps} }
		o.Class("close-fault-on-part-readers")
	}
	inst, err := stacks.OpenWithDB(dir, db, stacks.LayoutFor(c.Stack), sopts)
	if err != nil {
		rawDB.Close()
		o.Failf("harness: open stack %s: %v", c.Stack, err)
		return
	}
	defer inst.Close()
	st := inst.Storage
	ctx := context.Background()
	bucket := storage.MustNewBucketName("bucket")
	key := storage.MustNewObjectKey("obj")
	if err := st.CreateBucket(ctx, bucket); err != nil {
		o.Failf("harness: CreateBucket: %v", err)
		return
	}
	var data []byte
	for _, p := range c.Parts {
		data = append(data, p.Bytes()...)
	}
	switch c.Build {
	case "put":
		_, err = st.PutObject(ctx, bucket, key, nil, bytes.NewReader(data), nil, nil)
	case "append":
		_, err = st.PutObject(ctx, bucket, key, nil, bytes.NewReader(c.Parts[0].Bytes()), nil, nil)
		for _, p := range c.Parts[1:] {
			if err != nil {
				break
			}
			_, err = st.AppendObject(ctx, bucket, key, bytes.NewReader(p.Bytes()), nil, nil)
		}
	default: // mpu
		var up *storage.InitiateMultipartUploadResult
		up, err = st.CreateMultipartUpload(ctx, bucket, key, nil, nil, nil)
		for i, p := range c.Parts {
			if err != nil {
				break
			}
			_, err = st.UploadPart(ctx, bucket, key, up.UploadId, int32(i+1), bytes.NewReader(p.Bytes()), nil)
		}
		if err == nil {
			_, err = st.CompleteMultipartUpload(ctx, bucket, key, up.UploadId, nil, nil)
		}
	}
	if err != nil {
		o.Failf("harness: building the object (%s, %d parts) failed: %v", c.Build, len(c.Parts), err)
		return
	}
	o.Class("stack:" + c.Stack)
	o.Class("build:" + c.Build)
	o.Class(fmt.Sprintf("parts:%d", len(c.Parts)))

	// expected slices
	var wants [][]byte
	satisfiable := true
	if len(c.Ranges) == 0 {
		wants = append(wants, data)
	}
	var edges []int64
	var acc int64
	for _, p := range c.Parts[:len(c.Parts)-1] {
		acc += int64(p.Len)
		edges = append(edges, acc)
	}
	crosses := false
	for _, r := range c.Ranges {
		w, ok := slice(data, r)
		if !ok {
			satisfiable = false
		}
		wants = append(wants, w)
		if ok {
			start := int64(len(data)) - int64(len(w))
			if r.Kind != "suffix" {
				start = r.A
			}
			for _, e := range edges {
				if start < e && e < start+int64(len(w)) {
					crosses = true
				}
			}
		}
	}
	if crosses {
		o.Class("range:crosses-part-edge")
	}

	var ranges []storage.ByteRange
	for _, r := range c.Ranges {
		ranges = append(ranges, toByteRange(r))
	}
	rec := &recorder{}
	gctx := context.WithValue(ctx, markKey{}, rec)
	obj, readers, err := st.GetObject(gctx, bucket, key, ranges, nil)

	live := func() (n int, perr error) {
		rec.mu.Lock()
		defer rec.mu.Unlock()
		for _, t := range rec.txs {
			fin, e := probe(t.tx)
			if e != nil {
				return 0, e
			}
			if !fin {
				n++
			}
		}
		return n, nil
	}
	// whatever happens, do not leave a transaction behind for Close()
	defer func() {
		rec.mu.Lock()
		defer rec.mu.Unlock()
		for _, t := range rec.txs {
			_ = t.tx.Rollback()
		}
	}()

	if err != nil {
		o.Class("get:error")
		o.Sub++
		n, perr := live()
		if perr != nil {
			o.Failf("probe failed: %v", perr)
			return
		}
		if n != 0 {
			o.Failf("GetObject failed (%v) but %d of its %d transaction(s) is still open after it returned", err, n, len(rec.txs))
			return
		}
		if satisfiable {
			o.Failf("GetObject of an existing object with satisfiable ranges %+v failed: %v", c.Ranges, err)
		}
		return
	}
	if !satisfiable {
		// the request named an unsatisfiable range and still succeeded: which readers
		// must exist is C05's business, not this property's
		for _, r := range readers {
			r.Close()
		}
		o.Discard = true
		return
	}
	if len(readers) != len(wants) {
		o.Failf("GetObject returned %d readers for %d ranges", len(readers), len(wants))
		for _, r := range readers {
			r.Close()
		}
		return
	}
	if obj == nil || obj.Size != int64(len(data)) {
		o.Failf("GetObject returned object size %v, want %d", obj, len(data))
		return
	}
	nr := len(readers)
	o.Class(fmt.Sprintf("readers:%d", nr))
	rec.mu.Lock()
	ntx := len(rec.txs)
	nro := 0
	for _, t := range rec.txs {
		if t.readOnly {
			nro++
		}
	}
	rec.mu.Unlock()
	o.Count("tx_begun_by_get", ntx)
	if ntx == 0 {
		o.Failf("harness: GetObject began no transaction through the recording database (wrapper bypassed?)")
		return
	}
	if nro != ntx {
		o.Failf("GetObject began a writable transaction for a read")
		return
	}

	rs := make([]*rstate, nr)
	for i := range rs {
		rs[i] = &rstate{want: wants[i]}
	}
	totalCloses, distinctClosed := 0, 0
	earlyReleased := false // known finding fired in this case
	closeBeforeLastFinished := false
	doubleBeforeLast := false

	// d7 reports whether the known early-release mechanism explains a discrepancy
	// now: the close hook counted more Close calls than there are readers while a
	// reader that was never closed still exists.
	d7 := func() bool {
		return totalCloses >= nr && distinctClosed < nr
	}
	tolerate := func(what string) bool {
		if d7() && env.Known("c36.doubleCloseReleasesSharedTx") {
			if !earlyReleased {
				earlyReleased = true
				o.KnownHits = append(o.KnownHits, "KF-C36-1")
			}
			o.Count("known_tolerated:"+what, 1)
			return true
		}
		return false
	}

	checkTx := func(when string) bool {
		o.Sub++
		n, perr := live()
		if perr != nil {
			o.Failf("%s: probing the read transaction failed: %v", when, perr)
			return false
		}
		if distinctClosed < nr {
			if n == 0 {
				if tolerate("early-release") {
					return true
				}
				o.Failf("%s: the read transaction is already finalised although %d of %d readers were never closed (closes so far: %d)", when, nr-distinctClosed, nr, totalCloses)
				return false
			}
			return true
		}
		if n != 0 {
			o.Failf("%s: every reader has been closed but %d transaction(s) begun by GetObject is still open", when, n)
			return false
		}
		return true
	}

	doRead := func(i int, buf []byte, when string) bool {
		r := rs[i]
		n, err := readers[i].Read(buf)
		o.Sub++
		if r.closes > 0 {
			// Read after the reader's own Close: unspecified, only must not panic
			o.Count("reads_after_own_close", 1)
			return true
		}
		if r.broken {
			return true
		}
		if n > 0 {
			if r.off+n > len(r.want) || !bytes.Equal(buf[:n], r.want[r.off:r.off+n]) {
				o.Failf("%s: reader %d delivered wrong bytes at offset %d (n=%d, slice length %d)", when, i, r.off, n, len(r.want))
				return false
			}
			r.off += n
		}
		switch {
		case err == nil:
		case err == io.EOF:
			if r.off != len(r.want) {
				o.Failf("%s: reader %d ended after %d of %d bytes", when, i, r.off, len(r.want))
				return false
			}
			r.eof = true
		default:
			if isTxDone(err) && tolerate("sibling-read-fails") {
				r.broken = true
				return true
			}
			if c.CloseFault && isCloseFault(err) {
				// the injected Close error of a part reader surfaced in a Read: this reader is done for
				o.Count("close_fault_surfaced_in_read", 1)
				r.broken = true
				return true
			}
			o.Failf("%s: reader %d failed after %d of %d bytes: %v (closes so far %d over %d distinct of %d readers)", when, i, r.off, len(r.want), err, totalCloses, distinctClosed, nr)
			return false
		}
		return true
	}
	drain := func(i int, when string) bool {
		buf := make([]byte, 4096)
		for k := 0; k < 1000000; k++ {
			r := rs[i]
			if r.eof || r.broken || r.closes > 0 {
				return true
			}
			if !doRead(i, buf, when) {
				return false
			}
		}
		o.Failf("%s: reader %d never reached EOF", when, i)
		return false
	}
	doClose := func(i int, when string) bool {
		r := rs[i]
		// non-trivial: a Close happens while another reader has not finished
		for j, s := range rs {
			if j != i && s.closes == 0 && !s.eof {
				closeBeforeLastFinished = true
				if r.closes > 0 {
					doubleBeforeLast = true
				}
			}
		}
		if r.closes == 0 {
			switch {
			case r.off == 0:
				o.Class("close:unread")
			case !r.eof && r.off < len(r.want):
				o.Class("close:partial")
			default:
				o.Class("close:complete")
			}
		} else {
			o.Class("close:repeated")
		}
		err := readers[i].Close()
		o.Sub++
		totalCloses++
		first := r.closes == 0
		r.closes++
		if first {
			distinctClosed++
		}
		if err != nil && c.CloseFault && isCloseFault(err) {
			o.Count("close_fault_returned_by_close", 1)
			err = nil
		}
		if err != nil {
			if first && !(isTxDone(err) && tolerate("close-error")) {
				o.Failf("%s: first Close of reader %d failed: %v", when, i, err)
				return false
			}
			if !first && isTxDone(err) && !tolerate("close-error") {
				o.Failf("%s: repeated Close of reader %d tried to release the transaction again: %v", when, i, err)
				return false
			}
		}
		return true
	}

	if !checkTx("after GetObject returned") {
		return
	}
	for si, s := range c.Steps {
		i := ((s.R % nr) + nr) % nr
		when := fmt.Sprintf("step %d (%s reader %d)", si, s.Op, i)
		ok := true
		switch s.Op {
		case "read":
			n := s.N
			if n < 1 {
				n = 1
			}
			if n > 1<<20 {
				n = 1 << 20
			}
			for j, t := range rs {
				if j != i && t.closes > 0 && rs[i].closes == 0 {
					o.Class("read:after-sibling-close")
					break
				}
			}
			ok = doRead(i, make([]byte, n), when)
		case "drain":
			ok = drain(i, when)
		case "close":
			ok = doClose(i, when)
		default:
			o.Discard = true
			return
		}
		if !ok || !checkTx("after "+when) {
			return
		}
	}
	order := make([]int, nr)
	for i := range order {
		order[i] = i
		if c.Epilogue == "desc" {
			order[i] = nr - 1 - i
		}
	}
	for _, i := range order {
		if rs[i].closes > 0 {
			continue
		}
		when := fmt.Sprintf("epilogue (reader %d)", i)
		if !drain(i, when+" drain") || !checkTx("after "+when+" drain") {
			return
		}
		if !rs[i].broken && !rs[i].eof {
			o.Failf("%s: reader not at EOF after drain", when)
			return
		}
		if !doClose(i, when+" close") || !checkTx("after "+when+" close") {
			return
		}
	}
	if c.PostDouble {
		for _, i := range order {
			when := fmt.Sprintf("post-close (reader %d)", i)
			if !doClose(i, when) || !checkTx("after "+when) {
				return
			}
		}
	}
	if doubleBeforeLast {
		o.Class("schedule:repeated-close-before-last")
	}
	if closeBeforeLastFinished {
		o.Class("schedule:close-before-last-finished")
	}
	if earlyReleased {
		o.Class("known:early-release")
	}
	o.NonTrivial = nr >= 2 && closeBeforeLastFinished
	return
}

func directed(env *ev.Env) []Case {
	p := func(n int, seed uint64) gen.BodySpec { return gen.BodySpec{Kind: "rand", Len: n, Seed: seed} }
	return []Case{
		// in-order, reverse-order and interleaved closes over 3 parts x 4 ranges
		{Stack: "P1", Build: "mpu", Parts: []gen.BodySpec{p(10, 1), p(20, 2), p(5, 3)},
			Ranges: []Range{{Kind: "abs", A: 0, B: 10}, {Kind: "abs", A: 9, B: 31}, {Kind: "from", A: 30}, {Kind: "suffix", A: 35}},
			Steps: []Step{{Op: "read", R: 1, N: 3}, {Op: "close", R: 0}, {Op: "drain", R: 3}, {Op: "close", R: 3}, {Op: "read", R: 1, N: 64}, {Op: "close", R: 2}},
			Epilogue: "desc", PostDouble: true},
		{Stack: "P5", Build: "append", Parts: []gen.BodySpec{p(64, 1), p(64, 2)},
			Ranges: []Range{{Kind: "abs", A: 60, B: 70}, {Kind: "suffix", A: 1}},
			Steps: []Step{{Op: "close", R: 1}, {Op: "read", R: 0, N: 100}, {Op: "read", R: 0, N: 100}}, Epilogue: "asc"},
		{Stack: "P1", Build: "put", Parts: []gen.BodySpec{p(100, 1)}, Steps: []Step{{Op: "read", R: 0, N: 10}, {Op: "close", R: 0}, {Op: "close", R: 0}}, Epilogue: "asc"},
	}
}

func TestC36(t *testing.T) {
	ev.Main(t, ev.Spec[Case]{
		ID:    "C36",
		Level: "exploration",
		Rule: "one object of 1-3 parts (put / multipart / put+append) on a DB-backed part-store stack (sql, tink>sql, cache>sql), one GetObject with 0-4 ranges (positions clustered on part edges), " +
			"a generated schedule of Read(n)/drain/Close steps over the readers incl. out-of-order, early and repeated Close; non-trivial = at least 2 readers and a Close (or repeated Close) " +
			"executed while another reader had not finished; distinct = distinct case JSON",
		Assumptions: []string{
			"the transaction is observed by probing the raw *sql.Tx kept by a forwarding database.Database wrapper (SELECT 1 -> sql.ErrTxDone once finalised)",
			"SQLite only; readers are stepped from one goroutine (the schedule is data)",
		},
		Gen:      genCase,
		Run:      runCase,
		Directed: directed,
	})
}
