package c08

import (
	"bytes"
	"context"
	"crypto/md5"
	"database/sql"
	"encoding/hex"
	"fmt"
	"io"
	"os"
	"sync"
	"sync/atomic"
	"testing"
	"time"

	"github.com/jdillenkofer/pithos/internal/storage"
	"github.com/jdillenkofer/pithos/internal/storage/database"
	"github.com/jdillenkofer/pithos/internal/storage/metadatapart"
	"github.com/jdillenkofer/pithos/verifharness/dump"
	"github.com/jdillenkofer/pithos/verifharness/ev"
	"github.com/jdillenkofer/pithos/verifharness/gen"
	"github.com/jdillenkofer/pithos/verifharness/prog"
	"github.com/jdillenkofer/pithos/verifharness/run"
	"github.com/jdillenkofer/pithos/verifharness/stacks"
	"pgregory.net/rapid"
)

var names = run.Names{Buckets: []string{"ref-a", "ref-b"}, Keys: []string{"k", "dir/k2", "K"}}

// WOp is one operation of a concurrent worker.
type WOp struct {
	Kind string `json:"kind"` // put | copy | delete | mpu | transition
	Key  int    `json:"key"`  // index into the worker's keys (0,1) or 2 = shared key
	Src  int    `json:"src"`  // copy source key index
	Body int    `json:"body"` // index into the body pool
	Cls  string `json:"cls,omitempty"`
}

type Case struct {
	Mode    string    `json:"mode"` // seq | conc
	Stack   string    `json:"stack"`
	Ops     []prog.Op `json:"ops,omitempty"`
	Workers [][]WOp   `json:"workers,omitempty"`
	Procs   int       `json:"procs,omitempty"`
}

func seqCfg(stack string) prog.GenConfig {
	cfg := prog.GenConfig{
		Buckets: 2, Keys: 3, MinOps: 8, MaxOps: 36,
		Weights: map[string]int{
			prog.OpPut: 10, prog.OpCopy: 8, prog.OpMpuSeq: 3, prog.OpMpuCreate: 1, prog.OpMpuPart: 3, prog.OpMpuPartCopy: 5, prog.OpMpuAbort: 2,
			prog.OpMpuComplete: 2, prog.OpDelete: 8, prog.OpAppend: 2, prog.OpSetVersioning: 1, prog.OpTransition: 3, prog.OpGC: 10,
		},
		Versions: true, HotKey: true, Boundaries: []int{1024}, MaxBody: 3000,
	}
	if stack == "N1" || stack == "N2" {
		cfg.Classes = []string{"STANDARD", "GLACIER", "STANDARD_IA"}
	}
	return cfg
}

var bodyPool = []gen.BodySpec{{Kind: "rand", Len: 700, Seed: 1}, {Kind: "rand", Len: 700, Seed: 2}, {Kind: "text", Len: 3000, Seed: 3}, {Kind: "rand", Len: 1, Seed: 4}}

func genCase(t *rapid.T, env *ev.Env) Case {
	stack := rapid.SampledFrom([]string{"P2", "P1", "N1", "N2", "P10"}).Draw(t, "stack")
	if rapid.IntRange(0, 3).Draw(t, "mode") > 0 {
		c := Case{Mode: "seq", Stack: stack, Ops: seqCfg(stack).Gen(t)}
		if rapid.IntRange(0, 2).Draw(t, "fragment") > 0 {
			// a sharing fragment: two keys share part content (copy, identical body, or a whole-part UploadPartCopy),
			// then sharers are dropped one by one with GC runs in between, and the content is re-shared afterwards
			body := &gen.BodySpec{Kind: "rand", Len: rapid.SampledFrom([]int{1, 700, 2048}).Draw(t, "fragLen"), Seed: 11}
			share := prog.Op{Kind: prog.OpCopy, B: 0, K: 1, SB: 0, SK: 0}
			if rapid.Bool().Draw(t, "fragDedup") {
				share = prog.Op{Kind: prog.OpPut, B: 0, K: 1, Body: body}
			}
			frag := []prog.Op{
				{Kind: prog.OpPut, B: 0, K: 0, Body: body}, share, {Kind: prog.OpGC},
				{Kind: prog.OpMpuCreate, B: 0, K: 2}, {Kind: prog.OpMpuPartCopy, Upload: prog.LastUpload, PartNo: 1, SB: 0, SK: 0}, {Kind: prog.OpGC},
				{Kind: prog.OpDelete, B: 0, K: 0}, {Kind: prog.OpGC},
				{Kind: prog.OpMpuComplete, Upload: prog.LastUpload}, {Kind: prog.OpDelete, B: 0, K: 1}, {Kind: prog.OpGC},
				{Kind: prog.OpPut, B: 0, K: 0, Body: body}, {Kind: prog.OpDelete, B: 0, K: 2}, {Kind: prog.OpGC},
			}
			if rapid.IntRange(0, 3).Draw(t, "fragRepeat") == 1 {
				// an object that references one part id twice (identical chunk appended / two identical
				// multipart parts), relabelled between classes twice, then outlived by a sibling with
				// the same content (seeded defect S-C14-1: per-row vs per-id reference counting)
				cl := func(l string) *string {
					c := rapid.SampledFrom([]string{"STANDARD", "GLACIER", "STANDARD_IA", "REDUCED_REDUNDANCY"}).Draw(t, l)
					return &c
				}
				build := []prog.Op{{Kind: prog.OpPut, B: 0, K: 0, Body: body}, {Kind: prog.OpAppend, B: 0, K: 0, Body: body}}
				if rapid.Bool().Draw(t, "fragRepeatMpu") {
					build = []prog.Op{{Kind: prog.OpMpuCreate, B: 0, K: 0},
						{Kind: prog.OpMpuPart, Upload: prog.LastUpload, PartNo: 1, Body: body},
						{Kind: prog.OpMpuPart, Upload: prog.LastUpload, PartNo: 2, Body: body},
						{Kind: prog.OpMpuComplete, Upload: prog.LastUpload}}
				}
				if rapid.IntRange(0, 2).Draw(t, "fragRepeatVersioned") == 0 {
					// versioned append chain over a repeated chunk: every append stores a new version that shares the
					// prefix; then the older versions are deleted by id and only the newest one keeps the parts
					// (seeded defect S-C12-4: one pre-acquired reference per distinct id instead of per row)
					body2 := &gen.BodySpec{Kind: "rand", Len: 300, Seed: 12}
					body3 := &gen.BodySpec{Kind: "rand", Len: 5, Seed: 13}
					frag = []prog.Op{
						{Kind: prog.OpSetVersioning, B: 0, Status: "Enabled"},
						{Kind: prog.OpPut, B: 0, K: 2, Body: body}, {Kind: prog.OpAppend, B: 0, K: 2, Body: body},
						{Kind: prog.OpAppend, B: 0, K: 2, Body: body2}, {Kind: prog.OpAppend, B: 0, K: 2, Body: body3},
						{Kind: prog.OpDelete, B: 0, K: 2, Ver: "ref:0"}, {Kind: prog.OpDelete, B: 0, K: 2, Ver: "ref:1"}, {Kind: prog.OpDelete, B: 0, K: 2, Ver: "ref:2"},
						{Kind: prog.OpGC}, {Kind: prog.OpAppend, B: 0, K: 2, Body: body3},
					}
				} else {
					frag = append(build,
						prog.Op{Kind: prog.OpTransition, B: 0, K: 0, Class: cl("fragC1")}, prog.Op{Kind: prog.OpGC},
						prog.Op{Kind: prog.OpTransition, B: 0, K: 0, Class: cl("fragC2")}, prog.Op{Kind: prog.OpGC},
						prog.Op{Kind: prog.OpPut, B: 0, K: 1, Body: body}, prog.Op{Kind: prog.OpDelete, B: 0, K: 0}, prog.Op{Kind: prog.OpGC},
					)
				}
			}
			var kept []prog.Op
			for i := range frag {
				if rapid.IntRange(0, 7).Draw(t, "fragKeep") > 0 {
					kept = append(kept, frag[i])
				}
			}
			pos := rapid.IntRange(2, len(c.Ops)).Draw(t, "fragPos")
			ops := append([]prog.Op{}, c.Ops[:pos]...)
			ops = append(ops, kept...)
			c.Ops = append(ops, c.Ops[pos:]...)
		}
		return c
	}
	if stack == "P10" {
		stack = "P2"
	}
	c := Case{Mode: "conc", Stack: stack, Procs: rapid.SampledFrom([]int{2, 4, 8}).Draw(t, "procs")}
	nw := rapid.IntRange(2, 5).Draw(t, "workers")
	for w := 0; w < nw; w++ {
		n := rapid.IntRange(4, 14).Draw(t, "nops")
		var ops []WOp
		for i := 0; i < n; i++ {
			op := WOp{Kind: rapid.SampledFrom([]string{"put", "put", "copy", "copy", "delete", "delete", "mpu", "transition"}).Draw(t, "kind"),
				Key: rapid.IntRange(0, 1).Draw(t, "key"), Src: rapid.IntRange(0, 2).Draw(t, "src"), Body: rapid.IntRange(0, len(bodyPool)-1).Draw(t, "body")}
			if op.Kind == "transition" {
				op.Cls = rapid.SampledFrom([]string{"GLACIER", "STANDARD", "STANDARD_IA"}).Draw(t, "cls")
			}
			ops = append(ops, op)
		}
		c.Workers = append(c.Workers, ops)
	}
	return c
}

// allPartsPresent checks that every part row of every live version exists in the store named by its row.
func allPartsPresent(inst *stacks.Instance, s *run.Session) (checked int, shared int, msg string) {
	ms := metadatapart.VerifMetadataStore(inst.Storage)
	db := metadatapart.VerifDatabase(inst.Storage)
	stores := metadatapart.VerifNamedStores(inst.Storage)
	seen := map[string]int{}
	err := database.WithTx(context.Background(), db, &sql.TxOptions{ReadOnly: true}, func(ctx context.Context, tx database.Tx) error {
		for bn, mb := range s.Model.Buckets {
			for key, vs := range mb.Keys {
				for _, v := range vs {
					if v.Marker {
						continue
					}
					id := s.ImplID(bn, key, v.ID, 0)
					if id == "" {
						continue
					}
					m, err := ms.HeadObjectVersion(ctx, tx.SqlTx(), storage.MustNewBucketName(bn), storage.MustNewObjectKey(key), id)
					if err != nil {
						return fmt.Errorf("version %s of %s/%s: %w", id, bn, key, err)
					}
					for _, p := range m.Parts {
						name := "default"
						if p.StoreName != nil {
							name = *p.StoreName
						}
						rc, err := stores[name].GetPart(ctx, tx, p.Id)
						if err != nil {
							return fmt.Errorf("part %s of %s/%s (version %s) missing from store %q: %w", p.Id.String(), bn, key, id, name, err)
						}
						n, _ := io.Copy(io.Discard, rc)
						rc.Close()
						if n != p.Size {
							return fmt.Errorf("part %s of %s/%s has %d bytes in store %q, recorded %d", p.Id.String(), bn, key, n, name, p.Size)
						}
						checked++
						seen[p.Id.String()]++
					}
				}
			}
		}
		return nil
	})
	for _, n := range seen {
		if n >= 2 {
			shared++
		}
	}
	if err != nil {
		return checked, shared, err.Error()
	}
	return checked, shared, ""
}

func runSeq(env *ev.Env, c Case) ev.Outcome {
	var st run.ProgStats
	gcWhileShared := false
	parts := 0
	lastShared := 0
	o := run.RunModelProgram(env, run.ProgCase{Stack: c.Stack, Ops: c.Ops}, run.ModelRunOptions{
		Dump: dump.Options{Versions: true}, Names: names, Stats: &st,
		Setup: func(s *run.Session) { s.Model.PromoteByRowCreation = true },
		AfterStep: func(s *run.Session, inst *stacks.Instance, sr *run.StepResult, o *ev.Outcome) bool {
			n, sh, msg := allPartsPresent(inst, s)
			parts += n
			lastShared = sh
			if msg != "" {
				o.Failf("after %s: %s", sr.Op.Kind, msg)
				return true
			}
			return false
		},
		AfterMaint: func(s *run.Session, inst *stacks.Instance, op prog.Op, o *ev.Outcome) bool {
			if op.Kind == prog.OpGC && lastShared > 0 {
				gcWhileShared = true
			}
			n, sh, msg := allPartsPresent(inst, s)
			parts += n
			lastShared = sh
			if msg != "" {
				o.Failf("after %s: %s", op.Kind, msg)
				return true
			}
			return false
		},
	})
	o.NonTrivial = gcWhileShared
	o.Class("mode:seq")
	if gcWhileShared {
		o.Class("gc-while-a-part-is-shared")
	}
	o.Count("part_rows_checked", parts)
	o.Count("gc_runs", st.GCs)
	return o
}

const grace = 150 * time.Millisecond

func runConc(env *ev.Env, c Case) (o ev.Outcome) {
	o.Class("mode:conc")
	dir := env.TempDir()
	defer os.RemoveAll(dir)
	inst, err := stacks.Open(dir, stacks.LayoutFor(c.Stack), stacks.Options{GCGrace: grace})
	if err != nil {
		o.Failf("harness: open: %v", err)
		return
	}
	defer inst.Close()
	ctx := context.Background()
	st := inst.Storage
	bn := storage.MustNewBucketName("conc-bucket")
	if err := st.CreateBucket(ctx, bn); err != nil {
		o.Failf("harness: %v", err)
		return
	}
	bodies := make([][]byte, len(bodyPool))
	sums := map[string]bool{}
	for i, b := range bodyPool {
		bodies[i] = b.Bytes()
		h := md5.Sum(bodies[i])
		sums[hex.EncodeToString(h[:])] = true
	}
	keyOf := func(w, k int) storage.ObjectKey {
		if k == 2 {
			return storage.MustNewObjectKey("shared")
		}
		return storage.MustNewObjectKey(fmt.Sprintf("w%d-%d", w, k))
	}
	// pre-phase: old parts (older than the grace window) that the workers will drop and re-share
	for i := range bodies {
		if _, err := st.PutObject(ctx, bn, storage.MustNewObjectKey(fmt.Sprintf("seed-%d", i)), nil, bytes.NewReader(bodies[i]), nil, nil); err != nil {
			o.Failf("harness: seed put: %v", err)
			return
		}
	}
	if _, err := st.PutObject(ctx, bn, keyOf(0, 2), nil, bytes.NewReader(bodies[0]), nil, nil); err != nil {
		o.Failf("harness: %v", err)
		return
	}
	for w := range c.Workers {
		for k := 0; k < 2; k++ {
			_, _ = st.PutObject(ctx, bn, keyOf(w, k), nil, bytes.NewReader(bodies[(w+k)%len(bodies)]), nil, nil)
		}
	}
	time.Sleep(grace + 20*time.Millisecond)
	for i := range bodies { // drop the seed objects: their parts stay referenced only through dedup sharers
		_, _ = st.DeleteObject(ctx, bn, storage.MustNewObjectKey(fmt.Sprintf("seed-%d", i)), nil)
	}
	var stop atomic.Bool
	var gcRuns atomic.Int64
	var wg sync.WaitGroup
	var slow atomic.Bool
	start := make(chan struct{})
	var firstErr atomic.Value
	wg.Add(1)
	go func() {
		defer wg.Done()
		<-start
		for !stop.Load() {
			if err := metadatapart.VerifRunGCOnce(st); err != nil {
				// "database is locked" after the busy timeout is infrastructure, not the property
				time.Sleep(time.Millisecond)
				continue
			}
			gcRuns.Add(1)
			time.Sleep(500 * time.Microsecond)
		}
	}()
	var workers sync.WaitGroup
	for w := range c.Workers {
		workers.Add(1)
		go func(w int) {
			defer workers.Done()
			<-start
			for _, op := range c.Workers[w] {
				t0 := time.Now()
				key := keyOf(w, op.Key)
				var err error
				switch op.Kind {
				case "put":
					_, err = st.PutObject(ctx, bn, key, nil, bytes.NewReader(bodies[op.Body]), nil, nil)
				case "copy":
					_, err = st.CopyObject(ctx, bn, keyOf(w, op.Src), bn, key, nil)
				case "delete":
					_, err = st.DeleteObject(ctx, bn, key, nil)
				case "mpu":
					var up *storage.InitiateMultipartUploadResult
					up, err = st.CreateMultipartUpload(ctx, bn, key, nil, nil, nil)
					if err == nil {
						_, err = st.UploadPart(ctx, bn, key, up.UploadId, 1, bytes.NewReader(bodies[op.Body]), nil)
						if err == nil {
							_, err = st.UploadPartCopy(ctx, bn, keyOf(w, op.Src), bn, key, up.UploadId, 2, nil)
							if err != nil {
								err = nil // source may be absent
							}
							_, err = st.CompleteMultipartUpload(ctx, bn, key, up.UploadId, nil, nil)
						}
					}
				case "transition":
					err = st.TransitionObjectStorageClass(ctx, bn, key, op.Cls, nil)
				}
				if time.Since(t0) > grace*4/5 {
					slow.Store(true) // outside the documented envelope of the grace window
				}
				if err != nil {
					k := prog.Classify(err)
					if k == prog.EOther && firstErr.Load() == nil {
						firstErr.Store(fmt.Sprintf("worker %d %s %s: %v", w, op.Kind, key, err))
					}
				}
			}
		}(w)
	}
	close(start)
	workers.Wait()
	// keep GC running a little longer than the grace window so that condemned candidates are processed
	time.Sleep(grace + 30*time.Millisecond)
	stop.Store(true)
	wg.Wait()
	if slow.Load() {
		o.Discard = true
		return
	}
	o.Count("gc_runs_concurrent", int(gcRuns.Load()))
	// quiescent point: every listed object must be fully readable and consistent
	objs, err := storage.ListAllObjectsOfBucket(ctx, st, bn)
	if err != nil {
		o.Failf("listing failed: %v", err)
		return
	}
	for _, ob := range objs {
		_, readers, err := st.GetObject(ctx, bn, ob.Key, nil, nil)
		if err != nil {
			o.Failf("object %s is listed but GetObject fails: %v", ob.Key, err)
			return
		}
		body, err := prog.ReadAll(readers)
		o.Sub++
		if err != nil {
			o.Failf("object %s is listed but its body cannot be read: %v (workload %s)", ob.Key, err, c.Stack)
			return
		}
		if int64(len(body)) != ob.Size {
			o.Failf("object %s: body has %d bytes, listing says %d", ob.Key, len(body), ob.Size)
			return
		}
		if len(ob.ETag) == 34 { // single part: ETag is the MD5 of the body
			h := md5.Sum(body)
			if "\""+hex.EncodeToString(h[:])+"\"" != ob.ETag {
				o.Failf("object %s: body does not hash to its ETag %s", ob.Key, ob.ETag)
				return
			}
		}
	}
	if e := firstErr.Load(); e != nil {
		// an internal error (not a semantic S3 error) during the workload: report only "part not found"-like losses
		msg := e.(string)
		if bytes.Contains([]byte(msg), []byte("part not found")) {
			o.Failf("during the concurrent workload: %s", msg)
			return
		}
		o.Count("internal_errors_during_workload", 1)
	}
	o.NonTrivial = gcRuns.Load() >= 3 && len(objs) > 0
	return
}

func runCase(env *ev.Env, c Case) ev.Outcome {
	if c.Mode == "conc" {
		return runConc(env, c)
	}
	return runSeq(env, c)
}

func TestC08(t *testing.T) {
	ev.Main(t, ev.Spec[Case]{
		ID:    "C08",
		Level: "exploration",
		Rule: "two case kinds: (seq, 3/4) programs of 8-36 ops rich in part sharing (copies, UploadPartCopy of whole parts, identical bodies = dedup, part replacement, transitions between stores, aborts, deletes) with GC runs (grace 1 ns) at arbitrary points on stacks P1,P2,P10,N1,N2, every step followed by a full model comparison and a check that every part row of every live version exists in the store its row names; " +
			"(conc, 1/4) 2-5 goroutines run put/copy/delete/multipart+UploadPartCopy/transition lists over a small body pool (dedup) while a GC goroutine runs passes continuously (grace 150 ms, parts older than the window seeded beforehand), then every listed object must be readable, of the listed size and hash to its ETag; non-trivial = seq: a GC ran while a part was referenced by >=2 rows; conc: >=3 concurrent GC passes; distinct = distinct case JSON",
		Assumptions: []string{"conc part samples schedules (SQLite serialises writers); runs in which one operation took longer than 80% of the grace window are discarded as outside the grace-window envelope"},
		Gen:         genCase,
		Run:         runCase,
	})
}
