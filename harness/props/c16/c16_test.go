// Package c16 checks property C16: encrypted parts are confidential at rest,
// tamper-evident and seekable.
//
// A case = one stack variant (sequential or seekable decrypt path, with or
// without a compression layer below = non-zero base offset), one plaintext
// (lengths around the tink segment boundaries), seek/read scripts for the
// unmutated part, and a list of mutations of the stored bytes; every mutated
// blob is written back through the base store and read through the real tink
// middleware (full read and, on the seekable path, a seek script).
package c16

import (
	"bytes"
	"context"
	"database/sql"
	"encoding/binary"
	"encoding/json"
	"errors"
	"fmt"
	"io"
	"os"
	"path/filepath"
	"regexp"
	"strconv"
	"strings"
	"testing"

	"github.com/jdillenkofer/pithos/internal/storage/database"
	"github.com/jdillenkofer/pithos/internal/storage/metadatapart/partstore"
	"github.com/jdillenkofer/pithos/verifharness/ev"
	"github.com/jdillenkofer/pithos/verifharness/gen"
	"github.com/jdillenkofer/pithos/verifharness/stacks"
	"pgregory.net/rapid"
)

const (
	css      = 128 * 1024 // ciphertext segment size of new parts
	tinkHdr  = 40         // 1 + 32 (salt) + 7 (nonce prefix)
	tagSize  = 16
	firstPT  = css - tinkHdr - tagSize // 131016 plaintext bytes in segment 0
	laterPT  = css - tagSize           // 131056 in later segments
	compHdr  = 32                      // header of the compression layer when it stores uncompressed
	maxAlloc = 1 << 26                 // tampered length prefixes stay below 64 MiB (the reader allocates headerLen bytes)
)

// Mut is one mutation of the stored bytes.
type Mut struct {
	Kind  string `json:"kind"`            // flip | trunc | extend | swap | dup | drop | splice | foreignid | hdrswap | segsize
	Where string `json:"where,omitempty"` // flip: prefix|version|keyType|keyURI|dek|segsize|tinkhdrlen|salt|nonce|body|tag ; trunc: zero|prefix|json|afterjson|tinkhdr|aftertink|segedge|abs ; extend: junk|lastseg|emptyseg
	Seg   int    `json:"seg,omitempty"`
	Seg2  int    `json:"seg2,omitempty"`
	Off   int    `json:"off,omitempty"`
	Bit   int    `json:"bit,omitempty"`
	N     int    `json:"n,omitempty"` // trunc segedge: delta (-1..17) ; extend junk: length ; segsize: new value
}

// SOp is one step of a seek/read script.
type SOp struct {
	Op     string `json:"op"`               // seek | read | zero (zero-length read)
	Whence int    `json:"whence,omitempty"` // 0 start, 1 current, 2 end
	Off    int64  `json:"off,omitempty"`
	N      int    `json:"n,omitempty"`
}

// Case is one plaintext on one stack variant.
type Case struct {
	Base      string       `json:"base"` // mem | memseek | fs | sql | zfs | gmemseek
	Body      gen.BodySpec `json:"body"`
	Other     gen.BodySpec `json:"other"` // a second part under another id (splice / wrong-id source)
	Scripts   [][]SOp      `json:"scripts,omitempty"`
	Muts      []Mut        `json:"muts,omitempty"`
	MutScript []SOp        `json:"mut_script,omitempty"`
	Buf       int          `json:"buf,omitempty"`
}

func pid(i int) partstore.PartId {
	b := []byte{0x01, 0x8f, 0x00, 0x00, 0x00, 0x00, 0xc1, 0x6c, 0x16, 0, 0, 0, 0, 0, 0, byte(i + 1)}
	id, err := partstore.NewPartIdFromBytes(b)
	if err != nil {
		panic(err)
	}
	return *id
}

// ---- a seekable view of the harness-owned in-memory store --------------------------------

type seekStore struct{ *stacks.MemStore }

type memRSC struct{ *bytes.Reader }

func (memRSC) Close() error { return nil }

func (s seekStore) GetPart(ctx context.Context, tx database.Tx, id partstore.PartId) (io.ReadCloser, error) {
	b, ok := s.MemStore.Raw(id)
	if !ok {
		return nil, partstore.ErrPartNotFound
	}
	return memRSC{bytes.NewReader(b)}, nil
}

func specOf(base string) (spec string, seekWrap bool, off int) {
	switch base {
	case "memseek":
		return "tink>mem", true, 0
	case "fs":
		return "tink>fs", false, 0
	case "sql":
		return "tink>sql", false, 0
	case "zfs":
		return "tink>zstd>fs", false, compHdr
	case "gmemseek":
		return "tink>gzip>mem", true, compHdr
	}
	return "tink>mem", false, 0
}

// ---- layout of a stored blob ---------------------------------------------------------------

type layout struct {
	off     int // start of the tink envelope inside the stored bytes (32 with a compression layer below)
	hdrLen  int // length of the JSON header
	jsonAt  int
	tinkAt  int // start of the tink stream header
	end     int
	segs    [][2]int // [start,end) of every ciphertext segment
	jsonTxt []byte
}

func layoutOf(raw []byte, off int) (layout, error) {
	l := layout{off: off, end: len(raw)}
	if len(raw) < off+4 {
		return l, errors.New("blob shorter than length prefix")
	}
	l.hdrLen = int(binary.BigEndian.Uint32(raw[off : off+4]))
	l.jsonAt = off + 4
	l.tinkAt = l.jsonAt + l.hdrLen
	if l.tinkAt+tinkHdr+tagSize > len(raw) {
		return l, errors.New("blob shorter than headers")
	}
	l.jsonTxt = raw[l.jsonAt:l.tinkAt]
	for j := 0; ; j++ {
		s := l.tinkAt + j*css
		if j == 0 {
			s = l.tinkAt + tinkHdr
		}
		e := l.tinkAt + (j+1)*css
		if e > len(raw) {
			e = len(raw)
		}
		if s >= len(raw) {
			break
		}
		l.segs = append(l.segs, [2]int{s, e})
	}
	return l, nil
}

func mod(a, n int) int {
	if n <= 0 {
		return 0
	}
	return ((a % n) + n) % n
}

var fieldRe = map[string]*regexp.Regexp{
	"version": regexp.MustCompile(`"version":(\d+)`),
	"keyType": regexp.MustCompile(`"keyType":"([^"]*)"`),
	"keyURI":  regexp.MustCompile(`"keyURI":("")`),
	"dek":     regexp.MustCompile(`"encryptedDEK":"([^"]*)"`),
	"segsize": regexp.MustCompile(`"segmentSize":(\d+)`),
}

// mutate returns the mutated blob and a label; ok=false when the mutation does not apply / changes nothing.
func mutate(m Mut, raw, other []byte, off int) (out []byte, label string, ok bool) {
	l, err := layoutOf(raw, off)
	if err != nil {
		return nil, "", false
	}
	cp := append([]byte(nil), raw...)
	ns := len(l.segs)
	seg := func(i int) []byte { return raw[l.segs[i][0]:l.segs[i][1]] }
	rebuild := func(segs [][]byte) []byte {
		b := append([]byte(nil), raw[:l.tinkAt+tinkHdr]...)
		for _, s := range segs {
			b = append(b, s...)
		}
		return b
	}
	allSegs := func() [][]byte {
		var s [][]byte
		for i := 0; i < ns; i++ {
			s = append(s, seg(i))
		}
		return s
	}
	switch m.Kind {
	case "flip":
		bit := byte(1) << uint(mod(m.Bit, 8))
		var pos int
		switch m.Where {
		case "prefix":
			o := mod(m.Off, 4)
			pos = off + o
			if o == 0 {
				bit = byte(1) << uint(mod(m.Bit, 2)) // keep headerLen < 64 MiB
			}
		case "version", "keyType", "keyURI", "dek", "segsize":
			loc := fieldRe[m.Where].FindSubmatchIndex(l.jsonTxt)
			if loc == nil {
				return nil, "", false
			}
			pos = l.jsonAt + loc[2] + mod(m.Off, loc[3]-loc[2])
		case "tinkhdrlen":
			pos = l.tinkAt
		case "salt":
			pos = l.tinkAt + 1 + mod(m.Off, 32)
		case "nonce":
			pos = l.tinkAt + 33 + mod(m.Off, 7)
		case "tag":
			s := l.segs[mod(m.Seg, ns)]
			pos = s[1] - 1 - mod(m.Off, tagSize)
		default: // body
			s := l.segs[mod(m.Seg, ns)]
			pos = s[0] + mod(m.Off, s[1]-s[0])
			m.Where = "body"
		}
		cp[pos] ^= bit
		return cp, "flip:" + m.Where, true
	case "trunc":
		var at int
		switch m.Where {
		case "zero":
			at = 0
		case "prefix":
			at = off + mod(m.Off, 5) // 0..4 bytes of the prefix kept
		case "json":
			at = l.jsonAt + 1 + mod(m.Off, max(l.hdrLen-1, 1))
		case "afterjson":
			at = l.tinkAt
		case "tinkhdr":
			at = l.tinkAt + 1 + mod(m.Off, tinkHdr-1)
		case "aftertink":
			at = l.tinkAt + tinkHdr + mod(m.N, 18) // 0..17 bytes after the tink header
		case "segedge":
			k := mod(m.Seg, ns)
			d := mod(m.N+1, 19) - 1 // -1..17
			at = l.segs[k][0] + d
			if k == 0 {
				at = l.tinkAt + tinkHdr + d
			}
		default:
			at = off + mod(m.Off, len(raw)-off)
			m.Where = "abs"
		}
		if at >= len(raw) || at < 0 {
			return nil, "", false
		}
		return cp[:at], "trunc:" + m.Where, true
	case "extend":
		switch m.Where {
		case "lastseg":
			return append(cp, seg(ns-1)...), "extend:lastseg", true
		case "emptyseg":
			return append(cp, make([]byte, tagSize)...), "extend:emptyseg", true
		}
		n := 1 + mod(m.N, 200)
		j := make([]byte, n)
		for i := range j {
			j[i] = byte(0x5a ^ i ^ m.Bit)
		}
		return append(cp, j...), "extend:junk", true
	case "swap":
		if ns < 2 {
			return nil, "", false
		}
		i, j := mod(m.Seg, ns), mod(m.Seg2, ns)
		if i == j {
			j = (i + 1) % ns
		}
		s := allSegs()
		s[i], s[j] = s[j], s[i]
		return rebuild(s), "swap", true
	case "dup":
		s := allSegs()
		i := mod(m.Seg, ns)
		s = append(s[:i+1], append([][]byte{seg(i)}, s[i+1:]...)...)
		return rebuild(s), "dup", true
	case "drop":
		if ns < 2 {
			return nil, "", false
		}
		i := mod(m.Seg, ns)
		s := allSegs()
		s = append(s[:i], s[i+1:]...)
		lab := "drop:middle"
		if i == ns-1 {
			lab = "drop:last"
		} else if i == 0 {
			lab = "drop:first"
		}
		return rebuild(s), lab, true
	case "splice":
		lo, err := layoutOf(other, off)
		if err != nil || len(lo.segs) == 0 {
			return nil, "", false
		}
		i := mod(m.Seg, min(ns, len(lo.segs)))
		s := allSegs()
		s[i] = other[lo.segs[i][0]:lo.segs[i][1]]
		return rebuild(s), "splice", true
	case "foreignid":
		if bytes.Equal(other, raw) {
			return nil, "", false
		}
		return append([]byte(nil), other...), "foreignid", true
	case "hdrswap":
		lo, err := layoutOf(other, off)
		if err != nil {
			return nil, "", false
		}
		b := append([]byte(nil), other[:lo.tinkAt+tinkHdr]...)
		b = append(b, raw[l.tinkAt+tinkHdr:]...)
		return b, "hdrswap", true
	case "segsize":
		loc := fieldRe["segsize"].FindSubmatchIndex(l.jsonTxt)
		if loc == nil {
			return nil, "", false
		}
		vals := []int{4096, 65536, 131071, 131073, 262144, 0, 56, 57}
		nv := strconv.Itoa(vals[mod(m.N, len(vals))])
		js := append([]byte(nil), l.jsonTxt[:loc[2]]...)
		js = append(js, nv...)
		js = append(js, l.jsonTxt[loc[3]:]...)
		b := append([]byte(nil), raw[:off]...)
		var p [4]byte
		binary.BigEndian.PutUint32(p[:], uint32(len(js)))
		b = append(b, p[:]...)
		b = append(b, js...)
		b = append(b, raw[l.tinkAt:]...)
		return b, "segsize:" + nv, true
	}
	return nil, "", false
}

// ---- execution -------------------------------------------------------------------------------

type runner struct {
	ctx  context.Context
	env  *ev.Env
	o    *ev.Outcome
	db   database.Database
	ps   partstore.PartStore // tink stack
	base partstore.PartStore // base store (raw bytes)
	caps partstore.Capabilities
}

func (r *runner) rawGet(id partstore.PartId) ([]byte, error) {
	var out []byte
	err := database.WithTx(r.ctx, r.db, &sql.TxOptions{ReadOnly: true}, func(ctx context.Context, tx database.Tx) error {
		rc, err := r.base.GetPart(ctx, tx, id)
		if err != nil {
			return err
		}
		defer rc.Close()
		out, err = io.ReadAll(rc)
		return err
	})
	return out, err
}

func (r *runner) rawPut(id partstore.PartId, b []byte) error {
	return database.WithTx(r.ctx, r.db, &sql.TxOptions{}, func(ctx context.Context, tx database.Tx) error {
		return r.base.PutPart(ctx, tx, id, bytes.NewReader(b))
	})
}

type result struct {
	data     []byte
	err      error
	seekable bool
}

// open runs fn on a reader of the part inside (or without) a transaction.
func (r *runner) open(id partstore.PartId, fn func(rc io.ReadCloser) error) error {
	do := func(ctx context.Context, tx database.Tx) error {
		rc, err := r.ps.GetPart(ctx, tx, id)
		if err != nil {
			return fmt.Errorf("GetPart: %w", err)
		}
		ferr := fn(rc)
		if cerr := rc.Close(); cerr != nil && ferr == nil {
			ferr = fmt.Errorf("Close: %w", cerr)
		}
		return ferr
	}
	if r.caps.Has(partstore.CapabilityTxFreeGetPart) {
		return do(r.ctx, nil)
	}
	var ferr error
	terr := database.WithTx(r.ctx, r.db, &sql.TxOptions{ReadOnly: true}, func(ctx context.Context, tx database.Tx) error {
		ferr = do(ctx, tx)
		return nil
	})
	if ferr == nil {
		ferr = terr
	}
	return ferr
}

var errNoProgress = errors.New("reader makes no progress: Read returned (0, nil) 100 times in a row")

func readAll(rc io.Reader, buf int) ([]byte, error) {
	if buf < 1 {
		buf = 32 * 1024
	}
	b := make([]byte, buf)
	var out bytes.Buffer
	stall := 0
	for {
		n, err := rc.Read(b)
		out.Write(b[:n])
		if err == io.EOF {
			return out.Bytes(), nil
		}
		if err != nil {
			return out.Bytes(), err
		}
		if n == 0 {
			if stall++; stall > 100 {
				return out.Bytes(), errNoProgress
			}
		} else {
			stall = 0
		}
		if out.Len() > 64<<20 {
			return out.Bytes(), errors.New("runaway reader")
		}
	}
}

func (r *runner) fullRead(id partstore.PartId, buf int) result {
	var res result
	res.err = r.open(id, func(rc io.ReadCloser) error {
		_, res.seekable = rc.(io.Seeker)
		var err error
		res.data, err = readAll(rc, buf)
		return err
	})
	return res
}

// script runs a seek/read script. strict: the blob is unmutated (model position, exact results demanded);
// otherwise only "bytes at the claimed position are plaintext bytes, no clean EOF before the end".
// It returns a violation text ("" = fine), and whether a short clean EOF was seen (for the matcher).
func (r *runner) script(id partstore.PartId, ops []SOp, want []byte, strict bool) (viol string, shortEOFAt int64, ran bool) {
	shortEOFAt = -1
	err := r.open(id, func(rc io.ReadCloser) error {
		sk, ok := rc.(io.Seeker)
		if !ok {
			return nil
		}
		ran = true
		pos := int64(0) // claimed position
		for i, op := range ops {
			switch op.Op {
			case "seek":
				var exp int64
				switch op.Whence {
				case io.SeekStart:
					exp = op.Off
				case io.SeekCurrent:
					exp = pos + op.Off
				default:
					exp = int64(len(want)) + op.Off
				}
				abs, err := sk.Seek(op.Off, op.Whence)
				r.o.Sub++
				if err != nil {
					if strict && exp >= 0 {
						viol = fmt.Sprintf("script op %d Seek(%d,%d) at %d failed: %v", i, op.Off, op.Whence, pos, err)
						return nil
					}
					if !strict {
						return nil // a tampered part may fail at any point
					}
					continue // negative target: position unchanged
				}
				if strict {
					if exp < 0 {
						viol = fmt.Sprintf("script op %d Seek(%d,%d) to negative position %d succeeded (returned %d)", i, op.Off, op.Whence, exp, abs)
						return nil
					}
					if abs != exp {
						viol = fmt.Sprintf("script op %d Seek(%d,%d) at %d returned %d, want %d", i, op.Off, op.Whence, pos, abs, exp)
						return nil
					}
				}
				pos = abs
			case "zero":
				n, err := rc.Read(nil)
				if n != 0 {
					viol = fmt.Sprintf("script op %d zero-length Read returned n=%d", i, n)
					return nil
				}
				if err != nil && err != io.EOF && strict {
					viol = fmt.Sprintf("script op %d zero-length Read failed: %v", i, err)
					return nil
				}
			default: // read up to N bytes
				n := op.N
				if n < 1 {
					n = 1
				}
				buf := make([]byte, n)
				got := 0
				var rerr error
				for got < n {
					k, err := rc.Read(buf[got:])
					got += k
					if err != nil {
						rerr = err
						break
					}
					if k == 0 {
						rerr = errors.New("Read returned 0, nil")
						break
					}
				}
				r.o.Sub++
				var exp []byte
				if pos < int64(len(want)) {
					exp = want[pos:min(pos+int64(n), int64(len(want)))]
				}
				if !bytes.Equal(buf[:got], exp[:min(got, len(exp))]) || got > len(exp) {
					viol = fmt.Sprintf("script op %d Read(%d) at offset %d returned bytes that are not the plaintext at that offset (got %d bytes, first difference at +%d)", i, n, pos, got, firstDiff(buf[:got], exp))
					return nil
				}
				if rerr == io.EOF {
					if got < len(exp) {
						if strict {
							viol = fmt.Sprintf("script op %d Read(%d) at offset %d: clean EOF after %d of %d bytes", i, n, pos, got, len(exp))
						} else {
							shortEOFAt = pos + int64(got)
						}
						return nil
					}
				} else if rerr != nil {
					if strict {
						viol = fmt.Sprintf("script op %d Read(%d) at offset %d failed after %d bytes: %v", i, n, pos, got, rerr)
					}
					return nil
				} else if got < len(exp) {
					viol = fmt.Sprintf("script op %d Read(%d) at offset %d: short read without error", i, n, pos)
					return nil
				}
				pos += int64(got)
			}
		}
		return nil
	})
	if err != nil && strict && viol == "" {
		viol = "script: " + err.Error()
	}
	return
}

func firstDiff(a, b []byte) int {
	n := min(len(a), len(b))
	for i := 0; i < n; i++ {
		if a[i] != b[i] {
			return i
		}
	}
	return n
}

// derivedLen: the plaintext length pithos' seekable reader derives from the size of a stored blob
// (stored length, header length prefix and the segmentSize announced in the JSON header).
func derivedLen(blob []byte, off int) (int64, bool) {
	if len(blob) < off+4 {
		return 0, false
	}
	hl := int(binary.BigEndian.Uint32(blob[off : off+4]))
	at := off + 4 + hl
	if hl > len(blob) || at > len(blob) {
		return 0, false
	}
	seg := 4096 // legacy default when the header announces no (or a zero) segment size
	if loc := fieldRe["segsize"].FindSubmatch(blob[off+4 : at]); loc != nil {
		if v, err := strconv.Atoi(string(loc[1])); err == nil && v > 0 {
			seg = v
		}
	}
	tl := len(blob) - at
	if tl < tinkHdr+tagSize || seg <= tinkHdr+tagSize {
		return 0, false
	}
	n := (tl + seg - 1) / seg
	return int64(tl - tinkHdr - tagSize*n), true
}

// ptLenOfSegments: plaintext bytes held by the first k complete segments.
func ptLenOfSegments(k int) int {
	if k <= 0 {
		return 0
	}
	return firstPT + (k-1)*laterPT
}

func lenClass(n int) string {
	switch {
	case n == 0:
		return "0"
	case n < firstPT-1:
		return "<1seg"
	case n <= firstPT+1:
		return "seg0-edge"
	case n < firstPT+laterPT-1:
		return "2seg"
	case n <= firstPT+laterPT+1:
		return "seg1-edge"
	default:
		return ">=3seg"
	}
}

func run(env *ev.Env, c Case) (o ev.Outcome) {
	spec, seekWrap, off := specOf(c.Base)
	dir := env.TempDir()
	defer os.RemoveAll(dir)
	ctx := context.Background()
	db, err := stacks.OpenDB(dir)
	if err != nil {
		o.Failf("open db: %v", err)
		return
	}
	defer db.Close()
	opts := stacks.Options{}
	if seekWrap {
		opts.WrapBase = func(name string, ps partstore.PartStore) partstore.PartStore {
			if m, ok := ps.(*stacks.MemStore); ok {
				return seekStore{m}
			}
			return ps
		}
	}
	b := stacks.NewBuilder(dir, db, opts)
	ps, err := b.Build(spec, "default")
	if err != nil {
		o.Failf("build: %v", err)
		return
	}
	defer b.Release()
	if err := ps.Start(ctx); err != nil {
		o.Failf("start: %v", err)
		return
	}
	defer ps.Stop(ctx)
	r := &runner{ctx: ctx, env: env, o: &o, db: db, ps: ps, base: b.Bases["default"], caps: partstore.CapabilitiesOf(ps)}
	o.Class("base:" + c.Base)
	want := c.Body.Bytes()
	otherPT := c.Other.Bytes()
	o.Class("len:" + lenClass(len(want)))
	id, id2 := pid(0), pid(1)
	put := func(id partstore.PartId, data []byte) error {
		return database.WithTx(ctx, db, &sql.TxOptions{}, func(ctx context.Context, tx database.Tx) error {
			return ps.PutPart(ctx, tx, id, bytes.NewReader(data))
		})
	}
	if err := put(id, want); err != nil {
		o.Failf("PutPart: %v", err)
		return
	}
	if err := put(id2, otherPT); err != nil {
		o.Failf("PutPart(other): %v", err)
		return
	}
	raw0, err := r.rawGet(id)
	if err != nil {
		o.Failf("raw read: %v", err)
		return
	}
	rawOther, err := r.rawGet(id2)
	if err != nil {
		o.Failf("raw read other: %v", err)
		return
	}
	// with a compression layer below, tink offsets assume the ciphertext was stored uncompressed
	if off > 0 {
		if l, err := layoutOf(raw0, off); err != nil || l.hdrLen > 4096 || l.hdrLen < 20 {
			o.Discard = true // ciphertext was compressed by the layer below (never observed; ciphertext is incompressible)
			return
		}
	}
	lay, err := layoutOf(raw0, off)
	if err != nil {
		o.Failf("stored blob has unexpected layout: %v", err)
		return
	}
	// stored size must be what the format promises
	o.Sub++
	nseg := len(lay.segs)
	wantSegs := 1
	if len(want) > firstPT {
		wantSegs = 1 + (len(want)-firstPT+laterPT-1)/laterPT
	}
	if nseg != wantSegs || len(raw0)-lay.tinkAt != tinkHdr+len(want)+tagSize*nseg {
		o.Failf("stored ciphertext layout: %d segments, %d bytes for %d plaintext bytes (expected %d segments)", nseg, len(raw0)-lay.tinkAt, len(want), wantSegs)
		return
	}
	// ---- confidentiality smoke check -------------------------------------------------
	if c.Body.Kind == "rand" && len(want) >= 32 {
		for _, p := range []int{0, len(want) / 2, len(want) - 32, firstPT - 16, firstPT, firstPT + laterPT - 16} {
			if p < 0 || p+32 > len(want) {
				continue
			}
			o.Sub++
			if bytes.Contains(raw0, want[p:p+32]) {
				o.Failf("stored bytes contain the 32-byte plaintext window at offset %d", p)
				return
			}
		}
		o.Class("confidentiality:checked")
	}
	// ---- unmutated: full read + scripts ---------------------------------------------------
	o.Sub++
	res := r.fullRead(id, c.Buf)
	if res.err != nil || !bytes.Equal(res.data, want) {
		o.Failf("unmutated full read (base %s, %d bytes): got %d bytes, err=%v, first difference at %d", c.Base, len(want), len(res.data), res.err, firstDiff(res.data, want))
		return
	}
	if res.seekable {
		o.Class("path:seekable")
	} else {
		o.Class("path:sequential")
	}
	edgeTouched := false
	for si, sc := range c.Scripts {
		viol, _, ran := r.script(id, sc, want, true)
		if viol != "" {
			o.Failf("unmutated part (base %s, %d bytes) script %d: %s", c.Base, len(want), si, viol)
			return
		}
		if ran {
			o.Class("script:run")
			for _, op := range sc {
				if op.Op == "seek" {
					o.Class(fmt.Sprintf("seek:whence%d", op.Whence))
					t := op.Off
					if op.Whence == io.SeekEnd {
						t += int64(len(want))
					}
					for _, e := range []int64{firstPT, firstPT + laterPT, firstPT + 2*laterPT} {
						if t >= e-1 && t <= e+1 && int64(len(want)) > firstPT {
							edgeTouched = true
						}
					}
				}
			}
		}
	}
	// ---- mutations -----------------------------------------------------------------------
	for mi, m := range c.Muts {
		mut, label, ok := mutate(m, raw0, rawOther, off)
		if !ok || bytes.Equal(mut, raw0) {
			continue
		}
		if err := r.rawPut(id, mut); err != nil {
			o.Failf("mutation %d: raw write: %v", mi, err)
			return
		}
		o.Class("mut:" + label)
		if len(want) > firstPT && (m.Kind == "trunc" && m.Where == "segedge" || m.Kind == "swap" || m.Kind == "drop" || m.Kind == "dup" || m.Kind == "splice" || m.Where == "tag" || m.Kind == "extend") {
			edgeTouched = true
		}
		o.Sub++
		res := r.fullRead(id, c.Buf)
		tinkLen := len(mut) - lay.tinkAt // length of the tink stream in the mutated blob (meaningful for truncations)
		desc := fmt.Sprintf("mutation %d %s (base %s, plaintext %d bytes, stored %d -> %d bytes)", mi, label, c.Base, len(want), len(raw0), len(mut))
		switch {
		case res.err == nil && bytes.Equal(res.data, want):
			o.Class("verdict:accepted-identical")
			if len(want) == 0 {
				o.Class("accepted(empty plaintext):" + label)
			} else {
				o.Class("accepted:" + label)
				// "any modification makes the read fail": a modified blob that still reads as the plaintext is
				// tolerated only for the header fields recorded as unauthenticated (KF-C16-4: keyType, keyURI,
				// version, segmentSize); an accepted modification anywhere else (length prefix, tink header
				// length, salt, nonce prefix, body, tag, structure) is a violation of its own
				unauth := strings.HasPrefix(label, "flip:keyType") || strings.HasPrefix(label, "flip:keyURI") || strings.HasPrefix(label, "flip:version") ||
					strings.HasPrefix(label, "flip:segsize") || strings.HasPrefix(label, "segsize:")
				if unauth && env.Known("c16.unauthenticatedHeaderFields") {
					o.KnownHits = append(o.KnownHits, "KF-C16-4")
				} else {
					o.Failf("%s: the modified stored bytes were accepted: the read returned the complete plaintext without an error", desc)
					return
				}
			}
		case res.err == errNoProgress:
			o.Failf("%s: %v (after %d bytes)", desc, res.err, len(res.data))
			return
		case res.err != nil && bytes.HasPrefix(want, res.data):
			o.Class("verdict:rejected")
		case res.err != nil:
			o.Failf("%s: read failed (%v) but only after delivering %d bytes that are not a prefix of the plaintext (first difference at %d)", desc, res.err, len(res.data), firstDiff(res.data, want))
			return
		default:
			// other bytes with a clean EOF
			known := false
			if m.Kind == "trunc" && len(res.data) == 0 && (len(mut) <= off || len(mut) == off+4 || len(mut) == lay.tinkAt) && env.Known("c16.emptyStreamReadsAsEmptyPart") {
				// KF-C16-1: the envelope ends exactly where a header read starts: io.ReadFull reports io.EOF,
				// which the lazy reader hands to the caller as a clean end of an empty part.
				o.KnownHits = append(o.KnownHits, "KF-C16-1")
				known = true
			}
			if !known && res.seekable && m.Kind == "trunc" && bytes.HasPrefix(want, res.data) && env.Known("c16.seekableLengthUnauthenticated") {
				// KF-C16-2: the seekable reader derives the plaintext length from the (unauthenticated) stored
				// length and never decrypts the final segment when that length says nothing is left:
				// tink stream cut k*css + t bytes, 1 <= t <= 16 -> the first k segments, clean EOF.
				k, t := tinkLen/css, tinkLen%css
				if tinkLen == tinkHdr+tagSize {
					k, t = 0, tagSize
				}
				if t >= 1 && t <= tagSize && len(res.data) == ptLenOfSegments(k) {
					o.KnownHits = append(o.KnownHits, "KF-C16-2")
					known = true
				}
			}
			if !known && !res.seekable && m.Kind == "trunc" && bytes.HasPrefix(want, res.data) && env.Known("c16.sequentialReaderEOFAtBoundary") {
				// KF-C16-3: tink-go's sequential reader returns the io.EOF of io.ReadFull unchanged when a
				// segment read gets zero bytes: a stream that ends right after the tink stream header, or exactly
				// one byte after a complete non-final segment, ends cleanly after the first k segments.
				if (tinkLen == tinkHdr && len(res.data) == 0) || (tinkLen >= css && tinkLen%css == 1 && len(res.data) == ptLenOfSegments(tinkLen/css)) {
					o.KnownHits = append(o.KnownHits, "KF-C16-3")
					known = true
				}
			}
			if !known {
				o.Failf("%s: read returned %d bytes that are not the plaintext with a clean EOF (first difference at %d)", desc, len(res.data), firstDiff(res.data, want))
				return
			}
			o.Class("verdict:known-lie")
		}
		if res.seekable && len(c.MutScript) > 0 {
			viol, shortAt, ran := r.script(id, c.MutScript, want, false)
			if ran {
				o.Class("mutscript:run")
			}
			if viol != "" {
				o.Failf("%s: seek script: %s", desc, viol)
				return
			}
			if shortAt >= 0 {
				k, t := tinkLen/css, tinkLen%css
				if tinkLen == tinkHdr+tagSize {
					k, t = 0, tagSize
				}
				// the length the seekable reader derives from the (truncated) stored size
				derived, dok := derivedLen(mut, off)
				_, _ = k, t
				if dok && derived < int64(len(want)) && shortAt >= derived && env.Known("c16.seekableLengthUnauthenticated") {
					// KF-C16-2 reached through Seek: EOF is reported at/after the derived length without
					// authenticating the final segment
					o.KnownHits = append(o.KnownHits, "KF-C16-2")
				} else if m.Kind == "trunc" && (len(mut) <= off || len(mut) == off+4) && env.Known("c16.emptyStreamReadsAsEmptyPart") {
					o.KnownHits = append(o.KnownHits, "KF-C16-1") // same mechanism reached through the script's first Read
				} else {
					o.Failf("%s: seek script: clean EOF at plaintext offset %d (plaintext has %d bytes)", desc, shortAt, len(want))
					return
				}
			}
		}
	}
	// restore and re-check once (mutations must not have leaked state, e.g. cached keys)
	if len(c.Muts) > 0 {
		if err := r.rawPut(id, raw0); err != nil {
			o.Failf("restore: %v", err)
			return
		}
		o.Sub++
		if res := r.fullRead(id, 0); res.err != nil || !bytes.Equal(res.data, want) {
			o.Failf("restored blob no longer decrypts: %d bytes, err=%v", len(res.data), res.err)
			return
		}
	}
	o.NonTrivial = len(want) > firstPT && edgeTouched
	return
}

// ---- generation ---------------------------------------------------------------------------------

var flipWhere = []string{"prefix", "version", "keyType", "keyURI", "dek", "dek", "segsize", "tinkhdrlen", "salt", "nonce", "body", "body", "tag", "tag"}
var truncWhere = []string{"zero", "prefix", "json", "afterjson", "tinkhdr", "aftertink", "aftertink", "segedge", "segedge", "segedge", "abs"}

func genMut(t *rapid.T) Mut {
	m := Mut{Kind: rapid.SampledFrom([]string{"flip", "flip", "flip", "trunc", "trunc", "trunc", "extend", "swap", "dup", "drop", "splice", "foreignid", "hdrswap", "segsize"}).Draw(t, "mkind")}
	m.Seg = rapid.IntRange(0, 4).Draw(t, "seg")
	switch m.Kind {
	case "flip":
		m.Where = rapid.SampledFrom(flipWhere).Draw(t, "fwhere")
		m.Off = rapid.IntRange(0, css).Draw(t, "off")
		m.Bit = rapid.IntRange(0, 7).Draw(t, "bit")
	case "trunc":
		m.Where = rapid.SampledFrom(truncWhere).Draw(t, "twhere")
		m.Off = rapid.IntRange(0, 3*css).Draw(t, "off")
		m.N = rapid.IntRange(-1, 17).Draw(t, "delta")
	case "extend":
		m.Where = rapid.SampledFrom([]string{"junk", "lastseg", "emptyseg"}).Draw(t, "ewhere")
		m.N = rapid.IntRange(0, 199).Draw(t, "n")
	case "swap":
		m.Seg2 = rapid.IntRange(0, 4).Draw(t, "seg2")
	case "segsize":
		m.N = rapid.IntRange(0, 7).Draw(t, "nv")
	}
	return m
}

func genOffset(t *rapid.T, n int) int64 {
	cands := []int64{0, 1, firstPT - 1, firstPT, firstPT + 1, firstPT + laterPT - 1, firstPT + laterPT, firstPT + laterPT + 1,
		int64(n) - 1, int64(n), int64(n) + 1, int64(n) + 1000, -1}
	if rapid.IntRange(0, 3).Draw(t, "offAny") == 0 {
		return int64(rapid.IntRange(0, n+10).Draw(t, "offAnyV"))
	}
	return rapid.SampledFrom(cands).Draw(t, "offCand")
}

func genScript(t *rapid.T, n int) []SOp {
	var sc []SOp
	k := rapid.IntRange(1, 8).Draw(t, "scriptLen")
	if rapid.IntRange(0, 4).Draw(t, "prodPattern") == 0 {
		// the production pattern: SkipNBytes = Seek(skip, SeekCurrent) before the first Read, then a bounded read
		return []SOp{{Op: "seek", Whence: io.SeekCurrent, Off: genOffset(t, n)}, {Op: "read", N: rapid.SampledFrom([]int{1, 100, 70000, 140000, 300000}).Draw(t, "prodN")}}
	}
	for i := 0; i < k; i++ {
		switch rapid.IntRange(0, 9).Draw(t, "sop") {
		case 0, 1, 2, 3:
			w := rapid.SampledFrom([]int{io.SeekStart, io.SeekStart, io.SeekCurrent, io.SeekEnd}).Draw(t, "whence")
			off := genOffset(t, n)
			switch w {
			case io.SeekEnd:
				off = off - int64(n)
			case io.SeekCurrent:
				off = int64(rapid.SampledFrom([]int{-140000, -131056, -1000, -1, 0, 1, 40, 1000, 131016, 131056, 140000}).Draw(t, "rel"))
			}
			sc = append(sc, SOp{Op: "seek", Whence: w, Off: off})
		case 4:
			sc = append(sc, SOp{Op: "zero"})
		default:
			sc = append(sc, SOp{Op: "read", N: rapid.SampledFrom([]int{1, 2, 15, 16, 17, 100, 4096, 131016, 131056, 131057, 200000}).Draw(t, "rn")})
		}
	}
	return sc
}

func genLen(t *rapid.T, max int) int {
	switch rapid.IntRange(0, 11).Draw(t, "lenClass") {
	case 0:
		return 0
	case 1:
		return rapid.IntRange(1, 100).Draw(t, "tiny")
	case 2:
		return rapid.IntRange(1, max).Draw(t, "any")
	case 3, 4, 5:
		return firstPT + rapid.IntRange(-1, 1).Draw(t, "d0")
	case 6, 7, 8:
		return firstPT + laterPT + rapid.IntRange(-1, 1).Draw(t, "d1")
	case 9:
		return firstPT + 2*laterPT + rapid.IntRange(-1, 1).Draw(t, "d2")
	default:
		return rapid.IntRange(firstPT+2, firstPT+laterPT+5000).Draw(t, "two")
	}
}

func genCase(t *rapid.T, env *ev.Env) Case {
	c := Case{Base: rapid.SampledFrom([]string{"memseek", "memseek", "mem", "fs", "zfs", "gmemseek", "sql"}).Draw(t, "base")}
	max := firstPT + 2*laterPT + 2000
	nMut, nScripts := 14, 6
	if env.Thorough() {
		max = firstPT + 5*laterPT
		nMut, nScripts = 40, 20
	}
	n := genLen(t, max)
	if n > max {
		n = max
	}
	c.Body = gen.BodySpec{Kind: rapid.SampledFrom([]string{"rand", "rand", "zero", "text"}).Draw(t, "kind"), Len: n, Seed: uint64(rapid.IntRange(0, 30).Draw(t, "seed"))}
	on := n
	if rapid.IntRange(0, 2).Draw(t, "otherLen") == 0 {
		on = genLen(t, max)
	}
	c.Other = gen.BodySpec{Kind: "rand", Len: on, Seed: c.Body.Seed + 77}
	c.Buf = rapid.SampledFrom([]int{0, 0, 1000, 4096, 131072, 1 << 20}).Draw(t, "buf")
	for i := rapid.IntRange(1, nScripts).Draw(t, "nScripts"); i > 0; i-- {
		c.Scripts = append(c.Scripts, genScript(t, n))
	}
	for i := rapid.IntRange(3, nMut).Draw(t, "nMut"); i > 0; i-- {
		c.Muts = append(c.Muts, genMut(t))
	}
	c.MutScript = genScript(t, n)
	return c
}

// directed: the mutation catalogue applied systematically to plaintexts on the segment edges,
// on a sequential and a seekable stack.
func directed(env *ev.Env) []Case {
	var cs []Case
	lens := []int{0, 1, firstPT, firstPT + 1, firstPT + laterPT, firstPT + laterPT + 1}
	bases := []string{"mem", "memseek", "zfs"}
	if env.Thorough() {
		lens = append(lens, firstPT-1, firstPT+laterPT-1, firstPT+2*laterPT, firstPT+2*laterPT+1, 70000)
		bases = []string{"mem", "memseek", "fs", "sql", "zfs", "gmemseek"}
	}
	var cat []Mut
	for _, w := range []string{"prefix", "version", "keyType", "keyURI", "dek", "segsize", "tinkhdrlen", "salt", "nonce"} {
		cat = append(cat, Mut{Kind: "flip", Where: w, Off: 3, Bit: 0})
	}
	cat = append(cat, Mut{Kind: "flip", Where: "dek", Off: 40, Bit: 5})
	for seg := 0; seg < 3; seg++ {
		cat = append(cat, Mut{Kind: "flip", Where: "body", Seg: seg, Off: 0, Bit: 0}, Mut{Kind: "flip", Where: "body", Seg: seg, Off: 70000, Bit: 7},
			Mut{Kind: "flip", Where: "tag", Seg: seg, Off: 0, Bit: 0}, Mut{Kind: "flip", Where: "tag", Seg: seg, Off: 15, Bit: 3})
	}
	for _, w := range []string{"zero", "afterjson"} {
		cat = append(cat, Mut{Kind: "trunc", Where: w})
	}
	for o := 0; o < 5; o++ {
		cat = append(cat, Mut{Kind: "trunc", Where: "prefix", Off: o})
	}
	cat = append(cat, Mut{Kind: "trunc", Where: "json", Off: 10}, Mut{Kind: "trunc", Where: "tinkhdr", Off: 0}, Mut{Kind: "trunc", Where: "tinkhdr", Off: 38})
	for d := 0; d <= 17; d++ {
		cat = append(cat, Mut{Kind: "trunc", Where: "aftertink", N: d})
	}
	for seg := 1; seg < 3; seg++ {
		for d := -1; d <= 17; d++ {
			cat = append(cat, Mut{Kind: "trunc", Where: "segedge", Seg: seg, N: d})
		}
	}
	cat = append(cat, Mut{Kind: "trunc", Where: "abs", Off: 50000}, Mut{Kind: "trunc", Where: "abs", Off: 200000})
	for _, w := range []string{"junk", "lastseg", "emptyseg"} {
		cat = append(cat, Mut{Kind: "extend", Where: w, N: 0}, Mut{Kind: "extend", Where: w, N: 150})
	}
	cat = append(cat, Mut{Kind: "swap", Seg: 0, Seg2: 1}, Mut{Kind: "swap", Seg: 1, Seg2: 2}, Mut{Kind: "dup", Seg: 0}, Mut{Kind: "dup", Seg: 1}, Mut{Kind: "dup", Seg: 2},
		Mut{Kind: "drop", Seg: 0}, Mut{Kind: "drop", Seg: 1}, Mut{Kind: "drop", Seg: 2}, Mut{Kind: "splice", Seg: 0}, Mut{Kind: "splice", Seg: 1}, Mut{Kind: "splice", Seg: 2},
		Mut{Kind: "foreignid"}, Mut{Kind: "hdrswap"})
	for nv := 0; nv < 8; nv++ {
		cat = append(cat, Mut{Kind: "segsize", N: nv})
	}
	for _, base := range bases {
		for _, n := range lens {
			c := Case{Base: base, Body: gen.BodySpec{Kind: "rand", Len: n, Seed: 1}, Other: gen.BodySpec{Kind: "rand", Len: n, Seed: 78}, Muts: cat}
			// exhaustive small seek grid on the unmutated part: every edge offset x read sizes, all three whences
			for _, off := range []int64{0, 1, firstPT - 1, firstPT, firstPT + 1, firstPT + laterPT - 1, firstPT + laterPT, firstPT + laterPT + 1, int64(n) - 1, int64(n), int64(n) + 5} {
				if off < 0 {
					continue
				}
				c.Scripts = append(c.Scripts,
					[]SOp{{Op: "seek", Whence: io.SeekCurrent, Off: off}, {Op: "read", N: 140000}, {Op: "read", N: 10}},
					[]SOp{{Op: "read", N: 5}, {Op: "seek", Whence: io.SeekStart, Off: off}, {Op: "read", N: 17}, {Op: "seek", Whence: io.SeekCurrent, Off: -17}, {Op: "read", N: 17}},
					[]SOp{{Op: "seek", Whence: io.SeekEnd, Off: off - int64(n)}, {Op: "zero"}, {Op: "read", N: 300000}})
			}
			c.MutScript = []SOp{{Op: "seek", Whence: io.SeekCurrent, Off: int64(min(n, firstPT-3))}, {Op: "read", N: 10}, {Op: "seek", Whence: io.SeekEnd, Off: -1}, {Op: "read", N: 5}, {Op: "seek", Whence: io.SeekStart, Off: 0}, {Op: "read", N: 400000}}
			cs = append(cs, c)
		}
	}
	return cs
}

func TestC16(t *testing.T) {
	ev.Main(t, ev.Spec[Case]{
		ID:    "C16",
		Level: "exploration",
		Rule: "a case = stack variant (sequential / seekable decrypt path, with or without a compression layer below) x plaintext (lengths 0, 1, +-1 around the tink segment boundaries 131016 + k*131056) " +
			"x seek/read scripts on the unmutated part x 3-40 mutations of the stored bytes (each followed by a full read and, on the seekable path, a seek script); non-trivial when the plaintext spans >= 2 segments " +
			"and a mutation or a seek touches a segment edge; distinct = distinct case JSON. The directed part applies a ~110-entry mutation catalogue and a seek grid to plaintexts on the segment edges",
		Assumptions: []string{
			"ciphertext is produced by the real PutPart (fresh random DEK per part); mutations are written back through the base store's PutPart",
			"oracle for a mutated blob: exact plaintext + EOF (mutation harmless), or a failure after a prefix of the plaintext; never other bytes with a clean EOF, never wrong bytes before a failure",
			"length-prefix flips are bounded to < 64 MiB (the reader allocates headerLen bytes): larger values are a memory concern outside this property",
			"confidentiality is a smoke check (no 32-byte plaintext window in the stored bytes), not a cryptographic argument",
		},
		Gen:      genCase,
		Run:      run,
		Directed: directed,
	})
}

// ---- native fuzz target (thorough): byte-level mutation of a stored two-segment blob ------------

func knownOpen(matcher string) bool {
	root := os.Getenv("VERIF_ROOT")
	if root == "" {
		root = "/verif"
	}
	b, err := os.ReadFile(filepath.Join(root, "known-findings.json"))
	if err != nil {
		return false
	}
	var ff struct {
		Findings []struct {
			Property, Status, Matcher string
		} `json:"findings"`
	}
	if json.Unmarshal(b, &ff) != nil {
		return false
	}
	for _, f := range ff.Findings {
		if f.Property == "C16" && f.Status == "open" && f.Matcher == matcher {
			return true
		}
	}
	return false
}

func FuzzC16(f *testing.F) {
	f.Add(uint8(0), uint32(0), uint8(1), uint32(0), uint32(0))
	f.Add(uint8(1), uint32(4+100), uint8(0x80), uint32(0), uint32(0))
	f.Add(uint8(1), uint32(200), uint8(0), uint32(131072+150+5), uint32(0))
	f.Add(uint8(0), uint32(131072+160), uint8(0xff), uint32(0), uint32(33))
	dir := f.TempDir()
	ctx := context.Background()
	db, err := stacks.OpenDB(dir)
	if err != nil {
		f.Fatal(err)
	}
	f.Cleanup(func() { db.Close() })
	type variant struct {
		ps   partstore.PartStore
		mem  *stacks.MemStore
		raw  []byte
		want []byte
	}
	var vs []variant
	for i, seek := range []bool{false, true} {
		opts := stacks.Options{}
		if seek {
			opts.WrapBase = func(name string, ps partstore.PartStore) partstore.PartStore {
				if m, ok := ps.(*stacks.MemStore); ok {
					return seekStore{m}
				}
				return ps
			}
		}
		b := stacks.NewBuilder(filepath.Join(dir, strconv.Itoa(i)), db, opts)
		ps, err := b.Build("tink>mem", "default")
		if err != nil {
			f.Fatal(err)
		}
		want := gen.BodySpec{Kind: "rand", Len: firstPT + 300, Seed: uint64(i)}.Bytes()
		if err := ps.PutPart(ctx, nil, pid(0), bytes.NewReader(want)); err != nil {
			f.Fatal(err)
		}
		raw, _ := b.Mems["default"].Raw(pid(0))
		vs = append(vs, variant{ps: ps, mem: b.Mems["default"], raw: raw, want: want})
	}
	k1, k2 := knownOpen("c16.emptyStreamReadsAsEmptyPart"), knownOpen("c16.seekableLengthUnauthenticated")
	k3 := knownOpen("c16.sequentialReaderEOFAtBoundary")
	f.Fuzz(func(t *testing.T, which uint8, pos uint32, x uint8, truncAt uint32, extend uint32) {
		v := vs[int(which)%2]
		mut := append([]byte(nil), v.raw...)
		if x != 0 {
			mut[int(pos)%len(mut)] ^= x
		}
		if truncAt != 0 {
			mut = mut[:int(truncAt)%len(mut)]
		}
		for i := 0; i < int(extend%300); i++ {
			mut = append(mut, byte(i*7))
		}
		if len(mut) >= 4 && binary.BigEndian.Uint32(mut[:4]) >= maxAlloc {
			return
		}
		if bytes.Equal(mut, v.raw) {
			return
		}
		v.mem.SetRaw(pid(0), mut)
		rc, err := v.ps.GetPart(ctx, nil, pid(0))
		if err != nil {
			return
		}
		data, rerr := readAll(rc, 0)
		rc.Close()
		if rerr != nil {
			if !bytes.HasPrefix(v.want, data) {
				t.Fatalf("failure after %d bytes that are not a plaintext prefix (stored %d bytes)", len(data), len(mut))
			}
			return
		}
		if bytes.Equal(data, v.want) {
			return
		}
		if k1 && len(data) == 0 && (len(mut) == 0 || len(mut) == 4 || (len(mut) > 4 && len(mut) == 4+int(binary.BigEndian.Uint32(mut[:4])))) {
			return
		}
		if k2 && int(which)%2 == 1 && bytes.HasPrefix(v.want, data) && len(mut) >= 4 {
			tl := len(mut) - 4 - int(binary.BigEndian.Uint32(v.raw[:4]))
			k, tt := tl/css, tl%css
			if tl == tinkHdr+tagSize {
				k, tt = 0, tagSize
			}
			if tt >= 1 && tt <= tagSize && len(data) == ptLenOfSegments(k) {
				return
			}
		}
		if k3 && int(which)%2 == 0 && bytes.HasPrefix(v.want, data) && len(mut) >= 4 {
			// KF-C16-3: the stream ends right after the tink stream header or 1 byte after a full segment
			tl := len(mut) - 4 - int(binary.BigEndian.Uint32(v.raw[:4]))
			if (tl == tinkHdr && len(data) == 0) || (tl >= css && tl%css == 1 && len(data) == ptLenOfSegments(tl/css)) {
				return
			}
		}
		t.Fatalf("stored %d bytes (orig %d): read returned %d bytes != plaintext with clean EOF", len(mut), len(v.raw), len(data))
	})
}

var _ = strings.Contains
