package c07

import (
	"bytes"
	"context"
	"crypto/md5"
	"encoding/hex"
	"fmt"
	"os"
	"path/filepath"
	"strings"
	"sync"
	"testing"
	"time"

	"github.com/anishathalye/porcupine"
	"github.com/prometheus/client_golang/prometheus"

	"github.com/jdillenkofer/pithos/internal/storage"
	repositoryFactory "github.com/jdillenkofer/pithos/internal/storage/database/repository"
	"github.com/jdillenkofer/pithos/internal/storage/middlewares/delegator"
	"github.com/jdillenkofer/pithos/internal/storage/outbox"
	"github.com/jdillenkofer/pithos/verifharness/ev"
	"github.com/jdillenkofer/pithos/verifharness/prog"
	"github.com/jdillenkofer/pithos/verifharness/stacks"
	"pgregory.net/rapid"
)

// WOp is one operation of a worker on the single shared key.
type WOp struct {
	Kind string `json:"kind"` // put | complete | delete | get
	Cond string `json:"cond"` // "", "inm", "im-seen", "im-seed", "im-star"
}

type Case struct {
	Stack      string  `json:"stack"`      // P1 | P2
	Outbox     bool    `json:"outbox"`     // outbox storage (with its real worker) in front
	Versioning string  `json:"versioning"` // "", Enabled, Suspended
	Seeded     bool    `json:"seeded"`     // the key exists before the workload starts
	Workers    [][]WOp `json:"workers"`
}

func genCase(t *rapid.T, env *ev.Env) Case {
	c := Case{Stack: rapid.SampledFrom([]string{"P2", "P1"}).Draw(t, "stack"), Outbox: rapid.IntRange(0, 2).Draw(t, "outbox") == 0,
		Versioning: rapid.SampledFrom([]string{"", "", "Enabled", "Suspended"}).Draw(t, "versioning"), Seeded: rapid.Bool().Draw(t, "seeded")}
	nw := rapid.IntRange(2, 8).Draw(t, "workers")
	allINM := rapid.IntRange(0, 3).Draw(t, "allInm") == 0 // the classic race: everybody tries If-None-Match:* first
	for w := 0; w < nw; w++ {
		n := rapid.IntRange(1, 4).Draw(t, "nops")
		var ops []WOp
		for i := 0; i < n; i++ {
			op := WOp{Kind: rapid.SampledFrom([]string{"put", "put", "put", "complete", "delete", "get"}).Draw(t, "kind")}
			switch op.Kind {
			case "put", "complete":
				op.Cond = rapid.SampledFrom([]string{"", "inm", "inm", "im-seen", "im-seen", "im-seed", "im-star"}).Draw(t, "cond")
			case "delete":
				op.Cond = rapid.SampledFrom([]string{"", "im-seen", "im-seed", "im-star"}).Draw(t, "dcond")
			}
			if i == 0 && allINM {
				op = WOp{Kind: rapid.SampledFrom([]string{"put", "complete"}).Draw(t, "inmKind"), Cond: "inm"}
			}
			ops = append(ops, op)
		}
		c.Workers = append(c.Workers, ops)
	}
	return c
}

type input struct {
	kind string // put | delete | get
	cond string // "", inm, im, star
	etag string // etag written (put) or required (im)
	want string // required etag for im
}

type output struct {
	ok      bool
	precond bool   // failed with PreconditionFailed
	etag    string // get: current etag ("" = absent)
}

var registerModel = porcupine.Model{
	Init: func() interface{} { return "" },
	Step: func(state, in, out interface{}) (bool, interface{}) {
		cur, i, r := state.(string), in.(input), out.(output)
		switch i.kind {
		case "get":
			return r.etag == cur, cur
		case "put", "delete":
			next := i.etag
			if i.kind == "delete" {
				next = ""
			}
			switch i.cond {
			case "":
				if !r.ok {
					return false, cur // an unconditional write must not fail
				}
				return true, next
			case "inm":
				if r.ok {
					return cur == "", next
				}
				// a refused If-None-Match:* must be justified: the key existed
				return r.precond && cur != "", cur
			case "im":
				if r.ok {
					return cur != "" && cur == i.want, next
				}
				return r.precond, cur // a spurious refusal is admissible
			case "star":
				if r.ok {
					return cur != "", next
				}
				return r.precond, cur
			}
		}
		return false, cur
	},
	Equal: func(a, b interface{}) bool { return a.(string) == b.(string) },
	DescribeOperation: func(in, out interface{}) string {
		i, r := in.(input), out.(output)
		return fmt.Sprintf("%s cond=%s writes=%.10s wants=%.10s -> ok=%v precond=%v sees=%.10s", i.kind, i.cond, i.etag, i.want, r.ok, r.precond, r.etag)
	},
}

type noLifecycle struct{ delegator.DelegatingStorage }

func (n *noLifecycle) Start(ctx context.Context) error { return nil }
func (n *noLifecycle) Stop(ctx context.Context) error  { return nil }

func etagOf(b []byte) string {
	h := md5.Sum(b)
	return "\"" + hex.EncodeToString(h[:]) + "\""
}

func runCase(env *ev.Env, c Case) (o ev.Outcome) {
	o.Class("stack:" + c.Stack)
	o.Class(fmt.Sprintf("outbox:%v", c.Outbox))
	o.Class("versioning:" + c.Versioning)
	dir := env.TempDir()
	defer os.RemoveAll(dir)
	ctx := context.Background()
	inst, err := stacks.Open(filepath.Join(dir, "inner"), stacks.LayoutFor(c.Stack), stacks.Options{})
	if err != nil {
		o.Failf("harness: open: %v", err)
		return
	}
	defer inst.Close()
	var st storage.Storage = inst.Storage
	if c.Outbox {
		obDB, err := stacks.OpenDB(filepath.Join(dir, "outbox"))
		if err != nil {
			o.Failf("harness: %v", err)
			return
		}
		defer obDB.Close()
		repo, err := repositoryFactory.NewStorageOutboxEntryRepository(obDB)
		if err != nil {
			o.Failf("harness: %v", err)
			return
		}
		ob, err := outbox.NewStorage(obDB, "c07-outbox", &noLifecycle{delegator.Wrap(inst.Storage)}, repo, prometheus.NewRegistry(), 0)
		if err != nil {
			o.Failf("harness: %v", err)
			return
		}
		if err := ob.Start(ctx); err != nil {
			o.Failf("harness: %v", err)
			return
		}
		defer func() {
			sctx, cancel := context.WithTimeout(context.Background(), 15*time.Second)
			defer cancel()
			_ = ob.Stop(sctx)
		}()
		st = ob
	}
	bn, key := storage.MustNewBucketName("cond-bucket"), storage.MustNewObjectKey("the-key")
	if err := st.CreateBucket(ctx, bn); err != nil {
		o.Failf("harness: %v", err)
		return
	}
	if c.Versioning != "" {
		v := storage.BucketVersioningStatus(c.Versioning)
		if err := st.PutBucketVersioningConfiguration(ctx, bn, &storage.BucketVersioningConfiguration{Status: &v}); err != nil {
			o.Failf("harness: %v", err)
			return
		}
	}
	var mu sync.Mutex
	var hist []porcupine.Operation
	infra := false
	t0 := time.Now()
	rec := func(client int, in input, call int64, out output) {
		mu.Lock()
		hist = append(hist, porcupine.Operation{ClientId: client, Input: in, Call: call, Output: out, Return: time.Since(t0).Nanoseconds()})
		mu.Unlock()
	}
	seedBody := []byte("seed-object-body")
	seedETag := etagOf(seedBody)
	if c.Seeded {
		call := time.Since(t0).Nanoseconds()
		if _, err := st.PutObject(ctx, bn, key, nil, bytes.NewReader(seedBody), nil, nil); err != nil {
			o.Failf("harness: seed: %v", err)
			return
		}
		rec(98, input{kind: "put", etag: seedETag}, call, output{ok: true})
	}
	// uploads for the complete ops are prepared before the barrier
	type prepared struct {
		id   storage.UploadId
		etag string
	}
	uploads := map[[2]int]prepared{}
	for w, ops := range c.Workers {
		for i, op := range ops {
			if op.Kind != "complete" {
				continue
			}
			up, err := st.CreateMultipartUpload(ctx, bn, key, nil, nil, nil)
			if err != nil {
				o.Failf("harness: %v", err)
				return
			}
			body := []byte(fmt.Sprintf("mpu-body-w%d-i%d", w, i))
			if _, err := st.UploadPart(ctx, bn, key, up.UploadId, 1, bytes.NewReader(body), nil); err != nil {
				o.Failf("harness: %v", err)
				return
			}
			h := md5.Sum(body)
			uploads[[2]int{w, i}] = prepared{id: up.UploadId, etag: prog.MultipartETag([][16]byte{h})}
		}
	}
	start := make(chan struct{})
	var wg sync.WaitGroup
	for w := range c.Workers {
		wg.Add(1)
		go func(w int) {
			defer wg.Done()
			<-start
			seen := "" // etag this worker last saw as current
			for i, op := range c.Workers[w] {
				in := input{kind: op.Kind}
				var ifMatch *string
				inm := false
				switch op.Cond {
				case "inm":
					in.cond, inm = "inm", true
				case "im-seen":
					in.cond = "im"
					in.want = seen
					if in.want == "" {
						in.want = seedETag
					}
					ifMatch = &in.want
				case "im-seed":
					in.cond, in.want = "im", seedETag
					ifMatch = &in.want
				case "im-star":
					in.cond = "star"
					s := "*"
					ifMatch = &s
				}
				call := time.Since(t0).Nanoseconds()
				var err error
				switch op.Kind {
				case "put":
					body := []byte(fmt.Sprintf("put-body-w%d-i%d", w, i))
					in.etag = etagOf(body)
					var opts *storage.PutObjectOptions
					if inm || ifMatch != nil {
						opts = &storage.PutObjectOptions{IfNoneMatchStar: inm, IfMatchETag: ifMatch}
					}
					_, err = st.PutObject(ctx, bn, key, nil, bytes.NewReader(body), nil, opts)
				case "complete":
					in.kind = "put"
					p := uploads[[2]int{w, i}]
					in.etag = p.etag
					var opts *storage.CompleteMultipartUploadOptions
					if inm || ifMatch != nil {
						opts = &storage.CompleteMultipartUploadOptions{IfNoneMatchStar: inm, IfMatchETag: ifMatch}
					}
					_, err = st.CompleteMultipartUpload(ctx, bn, key, p.id, nil, opts)
				case "delete":
					var opts *storage.DeleteObjectOptions
					if ifMatch != nil {
						opts = &storage.DeleteObjectOptions{IfMatchETag: ifMatch}
					}
					_, err = st.DeleteObject(ctx, bn, key, opts)
				case "get":
					obj, herr := st.HeadObject(ctx, bn, key, nil)
					out := output{ok: true}
					if herr != nil {
						k := prog.Classify(herr)
						if k != prog.ENoSuchKey && k != prog.ECurrentDM {
							mu.Lock()
							infra = true
							mu.Unlock()
							continue
						}
					} else {
						out.etag = obj.ETag
						seen = obj.ETag
					}
					rec(w, in, call, out)
					continue
				}
				out := output{ok: err == nil}
				if err != nil {
					if prog.Classify(err) == prog.EPrecondition {
						out.precond = true
					} else {
						mu.Lock()
						infra = true
						mu.Unlock()
					}
				} else if in.kind == "put" {
					seen = in.etag
				} else {
					seen = ""
				}
				rec(w, in, call, out)
			}
		}(w)
	}
	close(start)
	wg.Wait()
	if infra {
		o.Discard = true
		return
	}
	call := time.Since(t0).Nanoseconds()
	final := output{ok: true}
	if obj, err := st.HeadObject(ctx, bn, key, nil); err == nil {
		final.etag = obj.ETag
	} else if k := prog.Classify(err); k != prog.ENoSuchKey && k != prog.ECurrentDM {
		o.Failf("final HeadObject failed: %v", err)
		return
	}
	rec(99, input{kind: "get"}, call, final)
	o.Sub = len(hist)
	res := porcupine.CheckOperationsTimeout(registerModel, hist, 20*time.Second)
	if res == porcupine.Unknown {
		o.Discard = true
		return
	}
	describe := func() string {
		var sb strings.Builder
		for _, h := range hist {
			fmt.Fprintf(&sb, "\n  client %d [%d,%d] %s", h.ClientId, h.Call, h.Return, registerModel.DescribeOperation(h.Input, h.Output))
		}
		return sb.String()
	}
	if res != porcupine.Ok {
		o.Failf("history of conditional writes on one key (stack %s, outbox=%v, versioning=%q) is not linearizable against the conditional-register model:%s", c.Stack, c.Outbox, c.Versioning, describe())
		return
	}
	// direct invariant: among If-None-Match:* writers that ran while the key had never existed, exactly one succeeds
	overlaps, condFailed := 0, 0
	for i := range hist {
		a := hist[i]
		if a.Input.(input).cond != "" && !a.Output.(output).ok {
			condFailed++
		}
		for j := i + 1; j < len(hist); j++ {
			b := hist[j]
			if a.Input.(input).cond != "" && b.Input.(input).cond != "" && a.Call < b.Return && b.Call < a.Return {
				overlaps++
			}
		}
	}
	o.Count("overlapping_conditional_pairs", overlaps)
	o.Count("failed_preconditions", condFailed)
	o.NonTrivial = overlaps >= 1 && condFailed >= 1
	return
}

func TestC07(t *testing.T) {
	ev.Main(t, ev.Spec[Case]{
		ID:    "C07",
		Level: "exploration",
		Rule: "workloads of 2-8 goroutines x 1-4 ops on ONE key: PutObject and CompleteMultipartUpload (uploads prepared before the start barrier) unconditional / If-None-Match:* / If-Match:<etag the worker saw | seed etag | *>, DeleteObject unconditional / If-Match, HeadObject; on plain metadatapart (P1 sql, P2 fs) and behind the storage outbox with its real worker, in unversioned / Enabled / Suspended buckets, key seeded or absent; a quarter of the workloads start with every worker racing If-None-Match:*. " +
			"The recorded history plus a final read is checked with porcupine against a conditional register: an accepted conditional write implies its condition held at its linearization point, a refused If-None-Match:* implies the key existed, unconditional writes never fail, reads return the current ETag. non-trivial = >=2 conditional ops overlapped in time and >=1 precondition failed; distinct = distinct case JSON",
		Assumptions: []string{"schedules are sampled (real goroutines); SQLite serialises write transactions, so the check is mainly sensitive to preconditions evaluated outside the write transaction, broken unique-constraint mapping and the outbox bypass", "a spuriously refused If-Match is admissible (the property restricts only accepted writes); histories with infrastructure errors are discarded"},
		Gen:         genCase,
		Run:         runCase,
	})
}
