package c28

import (
	"bufio"
	"bytes"
	"crypto/sha256"
	"encoding/hex"
	"fmt"
	"io"
	"net/http"
	"sort"
	"strconv"
	"strings"
	"testing"
	"time"

	"github.com/jdillenkofer/pithos/verifharness/ev"
	"github.com/jdillenkofer/pithos/verifharness/gen"
	"github.com/jdillenkofer/pithos/verifharness/sigreq"
	"pgregory.net/rapid"
)

// Case: one request description. Run signs it, checks that it is accepted, and
// then applies the whole mutation catalogue (every position of every kind).
type Case struct {
	Req   sigreq.Req `json:"req"`
	Edits []Edit     `json:"edits,omitempty"` // additional single-byte edits of the wire bytes
}

type mutant struct {
	name   string
	w      *sigreq.Wire
	stream bool // judged after the handler has read the body (aws-chunked body mutation)
}

func positions(n, limit int) []int {
	var out []int
	if n <= limit {
		for i := 0; i < n; i++ {
			out = append(out, i)
		}
		return out
	}
	for i := 0; i < limit/2; i++ {
		out = append(out, i)
	}
	for i := n - limit/2; i < n; i++ {
		out = append(out, i)
	}
	return out
}

func nextHex(c byte) byte {
	const hexd = "0123456789abcdef"
	i := strings.IndexByte(hexd, c)
	if i < 0 {
		i = strings.IndexByte("0123456789ABCDEF", c)
		if i < 0 {
			return '0'
		}
	}
	return hexd[(i+1)%16]
}

func otherRegion(r string) string {
	if r == "us-east-1" {
		return "eu-central-1"
	}
	return "us-east-1"
}

func shiftTS(ts string, d time.Duration) string {
	t, err := time.Parse("20060102T150405Z", ts)
	if err != nil {
		return ts + "x"
	}
	return t.Add(d).Format("20060102T150405Z")
}

func shiftDate(date string, days int) string {
	t, err := time.Parse("20060102", date)
	if err != nil {
		return date + "x"
	}
	return t.AddDate(0, 0, days).Format("20060102")
}

// splitAuth splits "AWS4-HMAC-SHA256 Credential=K/scope, SignedHeaders=a;b, Signature=hex".
type authParts struct {
	alg, cred, signed, sig string
}

func parseAuth(a string) (p authParts, ok bool) {
	alg, rest, found := strings.Cut(a, " ")
	if !found {
		return p, false
	}
	f := strings.Split(rest, ", ")
	if len(f) != 3 {
		return p, false
	}
	p.alg = alg
	p.cred = strings.TrimPrefix(f[0], "Credential=")
	p.signed = strings.TrimPrefix(f[1], "SignedHeaders=")
	p.sig = strings.TrimPrefix(f[2], "Signature=")
	return p, true
}

func (p authParts) String() string {
	return p.alg + " Credential=" + p.cred + ", SignedHeaders=" + p.signed + ", Signature=" + p.sig
}

// credential mutations shared by header and query authentication.
func credMutations(cred string, q sigreq.Req) map[string]string {
	out := map[string]string{}
	f := strings.Split(cred, "/")
	if len(f) != 5 {
		return out
	}
	set := func(name string, i int, v string) {
		g := append([]string(nil), f...)
		g[i] = v
		out[name] = strings.Join(g, "/")
	}
	n := 0
	for i, c := range sigreq.Creds {
		if i != q.Cred%len(sigreq.Creds) {
			set(fmt.Sprintf("cred:key-swap-%d", n), 0, c.ID)
			n++
		}
	}
	set("cred:key-unknown", 0, f[0]+"X")
	set("cred:date+1d", 1, shiftDate(f[1], 1))
	set("cred:date-1d", 1, shiftDate(f[1], -1))
	set("cred:region", 2, otherRegion(f[2]))
	set("cred:service", 3, "ec2")
	set("cred:terminator", 4, "aws4_requesu")
	return out
}

var sensitiveAdds = []sigreq.KV{
	{K: "X-Amz-Meta-Evil", V: "1"}, {K: "X-Amz-Copy-Source", V: "/other/secret"}, {K: "X-Amz-Acl", V: "public-read-write"}, {K: "X-Amz-Tagging", V: "owner=evil"},
	{K: "X-Amz-Storage-Class", V: "GLACIER"}, {K: "X-Amz-Security-Token", V: "tok"}, {K: "Content-Md5", V: "1B2M2Y8AsgTpgAmY7PhCfg=="},
	{K: "X-Amz-Website-Redirect-Location", V: "http://evil.example/"}, {K: "X-Amz-Write-Offset-Bytes", V: "0"}, {K: "X-Amz-Content-Sha256", V: "UNSIGNED-PAYLOAD"},
	{K: "X-Amz-Metadata-Directive", V: "REPLACE"},
}

// catalogue builds every mutant of the signed request.
func catalogue(q sigreq.Req, w *sigreq.Wire, s *sigreq.Signed) []mutant {
	var ms []mutant
	add := func(name string, f func(m *sigreq.Wire)) {
		m := w.Clone()
		f(m)
		ms = append(ms, mutant{name: name, w: m})
	}
	addStream := func(name string, body []byte) {
		m := w.Clone()
		m.SetBody(body)
		ms = append(ms, mutant{name: name, w: m, stream: true})
	}
	presigned := q.Mode == sigreq.ModePresign

	// --- method ---------------------------------------------------------------------
	for _, mth := range []string{"GET", "PUT", "POST", "DELETE", "HEAD"} {
		if mth != w.Method {
			mth := mth
			add("method:swap", func(m *sigreq.Wire) { m.Method = mth })
		}
	}

	// --- path: the decoded value changes -------------------------------------------------
	setPath := func(m *sigreq.Wire, bucket, key string) {
		_, raw := sigreq.EscapedPath(bucket, key)
		m.Path = raw
	}
	key := q.Key
	for _, i := range positions(len(key), 48) {
		i := i
		add("path:byte-flip", func(m *sigreq.Wire) {
			b := []byte(key)
			b[i] ^= 0x01
			setPath(m, q.Bucket, string(b))
		})
		if c := key[i]; (c >= 'a' && c <= 'z') || (c >= 'A' && c <= 'Z') {
			add("path:case-flip", func(m *sigreq.Wire) {
				b := []byte(key)
				b[i] ^= 0x20
				setPath(m, q.Bucket, string(b))
			})
		}
	}
	add("path:append", func(m *sigreq.Wire) { setPath(m, q.Bucket, key+"x") })
	if key != "" {
		add("path:truncate", func(m *sigreq.Wire) { setPath(m, q.Bucket, key[:len(key)-1]) })
		add("path:insert-slash", func(m *sigreq.Wire) { setPath(m, q.Bucket, key[:len(key)/2]+"/"+key[len(key)/2:]) })
		add("path:toggle-trailing-slash", func(m *sigreq.Wire) {
			if strings.HasSuffix(key, "/") {
				setPath(m, q.Bucket, strings.TrimSuffix(key, "/"))
			} else {
				setPath(m, q.Bucket, key+"/")
			}
		})
		add("path:prepend-dot-segment", func(m *sigreq.Wire) { setPath(m, q.Bucket, "./"+key) })
		add("path:prepend-dotdot-segment", func(m *sigreq.Wire) { setPath(m, q.Bucket, "x/../"+key) })
	}
	if strings.ContainsAny(key, "+ ") {
		add("path:plus-space-swap", func(m *sigreq.Wire) {
			b := []byte(key)
			for i, c := range b {
				if c == '+' {
					b[i] = ' '
				} else if c == ' ' {
					b[i] = '+'
				}
			}
			setPath(m, q.Bucket, string(b))
		})
	}
	add("path:bucket-change", func(m *sigreq.Wire) { setPath(m, q.Bucket+"x", key) })
	if strings.Contains(w.Path, "%") {
		add("path:double-escape", func(m *sigreq.Wire) { m.Path = strings.ReplaceAll(m.Path, "%", "%25") })
		n := 0
		for i := 0; i+2 < len(w.Path) && n < 16; i++ {
			if w.Path[i] != '%' {
				continue
			}
			i := i
			n++
			add("path:escape-hex-change", func(m *sigreq.Wire) {
				b := []byte(m.Path)
				b[i+2] = nextHex(b[i+2])
				m.Path = string(b)
			})
		}
	}

	// --- query --------------------------------------------------------------------------
	var pairs []string
	if w.RawQuery != "" {
		pairs = strings.Split(w.RawQuery, "&")
	}
	join := func(p []string) string { return strings.Join(p, "&") }
	for _, extra := range []string{"versionId=1", "acl", "uploads=", "x-id=PutObject", "X-Amz-Signature=00", "tagging", "partNumber=1&uploadId=u", "a;b=1"} {
		extra := extra
		if presigned && strings.HasPrefix(extra, "X-Amz-Signature") {
			// SigV4 query authentication defines the canonical query as "all parameters except
			// X-Amz-Signature": a second value of that name is outside the signed content by definition
			continue
		}
		add("query:add:"+strings.SplitN(extra, "=", 2)[0], func(m *sigreq.Wire) { m.RawQuery = join(append(append([]string(nil), pairs...), extra)) })
		add("query:prepend:"+strings.SplitN(extra, "=", 2)[0], func(m *sigreq.Wire) { m.RawQuery = join(append([]string{extra}, pairs...)) })
	}
	for i, p := range pairs {
		i, p := i, p
		k, v, _ := strings.Cut(p, "=")
		isAuth := strings.HasPrefix(k, "X-Amz-")
		if isAuth {
			continue // handled below, by name
		}
		add("query:remove", func(m *sigreq.Wire) {
			np := append([]string(nil), pairs[:i]...)
			m.RawQuery = join(append(np, pairs[i+1:]...))
		})
		add("query:value-change", func(m *sigreq.Wire) {
			np := append([]string(nil), pairs...)
			np[i] = k + "=" + v + "x"
			m.RawQuery = join(np)
		})
		add("query:key-change", func(m *sigreq.Wire) {
			np := append([]string(nil), pairs...)
			np[i] = k + "x=" + v
			m.RawQuery = join(np)
		})
		add("query:duplicate", func(m *sigreq.Wire) { m.RawQuery = join(append(append([]string(nil), pairs...), p)) })
		for j := i + 1; j < len(pairs); j++ {
			j := j
			k2, v2, _ := strings.Cut(pairs[j], "=")
			if strings.HasPrefix(k2, "X-Amz-") || k2 == k || v2 == v {
				continue
			}
			add("query:swap-values", func(m *sigreq.Wire) {
				np := append([]string(nil), pairs...)
				np[i], np[j] = k+"="+v2, k2+"="+v
				m.RawQuery = join(np)
			})
		}
	}
	setParam := func(m *sigreq.Wire, name, val string) {
		np := append([]string(nil), pairs...)
		for i, p := range np {
			if k, _, _ := strings.Cut(p, "="); k == name {
				np[i] = name + "=" + val
			}
		}
		m.RawQuery = join(np)
	}
	getParam := func(name string) string {
		for _, p := range pairs {
			if k, v, _ := strings.Cut(p, "="); k == name {
				return v
			}
		}
		return ""
	}
	if presigned {
		exp := getParam("X-Amz-Expires")
		en, _ := strconv.Atoi(exp)
		for name, v := range map[string]string{"presign:expires+1": strconv.Itoa(en + 1), "presign:expires-1": strconv.Itoa(en - 1), "presign:expires-max": "604799", "presign:expires-huge": "99999999", "presign:expires-leading-zero": "0" + exp} {
			name, v := name, v
			if v != exp {
				add(name, func(m *sigreq.Wire) { setParam(m, "X-Amz-Expires", v) })
			}
		}
		for name, d := range map[string]time.Duration{"presign:date+1s": time.Second, "presign:date-1s": -time.Second, "presign:date+1h": time.Hour, "presign:date-1d": -24 * time.Hour, "presign:date+8d": 8 * 24 * time.Hour} {
			name, d := name, d
			add(name, func(m *sigreq.Wire) { setParam(m, "X-Amz-Date", shiftTS(s.Timestamp, d)) })
		}
		credRaw := getParam("X-Amz-Credential")
		cred := strings.ReplaceAll(credRaw, "%2F", "/")
		for name, v := range credMutations(cred, q) {
			name, v := name, v
			add("presign:"+name, func(m *sigreq.Wire) { setParam(m, "X-Amz-Credential", strings.ReplaceAll(v, "/", "%2F")) })
		}
		sh := getParam("X-Amz-SignedHeaders")
		names := strings.Split(sh, "%3B")
		for i := range names {
			i := i
			add("presign:signedheaders-drop", func(m *sigreq.Wire) {
				nn := append([]string(nil), names[:i]...)
				setParam(m, "X-Amz-SignedHeaders", strings.Join(append(nn, names[i+1:]...), "%3B"))
			})
		}
		add("presign:algorithm", func(m *sigreq.Wire) { setParam(m, "X-Amz-Algorithm", "AWS4-ECDSA-P256-SHA256") })
		sig := getParam("X-Amz-Signature")
		for i := 0; i < len(sig); i++ {
			i := i
			add("presign:sig-nibble", func(m *sigreq.Wire) {
				b := []byte(sig)
				b[i] = nextHex(b[i])
				setParam(m, "X-Amz-Signature", string(b))
			})
		}
		add("presign:sig-truncate", func(m *sigreq.Wire) { setParam(m, "X-Amz-Signature", sig[:len(sig)-1]) })
		add("presign:sig-empty", func(m *sigreq.Wire) { setParam(m, "X-Amz-Signature", "") })
		add("presign:sig-extend", func(m *sigreq.Wire) { setParam(m, "X-Amz-Signature", sig+"0") })
	}

	// --- headers --------------------------------------------------------------------------
	var signedNames []string
	if presigned {
		signedNames = strings.Split(getParam("X-Amz-SignedHeaders"), "%3B")
	} else if p, ok := parseAuth(w.Header.Get("Authorization")); ok {
		signedNames = strings.Split(p.signed, ";")
	}
	canonKey := func(lower string) string { return http.CanonicalHeaderKey(lower) }
	for _, h := range signedNames {
		if h == "host" || h == "content-length" {
			continue
		}
		ck := canonKey(h)
		vals := w.Header[ck]
		if len(vals) == 0 {
			continue
		}
		add("hdr:value-append", func(m *sigreq.Wire) { m.Header[ck][0] = strings.TrimRight(m.Header[ck][0], " \t") + "x" })
		add("hdr:add-value", func(m *sigreq.Wire) { m.Header[ck] = append(m.Header[ck], "evil") })
		add("hdr:drop", func(m *sigreq.Wire) { delete(m.Header, ck) })
		if strings.TrimSpace(vals[0]) != "" {
			add("hdr:empty", func(m *sigreq.Wire) { m.Header[ck][0] = "" })
			add("hdr:first-char", func(m *sigreq.Wire) {
				v := strings.TrimLeft(m.Header[ck][0], " \t")
				m.Header[ck][0] = string(v[0]^0x01) + v[1:]
			})
		}
		if len(vals) > 1 {
			add("hdr:drop-one-value", func(m *sigreq.Wire) { m.Header[ck] = m.Header[ck][1:] })
			if strings.TrimSpace(vals[0]) != strings.TrimSpace(vals[len(vals)-1]) {
				add("hdr:reorder-values", func(m *sigreq.Wire) {
					v := m.Header[ck]
					v[0], v[len(v)-1] = v[len(v)-1], v[0]
				})
			}
		}
	}
	// swap the values of two different signed headers
	for i := 0; i < len(signedNames); i++ {
		for j := i + 1; j < len(signedNames); j++ {
			a, b := canonKey(signedNames[i]), canonKey(signedNames[j])
			va, vb := w.Header[a], w.Header[b]
			if len(va) == 0 || len(vb) == 0 || strings.Join(va, ",") == strings.Join(vb, ",") {
				continue
			}
			add("hdr:swap-between-headers", func(m *sigreq.Wire) { m.Header[a], m.Header[b] = m.Header[b], m.Header[a] })
		}
	}
	add("host:append", func(m *sigreq.Wire) { m.Host += "x" })
	add("host:port", func(m *sigreq.Wire) {
		if i := strings.LastIndex(m.Host, ":"); i > 0 && !strings.HasSuffix(m.Host, "]") {
			m.Host = m.Host[:i] + ":1"
		} else {
			m.Host += ":1"
		}
	})
	add("host:case", func(m *sigreq.Wire) {
		if m.Host == strings.ToUpper(m.Host) {
			m.Host = strings.ToLower(m.Host) + "."
		} else {
			m.Host = strings.ToUpper(m.Host)
		}
	})
	for _, kv := range sensitiveAdds {
		kv := kv
		if _, present := w.Header[kv.K]; present {
			continue
		}
		add("hdr:add-unsigned:"+strings.ToLower(kv.K), func(m *sigreq.Wire) { m.Header[kv.K] = []string{kv.V} })
		// ... and also declared in the signed-header list without re-signing
		if presigned {
			add("hdr:add-declared:"+strings.ToLower(kv.K), func(m *sigreq.Wire) {
				m.Header[kv.K] = []string{kv.V}
				setParam(m, "X-Amz-SignedHeaders", getParam("X-Amz-SignedHeaders")+"%3B"+strings.ToLower(kv.K))
			})
		} else if p, ok := parseAuth(w.Header.Get("Authorization")); ok {
			add("hdr:add-declared:"+strings.ToLower(kv.K), func(m *sigreq.Wire) {
				m.Header[kv.K] = []string{kv.V}
				n := append(strings.Split(p.signed, ";"), strings.ToLower(kv.K))
				sort.Strings(n)
				p2 := p
				p2.signed = strings.Join(n, ";")
				m.Header.Set("Authorization", p2.String())
			})
		}
	}
	if !presigned {
		p, ok := parseAuth(w.Header.Get("Authorization"))
		if ok {
			setAuth := func(m *sigreq.Wire, p2 authParts) { m.Header.Set("Authorization", p2.String()) }
			for name, d := range map[string]time.Duration{"date:+1s": time.Second, "date:-1s": -time.Second, "date:+1h": time.Hour, "date:-1d": -24 * time.Hour} {
				name, d := name, d
				add(name, func(m *sigreq.Wire) { m.Header.Set("X-Amz-Date", shiftTS(s.Timestamp, d)) })
			}
			add("date:move-to-Date-header", func(m *sigreq.Wire) {
				m.Header.Del("X-Amz-Date")
				m.Header.Set("Date", s.Timestamp)
			})
			for name, v := range credMutations(p.cred, q) {
				name, v := name, v
				add("auth:"+name, func(m *sigreq.Wire) { p2 := p; p2.cred = v; setAuth(m, p2) })
			}
			names := strings.Split(p.signed, ";")
			for i, h := range names {
				i, h := i, h
				if h == "host" {
					continue
				}
				drop := func() string {
					nn := append([]string(nil), names[:i]...)
					return strings.Join(append(nn, names[i+1:]...), ";")
				}
				add("auth:signedheaders-drop", func(m *sigreq.Wire) { p2 := p; p2.signed = drop(); setAuth(m, p2) })
				if ck := canonKey(h); len(w.Header[ck]) > 0 {
					add("auth:signedheaders-drop+tamper", func(m *sigreq.Wire) {
						p2 := p
						p2.signed = drop()
						setAuth(m, p2)
						m.Header[ck][0] = m.Header[ck][0] + "x"
					})
				}
			}
			add("auth:algorithm", func(m *sigreq.Wire) { p2 := p; p2.alg = "AWS4-ECDSA-P256-SHA256"; setAuth(m, p2) })
			for i := 0; i < len(p.sig); i++ {
				i := i
				add("auth:sig-nibble", func(m *sigreq.Wire) {
					b := []byte(p.sig)
					b[i] = nextHex(b[i])
					p2 := p
					p2.sig = string(b)
					setAuth(m, p2)
				})
			}
			add("auth:sig-truncate", func(m *sigreq.Wire) { p2 := p; p2.sig = p.sig[:len(p.sig)-1]; setAuth(m, p2) })
			add("auth:sig-extend", func(m *sigreq.Wire) { p2 := p; p2.sig = p.sig + "0"; setAuth(m, p2) })
			add("auth:sig-empty", func(m *sigreq.Wire) { p2 := p; p2.sig = ""; setAuth(m, p2) })
			add("auth:remove", func(m *sigreq.Wire) { m.Header.Del("Authorization") })
		}
		if cur := w.Header.Get("X-Amz-Content-Sha256"); cur != "" && cur != "UNSIGNED-PAYLOAD" {
			add("sha:to-unsigned", func(m *sigreq.Wire) { m.Header.Set("X-Amz-Content-Sha256", "UNSIGNED-PAYLOAD") })
			add("sha:to-unsigned+body", func(m *sigreq.Wire) {
				m.Header.Set("X-Amz-Content-Sha256", "UNSIGNED-PAYLOAD")
				m.SetBody(append(append([]byte(nil), m.Body...), 'x'))
			})
		}
	}

	// --- body: only where the payload was signed --------------------------------------------
	switch q.Mode {
	case sigreq.ModeHash:
		body := w.Body
		for _, i := range positions(len(body), 16) {
			i := i
			add("body:byte-flip", func(m *sigreq.Wire) { m.Body[i] ^= 0x01 })
		}
		add("body:append", func(m *sigreq.Wire) { m.SetBody(append(append([]byte(nil), body...), 'x')) })
		if len(body) > 0 {
			add("body:truncate", func(m *sigreq.Wire) { m.SetBody(append([]byte(nil), body[:len(body)-1]...)) })
			add("body:empty", func(m *sigreq.Wire) { m.SetBody(nil) })
		}
		if q.ShaHeader && len(body) > 0 {
			add("body:replace+sha-header", func(m *sigreq.Wire) {
				nb := bytes.Repeat([]byte("E"), len(body))
				m.SetBody(nb)
				h := sha256.Sum256(nb)
				m.Header.Set("X-Amz-Content-Sha256", hex.EncodeToString(h[:]))
			})
		}
	case sigreq.ModeStream, sigreq.ModeStreamTrailer:
		body := w.Body
		ch := s.Chunks
		data := ch[:len(ch)-1]
		cut := func(a, b int) []byte { return append(append([]byte(nil), body[:a]...), body[b:]...) }
		for _, i := range positions(len(data), 8) {
			c := data[i]
			nb := append([]byte(nil), body...)
			nb[c.DataStart] ^= 0x01
			addStream("chunk:data-flip", nb)
			nb = append([]byte(nil), body...)
			nb[c.DataEnd-1] ^= 0x80
			addStream("chunk:data-flip-last", nb)
			addStream("chunk:drop", cut(c.HeaderStart, c.End))
			dup := append(append(append([]byte(nil), body[:c.End]...), body[c.HeaderStart:c.End]...), body[c.End:]...)
			addStream("chunk:duplicate", dup)
			addStream("chunk:truncate-after", append([]byte(nil), body[:c.End]...))
			addStream("chunk:truncate-before", append([]byte(nil), body[:c.HeaderStart]...))
			if c.Size > 1 {
				// shrink the chunk by one byte (size field and data)
				nb := append([]byte(nil), body[:c.HeaderStart]...)
				nb = append(nb, []byte(fmt.Sprintf("%x", c.Size-1))...)
				nb = append(nb, body[c.SizeEnd:c.DataEnd-1]...)
				nb = append(nb, body[c.DataEnd:]...)
				addStream("chunk:shrink", nb)
			}
			if i+1 < len(data) {
				n := data[i+1]
				if !bytes.Equal(body[c.DataStart:c.DataEnd], body[n.DataStart:n.DataEnd]) {
					sw := append([]byte(nil), body[:c.HeaderStart]...)
					sw = append(sw, body[n.HeaderStart:n.End]...)
					sw = append(sw, body[c.HeaderStart:c.End]...)
					sw = append(sw, body[n.End:]...)
					addStream("chunk:swap-adjacent", sw)
				}
			}
		}
		for _, i := range positions(len(data), 4) {
			// the chunk claims all the rest of the body as its data, so the stream ends inside a chunk
			if nb, ok := sigreq.OversizeChunk(body, data[i], false); ok {
				addStream("chunk:oversize-to-end", nb)
			}
			if nb, ok := sigreq.OversizeChunk(body, data[i], true); ok {
				addStream("chunk:oversize-to-end-same-length", nb)
			}
		}
		for _, i := range positions(len(ch), 8) {
			c := ch[i]
			nb := append([]byte(nil), body...)
			nb[c.SigStart] = nextHex(nb[c.SigStart])
			addStream("chunk:sig-nibble", nb)
			nb = append([]byte(nil), body...)
			nb[c.SigStart+63] = nextHex(nb[c.SigStart+63])
			addStream("chunk:sig-last-nibble", nb)
		}
		fin := ch[len(ch)-1]
		addStream("chunk:drop-final", cut(fin.HeaderStart, len(body)))
		// a data chunk appended after the last data chunk, signed with a made-up signature
		ins := append([]byte(nil), body[:fin.HeaderStart]...)
		ins = append(ins, []byte("1;chunk-signature="+strings.Repeat("0", 64)+"\r\nE\r\n")...)
		ins = append(ins, body[fin.HeaderStart:]...)
		addStream("chunk:insert-unsigned", ins)
		if q.Mode == sigreq.ModeStreamTrailer {
			nb := append([]byte(nil), body...)
			p := s.TrailerLine[1] - 3 // a base64 character of the value
			if nb[p] == 'A' {
				nb[p] = 'B'
			} else {
				nb[p] = 'A'
			}
			addStream("trailer:value-change", nb)
			nb = append([]byte(nil), body...)
			nb[s.TrailerSig] = nextHex(nb[s.TrailerSig])
			addStream("trailer:sig-nibble", nb)
			addStream("trailer:remove", append(append([]byte(nil), body[:s.TrailerLine[0]]...), []byte("\r\n")...))
			addStream("trailer:remove-signature", append(append([]byte(nil), body[:s.TrailerLine[1]]...), []byte("\r\n\r\n")...))
		}
	}
	return ms
}

// view is the decoded request: what the server-side parser hands to pithos.
func view(w *sigreq.Wire) string {
	r, err := w.ServerRequest()
	if err != nil {
		return "unparsable: " + err.Error()
	}
	var sb strings.Builder
	fmt.Fprintf(&sb, "%s\n%s\n%s\n", r.Method, r.URL.Path, r.Host)
	q := r.URL.Query()
	var qs []string
	for k, vs := range q {
		for _, v := range vs {
			qs = append(qs, k+"\x00"+v)
		}
	}
	sort.Strings(qs)
	sb.WriteString(strings.Join(qs, "\x01") + "\n")
	var hs []string
	for k, vs := range r.Header {
		tr := make([]string, len(vs))
		for i, v := range vs {
			tr[i] = collapse(strings.TrimSpace(v))
		}
		hs = append(hs, strings.ToLower(k)+":"+strings.Join(tr, ","))
	}
	sort.Strings(hs)
	sb.WriteString(strings.Join(hs, "\n") + "\n")
	body, err := io.ReadAll(r.Body)
	h := sha256.Sum256(body)
	fmt.Fprintf(&sb, "%x %v", h, err)
	return sb.String()
}

func collapse(s string) string {
	for strings.Contains(s, "  ") {
		s = strings.ReplaceAll(s, "  ", " ")
	}
	return s
}

// stream mutants that alter a signature or the signed trailer itself: any clean read is a violation,
// even though the decoded payload is unchanged
var strictStream = map[string]bool{"chunk:sig-nibble": true, "chunk:sig-last-nibble": true, "trailer:sig-nibble": true, "trailer:value-change": true,
	"trailer:remove": true, "trailer:remove-signature": true}

func kindOf(name string) string {
	if i := strings.Index(name, ":"); i >= 0 {
		if j := strings.Index(name[i+1:], ":"); j >= 0 {
			return name[:i+1+j]
		}
	}
	return name
}

func run(env *ev.Env, c Case) (o ev.Outcome) {
	q := c.Req
	o.Class("mode:" + q.Mode)
	if q.TE {
		o.Class("framing:transfer-chunked")
	}
	w, s, err := sigreq.Build(q, time.Now())
	if err != nil {
		o.Failf("harness could not build the request: %v", err)
		return
	}
	base := sigreq.Serve(q.Region, w)
	credID := sigreq.Creds[q.Cred%len(sigreq.Creds)].ID
	if !(base.Reached && base.Authenticated && base.KeyID == credID && base.BodyErr == nil && bytes.Equal(base.Body, s.Payload)) {
		// not accepted unmutated (C29's subject, e.g. its known findings): nothing to learn here
		o.Class("unmutated:rejected")
		return
	}
	o.Class("unmutated:accepted")
	baseView := view(w)
	semantic := 0
	for _, m := range catalogue(q, w, s) {
		kind := kindOf(m.name)
		if view(m.w) == baseView {
			o.Count("nonsemantic:"+kind, 1)
			continue
		}
		res := sigreq.Serve(q.Region, m.w)
		o.Sub++
		if res.Panic != nil {
			o.Failf("mutation %s: the middleware panicked: %v", m.name, res.Panic)
			return
		}
		acceptedAsKey := res.Reached && res.Authenticated
		if m.stream && acceptedAsKey {
			// aws-chunked: the body is verified while the handler reads it
			switch {
			case res.BodyErr != nil:
				o.Count("rejected-while-reading:"+kind, 1)
				semantic++
				continue
			case bytes.Equal(res.Body, s.Payload) && !strictStream[kind]:
				o.Count("nonsemantic-decoded:"+kind, 1)
				continue
			}
			if strictStream[kind] {
				o.Failf("mutation %s accepted as %q: the handler read the body (%d bytes) without error although a chunk/trailer signature or the signed trailer was altered (mode %s)", m.name, res.KeyID, len(res.Body), q.Mode)
				return
			}
			if walked, end := sigreq.WalkChunks(m.w.Body); end == "inside-chunk" && bytes.HasPrefix(walked, res.Body) {
				o.Class("accepted:stream-ends-inside-chunk")
				if env.Known("c28.streamEndsInsideChunk") {
					o.KnownHits = append(o.KnownHits, "KF-C28-3")
					semantic++
					continue
				}
			}
			if kind == "chunk:truncate-after" || kind == "chunk:truncate-before" || kind == "chunk:drop-final" {
				if bytes.HasPrefix(s.Payload, res.Body) && q.TE {
					o.Class("accepted:truncated-stream")
					if env.Known("c28.truncatedChunkStream") {
						o.KnownHits = append(o.KnownHits, "KF-C28-1")
						semantic++
						continue
					}
				}
			}
			o.Failf("mutation %s accepted as %q: the handler read %d bytes without error, the signed payload has %d bytes (mode %s, te=%v)", m.name, res.KeyID, len(res.Body), len(s.Payload), q.Mode, q.TE)
			return
		}
		if acceptedAsKey {
			if strings.HasSuffix(m.name, ":X-Amz-Signature") && q.Mode != sigreq.ModePresign {
				o.Class("accepted:unsigned-x-amz-signature-param")
				if env.Known("c28.extraSignatureQueryParam") {
					o.KnownHits = append(o.KnownHits, "KF-C28-2")
					semantic++
					continue
				}
			}
			o.Failf("mutation %s accepted as %q (status %d) although the request differs from the signed one (mode %s)\nmutated: %s %s?%s host=%s", m.name, res.KeyID, res.Status, q.Mode, m.w.Method, m.w.Path, m.w.RawQuery, m.w.Host)
			return
		}
		switch {
		case res.ParseErr != nil:
			o.Count("rejected-400:"+kind, 1)
		case res.Reached:
			o.Count("anonymous:"+kind, 1)
		case res.Status == 401:
			o.Count("rejected-401:"+kind, 1)
		default:
			o.Failf("mutation %s: unexpected status %d", m.name, res.Status)
			return
		}
		semantic++
	}
	// --- generated single-byte edits of the wire bytes ------------------------------------------------
	if !q.TE {
		raw := w.Bytes()
		for _, e := range c.Edits {
			v, sem := byteEdit(q, w, s, raw, e, env.Known("c28.streamEndsInsideChunk"), &o)
			o.Sub++
			if v != "" {
				o.Failf("%s", v)
				return
			}
			if sem {
				semantic++
				o.Count("byte-edit:semantic-rejected", 1)
			} else {
				o.Count("byte-edit:nonsemantic", 1)
			}
		}
	}
	// --- the same request, validly signed, but outside its time window ---------------------------
	for name, d := range map[string]time.Duration{"window:signed-1h-ago": -time.Hour, "window:signed-1h-ahead": time.Hour, "window:signed-8d-ago": -8 * 24 * time.Hour} {
		if q.Mode == sigreq.ModePresign && d == -time.Hour && q.Expires > 3000 {
			continue // still inside X-Amz-Expires
		}
		qq := q
		qq.SkewSec = 0
		sw, _, err := sigreq.Build(qq, time.Now().Add(d))
		if err != nil {
			o.Failf("harness could not build the request: %v", err)
			return
		}
		res := sigreq.Serve(q.Region, sw)
		o.Sub++
		if res.Reached && res.Authenticated {
			o.Failf("%s: a request signed at now%+v is accepted as %q (mode %s, expires %d)", name, d, res.KeyID, q.Mode, q.Expires)
			return
		}
		o.Count("rejected-401:"+name, 1)
		semantic++
	}
	o.Count("semantic_mutants", semantic)
	o.NonTrivial = semantic > 0
	return
}

func genCase(t *rapid.T, env *ev.Env) Case {
	opts := sigreq.GenOpts{MaxBody: 1200, Modes: []string{sigreq.ModeHash, sigreq.ModeHash, sigreq.ModeHash, sigreq.ModeUnsigned, sigreq.ModePresign, sigreq.ModePresign, sigreq.ModePresign,
		sigreq.ModeStream, sigreq.ModeStream, sigreq.ModeStreamTrailer, sigreq.ModeStreamTrailer, sigreq.ModeUnsignedTrailer}}
	r := sigreq.GenReq(t, opts)
	// keep the unmutated request out of C29's known rejections where that is cheap:
	// inner space runs in header values are collapsed (KF-C29-1)
	for i := range r.Headers {
		v := r.Headers[i].V
		lead := len(v) - len(strings.TrimLeft(v, " \t"))
		trail := len(v) - len(strings.TrimRight(v, " \t"))
		if lead+trail < len(v) {
			r.Headers[i].V = v[:lead] + collapse(v[lead:len(v)-trail]) + v[len(v)-trail:]
		}
	}
	if sigreq.IsStreaming(r.Mode) && rapid.Bool().Draw(t, "teStream") {
		r.TE = true
	}
	edits := rapid.SliceOfN(rapid.Custom(func(t *rapid.T) Edit {
		return Edit{Pos: uint16(rapid.IntRange(0, 1500).Draw(t, "pos")), Val: rapid.SampledFrom([]uint8{'a', 'A', '0', '/', '%', ' ', '+', '&', '=', ';', ',', ':', '\n', '\r', '\t', 0, 0x7f, 0xff, '.', 'x'}).Draw(t, "val"), Op: uint8(rapid.IntRange(0, 5).Draw(t, "op"))}
	}), 24, 24).Draw(t, "edits")
	return Case{Req: r, Edits: edits}
}

func directed(env *ev.Env) []Case {
	var cs []Case
	for _, mode := range []string{sigreq.ModeHash, sigreq.ModeUnsigned, sigreq.ModePresign, sigreq.ModeStream, sigreq.ModeStreamTrailer, sigreq.ModeUnsignedTrailer} {
		for _, te := range []bool{false, true} {
			if te && mode == sigreq.ModePresign {
				continue
			}
			r := sigreq.Req{Method: "PUT", Bucket: "bucket", Key: "dir/a b%41+é.txt", Host: "localhost:9000", Region: "us-east-1", Mode: mode, ShaHeader: true,
				Query:   []sigreq.KV{{K: "partNumber", V: "1"}, {K: "uploadId", V: "a b"}, {K: "x", V: ""}},
				Headers: []sigreq.KV{{K: "Content-Type", V: "text/plain"}, {K: "X-Amz-Meta-A", V: "one"}, {K: "X-Amz-Meta-A", V: "two"}, {K: "X-Amz-Storage-Class", V: "STANDARD"}},
				Body:    gen.BodySpec{Kind: "text", Len: 200}, Expires: 900, Chunks: []int{7, 64, 1}, Trailer: "sha256", Framing: "sdk", TE: te}
			cs = append(cs, Case{Req: r})
		}
	}
	return cs
}

func TestC28(t *testing.T) {
	if err := sigreq.SelfTest(); err != nil {
		t.Fatal(err)
	}
	ev.Main(t, ev.Spec[Case]{
		ID:    "C28",
		Level: "exploration",
		Rule: "a case is one request description signed at run time plus the complete mutation catalogue applied to it (every position of every kind); non-trivial when the unmutated request " +
			"was accepted as its access key and at least one mutant changed the decoded request (method, path, query multiset, host, normalised headers or body as parsed by net/http); distinct = distinct case JSON",
		Assumptions: []string{
			"aws-sdk-go-v2 v4 signer and the harness chunk signer (self-tested against the AWS example) produce the signed original",
			"a mutant is semantic when net/http parses it to a different method/path/query/host/header set/body; header values are compared in the SigV4 canonical form (trimmed, space runs collapsed, values joined by comma)",
			"for aws-chunked bodies acceptance is judged after the handler has read the body: a read error is a rejection",
		},
		Gen:      genCase,
		Run:      run,
		Directed: directed,
	})
}

// ---- native fuzz target (thorough tier): single byte edits of the wire bytes --------------------------

var fuzzBases = []sigreq.Req{
	{Method: "GET", Bucket: "bucket", Key: "dir/a b+c%41é.txt", Host: "localhost:9000", Region: "us-east-1", Mode: sigreq.ModeHash, ShaHeader: true,
		Query: []sigreq.KV{{K: "versionId", V: "a b"}, {K: "x", V: ""}}, Headers: []sigreq.KV{{K: "Range", V: "bytes=0-9"}, {K: "X-Amz-Meta-A", V: "one"}}, Body: gen.BodySpec{Kind: "rand", Len: 0}},
	{Method: "PUT", Bucket: "bucket", Key: "obj", Host: "s3.example.com", Region: "eu-central-1", Cred: 1, Mode: sigreq.ModeHash, ShaHeader: true,
		Headers: []sigreq.KV{{K: "Content-Type", V: "text/plain"}, {K: "X-Amz-Meta-A", V: "one"}, {K: "X-Amz-Meta-A", V: "two"}, {K: "X-Amz-Tagging", V: "k=v"}}, Body: gen.BodySpec{Kind: "text", Len: 40}, MD5: true},
	{Method: "PUT", Bucket: "bucket", Key: "obj", Host: "localhost:9000", Region: "us-east-1", Cred: 2, Mode: sigreq.ModeHash, ShaHeader: false, Body: gen.BodySpec{Kind: "text", Len: 10}},
	{Method: "PUT", Bucket: "bucket", Key: "u/n s", Host: "localhost:9000", Region: "us-east-1", Mode: sigreq.ModeUnsigned,
		Query: []sigreq.KV{{K: "partNumber", V: "1"}, {K: "uploadId", V: "u"}}, Headers: []sigreq.KV{{K: "X-Amz-Storage-Class", V: "STANDARD"}}, Body: gen.BodySpec{Kind: "text", Len: 10}},
	{Method: "GET", Bucket: "bucket", Key: "p/é +x", Host: "localhost:9000", Region: "us-east-1", Mode: sigreq.ModePresign, Expires: 900,
		Query: []sigreq.KV{{K: "response-content-disposition", V: "attachment; filename=\"a b\""}}},
	{Method: "PUT", Bucket: "bucket", Key: "pp", Host: "pithos.local", Region: "us-east-1", Cred: 1, Mode: sigreq.ModePresign, Expires: 60, ShaHeader: true,
		Headers: []sigreq.KV{{K: "Content-Type", V: "text/plain"}, {K: "X-Amz-Meta-A", V: "m"}, {K: "X-Amz-Request-Payer", V: "requester"}}, Body: gen.BodySpec{Kind: "text", Len: 10}},
	{Method: "PUT", Bucket: "bucket", Key: "s1", Host: "localhost:9000", Region: "us-east-1", Mode: sigreq.ModeStream, Body: gen.BodySpec{Kind: "text", Len: 30}, Chunks: []int{7, 16}, Trailer: "crc32", Framing: "sdk"},
	{Method: "PUT", Bucket: "bucket", Key: "s2", Host: "localhost:9000", Region: "us-east-1", Mode: sigreq.ModeStreamTrailer, Body: gen.BodySpec{Kind: "text", Len: 30}, Chunks: []int{16}, Trailer: "crc32c", Framing: "sdk"},
	{Method: "PUT", Bucket: "bucket", Key: "s3", Host: "localhost:9000", Region: "us-east-1", Mode: sigreq.ModeStreamTrailer, Body: gen.BodySpec{Kind: "text", Len: 20}, Chunks: []int{3, 64}, Trailer: "sha256", Framing: "doc"},
}

// propView is the part of a parsed request the property names: method, path, query, host, the originally
// signed headers, every x-amz-* / Content-MD5 / Authorization header, and the body when it was signed.
func propView(raw []byte, signed map[string]bool, bodySigned bool) string {
	r, err := http.ReadRequest(bufio.NewReader(bytes.NewReader(raw)))
	if err != nil {
		return "unparsable"
	}
	var sb strings.Builder
	fmt.Fprintf(&sb, "%s\n%s\n%s\n", r.Method, r.URL.Path, r.Host)
	var qs []string
	for k, vs := range r.URL.Query() {
		for _, v := range vs {
			qs = append(qs, k+"\x00"+v)
		}
	}
	sort.Strings(qs)
	sb.WriteString(strings.Join(qs, "\x01") + "\n")
	var hs []string
	for k, vs := range r.Header {
		lk := strings.ToLower(k)
		if !(signed[lk] || strings.HasPrefix(lk, "x-amz-") || lk == "content-md5" || lk == "authorization") {
			continue
		}
		tr := make([]string, len(vs))
		for i, v := range vs {
			tr[i] = collapse(strings.TrimSpace(v))
		}
		if lk == "authorization" && len(vs) == 1 {
			tr[0] = normAuthorization(vs[0])
		}
		hs = append(hs, lk+":"+strings.Join(tr, ","))
	}
	sort.Strings(hs)
	sb.WriteString(strings.Join(hs, "\n") + "\n")
	if bodySigned {
		body, err := io.ReadAll(r.Body)
		h := sha256.Sum256(body)
		fmt.Fprintf(&sb, "%x %v", h, err)
	}
	return sb.String()
}

// Edit is one byte edit of the wire bytes: op%3 = replace / insert / delete, op&4 = inside the body (if it was signed).
type Edit struct {
	Pos uint16 `json:"pos"`
	Val uint8  `json:"val"`
	Op  uint8  `json:"op"`
}

func signedSet(w *sigreq.Wire) map[string]bool {
	signed := map[string]bool{}
	if p, ok := parseAuth(w.Header.Get("Authorization")); ok {
		for _, h := range strings.Split(p.signed, ";") {
			signed[h] = true
		}
	} else {
		for _, p := range strings.Split(w.RawQuery, "&") {
			if k, v, _ := strings.Cut(p, "="); k == "X-Amz-SignedHeaders" {
				for _, h := range strings.Split(v, "%3B") {
					signed[h] = true
				}
			}
		}
	}
	return signed
}

// byteEdit applies one edit to the wire bytes of an accepted request; "" = property held (or edit not semantic).
func byteEdit(q sigreq.Req, w *sigreq.Wire, s *sigreq.Signed, raw []byte, e Edit, knownInsideChunk bool, o *ev.Outcome) (violation string, semantic bool) {
	signed := signedSet(w)
	streaming := q.Mode == sigreq.ModeStream || q.Mode == sigreq.ModeStreamTrailer
	bodySigned := q.Mode == sigreq.ModeHash || streaming
	headEnd := bytes.Index(raw, []byte("\r\n\r\n")) + 4
	lo, hi := 0, headEnd
	if e.Op&4 != 0 && bodySigned && len(raw) > headEnd {
		lo, hi = headEnd, len(raw)
	}
	i := lo + int(e.Pos)%(hi-lo)
	mut := append([]byte(nil), raw...)
	switch e.Op % 3 {
	case 0:
		if mut[i] == e.Val {
			return "", false
		}
		mut[i] = e.Val
	case 1:
		mut = append(mut[:i], append([]byte{e.Val}, mut[i:]...)...)
	default:
		mut = append(mut[:i], mut[i+1:]...)
	}
	inBody := lo == headEnd
	if propView(mut, signed, bodySigned && !streaming) == propView(raw, signed, bodySigned && !streaming) && !(streaming && inBody) {
		return "", false
	}
	res := sigreq.ServeRaw(q.Region, mut)
	if res.Panic != nil {
		return fmt.Sprintf("byte edit: the middleware panicked: %v", res.Panic), true
	}
	if !(res.Reached && res.Authenticated) {
		return "", true
	}
	if streaming && inBody {
		if res.BodyErr != nil {
			return "", true
		}
		if bytes.Equal(res.Body, s.Payload) {
			return "", false
		}
		if r2, err := http.ReadRequest(bufio.NewReader(bytes.NewReader(mut))); err == nil {
			mb, _ := io.ReadAll(r2.Body)
			if walked, end := sigreq.WalkChunks(mb); end == "inside-chunk" && bytes.HasPrefix(walked, res.Body) {
				if o != nil {
					o.Class("accepted:stream-ends-inside-chunk")
				}
				if knownInsideChunk {
					if o != nil {
						o.KnownHits = append(o.KnownHits, "KF-C28-3")
					}
					return "", true
				}
			}
		}
		return fmt.Sprintf("byte edit in the aws-chunked body at %d accepted: handler read %d bytes != payload %d bytes (mode %s)", i-headEnd, len(res.Body), len(s.Payload), q.Mode), true
	}
	if streaming && res.BodyErr != nil {
		return "", true
	}
	return fmt.Sprintf("byte edit op=%d at byte %d (%q -> %q) accepted as %q although the request differs (mode %s):\n%s", e.Op%3, i, string(raw[max(0, i-20):min(len(raw), i+20)]), string(mut[max(0, i-20):min(len(mut), i+20)]), res.KeyID, q.Mode, string(mut[:min(len(mut), headEnd+1)])), true
}

// normAuthorization removes formatting freedom of the Authorization header that carries no meaning:
// blanks around the comma separated fields and inside the SignedHeaders list, case/order/duplicates of
// the listed header names.
func normAuthorization(v string) string {
	alg, rest, ok := strings.Cut(strings.TrimSpace(v), " ")
	if !ok {
		return v
	}
	fields := strings.Split(rest, ",")
	for i, f := range fields {
		f = strings.TrimSpace(f)
		if names, ok := strings.CutPrefix(f, "SignedHeaders="); ok {
			set := map[string]bool{}
			for _, n := range strings.Split(names, ";") {
				if n = strings.ToLower(strings.TrimSpace(n)); n != "" {
					set[n] = true
				}
			}
			var l []string
			for n := range set {
				l = append(l, n)
			}
			sort.Strings(l)
			f = "SignedHeaders=" + strings.Join(l, ";")
		}
		fields[i] = f
	}
	return alg + " " + strings.Join(fields, ",")
}

func fuzzOne(which uint8, pos uint16, val uint8, op uint8) string {
	q := fuzzBases[int(which)%len(fuzzBases)]
	w, s, err := sigreq.Build(q, time.Now())
	if err != nil {
		return "harness: " + err.Error()
	}
	raw := w.Bytes()
	base := sigreq.ServeRaw(q.Region, raw)
	if !(base.Reached && base.Authenticated && base.BodyErr == nil && bytes.Equal(base.Body, s.Payload)) {
		return "unmutated request not accepted: " + fmt.Sprint(base.Status)
	}
	v, _ := byteEdit(q, w, s, raw, Edit{Pos: pos, Val: val, Op: op}, false, nil)
	return v
}

func FuzzC28(f *testing.F) {
	for w := 0; w < len(fuzzBases); w++ {
		f.Add(uint8(w), uint16(5), uint8('x'), uint8(0))
		f.Add(uint8(w), uint16(40), uint8('/'), uint8(1))
		f.Add(uint8(w), uint16(200), uint8('0'), uint8(2))
		f.Add(uint8(w), uint16(3), uint8('E'), uint8(4))
		f.Add(uint8(w), uint16(30), uint8('\n'), uint8(5))
	}
	f.Fuzz(func(t *testing.T, which uint8, pos uint16, val uint8, op uint8) {
		if msg := fuzzOne(which, pos, val, op); msg != "" {
			t.Fatal(msg)
		}
	})
}
