package c11

import (
	"context"
	"testing"

	"github.com/jdillenkofer/pithos/internal/storage"
	"github.com/jdillenkofer/pithos/verifharness/dump"
	"github.com/jdillenkofer/pithos/verifharness/ev"
	"github.com/jdillenkofer/pithos/verifharness/httpside"
	"github.com/jdillenkofer/pithos/verifharness/s3http"
	"github.com/jdillenkofer/pithos/verifharness/prog"
	"github.com/jdillenkofer/pithos/verifharness/run"
	"github.com/jdillenkofer/pithos/verifharness/stacks"
	"pgregory.net/rapid"
)

var names = run.Names{Buckets: []string{"meta-a", "meta-b"}, Keys: []string{"k", "dir/k2", "K"}}

var classes = []string{"STANDARD", "GLACIER", "STANDARD_IA", "DEEP_ARCHIVE", "REDUCED_REDUNDANCY"}

func genCfg() prog.GenConfig {
	return prog.GenConfig{
		Buckets: 2, Keys: 3, MinOps: 6, MaxOps: 30,
		Weights: map[string]int{
			prog.OpSetVersioning: 2, prog.OpPut: 10, prog.OpCopy: 10, prog.OpAppend: 4, prog.OpMpuSeq: 4,
			prog.OpPutTags: 3, prog.OpDeleteTags: 1, prog.OpTransition: 4, prog.OpDelete: 2, prog.OpGet: 1,
		},
		Versions: true, Meta: true, Tags: true, Classes: classes, Boundaries: []int{1024}, MaxBody: 2000, SrcConds: true,
	}
}

// Case: a program plus the API level it is driven through.
type Case struct {
	run.ProgCase
	Via string `json:"via"` // storage | http
}

// toggleCfg concentrates on one bucket and a hot key with frequent versioning
// changes and deletes, so that rows are reused below delete markers and across
// Enabled/Suspended switches (seeded defect S-C11-1: stale tags on a reused null row).
func toggleCfg() prog.GenConfig {
	g := genCfg()
	g.Buckets, g.Keys, g.HotKey, g.MinOps = 1, 2, true, 8
	g.Weights = map[string]int{
		prog.OpSetVersioning: 7, prog.OpPut: 10, prog.OpCopy: 5, prog.OpAppend: 2, prog.OpMpuSeq: 2,
		prog.OpPutTags: 2, prog.OpDeleteTags: 1, prog.OpTransition: 2, prog.OpDelete: 7, prog.OpGet: 1,
	}
	return g
}

func gen(t *rapid.T, env *ev.Env) Case {
	stack := rapid.SampledFrom([]string{"P2", "N1", "N2", "P1"}).Draw(t, "stack")
	cfg := genCfg()
	if (rapid.IntRange(0, 2).Draw(t, "profileA")+rapid.IntRange(0, 2).Draw(t, "profileB"))%3 == 1 {
		cfg = toggleCfg()
	}
	c := Case{ProgCase: run.ProgCase{Stack: stack, Ops: cfg.Gen(t)}, Via: rapid.SampledFrom([]string{"storage", "http"}).Draw(t, "via")}
	if c.Via == "http" {
		// over HTTP an object without a content type is served as application/octet-stream
		// (S3's default); keep that value out of the explicit content types so that the
		// HTTP side can map it back to "none"
		for i := range c.Ops {
			if ct := c.Ops[i].ContentType; ct != nil && *ct == "application/octet-stream" {
				v := "application/x-verif"
				c.Ops[i].ContentType = &v
			}
		}
	}
	return c
}

// mixedSide sends everything the HTTP API can express through the HTTP handler
// (header parsing included) and the rest (storage-class transitions, which have
// no S3 request) directly to the storage.
type mixedSide struct {
	http *httpside.Side
	st   *prog.StorageSide
}

func (m *mixedSide) Do(c prog.Concrete) prog.Result {
	if c.Kind == prog.OpTransition {
		return m.st.Do(c)
	}
	if c.Kind == prog.OpCopy && !c.ReplaceMeta && c.Range == nil && c.Class == nil && c.Bucket == c.SrcBucket && c.Key == c.SrcKey {
		// the HTTP layer refuses a no-op self copy by design (S3 does too): not expressible over HTTP
		return m.st.Do(c)
	}
	r := m.http.Do(c)
	if r.Obj != nil && r.Obj.ContentType != nil && *r.Obj.ContentType == "application/octet-stream" {
		r.Obj.ContentType = nil
	}
	return r
}

func runCase(env *ev.Env, c Case) ev.Outcome {
	var st run.ProgStats
	directiveCopyOntoOther := false
	appendOrTransitionWithMeta := false
	after := func(s *run.Session, inst *stacks.Instance, sr *run.StepResult, o *ev.Outcome) bool {
		if sr.Expect.Err != "" || sr.Expect.FailOrOK {
			return false
		}
		b, k := sr.Concrete.Bucket, sr.Concrete.Key
		v := s.Model.CurrentObject(b, k)
		// GetObjectTagging must agree with the model as well (separate code path from Head/Get)
		if v != nil {
			tags, err := inst.Storage.GetObjectTagging(context.Background(), storage.MustNewBucketName(b), storage.MustNewObjectKey(k), nil)
			o.Sub++
			if err != nil {
				o.Failf("GetObjectTagging(%s/%s) after %s: %v", b, k, sr.Op.Kind, err)
				return true
			}
			if prog.TagsString(tags) != prog.TagsString(v.Tags) {
				o.Failf("GetObjectTagging(%s/%s) after %s = %s, model %s", b, k, sr.Op.Kind, prog.TagsString(tags), prog.TagsString(v.Tags))
				return true
			}
		}
		switch sr.Op.Kind {
		case prog.OpCopy:
			if sr.Op.ReplaceMeta != sr.Op.ReplaceTags {
				directiveCopyOntoOther = true
			}
		case prog.OpAppend, prog.OpTransition:
			if v != nil && (len(v.Tags) > 0 || v.Meta.String() != (prog.Meta{}).String()) {
				appendOrTransitionWithMeta = true
			}
		}
		return false
	}
	opts := run.ModelRunOptions{Dump: dump.Options{Versions: true}, Names: names, Stats: &st, AfterStep: after,
		Setup: func(s *run.Session) { s.Model.PromoteByRowCreation = true }}
	if c.Via == "http" {
		opts.Side = func(inst *stacks.Instance) prog.Side {
			return &mixedSide{http: &httpside.Side{H: s3http.NewHandler(inst.Storage), MixCase: true}, st: prog.NewStorageSide(inst.Storage)}
		}
	}
	o := run.RunModelProgram(env, c.ProgCase, opts)
	o.Class("via:" + c.Via)
	o.NonTrivial = directiveCopyOntoOther && st.OKByKind[prog.OpCopy] > 0
	if appendOrTransitionWithMeta {
		o.Class("append-or-transition-of-object-with-metadata")
	}
	if directiveCopyOntoOther {
		o.Class("copy-with-differing-directives")
	}
	if st.OKByKind[prog.OpSetVersioning] >= 2 && st.OKByKind[prog.OpDelete] > 0 {
		o.Class("versioning-switched-twice-with-delete")
	}
	for k, v := range st.OKByKind {
		o.Count("ok:"+k, v)
	}
	return o
}

func TestC11(t *testing.T) {
	ev.Main(t, ev.Spec[Case]{
		ID:    "C11",
		Level: "exploration",
		Rule: "programs of 6-30 ops (put / multipart create+complete / copy with metadata+tagging directives, storage class, website redirect, all system headers, user metadata, tag sets; then append, transition, PutObjectTagging) over 2 buckets x 3 keys, versioned and unversioned, on stacks P1/P2/N1/N2 through the storage API; " +
			"non-trivial = a successful copy whose metadata directive differs from its tagging directive; distinct = distinct case JSON",
		Assumptions: []string{"reference model of DESIGN.md 2.3.1: put/complete replace everything, copy follows directives (never the redirect location, class only from the request), append and transitions preserve"},
		Gen:         gen,
		Run:         runCase,
	})
}
