// Package c15 checks property C15: every part store and every composition of
// part-store middlewares returns exactly the bytes it was given.
//
// A case is a program of direct partstore.PartStore calls (put, overwrite,
// get with and without a transaction, partial read + close, delete, batches of
// writes in one transaction, GetPartIds, "wait until the outbox is flushed") on
// one drawn stack. The oracle is a map[id][]byte kept by the harness.
package c15

import (
	"bytes"
	"context"
	"database/sql"
	"errors"
	"fmt"
	"io"
	"os"
	"sort"
	"strings"
	"testing"
	"time"

	"github.com/jdillenkofer/pithos/internal/storage/database"
	repositoryFactory "github.com/jdillenkofer/pithos/internal/storage/database/repository"
	"github.com/jdillenkofer/pithos/internal/storage/metadatapart/partstore"
	"github.com/jdillenkofer/pithos/verifharness/ev"
	"github.com/jdillenkofer/pithos/verifharness/gen"
	"github.com/jdillenkofer/pithos/verifharness/stacks"
	"pgregory.net/rapid"
)

const numIDs = 5

// W is one write inside a batch transaction.
type W struct {
	Kind string       `json:"kind"` // put | del
	ID   int          `json:"id"`
	Body gen.BodySpec `json:"body"`
}

// Op is one step of the program.
type Op struct {
	Kind     string       `json:"kind"` // put | get | del | ids | batch | settle
	ID       int          `json:"id"`
	Body     gen.BodySpec `json:"body"`              // put
	TxFree   bool         `json:"tx_free,omitempty"` // put/get/del: call with a nil transaction where the capability is advertised
	Reader   string       `json:"reader,omitempty"`  // put: whole | sizes | short (data together with io.EOF)
	Sizes    []int        `json:"sizes,omitempty"`   // put: cyclic read sizes of the source reader
	Buf      int          `json:"buf,omitempty"`     // get: consumer buffer length
	Partial  int          `json:"partial,omitempty"` // get: >0: read at most that many bytes, then Close
	Rollback bool         `json:"rollback,omitempty"` // get: end the read transaction by Rollback (WithTxReadClosers convention) instead of Commit
	Batch    []W          `json:"batch,omitempty"`   // batch: writes on distinct ids in one transaction
	// Window (del with a transaction, stacks without erasure coding): between DeletePart(tx) and the commit the
	// part is read completely by another request (own read transaction / tx-free); the delete is not committed,
	// so the read delivers the stored bytes; afterwards the part must read as not found (seeded defect S-C15-2).
	Window bool `json:"window,omitempty"`
}

// Case is one program on one stack.
type Case struct {
	Stack        string `json:"stack"`
	CacheMaxPart int64  `json:"cache_max_part,omitempty"`
	Ops          []Op   `json:"ops"`
}

func partID(i int) partstore.PartId {
	b := []byte{0x01, 0x8f, 0x00, 0x00, 0x00, 0x00, 0xc1, 0x5c, 0x15, 0, 0, 0, 0, 0, 0, byte(i + 1)}
	id, err := partstore.NewPartIdFromBytes(b)
	if err != nil {
		panic(err)
	}
	return *id
}

// ---- source reader ---------------------------------------------------------------

type schedReader struct {
	data  []byte
	sizes []int
	i     int
	short bool
}

func (r *schedReader) Read(p []byte) (int, error) {
	if len(r.data) == 0 {
		return 0, io.EOF
	}
	if len(p) == 0 {
		return 0, nil
	}
	n := len(p)
	if len(r.sizes) > 0 {
		s := r.sizes[r.i%len(r.sizes)]
		r.i++
		if s < 1 {
			s = 1
		}
		if s < n {
			n = s
		}
	}
	if n > len(r.data) {
		n = len(r.data)
	}
	copy(p, r.data[:n])
	r.data = r.data[n:]
	if len(r.data) == 0 && r.short {
		return n, io.EOF
	}
	return n, nil
}

func sourceReader(op Op, data []byte) io.Reader {
	switch op.Reader {
	case "sizes":
		return &schedReader{data: data, sizes: op.Sizes}
	case "short":
		return &schedReader{data: data, sizes: op.Sizes, short: true}
	}
	return bytes.NewReader(data)
}

// ---- execution -------------------------------------------------------------------

type runner struct {
	ctx     context.Context
	env     *ev.Env
	o       *ev.Outcome
	c       Case
	spec    string
	db      database.Database
	ps      partstore.PartStore
	caps    partstore.Capabilities
	model   map[int][]byte
	ghost   map[int]bool // ids whose state diverged through known finding KF-C15-1 (don't-care until next write)
	nearHit bool
	bounds  []int
	depth   int
}

func (r *runner) inTx(readOnly, rollback bool, fn func(ctx context.Context, tx database.Tx) error) error {
	if !rollback {
		return database.WithTx(r.ctx, r.db, &sql.TxOptions{ReadOnly: readOnly}, fn)
	}
	tx, err := r.db.BeginTx(r.ctx, &sql.TxOptions{ReadOnly: readOnly})
	if err != nil {
		return err
	}
	ctx := database.ContextWithTx(r.ctx, tx)
	ferr := fn(ctx, tx)
	if rerr := tx.Rollback(ctx); rerr != nil && ferr == nil {
		return rerr
	}
	return ferr
}

type readResult struct {
	data     []byte
	notFound bool
	err      error // any other error (from GetPart, Read, Close or the transaction)
	eof      bool  // stream ended with io.EOF (only meaningful for full reads)
}

func (r *runner) read(id int, txFree bool, buf, partial int, rollback bool) readResult {
	var res readResult
	if buf < 1 {
		buf = 32 * 1024
	}
	do := func(ctx context.Context, tx database.Tx) error {
		rc, err := r.ps.GetPart(ctx, tx, partID(id))
		if err != nil {
			if errors.Is(err, partstore.ErrPartNotFound) {
				res.notFound = true
			} else {
				res.err = fmt.Errorf("GetPart: %w", err)
			}
			return nil
		}
		if rc == nil {
			res.err = errors.New("GetPart returned nil reader and nil error")
			return nil
		}
		b := make([]byte, buf)
		var out bytes.Buffer
		for {
			want := len(b)
			if partial > 0 && partial-out.Len() < want {
				want = partial - out.Len()
			}
			if want == 0 {
				break
			}
			n, err := rc.Read(b[:want])
			out.Write(b[:n])
			if err == io.EOF {
				res.eof = true
				break
			}
			if err != nil {
				if errors.Is(err, partstore.ErrPartNotFound) && out.Len() == 0 {
					res.notFound = true
				} else {
					res.err = fmt.Errorf("Read after %d bytes: %w", out.Len(), err)
				}
				break
			}
			if out.Len() > 64<<20+len(r.model[id]) {
				res.err = errors.New("reader delivered more than 64 MiB (runaway)")
				break
			}
		}
		if cerr := rc.Close(); cerr != nil && res.err == nil && !res.notFound {
			res.err = fmt.Errorf("Close: %w", cerr)
		}
		res.data = out.Bytes()
		return nil
	}
	var err error
	if txFree {
		err = do(r.ctx, nil)
	} else {
		err = r.inTx(true, rollback, do)
	}
	if err != nil && res.err == nil {
		res.err = fmt.Errorf("read transaction: %w", err)
	}
	return res
}

func (r *runner) hasEC() bool { return strings.Contains(r.spec, "ec") }

func sizeClass(n int) string {
	switch {
	case n == 0:
		return "0"
	case n == 1:
		return "1"
	case n < 1024:
		return "2-1023"
	case n < 65536:
		return "1Ki-64Ki"
	case n < 131000:
		return "64Ki-128Ki"
	default:
		return ">=128Ki"
	}
}

func (r *runner) near(n int) bool {
	for _, b := range r.bounds {
		for k := 1; k <= 3; k++ {
			if d := n - b*k; d >= -1 && d <= 1 {
				return true
			}
		}
	}
	return false
}

// checkRead compares one read against the model. how describes the call.
func (r *runner) checkRead(step int, id int, res readResult, partial int, how string) bool {
	o := r.o
	o.Sub++
	want, present := r.model[id]
	if r.ghost[id] {
		// KF-C15-1 already hit on this id: it reads as empty or as not found until the next write.
		if res.notFound || (res.err == nil && len(res.data) == 0) {
			return true
		}
		o.Failf("step %d %s id %d: part in ghost state (after KF-C15-1) returned %d bytes, err=%v", step, how, id, len(res.data), res.err)
		return false
	}
	if !present {
		if res.notFound {
			o.Class("get:notfound")
			return true
		}
		if res.err == nil && len(res.data) == 0 && r.hasEC() && r.env.Known("c15.ecAbsentReadsEmpty") {
			// known finding KF-C15-1: the erasure-coding store answers a read of an id
			// none of whose shards exists with an empty stream (and "heals" header-only shards).
			o.KnownHits = append(o.KnownHits, "KF-C15-1")
			r.ghost[id] = true
			return true
		}
		if res.err != nil {
			o.Failf("step %d %s id %d: absent part must read as ErrPartNotFound, got error %v", step, how, id, res.err)
		} else {
			o.Failf("step %d %s id %d: absent part must read as ErrPartNotFound, got %d bytes (eof=%v)", step, how, id, len(res.data), res.eof)
		}
		return false
	}
	if res.notFound {
		o.Failf("step %d %s id %d: stored part (%d bytes) reads as not found", step, how, id, len(want))
		return false
	}
	if res.err != nil {
		o.Failf("step %d %s id %d: stored part (%d bytes): %v", step, how, id, len(want), res.err)
		return false
	}
	if partial > 0 {
		exp := want
		if len(exp) > partial {
			exp = exp[:partial]
		}
		if !bytes.Equal(res.data, exp) {
			o.Failf("step %d %s id %d: partial read of %d bytes differs from the stored prefix (got %d bytes, first diff at %d)", step, how, id, partial, len(res.data), firstDiff(res.data, exp))
			return false
		}
		o.Class("get:partial")
		return true
	}
	if !bytes.Equal(res.data, want) {
		o.Failf("step %d %s id %d: read %d bytes, stored %d bytes, first difference at offset %d", step, how, id, len(res.data), len(want), firstDiff(res.data, want))
		return false
	}
	o.Class("get:hit")
	if r.depth >= 2 && r.near(len(want)) {
		r.nearHit = true
	}
	return true
}

func firstDiff(a, b []byte) int {
	n := min(len(a), len(b))
	for i := 0; i < n; i++ {
		if a[i] != b[i] {
			return i
		}
	}
	return n
}

func (r *runner) checkIDs(step int) bool {
	o := r.o
	o.Sub++
	var ids []partstore.PartId
	err := r.inTx(true, false, func(ctx context.Context, tx database.Tx) error {
		var err error
		ids, err = r.ps.GetPartIds(ctx, tx)
		return err
	})
	if err != nil {
		o.Failf("step %d GetPartIds: %v", step, err)
		return false
	}
	byStr := map[string]int{}
	for i := 0; i < numIDs; i++ {
		pid := partID(i)
		byStr[pid.String()] = i
	}
	got := map[int]int{}
	for _, id := range ids {
		i, ok := byStr[id.String()]
		if !ok {
			o.Failf("step %d GetPartIds lists an id that was never written: %s", step, id.String())
			return false
		}
		got[i]++
	}
	for i := 0; i < numIDs; i++ {
		if r.ghost[i] {
			continue
		}
		want, present := r.model[i]
		switch {
		case got[i] > 1:
			o.Failf("step %d GetPartIds lists id %d %d times", step, i, got[i])
			return false
		case present && got[i] == 0:
			o.Failf("step %d GetPartIds misses live id %d (%d bytes)", step, i, len(want))
			return false
		case !present && got[i] > 0:
			o.Failf("step %d GetPartIds lists id %d which is deleted / was never written", step, i)
			return false
		}
	}
	return true
}

func (r *runner) settle() bool {
	if !strings.Contains(r.spec, "outbox") {
		return true
	}
	repo, err := repositoryFactory.NewPartOutboxEntryRepository(r.db)
	if err != nil {
		r.o.Failf("outbox repository: %v", err)
		return false
	}
	deadline := time.Now().Add(20 * time.Second)
	for {
		n := -1
		err := r.inTx(true, false, func(ctx context.Context, tx database.Tx) error {
			var err error
			n, err = repo.Count(ctx, tx.SqlTx(), "outbox-default")
			return err
		})
		if err == nil && n == 0 {
			return true
		}
		if time.Now().After(deadline) {
			// the property does not speak about flush latency: inconclusive
			r.o.Discard = true
			return false
		}
		time.Sleep(3 * time.Millisecond)
	}
}

func run(env *ev.Env, c Case) (o ev.Outcome) {
	spec := c.Stack
	if s, ok := stacks.Named[spec]; ok {
		spec = s
	}
	dir := env.TempDir()
	defer os.RemoveAll(dir)
	ctx := context.Background()
	db, err := stacks.OpenDB(dir)
	if err != nil {
		o.Failf("open db: %v", err)
		return
	}
	defer db.Close()
	b := stacks.NewBuilder(dir, db, stacks.Options{CacheMaxPart: c.CacheMaxPart})
	ps, err := b.Build(c.Stack, "default")
	if err != nil {
		o.Failf("build %s: %v", c.Stack, err)
		return
	}
	defer b.Release()
	if err := ps.Start(ctx); err != nil {
		o.Failf("start: %v", err)
		return
	}
	defer ps.Stop(ctx)

	r := &runner{ctx: ctx, env: env, o: &o, c: c, spec: spec, db: db, ps: ps, caps: partstore.CapabilitiesOf(ps),
		model: map[int][]byte{}, ghost: map[int]bool{}, bounds: stacks.Boundaries(c.Stack), depth: len(strings.Split(spec, ">"))}
	if c.CacheMaxPart > 0 {
		r.bounds = append(append([]int(nil), r.bounds...), int(c.CacheMaxPart))
	}
	o.Class("stack:" + c.Stack)
	o.Class(fmt.Sprintf("depth:%d", r.depth))

	for step, op := range c.Ops {
		id := ((op.ID % numIDs) + numIDs) % numIDs
		switch op.Kind {
		case "put":
			data := op.Body.Bytes()
			txFree := op.TxFree && r.caps.Has(partstore.CapabilityTxFreePutPart)
			var err error
			if txFree {
				err = ps.PutPart(ctx, nil, partID(id), sourceReader(op, data))
				o.Class("put:txfree")
			} else {
				err = r.inTx(false, false, func(ctx context.Context, tx database.Tx) error {
					return ps.PutPart(ctx, tx, partID(id), sourceReader(op, data))
				})
			}
			if err != nil {
				o.Failf("step %d PutPart id %d (%d bytes, txFree=%v): %v", step, id, len(data), txFree, err)
				return
			}
			if _, ok := r.model[id]; ok {
				o.Class("put:overwrite")
			}
			r.model[id] = data
			delete(r.ghost, id)
			o.Class("put:size:" + sizeClass(len(data)))
			o.Class("put:kind:" + strings.SplitN(op.Body.Kind, ":", 2)[0])
			if r.near(len(data)) {
				o.Class("put:near-boundary")
			}
		case "del":
			_, present := r.model[id]
			txFree := op.TxFree && r.caps.Has(partstore.CapabilityTxFreeDeletePart)
			var err error
			if txFree {
				err = ps.DeletePart(ctx, nil, partID(id))
				o.Class("del:txfree")
			} else {
				windowFailed := false
				err = r.inTx(false, false, func(ctx context.Context, tx database.Tx) error {
					if err := ps.DeletePart(ctx, tx, partID(id)); err != nil {
						return err
					}
					if op.Window && present && !r.hasEC() && !r.ghost[id] {
						o.Class("del:read-inside-delete-transaction")
						res := r.read(id, op.Reader == "txfree" && r.caps.Has(partstore.CapabilityTxFreeGetPart), 0, 0, false)
						if !r.checkRead(step, id, res, 0, "read inside the delete transaction of") {
							windowFailed = true
						}
					}
					return nil
				})
				if windowFailed {
					return
				}
			}
			if err != nil {
				if !present {
					// the property does not say whether deleting an absent id may fail; state must stay as it is
					o.Class("del:absent-error")
					continue
				}
				o.Failf("step %d DeletePart id %d: %v", step, id, err)
				return
			}
			if present {
				o.Class("del:present")
			} else {
				o.Class("del:absent")
			}
			delete(r.model, id)
			delete(r.ghost, id)
		case "batch":
			seen := map[int]bool{}
			var ws []W
			for _, w := range op.Batch {
				w.ID = ((w.ID % numIDs) + numIDs) % numIDs
				if seen[w.ID] {
					continue
				}
				seen[w.ID] = true
				ws = append(ws, w)
			}
			absentDel := false
			for _, w := range ws {
				if _, ok := r.model[w.ID]; w.Kind == "del" && !ok {
					absentDel = true
				}
			}
			err := r.inTx(false, false, func(ctx context.Context, tx database.Tx) error {
				for _, w := range ws {
					var err error
					if w.Kind == "del" {
						err = ps.DeletePart(ctx, tx, partID(w.ID))
					} else {
						err = ps.PutPart(ctx, tx, partID(w.ID), bytes.NewReader(w.Body.Bytes()))
					}
					if err != nil {
						return err
					}
				}
				return nil
			})
			if err != nil {
				if absentDel {
					o.Class("del:absent-error")
					continue
				}
				o.Failf("step %d batch of %d writes: %v", step, len(ws), err)
				return
			}
			for _, w := range ws {
				if w.Kind == "del" {
					delete(r.model, w.ID)
				} else {
					r.model[w.ID] = w.Body.Bytes()
					if r.near(len(r.model[w.ID])) {
						o.Class("put:near-boundary")
					}
				}
				delete(r.ghost, w.ID)
			}
			o.Class(fmt.Sprintf("batch:%d", len(ws)))
		case "get":
			txFree := op.TxFree && r.caps.Has(partstore.CapabilityTxFreeGetPart)
			how := "GetPart(tx)"
			if txFree {
				how = "GetPart(nil tx)"
				o.Class("get:txfree")
			} else if op.Rollback {
				how = "GetPart(tx, rollback)"
				o.Class("get:rollback")
			}
			res := r.read(id, txFree, op.Buf, op.Partial, op.Rollback)
			if !r.checkRead(step, id, res, op.Partial, how) {
				return
			}
		case "ids":
			if !r.checkIDs(step) {
				return
			}
		case "settle":
			if !r.settle() {
				return
			}
			o.Class("settle")
		}
	}
	// final sweep: every id with and without a transaction, then the id listing
	end := len(c.Ops)
	for i := 0; i < numIDs; i++ {
		if !r.checkRead(end, i, r.read(i, false, 0, 0, false), 0, "final GetPart(tx)") {
			return
		}
		if r.caps.Has(partstore.CapabilityTxFreeGetPart) {
			if !r.checkRead(end, i, r.read(i, true, 4096, 0, false), 0, "final GetPart(nil tx)") {
				return
			}
		}
	}
	if !r.checkIDs(end) {
		return
	}
	if strings.Contains(spec, "outbox") {
		// and once more after the outbox has drained into the inner store
		if !r.settle() {
			return
		}
		for i := 0; i < numIDs; i++ {
			if !r.checkRead(end, i, r.read(i, false, 0, 0, false), 0, "settled GetPart(tx)") {
				return
			}
		}
		if !r.checkIDs(end) {
			return
		}
	}
	o.NonTrivial = r.nearHit
	if r.nearHit {
		o.Class("nontrivial:near-boundary-read-on-depth>=2")
	}
	return
}

// ---- generation -------------------------------------------------------------------

func genBody(t *rapid.T, bounds []int, max int, label string) gen.BodySpec {
	b := gen.Body(bounds, max).Draw(t, label)
	b.Seed = uint64(rapid.IntRange(0, 40).Draw(t, label+"Seed"))
	return b
}

var stackOrder = []string{"P14", "P11", "P13", "P9", "P7", "P6", "P8", "P5", "P4", "P12", "P10", "P3g", "P3", "P2", "P1"}

func genCase(t *rapid.T, env *ev.Env) Case {
	// rapid favours early elements: list the deep compositions first
	c := Case{Stack: rapid.SampledFrom(stackOrder).Draw(t, "stack")}
	spec := stacks.Named[c.Stack]
	bounds := stacks.Boundaries(c.Stack)
	max := 300000
	if env.Thorough() {
		max = 1<<20 + 70000
	}
	if strings.Contains(spec, "cache") {
		c.CacheMaxPart = rapid.SampledFrom([]int64{0, 0, 1000, 70000}).Draw(t, "cacheMaxPart")
		if c.CacheMaxPart > 0 {
			bounds = append(bounds, int(c.CacheMaxPart))
		}
	}
	n := rapid.IntRange(6, 24).Draw(t, "nOps")
	big := 0
	for i := 0; i < n; i++ {
		var op Op
		k := rapid.IntRange(0, 99).Draw(t, "kind")
		op.ID = rapid.IntRange(0, numIDs-1).Draw(t, "id")
		switch {
		case k < 36:
			op.Kind = "put"
			op.Body = genBody(t, bounds, max, "body")
			if op.Body.Len > 70000 {
				big++
				if big > 5 && !env.Thorough() {
					op.Body.Len = rapid.IntRange(0, 3000).Draw(t, "shrunkLen")
				}
			}
			op.TxFree = rapid.IntRange(0, 4).Draw(t, "putTxFree") == 0
			op.Reader = rapid.SampledFrom([]string{"whole", "whole", "sizes", "short"}).Draw(t, "reader")
			if op.Reader != "whole" {
				op.Sizes = rapid.SliceOfN(rapid.SampledFrom([]int{1, 3, 7, 31, 1021, 1024, 4096, 8191, 65537, 131072}), 1, 3).Draw(t, "sizes")
				if op.Body.Len > 20000 {
					op.Sizes = append(op.Sizes, 65537)
				}
			}
		case k < 70:
			op.Kind = "get"
			op.TxFree = rapid.IntRange(0, 2).Draw(t, "getTxFree") == 0
			op.Buf = rapid.SampledFrom([]int{0, 0, 1, 7, 512, 1024, 4096, 65536, 131072, 1 << 20}).Draw(t, "buf")
			if rapid.IntRange(0, 5).Draw(t, "partialP") == 0 {
				op.Partial = rapid.SampledFrom([]int{1, 16, 1000, 1024, 5000, 70000, 131016, 131017}).Draw(t, "partial")
			}
			if !op.TxFree {
				op.Rollback = rapid.IntRange(0, 2).Draw(t, "rollback") == 0
			}
		case k < 80:
			op.Kind = "del"
			op.TxFree = rapid.IntRange(0, 4).Draw(t, "delTxFree") == 0
			if !op.TxFree && rapid.IntRange(0, 2).Draw(t, "delWindow") == 0 {
				op.Window = true
				if rapid.Bool().Draw(t, "delWindowTxFree") {
					op.Reader = "txfree"
				}
			}
		case k < 87:
			op.Kind = "ids"
		case k < 94:
			op.Kind = "batch"
			m := rapid.IntRange(2, 3).Draw(t, "batchN")
			for j := 0; j < m; j++ {
				w := W{Kind: "put", ID: (op.ID + j) % numIDs}
				if rapid.IntRange(0, 3).Draw(t, "wkind") == 0 {
					w.Kind = "del"
				} else {
					w.Body = genBody(t, bounds, 20000, "wbody")
				}
				op.Batch = append(op.Batch, w)
			}
		default:
			if strings.Contains(spec, "outbox") {
				op.Kind = "settle"
			} else {
				op.Kind = "get"
				op.Buf = 4096
			}
		}
		if op.Kind == "get" && op.Buf > 0 && op.Buf < 512 {
			// one-byte consumers on large parts are slow and add nothing: keep them for small parts
			if op.Partial == 0 || op.Partial > 3000 {
				op.Partial = 3000
			}
		}
		c.Ops = append(c.Ops, op)
	}
	return c
}

// directed: for every stack, every boundary size ±1 (and 0, 1) written and read back
// once with and once without a transaction, then deleted and read again.
func directed(env *ev.Env) []Case {
	var cs []Case
	for _, st := range stacks.AllPlain {
		var sizes []int
		seen := map[int]bool{}
		add := func(n int) {
			if n >= 0 && !seen[n] && (n <= 300000 || env.Thorough()) {
				seen[n] = true
				sizes = append(sizes, n)
			}
		}
		add(0)
		add(1)
		for _, b := range stacks.Boundaries(st) {
			for _, k := range []int{1, 2} {
				for d := -1; d <= 1; d++ {
					add(b*k + d)
				}
			}
		}
		sort.Ints(sizes)
		for _, kind := range []string{"rand", "zero"} {
			c := Case{Stack: st}
			for i, n := range sizes {
				id := i % numIDs
				c.Ops = append(c.Ops,
					Op{Kind: "put", ID: id, Body: gen.BodySpec{Kind: kind, Len: n, Seed: uint64(i)}},
					Op{Kind: "get", ID: id},
					Op{Kind: "get", ID: id, TxFree: true, Buf: 1000})
				if i%numIDs == numIDs-1 {
					c.Ops = append(c.Ops, Op{Kind: "ids"}, Op{Kind: "del", ID: id, Window: true}, Op{Kind: "get", ID: id}, Op{Kind: "get", ID: id, TxFree: true}, Op{Kind: "settle"}, Op{Kind: "get", ID: id})
				}
			}
			cs = append(cs, c)
		}
	}
	// one multi-chunk part through the outbox (8 MiB chunk boundary + 1) also in the quick tier
	cs = append(cs, Case{Stack: "P10", Ops: []Op{
		{Kind: "put", ID: 0, Body: gen.BodySpec{Kind: "rand", Len: 8<<20 + 1, Seed: 3}},
		{Kind: "get", ID: 0, Buf: 1 << 20},
		{Kind: "get", ID: 0, Buf: 1 << 20, TxFree: true},
		{Kind: "settle"},
		{Kind: "get", ID: 0, Buf: 1 << 20},
	}})
	if env.Thorough() {
		// SQL chunk boundary (256 000 000 bytes) + 1, and the outbox 8 MiB chunk boundary ± 1
		cs = append(cs, Case{Stack: "P1", Ops: []Op{
			{Kind: "put", ID: 0, Body: gen.BodySpec{Kind: "zero", Len: 256*1000*1000 + 1, Seed: 9}},
			{Kind: "get", ID: 0, Buf: 1 << 20},
			{Kind: "put", ID: 1, Body: gen.BodySpec{Kind: "zero", Len: 256 * 1000 * 1000, Seed: 10}},
			{Kind: "get", ID: 1, Buf: 1 << 20},
			{Kind: "ids"},
		}})
		for _, st := range []string{"P10", "P11"} {
			c := Case{Stack: st}
			for i, n := range []int{8<<20 - 1, 8 << 20, 8<<20 + 1, 16 << 20} {
				c.Ops = append(c.Ops,
					Op{Kind: "put", ID: i, Body: gen.BodySpec{Kind: "rand", Len: n, Seed: uint64(i)}},
					Op{Kind: "get", ID: i, Buf: 1 << 20},
					Op{Kind: "get", ID: i, Buf: 1 << 20, TxFree: true},
					Op{Kind: "settle"},
					Op{Kind: "get", ID: i, Buf: 1 << 20})
			}
			cs = append(cs, c)
		}
	}
	return cs
}

func TestC15(t *testing.T) {
	ev.Main(t, ev.Spec[Case]{
		ID:    "C15",
		Level: "exploration",
		Rule: "a case is a program of 6-24 direct PartStore calls on one of 15 stacks (5 part ids); it is non-trivial when a full read " +
			"compared a body whose size is within +-1 of (1..3 x) a boundary of some layer of the stack (compression threshold/sample, tink segments, " +
			"erasure stripes, hash block, cache size cap) on a stack of depth >= 2; distinct = distinct case JSON",
		Assumptions: []string{
			"oracle = map[id][]byte kept by the harness; bodies are deterministic functions of (kind, len, seed)",
			"reads happen after the writing transaction committed (no read-your-writes inside a transaction is demanded); batches write distinct ids",
			"SQLite only; remote part stores are not reachable offline",
		},
		Gen:      genCase,
		Run:      run,
		Directed: directed,
	})
}
