package c01

import (
	"testing"

	"github.com/jdillenkofer/pithos/verifharness/dump"
	"github.com/jdillenkofer/pithos/verifharness/ev"
	"github.com/jdillenkofer/pithos/verifharness/prog"
	"github.com/jdillenkofer/pithos/verifharness/run"
	"github.com/jdillenkofer/pithos/verifharness/stacks"
	"pgregory.net/rapid"
)

var allStacks = append(append([]string{}, stacks.AllPlain...), "N1", "N2")

func genCfg(stack string, thorough bool) prog.GenConfig {
	max := 300000
	if thorough {
		max = 1 << 20
	}
	cfg := prog.GenConfig{
		Buckets: 2, Keys: 4, MinOps: 5, MaxOps: 40,
		Weights: map[string]int{
			prog.OpCreateBucket: 2, prog.OpDeleteBucket: 2, prog.OpPut: 10, prog.OpCopy: 5, prog.OpAppend: 4,
			prog.OpMpuCreate: 3, prog.OpMpuPart: 5, prog.OpMpuPartCopy: 2, prog.OpMpuComplete: 3, prog.OpMpuAbort: 1,
			prog.OpDelete: 4, prog.OpDeleteObjects: 1, prog.OpHead: 1, prog.OpGet: 2, prog.OpList: 1,
			prog.OpGC: 2, prog.OpReopen: 1, prog.OpMpuSeq: 3,
		},
		Conditions: true, Manifests: true, Boundaries: stacks.Boundaries(stack), MaxBody: max,
	}
	if stack == "N1" || stack == "N2" {
		cfg.Classes = []string{"STANDARD", "GLACIER", "STANDARD_IA", "DEEP_ARCHIVE"}
	}
	return cfg
}

func gen(t *rapid.T, env *ev.Env) run.ProgCase {
	stack := rapid.SampledFrom(allStacks).Draw(t, "stack")
	return run.ProgCase{Stack: stack, Ops: genCfg(stack, env.Thorough()).Gen(t)}
}

func runCase(env *ev.Env, c run.ProgCase) ev.Outcome {
	var st run.ProgStats
	readAfterWrite := false
	o := run.RunModelProgram(env, c, run.ModelRunOptions{Dump: dump.Options{}, Stats: &st})
	// non-trivial: >=1 overwrite or delete of a key that is read afterwards (every
	// mutation is followed by a full read-back of all keys, so any successful
	// overwrite/delete qualifies) and >=1 of {copy, append, complete}.
	over := st.OKByKind[prog.OpDelete] > 0 || st.OKByKind[prog.OpPut] > 1 || st.OKByKind[prog.OpDeleteObjects] > 0
	comp := st.OKByKind[prog.OpCopy] > 0 || st.OKByKind[prog.OpAppend] > 0 || st.OKByKind[prog.OpMpuComplete] > 0
	_ = readAfterWrite
	o.NonTrivial = over && comp
	for k, v := range st.OKByKind {
		o.Count("ok:"+k, v)
	}
	for k, v := range st.FailByKind {
		o.Count("fail:"+k, v)
	}
	o.Count("gc_runs", st.GCs)
	o.Count("reopens", st.Reopens)
	return o
}

func TestC01(t *testing.T) {
	ev.Main(t, ev.Spec[run.ProgCase]{
		ID:    "C01",
		Level: "exploration",
		Rule: "programs of 5-40 generated ops over 2 buckets x 4 keys on a drawn part-store stack; non-trivial = at least one successful overwrite or delete of a key " +
			"(every mutation is followed by a read-back of all keys) and at least one successful copy, append or multipart complete; distinct = distinct case JSON",
		Assumptions: []string{"reference model of DESIGN.md 2.3.1 is the oracle; SQLite metadata only"},
		Gen:         gen,
		Run:         runCase,
	})
}
