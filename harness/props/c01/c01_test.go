package c01

import (
	"testing"

	"github.com/jdillenkofer/pithos/verifharness/dump"
	"github.com/jdillenkofer/pithos/verifharness/ev"
	"github.com/jdillenkofer/pithos/verifharness/gen"
	"github.com/jdillenkofer/pithos/verifharness/prog"
	"github.com/jdillenkofer/pithos/verifharness/run"
	"github.com/jdillenkofer/pithos/verifharness/stacks"
	"pgregory.net/rapid"
)

var allStacks = append(append([]string{}, stacks.AllPlain...), "N1", "N2")

func genCfg(stack string, thorough bool) prog.GenConfig {
	max := 300000
	if thorough {
		max = 1 << 20
	}
	cfg := prog.GenConfig{
		Buckets: 2, Keys: 4, MinOps: 5, MaxOps: 40,
		Weights: map[string]int{
			prog.OpCreateBucket: 2, prog.OpDeleteBucket: 2, prog.OpPut: 10, prog.OpCopy: 5, prog.OpAppend: 4,
			prog.OpMpuCreate: 3, prog.OpMpuPart: 5, prog.OpMpuPartCopy: 2, prog.OpMpuComplete: 3, prog.OpMpuAbort: 1,
			prog.OpDelete: 4, prog.OpDeleteObjects: 1, prog.OpHead: 1, prog.OpGet: 2, prog.OpList: 1,
			prog.OpGC: 2, prog.OpReopen: 1, prog.OpMpuSeq: 3,
		},
		Conditions: true, Manifests: true, Boundaries: stacks.Boundaries(stack), MaxBody: max,
	}
	if stack == "N1" || stack == "N2" {
		cfg.Classes = []string{"STANDARD", "GLACIER", "STANDARD_IA", "DEEP_ARCHIVE"}
	}
	return cfg
}

func genCase(t *rapid.T, env *ev.Env) run.ProgCase {
	stack := rapid.SampledFrom(allStacks).Draw(t, "stack")
	c := run.ProgCase{Stack: stack, Ops: genCfg(stack, env.Thorough()).Gen(t)}
	var frag []prog.Op
	switch rapid.IntRange(0, 5).Draw(t, "fragment") {
	case 1:
		// part-aligned ranged part copies from a two-part source: ranges that are a whole part, and ranges that are
		// only as long as another part (seeded defect S-C01-3: "wholly covered part" found at a stale offset)
		sizes := []int{3, 5, 700, 1024, 3000}
		ai := rapid.IntRange(0, len(sizes)-1).Draw(t, "fragA")
		bi := (ai + rapid.IntRange(1, len(sizes)-1).Draw(t, "fragB")) % len(sizes)
		a, b := int64(sizes[ai]), int64(sizes[bi])
		frag = []prog.Op{
			{Kind: prog.OpPut, B: 0, K: 0, Body: &gen.BodySpec{Kind: "rand", Len: int(a), Seed: 31}},
			{Kind: prog.OpAppend, B: 0, K: 0, Body: &gen.BodySpec{Kind: "rand", Len: int(b), Seed: 32}},
			{Kind: prog.OpMpuCreate, B: 0, K: 1},
			{Kind: prog.OpMpuPartCopy, Upload: prog.LastUpload, PartNo: 1, SB: 0, SK: 0, Range: &[2]int64{0, b}},
			{Kind: prog.OpMpuPartCopy, Upload: prog.LastUpload, PartNo: 2, SB: 0, SK: 0, Range: &[2]int64{a, a + b}},
			{Kind: prog.OpMpuPartCopy, Upload: prog.LastUpload, PartNo: 3, SB: 0, SK: 0, Range: &[2]int64{0, a}},
			{Kind: prog.OpMpuPartCopy, Upload: prog.LastUpload, PartNo: 4, SB: 0, SK: 0, Range: &[2]int64{b, b + a}},
			{Kind: prog.OpMpuComplete, Upload: prog.LastUpload, Manifest: "ok"},
		}
	case 2:
		// an object made of two identical chunks copied to other keys (on stacks with named stores: into classes
		// that live in another store) (seeded defect S-C01-4: cleanup of a "stale" dedup entry that was written
		// a moment ago in the same transaction)
		body := &gen.BodySpec{Kind: "rand", Len: rapid.SampledFrom([]int{5, 700, 2048}).Draw(t, "fragLen"), Seed: 33}
		var c1, c2 *string
		if stack == "N1" || stack == "N2" {
			x, y := "GLACIER", "STANDARD_IA"
			c1, c2 = &x, &y
		}
		build := []prog.Op{{Kind: prog.OpPut, B: 0, K: 0, Body: body}, {Kind: prog.OpAppend, B: 0, K: 0, Body: body}}
		if rapid.Bool().Draw(t, "fragMpu") {
			build = []prog.Op{{Kind: prog.OpMpuCreate, B: 0, K: 0},
				{Kind: prog.OpMpuPart, Upload: prog.LastUpload, PartNo: 1, Body: body},
				{Kind: prog.OpMpuPart, Upload: prog.LastUpload, PartNo: 2, Body: body},
				{Kind: prog.OpMpuComplete, Upload: prog.LastUpload, Manifest: "ok"}}
		}
		frag = append(build,
			prog.Op{Kind: prog.OpCopy, B: 0, K: 2, SB: 0, SK: 0, Class: c1},
			prog.Op{Kind: prog.OpCopy, B: 1, K: 3, SB: 0, SK: 0, Class: c2},
			prog.Op{Kind: prog.OpGC},
			prog.Op{Kind: prog.OpDelete, B: 0, K: 0},
			prog.Op{Kind: prog.OpGC},
		)
	}
	if len(frag) > 0 {
		pos := rapid.IntRange(min(2, len(c.Ops)), len(c.Ops)).Draw(t, "fragPos")
		ops := append([]prog.Op{}, c.Ops[:pos]...)
		ops = append(ops, frag...)
		c.Ops = append(ops, c.Ops[pos:]...)
	}
	return c
}

func runCase(env *ev.Env, c run.ProgCase) ev.Outcome {
	var st run.ProgStats
	readAfterWrite := false
	o := run.RunModelProgram(env, c, run.ModelRunOptions{Dump: dump.Options{}, Stats: &st})
	// non-trivial: >=1 overwrite or delete of a key that is read afterwards (every
	// mutation is followed by a full read-back of all keys, so any successful
	// overwrite/delete qualifies) and >=1 of {copy, append, complete}.
	over := st.OKByKind[prog.OpDelete] > 0 || st.OKByKind[prog.OpPut] > 1 || st.OKByKind[prog.OpDeleteObjects] > 0
	comp := st.OKByKind[prog.OpCopy] > 0 || st.OKByKind[prog.OpAppend] > 0 || st.OKByKind[prog.OpMpuComplete] > 0
	_ = readAfterWrite
	o.NonTrivial = over && comp
	for k, v := range st.OKByKind {
		o.Count("ok:"+k, v)
	}
	for k, v := range st.FailByKind {
		o.Count("fail:"+k, v)
	}
	o.Count("gc_runs", st.GCs)
	o.Count("reopens", st.Reopens)
	return o
}

func TestC01(t *testing.T) {
	ev.Main(t, ev.Spec[run.ProgCase]{
		ID:    "C01",
		Level: "exploration",
		Rule: "programs of 5-40 generated ops over 2 buckets x 4 keys on a drawn part-store stack; non-trivial = at least one successful overwrite or delete of a key " +
			"(every mutation is followed by a read-back of all keys) and at least one successful copy, append or multipart complete; distinct = distinct case JSON",
		Assumptions: []string{"reference model of DESIGN.md 2.3.1 is the oracle; SQLite metadata only"},
		Gen:         genCase,
		Run:         runCase,
	})
}
