package c14

import (
	"context"
	"database/sql"
	"fmt"
	"io"
	"testing"

	"github.com/jdillenkofer/pithos/internal/storage"
	"github.com/jdillenkofer/pithos/internal/storage/database"
	"github.com/jdillenkofer/pithos/internal/storage/metadatapart"
	"github.com/jdillenkofer/pithos/verifharness/dump"
	"github.com/jdillenkofer/pithos/verifharness/ev"
	"github.com/jdillenkofer/pithos/verifharness/gen"
	"github.com/jdillenkofer/pithos/verifharness/prog"
	"github.com/jdillenkofer/pithos/verifharness/run"
	"github.com/jdillenkofer/pithos/verifharness/stacks"
	"pgregory.net/rapid"
)

var names = run.Names{Buckets: []string{"cls-a", "cls-b"}, Keys: []string{"k", "dir/k2", "K"}}

var classes = []string{"STANDARD", "GLACIER", "DEEP_ARCHIVE", "STANDARD_IA", "REDUCED_REDUNDANCY"}

func genCfg() prog.GenConfig {
	return prog.GenConfig{
		Buckets: 2, Keys: 3, MinOps: 6, MaxOps: 30,
		Weights: map[string]int{
			prog.OpPut: 8, prog.OpCopy: 6, prog.OpAppend: 2, prog.OpMpuSeq: 3, prog.OpMpuPartCopy: 1, prog.OpTransition: 12,
			prog.OpSetVersioning: 2, prog.OpDelete: 3, prog.OpGC: 3, prog.OpReopen: 1, prog.OpRemap: 2, prog.OpPutTags: 1,
		},
		Versions: true, Tags: true, Meta: true, Classes: classes, HotKey: true, Conditions: true,
		Boundaries: []int{1024}, MaxBody: 3000,
	}
}

type Case struct {
	run.ProgCase
}

func genCase(t *rapid.T, env *ev.Env) run.ProgCase {
	stack := rapid.SampledFrom([]string{"N1", "N2"}).Draw(t, "stack")
	c := run.ProgCase{Stack: stack, Ops: genCfg().Gen(t)}
	// half of the programs contain a fragment that shares part content between two
	// keys (copy or identical body = dedup) and then moves one of them across stores
	// and back, with GC runs in between
	if rapid.Bool().Draw(t, "fragment") {
		cls := func(label string) *string {
			c := rapid.SampledFrom(classes).Draw(t, label)
			return &c
		}
		body := &gen.BodySpec{Kind: "rand", Len: rapid.SampledFrom([]int{1, 700, 2048}).Draw(t, "fragLen"), Seed: 9}
		a, b2 := cls("fragA"), cls("fragB")
		share := prog.Op{Kind: prog.OpCopy, B: 0, K: 1, SB: 0, SK: 0, Class: a}
		if rapid.Bool().Draw(t, "fragDedup") {
			share = prog.Op{Kind: prog.OpPut, B: 0, K: 1, Body: body, Class: a}
		}
		frag := []prog.Op{
			{Kind: prog.OpPut, B: 0, K: 0, Body: body, Class: a},
			share,
			{Kind: prog.OpTransition, B: 0, K: 0, Class: b2},
			{Kind: prog.OpGC},
			{Kind: prog.OpTransition, B: 0, K: 1, Class: b2},
			{Kind: prog.OpGC},
			{Kind: prog.OpTransition, B: 0, K: 0, Class: a},
			{Kind: prog.OpDelete, B: 0, K: 1},
			{Kind: prog.OpGC},
		}
		if rapid.IntRange(0, 2).Draw(t, "fragRepeat") == 1 {
			// an object whose part list repeats one part id (identical chunk appended, or two
			// identical multipart parts: dedup), moved between classes more than once, then a
			// sibling with the same content outlives it (seeded defect S-C14-1: reference
			// under-count of a repeated part id in a relabel-only transition)
			c3 := cls("fragC")
			build := []prog.Op{{Kind: prog.OpPut, B: 0, K: 0, Body: body, Class: a}, {Kind: prog.OpAppend, B: 0, K: 0, Body: body}}
			if rapid.Bool().Draw(t, "fragRepeatMpu") {
				build = []prog.Op{{Kind: prog.OpMpuCreate, B: 0, K: 0, Class: a},
					{Kind: prog.OpMpuPart, Upload: prog.LastUpload, PartNo: 1, Body: body},
					{Kind: prog.OpMpuPart, Upload: prog.LastUpload, PartNo: 2, Body: body},
					{Kind: prog.OpMpuComplete, Upload: prog.LastUpload, Manifest: "ok"}}
			}
			frag = append(build,
				prog.Op{Kind: prog.OpTransition, B: 0, K: 0, Class: b2},
				prog.Op{Kind: prog.OpGC},
				prog.Op{Kind: prog.OpTransition, B: 0, K: 0, Class: c3},
				prog.Op{Kind: prog.OpGC},
				prog.Op{Kind: prog.OpPut, B: 0, K: 1, Body: body, Class: c3},
				prog.Op{Kind: prog.OpDelete, B: 0, K: 0},
				prog.Op{Kind: prog.OpGC},
			)
		}
		if rapid.IntRange(0, 3).Draw(t, "fragSameClass") == 1 {
			// a transition to the class the object already has, after the class -> store mapping changed: the data
			// must move to the store the class is mapped to now (seeded defect S-C14-4: the metadata layer treats
			// "same class" as nothing to do, the storage layer has already copied the parts)
			k := rapid.SampledFrom([]string{"GLACIER", "REDUCED_REDUNDANCY", "STANDARD_IA"}).Draw(t, "fragSameClassName")
			frag = []prog.Op{
				{Kind: prog.OpPut, B: 0, K: 0, Body: body, Class: &k},
				{Kind: prog.OpRemap},
				{Kind: prog.OpTransition, B: 0, K: 0, Class: &k},
				{Kind: prog.OpGC},
				{Kind: prog.OpRemap},
				{Kind: prog.OpTransition, B: 0, K: 0, Class: &k},
				{Kind: prog.OpGC},
			}
		}
		var kept []prog.Op
		for i := range frag {
			if rapid.IntRange(0, 7).Draw(t, "fragKeep") > 0 {
				kept = append(kept, frag[i])
			}
		}
		pos := rapid.IntRange(2, len(c.Ops)).Draw(t, "fragPos")
		ops := append([]prog.Op{}, c.Ops[:pos]...)
		ops = append(ops, kept...)
		c.Ops = append(ops, c.Ops[pos:]...)
	}
	return c
}

// remapped layouts: GLACIER and STANDARD_IA swap targets / fall back to default
func remap(cur stacks.Layout) stacks.Layout {
	out := stacks.Layout{Default: cur.Default, Extra: cur.Extra, Classes: map[string]string{}}
	for c, s := range cur.Classes {
		out.Classes[c] = s
	}
	if _, ok := out.Classes["GLACIER"]; ok {
		delete(out.Classes, "GLACIER") // now routed to the default store
		out.Classes["REDUCED_REDUNDANCY"] = "cold"
	} else {
		out.Classes["GLACIER"] = "cold"
		delete(out.Classes, "REDUCED_REDUNDANCY")
	}
	return out
}

func storeFor(layout stacks.Layout, class string) string {
	if n, ok := layout.Classes[class]; ok {
		return n
	}
	return "default"
}

func runCase(env *ev.Env, c run.ProgCase) ev.Outcome {
	var st run.ProgStats
	layout := stacks.LayoutFor(c.Stack)
	remapped := false
	crossStoreMoveWithSharing := false
	partsChecked := 0
	// checkParts verifies, for one object version, that every part row names the
	// store mapped to the object's class and that the store holds the part.
	checkParts := func(inst *stacks.Instance, bucket, key string, ver *string, strict bool, o *ev.Outcome) bool {
		ms := metadatapart.VerifMetadataStore(inst.Storage)
		db := metadatapart.VerifDatabase(inst.Storage)
		stores := metadatapart.VerifNamedStores(inst.Storage)
		ctx := context.Background()
		err := database.WithTx(ctx, db, &sql.TxOptions{ReadOnly: true}, func(ctx context.Context, tx database.Tx) error {
			bn, k := storage.MustNewBucketName(bucket), storage.MustNewObjectKey(key)
			var class string
			if ver != nil {
				m, e := ms.HeadObjectVersion(ctx, tx.SqlTx(), bn, k, *ver)
				if e != nil {
					return e
				}
				if m.IsDeleteMarker {
					return nil
				}
				class = storage.EffectiveStorageClass(m.StorageClass)
				for _, p := range m.Parts {
					name := "default"
					if p.StoreName != nil {
						name = *p.StoreName
					}
					if strict && name != storeFor(layout, class) {
						return fmt.Errorf("part %s of %s/%s (class %s) is recorded in store %q, class maps to %q", p.Id.String(), bucket, key, class, name, storeFor(layout, class))
					}
					ps, ok := stores[name]
					if !ok {
						return fmt.Errorf("part %s of %s/%s names unknown store %q", p.Id.String(), bucket, key, name)
					}
					rc, e := ps.GetPart(ctx, tx, p.Id)
					if e != nil {
						return fmt.Errorf("part %s of %s/%s is not in store %q: %v", p.Id.String(), bucket, key, name, e)
					}
					n, _ := io.Copy(io.Discard, rc)
					rc.Close()
					if n != p.Size {
						return fmt.Errorf("part %s of %s/%s in store %q has %d bytes, recorded %d", p.Id.String(), bucket, key, name, n, p.Size)
					}
					partsChecked++
				}
			}
			return nil
		})
		if err != nil {
			o.Failf("%v", err)
			return true
		}
		return false
	}
	checkAll := func(s *run.Session, inst *stacks.Instance, only *prog.Concrete, o *ev.Outcome) bool {
		for bn, mb := range s.Model.Buckets {
			for key, vs := range mb.Keys {
				for _, v := range vs {
					if v.Marker {
						continue
					}
					id := s.ImplID(bn, key, v.ID, 0)
					if id == "" {
						continue
					}
					strict := !remapped
					if only != nil && only.Bucket == bn && only.Key == key && mb.Current(key) == v {
						strict = true // the version just written / transitioned must follow the current mapping
					}
					idc := id
					if checkParts(inst, bn, key, &idc, strict, o) {
						return true
					}
				}
			}
		}
		return false
	}
	after := func(s *run.Session, inst *stacks.Instance, sr *run.StepResult, o *ev.Outcome) bool {
		if sr.Expect.Err != "" || sr.Expect.FailOrOK || !sr.Op.IsMutation() {
			return false
		}
		var only *prog.Concrete
		switch sr.Op.Kind {
		case prog.OpTransition:
			if sr.Op.Ver == "" {
				only = &sr.Concrete
			}
			// did a sharer of the moved parts exist? (same content elsewhere => dedup/copy sharing)
			if v := s.Model.CurrentObject(sr.Concrete.Bucket, sr.Concrete.Key); v != nil {
				want := v.ETag()
				n := 0
				for _, mb := range s.Model.Buckets {
					for _, vs := range mb.Keys {
						for _, x := range vs {
							if !x.Marker && x.ETag() == want {
								n++
							}
						}
					}
				}
				if n >= 2 {
					crossStoreMoveWithSharing = true
				}
			}
		case prog.OpPut, prog.OpCopy, prog.OpMpuComplete:
			only = &sr.Concrete
		}
		return checkAll(s, inst, only, o)
	}
	o := run.RunModelProgram(env, c, run.ModelRunOptions{
		Dump: dump.Options{Versions: true}, Names: names, Stats: &st, AfterStep: after,
		Setup: func(s *run.Session) { s.Model.PromoteByRowCreation = true },
		Remap: func(cur stacks.Layout) stacks.Layout { remapped = true; layout = remap(cur); return layout },
		AfterMaint: func(s *run.Session, inst *stacks.Instance, op prog.Op, o *ev.Outcome) bool {
			return checkAll(s, inst, nil, o)
		},
	})
	o.NonTrivial = st.OKByKind[prog.OpTransition] > 0 && (crossStoreMoveWithSharing || remapped)
	if crossStoreMoveWithSharing {
		o.Class("transition-while-content-shared")
	}
	if remapped {
		o.Class("remapped-configuration")
	}
	if repeatedChunk(c.Ops) {
		o.Class("object-repeating-one-chunk")
	}
	o.Count("part_rows_checked", partsChecked)
	for k, v := range st.OKByKind {
		o.Count("ok:"+k, v)
	}
	o.Count("gc_runs", st.GCs)
	return o
}

func TestC14(t *testing.T) {
	ev.Main(t, ev.Spec[run.ProgCase]{
		ID:    "C14",
		Level: "exploration",
		Rule: "programs (6-30 ops) on named-store layouts N1 (default fs + cold sql) and N2 (default fs, cold tink>fs, warm zstd>fs): puts with classes, copies, identical content on several keys (dedup), repeated transitions A->B->A incl. transitions of explicit versions and to classes mapped to the same store, GC with 1 ns grace, restarts and remaps (reopen with a changed class->store mapping); " +
			"non-trivial = a successful transition AND (content shared with another version at that moment OR a remap happened); distinct = distinct case JSON",
		Assumptions: []string{"reference model: a transition changes only the reported class", "part placement read through the verif-tagged export hooks (metadata store rows + named stores)"},
		Gen:         genCase,
		Run:         runCase,
	})
}

// repeatedChunk: the program builds an object from two identical chunks (put+append of
// the same body, or two multipart parts with the same body).
func repeatedChunk(ops []prog.Op) bool {
	same := func(a, b *gen.BodySpec) bool { return a != nil && b != nil && *a == *b && a.Len > 0 }
	for i := 1; i < len(ops); i++ {
		p, q := ops[i-1], ops[i]
		if p.Kind == prog.OpPut && q.Kind == prog.OpAppend && p.B == q.B && p.K == q.K && same(p.Body, q.Body) {
			return true
		}
		if p.Kind == prog.OpMpuPart && q.Kind == prog.OpMpuPart && p.Upload == q.Upload && p.PartNo != q.PartNo && same(p.Body, q.Body) {
			return true
		}
	}
	return false
}
